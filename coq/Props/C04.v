(* C04 -- data vector and curvature matrix equal the normal equations in both formalisms.
   Statements only.  All numeric statements are at [ROps] (Coq's real numbers); matrices are lists of rows,
   [mget M i j] is entry (i, j), [sumR (map f (seq 0 n))] is the finite sum over i < n.  Vocabulary (Model/C04Lib.v):
   [shape n p F], [E e d p] (the matrix a unique-mapping encoding stands for), [U rws d0 d1] (the half matrix
   sparse preload rows stand for), [enc_ok], [rows_ok], [mir], [Cop c i s] (entry (i, s) of the operator carried by the
   convolver's image frames), [frames_ok].
   Theorems named [..._abstract] hold for ANY frame table / native noise function / pixel list that satisfies the identities
   [frames_ok], [W_is_overlap], [wd_is_adjoint]; the section "the convolver built by Convolver.__init__" proves these three
   identities for the real thing (rectangular mask, convolver_init m K = Ok c, native zero-filled arrays), and the theorems
   without suffix are the resulting hypothesis-free statements about InversionImagingWTilde / InversionImagingMapping. *)
From Coq Require Import ZArith Reals Lra Lia List Bool Arith.
From PAV Require Import Base.Res Base.NumOps Base.Sum Model.C03 Model.C03Lib Model.C04 Model.C04Lib Model.C04Pre Proofs.C04 Proofs.C04b Proofs.C04c Proofs.C04d Proofs.C04e.
From PAV Require Model.C06 Proofs.C06.
Import ListNotations.
Local Open Scope R_scope.

(* ------------------------------------------------------------------ mapping formalism, util level *)
(* data_vector_via_blurred_mapping_matrix_from: D[p] = sum_i d_i B[i][p] / sigma_i^2, for every matrix B *)
Theorem C04_data_vector_is_BT_Ninv_d : forall (B : @mat ROps) (d s : list R) p, (p < ncols B)%nat ->
  nth p (dv_blurred B d s) 0 = sumR (map (fun i => nth i d 0 * mget B i p / (nth i s 0 * nth i s 0)) (seq 0 (length B))).
Proof. exact dv_blurred_spec. Qed.
(* curvature_matrix_via_mapping_matrix_from: F[p][q] = sum_i B[i][p] B[i][q] / sigma_i^2, plus eps exactly on the listed diagonal
   entries (and only when the flag is set) *)
Theorem C04_curvature_is_BT_Ninv_B : forall (B : @mat ROps) (s : list R) add idx eps p q,
  (forall i, (i < length B)%nat -> nth i s 0 <> 0) ->
  Forall (fun i => (i < ncols B)%nat) idx -> NoDup idx -> (p < ncols B)%nat -> (q < ncols B)%nat ->
  mget (curv_mapping B s add idx eps) p q =
  sumR (map (fun i => mget B i p * mget B i q / (nth i s 0 * nth i s 0)) (seq 0 (length B)))
  + (if add && Nat.eqb p q && existsb (Nat.eqb p) idx then eps else 0).
Proof. exact curv_mapping_spec. Qed.
(* curvature_matrix_with_added_to_diag_from touches only the diagonal entries in the list (once per occurrence) *)
Theorem C04_added_to_diag : forall n (F : @mat ROps) v idx a b, shape n n F -> Forall (fun i => (i < n)%nat) idx ->
  mget (add_to_diag F v idx) a b = mget F a b + (if Nat.eqb a b then INR (count_occ Nat.eq_dec idx a) * v else 0).
Proof. exact add_to_diag_spec. Qed.
(* curvature_matrix_mirrored_from, for every square matrix: entry (a,b) and (b,a) both become the upper-triangle value of the
   pair if that is non-zero, else the lower-triangle value *)
Theorem C04_mirrored : forall n (C : @mat ROps) a b, shape n n C -> (a < n)%nat -> (b < n)%nat ->
  mget (mirrored C) a b = mir C a b.
Proof. exact mirrored_spec. Qed.
Theorem C04_mirrored_symmetric : forall n (C : @mat ROps) a b, shape n n C -> (a < n)%nat -> (b < n)%nat ->
  mget (mirrored C) a b = mget (mirrored C) b a.
Proof. exact mirrored_symmetric. Qed.
(* hence the mirror completes a matrix whose off-diagonal pairs hold the wanted symmetric value on one side and the same value
   or zero on the other *)
Theorem C04_mirror_completes : forall n (C : @mat ROps) (S : nat -> nat -> R) a b, shape n n C -> (a < n)%nat -> (b < n)%nat ->
  S a b = S b a ->
  (mget C a b = S a b \/ mget C a b = 0) -> (mget C b a = S a b \/ mget C b a = 0) ->
  (mget C a b = S a b \/ mget C b a = S a b) ->
  mget (mirrored C) a b = S a b.
Proof. exact mirror_completes. Qed.

(* ------------------------------------------------------------------ w-tilde formalism, util level *)
(* the flat preload tables (values, partner indexes, lengths) walked with a running index give back the per-pixel rows *)
Theorem C04_preload_rows_recovered : forall (noise : px -> R) (K : @kernel ROps) nfs,
  let '(pre, idx, lens) := @preload ROps noise K nfs in
  rows_of (combine idx pre) lens = @preload_rows ROps noise K nfs.
Proof. exact preload_rows_recovered. Qed.
(* the preload keeps every non-zero overlap value: (upper half) + (upper half)^T is the dense matrix of
   w_tilde_curvature_imaging_from, whatever the sign of the entries *)
Theorem C04_preload_represents_dense : forall noise K nfs d0 d1, (d0 < length nfs)%nat -> (d1 < length nfs)%nat ->
  U (@preload_rows ROps noise K nfs) d0 d1 + U (@preload_rows ROps noise K nfs) d1 d0 = mget (@wt_dense ROps noise K nfs) d0 d1.
Proof. exact preload_represents_dense. Qed.
(* curvature_matrix_via_w_tilde_curvature_preload_imaging_from = M^T (U + U^T) M for ANY sparse encoding of M and ANY preload rows *)
Theorem C04_curvature_via_preload : forall pre idx lens e P a b,
  let rws := rows_of (combine idx pre) lens in
  let n := length lens in
  enc_ok e P -> rows_ok rws n -> (a < P)%nat -> (b < P)%nat ->
  mget (@curv_preload ROps pre idx lens e P) a b =
  sumR (map (fun d0 => sumR (map (fun d1 => E e d0 a * (U rws d0 d1 + U rws d1 d0) * E e d1 b) (seq 0 n))) (seq 0 n)).
Proof. exact curv_preload_spec. Qed.
(* curvature_matrix_off_diags_via_w_tilde_curvature_preload_imaging_from = M0^T U M1 *)
Theorem C04_off_diag_via_preload : forall pre idx lens e0 P0 e1 P1 a b n,
  let rws := rows_of (combine idx pre) lens in
  enc_ok e0 P0 -> enc_ok e1 P1 -> rows_ok rws n -> (a < P0)%nat -> (b < P1)%nat ->
  mget (@off_preload ROps pre idx lens e0 P0 e1 P1) a b =
  sumR (map (fun d0 => sumR (map (fun d1 => E e0 d0 a * U rws d0 d1 * E e1 d1 b) (seq 0 n))) (seq 0 (length rws))).
Proof. exact off_preload_spec. Qed.
(* data_vector_via_w_tilde_data_imaging_from = M^T w_tilde_data *)
Theorem C04_data_vector_via_w_tilde_data : forall (wd : list R) e P p, enc_ok e P -> (p < P)%nat ->
  nth p (@dv_wtd ROps wd e P) 0 = sumR (map (fun d => E e d p * nth d wd 0) (seq 0 (length wd))).
Proof. exact dv_wtd_spec. Qed.
(* mapper / function-list block: M^T (frames applied to the curvature weights) *)
Theorem C04_off_diag_mapper_func : forall e P (cw : @mat ROps) (frames : list (list (nat * R))) a l,
  enc_ok e P -> (a < P)%nat -> (l < ncols cw)%nat ->
  mget (@off_mapper_func ROps e P cw frames) a l =
  sumR (map (fun d0 => E e d0 a * sumR (map (fun ik => snd ik * mget cw (fst ik) l) (nth d0 frames [])))
            (seq 0 (length (e_dw e)))).
Proof. exact off_mapper_func_spec. Qed.
(* mapped reconstructed data from the unique mappings = M r ; from a matrix = B r *)
Theorem C04_mapped_via_unique : forall e (r : list R) d, enc_ok e (length r) -> (d < length (e_du e))%nat ->
  nth d (@mapped_via_unique ROps e r) 0 = sumR (map (fun p => E e d p * nth p r 0) (seq 0 (length r))).
Proof. exact mapped_via_unique_spec. Qed.
Theorem C04_mapped_via_matrix : forall (B : @mat ROps) (r : list R) i, (i < length B)%nat ->
  nth i (mapped_via_matrix B r) 0 = sumR (map (fun j => mget B i j * nth j r 0) (seq 0 (length r))).
Proof. exact mapped_via_matrix_spec. Qed.

(* ------------------------------------------------------------------ the convolver's frames as a linear operator (model C03) *)
(* convolve_mapping_matrix is column-wise application of the frame operator Cop: B = Cop . M (the zero-entry skip is harmless) *)
Theorem C04_blurred_mapping_matrix_is_operator_times_M : forall (c : @convolver ROps) (M : @mat ROps) n i p,
  length M = n -> frames_ok c n -> (i < n)%nat -> (p < ncols M)%nat ->
  mget (convolve_matrix c M) i p = sumR (map (fun s => mget M s p * Cop c i s) (seq 0 n)).
Proof. exact convolve_matrix_is_Cop. Qed.
Theorem C04_convolve_no_blurring_is_operator : forall (c : @convolver ROps) (img : list R) n i,
  length img = n -> frames_ok c n -> (i < n)%nat ->
  nth i (convolve_no_blurring c img) 0 = sumR (map (fun s => nth s img 0 * Cop c i s) (seq 0 n)).
Proof. exact convolve_no_blurring_is_Cop. Qed.

(* ------------------------------------------------------------------ every block of the w-tilde formalism is B_i^T N^-1 B_j *)
(* [Bm e c n i p] = sum_s E e s p * Cop c i s: the blurred mapping matrix of a mapper, through its encoding.
   [W_is_overlap c s W n]: W[d0][d1] = sum_i Cop c i d0 * Cop c i d1 / sigma_i^2 (the overlap identity, a hypothesis here). *)
Theorem C04_wtilde_mapper_diagonal_block_abstract : forall noise K nfs (c : @convolver ROps) s e P a b,
  let n := length nfs in
  W_is_overlap c s (@wt_dense ROps noise K nfs) n -> enc_ok e P -> (a < P)%nat -> (b < P)%nat ->
  let '(pre, idx, lens) := @preload ROps noise K nfs in
  mget (@curv_preload ROps pre idx lens e P) a b =
  sumR (map (fun i => Bm e c n i a * Bm e c n i b / (nth i s 0 * nth i s 0)) (seq 0 n)).
Proof. exact wt_diag_block. Qed.
Theorem C04_wtilde_mapper_mapper_block_abstract : forall noise K nfs (c : @convolver ROps) s e0 P0 e1 P1 a b,
  let n := length nfs in
  W_is_overlap c s (@wt_dense ROps noise K nfs) n -> enc_ok e0 P0 -> enc_ok e1 P1 -> (a < P0)%nat -> (b < P1)%nat ->
  let '(pre, idx, lens) := @preload ROps noise K nfs in
  mget (@off_diag ROps pre idx lens e0 P0 e1 P1) a b =
  sumR (map (fun i => Bm e0 c n i a * Bm e1 c n i b / (nth i s 0 * nth i s 0)) (seq 0 n)).
Proof. exact wt_off_block. Qed.
Theorem C04_wtilde_mapper_func_block : forall (c : @convolver ROps) e P (Bf : @mat ROps) (s : list R) n a l,
  frames_ok c n -> length Bf = n -> length (e_dw e) = n -> enc_ok e P -> (a < P)%nat -> (l < ncols Bf)%nat ->
  mget (@off_mapper_func ROps e P (div_rows_sq Bf s) (image_frames c)) a l =
  sumR (map (fun i => Bm e c n i a * mget Bf i l / (nth i s 0 * nth i s 0)) (seq 0 n)).
Proof. exact wt_mapper_func_block. Qed.
Theorem C04_wtilde_func_func_block : forall (B0 B1 : @mat ROps) (s : list R) n a b,
  length B0 = n -> length B1 = n -> (forall i, (i < n)%nat -> nth i s 0 <> 0) -> (a < ncols B0)%nat -> (b < ncols B1)%nat ->
  mget (dotTN (div_rows B0 s) (div_rows B1 s)) a b =
  sumR (map (fun i => mget B0 i a * mget B1 i b / (nth i s 0 * nth i s 0)) (seq 0 n)).
Proof. exact ff_block. Qed.

(* ------------------------------------------------------------------ assembly over the ordered list of linear objects *)
(* [off objs i] = number of parameters of the objects before object i; [ob objs i] = object i; [tp objs] = total *)
(* blocks follow the order of the linear objects: columns off_i .. off_i + params_i of the stacked operated matrix are object i's *)
Theorem C04_operated_matrix_blocks_follow_object_order : forall (c : @convolver ROps) objs n k i la,
  (forall o, In o objs -> shape n (params o) (opmat c o)) -> (k < n)%nat -> (i < length objs)%nat -> (la < params (ob objs i))%nat ->
  mget (op_matrix c objs n) k (off objs i + la) = mget (opmat c (ob objs i)) k la.
Proof. exact op_matrix_cell. Qed.
(* the w-tilde matrix before the diagonal term: after the mirror EVERY entry is the normal-equation entry of the stacked matrix,
   whatever the order and kinds of the objects *)
Theorem C04_wtilde_mirrored_is_normal_equations_abstract : forall (c : @convolver ROps) noise K nfs objs (s : list R),
  (0 < length nfs)%nat -> frames_ok c (length nfs) -> (forall i, (i < length nfs)%nat -> nth i s 0 <> 0) ->
  W_is_overlap c s (@wt_dense ROps noise K nfs) (length nfs) -> (forall o, In o objs -> wf_obj c (length nfs) o) ->
  forall a b, (a < tp objs)%nat -> (b < tp objs)%nat ->
  shape (tp objs) (tp objs) (@F_wt_pre ROps c (fst (fst (@preload ROps noise K nfs))) (snd (fst (@preload ROps noise K nfs))) (snd (@preload ROps noise K nfs)) objs s) /\
  mget (mirrored (@F_wt_pre ROps c (fst (fst (@preload ROps noise K nfs))) (snd (fst (@preload ROps noise K nfs))) (snd (@preload ROps noise K nfs)) objs s)) a b
  = Snorm (op_matrix c objs (length nfs)) s (length nfs) a b.
Proof. exact mirrored_wt_is_normal. Qed.
(* InversionImagingWTilde.curvature_matrix = InversionImagingMapping.curvature_matrix, entry by entry, for every ordered list of
   mappers and function lists, with or without regularization (the diagonal term included).
   _abstract: given the overlap identity [W_is_overlap] and [frames_ok] (proved for the real convolver below). *)
Theorem C04_curvature_wtilde_eq_mapping_abstract : forall (c : @convolver ROps) noise K nfs objs (s : list R) eps a b,
  let n := length nfs in
  (0 < n)%nat -> frames_ok c n -> (forall i, (i < n)%nat -> nth i s 0 <> 0) ->
  W_is_overlap c s (@wt_dense ROps noise K nfs) n -> (forall o, In o objs -> wf_obj c n o) ->
  (a < tp objs)%nat -> (b < tp objs)%nat ->
  mget (F_wt_gen c noise K nfs objs s eps) a b = mget (@F_mapping ROps c objs n s eps) a b.
Proof. exact F_wt_eq_F_mapping. Qed.
(* F_wt of the model is that function on the native noise map and the unmasked pixel list *)
Theorem C04_F_wt_is_instance : forall c m K objs s eps,
  @F_wt ROps c m K objs s eps = F_wt_gen c (@native ROps m s) K (unmasked m) objs s eps.
Proof. exact F_wt_is_gen. Qed.

(* InversionImagingMapping.curvature_matrix, block (i, j) of the ordered object list: B_i^T N^-1 B_j, plus eps exactly on the
   diagonal entries of the objects WITHOUT regularization and nowhere else *)
Theorem C04_curvature_mapping_blocks : forall (c : @convolver ROps) objs n (s : list R) eps i j la lb,
  (0 < n)%nat -> (forall o, In o objs -> shape n (params o) (opmat c o)) -> (forall k, (k < n)%nat -> nth k s 0 <> 0) ->
  (i < length objs)%nat -> (j < length objs)%nat -> (la < params (ob objs i))%nat -> (lb < params (ob objs j))%nat ->
  mget (@F_mapping ROps c objs n s eps) (off objs i + la) (off objs j + lb) =
  sumR (map (fun k => mget (opmat c (ob objs i)) k la * mget (opmat c (ob objs j)) k lb / (nth k s 0 * nth k s 0)) (seq 0 n))
  + (if Nat.eqb i j && Nat.eqb la lb && negb (has_reg (ob objs i)) then eps else 0).
Proof. exact F_mapping_blocks. Qed.
Theorem C04_curvature_mapping_symmetric : forall (c : @convolver ROps) objs n (s : list R) eps a b,
  (0 < n)%nat -> (forall o, In o objs -> shape n (params o) (opmat c o)) -> (forall k, (k < n)%nat -> nth k s 0 <> 0) ->
  (a < tp objs)%nat -> (b < tp objs)%nat ->
  mget (@F_mapping ROps c objs n s eps) a b = mget (@F_mapping ROps c objs n s eps) b a.
Proof. exact F_mapping_symmetric. Qed.
(* no_regularization_index_list is exactly (and once each) the parameters of the objects without regularization *)
Theorem C04_no_regularization_index_list : forall objs a,
  NoDup (@noreg_index_list ROps objs) /\
  (In a (@noreg_index_list ROps objs) <->
   exists k la, (k < length objs)%nat /\ (la < params (ob objs k))%nat /\ has_reg (ob objs k) = false /\ a = (off objs k + la)%nat).
Proof. intros objs a. split; [apply noreg_NoDup | apply noreg_In]. Qed.
(* InversionImagingMapping.data_vector, block i: B_i^T N^-1 d *)
Theorem C04_data_vector_mapping_blocks : forall (c : @convolver ROps) objs (d s : list R) n i la,
  length d = n -> (0 < n)%nat -> (forall o, In o objs -> shape n (params o) (opmat c o)) -> (i < length objs)%nat -> (la < params (ob objs i))%nat ->
  nth (off objs i + la) (@D_mapping ROps c objs d s) 0 =
  sumR (map (fun k => nth k d 0 * mget (opmat c (ob objs i)) k la / (nth k s 0 * nth k s 0)) (seq 0 n)).
Proof. exact D_mapping_blocks. Qed.
(* the w-tilde data vector of a mapper is the same block, given w_tilde_data = C^T N^-1 d ([wd_is_adjoint], proved below) *)
Theorem C04_wtilde_data_vector_block_abstract : forall (c : @convolver ROps) (d s wd : list R) e P n p,
  length wd = n -> wd_is_adjoint c d s wd n -> enc_ok e P -> (p < P)%nat ->
  nth p (@dv_wtd ROps wd e P) 0 = sumR (map (fun i => nth i d 0 * Bm e c n i p / (nth i s 0 * nth i s 0)) (seq 0 n)).
Proof. exact wt_data_vector_block. Qed.
(* the w-tilde curvature matrix is symmetric (same hypotheses as C04_curvature_wtilde_eq_mapping_abstract) *)
Theorem C04_curvature_wtilde_symmetric_abstract : forall (c : @convolver ROps) noise K nfs objs (s : list R) eps a b,
  let n := length nfs in
  (0 < n)%nat -> frames_ok c n -> (forall i, (i < n)%nat -> nth i s 0 <> 0) ->
  W_is_overlap c s (@wt_dense ROps noise K nfs) n -> (forall o, In o objs -> wf_obj c n o) ->
  (a < tp objs)%nat -> (b < tp objs)%nat ->
  mget (F_wt_gen c noise K nfs objs s eps) a b = mget (F_wt_gen c noise K nfs objs s eps) b a.
Proof. exact F_wt_symmetric. Qed.

(* InversionImagingWTilde.data_vector = InversionImagingMapping.data_vector, entry by entry, for every ordered list of mappers
   (branches _data_vector_x1_mapper and _data_vector_multi_mapper), given w_tilde_data = C^T N^-1 d ([wd_is_adjoint]) *)
Theorem C04_data_vector_wtilde_eq_mapping_abstract : forall (c : @convolver ROps) m K objs (d s : list R) n a,
  forallb (@is_mapper ROps) objs = true -> length d = n -> (0 < n)%nat -> frames_ok c n ->
  length (unmasked m) = n ->
  wd_is_adjoint c d s (@wt_data ROps (@native ROps m d) (@native ROps m s) K (unmasked m)) n ->
  (forall o, In o objs -> wf_obj c n o) -> (a < tp objs)%nat ->
  nth a (@D_wt ROps c m K objs d s) 0 = nth a (@D_mapping ROps c objs d s) 0.
Proof. exact D_wt_eq_D_mapping_mappers. Qed.

(* ------------------------------------------------------------------ the convolver built by Convolver.__init__ (model C03) *)
(* [Uat m k]: the k-th unmasked pixel in slim order; [native m v]: the zero-filled native view of a slim array;
   [kz K a]: the kernel as a function on Z x Z, zero outside its shape; [koff K t p]: the kernel cell that carries pixel p onto t *)
(* frames_ok: every scatter target stored in an image frame is a slim index *)
Theorem C04_convolver_frames_ok : forall m (K : @kernel ROps) c, rectb m = true -> @convolver_init ROps m K = Ok c ->
  length (image_frames c) = length (unmasked m) /\
  forall s tk, In tk (nth s (image_frames c) []) -> (fst tk < length (unmasked m))%nat.
Proof. exact init_frames_ok. Qed.
(* the frame operator's entries: C[i, s] = K[pixel_i - pixel_s + half] inside the kernel, else 0 (signed kernels, any odd shape) *)
Theorem C04_frame_operator_entries : forall m (K : @kernel ROps) c i s, rectb m = true -> @convolver_init ROps m K = Ok c ->
  (i < length (unmasked m))%nat -> (s < length (unmasked m))%nat ->
  Cop c i s = kz K (koff K (Uat m i) (Uat m s)).
Proof. exact Cop_kz. Qed.
(* w_tilde_data_imaging_from = C^T N^-1 d, for any noise without zeros *)
Theorem C04_w_tilde_data_is_CT_Ninv_d : forall m (K : @kernel ROps) c (d s : list R),
  rectb m = true -> @convolver_init ROps m K = Ok c ->
  length d = length (unmasked m) -> length s = length (unmasked m) ->
  (forall i, (i < length (unmasked m))%nat -> nth i s 0 <> 0) ->
  forall k, (k < length (unmasked m))%nat ->
  nth k (@wt_data ROps (@native ROps m d) (@native ROps m s) K (unmasked m)) 0 =
  sumR (map (fun i => Cop c i k * (nth i d 0 / (nth i s 0 * nth i s 0))) (seq 0 (length (unmasked m)))).
Proof. exact wt_data_is_adjoint. Qed.
(* w_tilde_curvature_value_from between the d0-th and d1-th unmasked pixel (either order) = (C^T N^-1 C)[d0][d1],
   for strictly positive noise (the code's `value > 0.0` test) *)
Theorem C04_w_tilde_curvature_value_is_CT_Ninv_C : forall m (K : @kernel ROps) c (s : list R) d0 d1,
  rectb m = true -> @convolver_init ROps m K = Ok c ->
  length s = length (unmasked m) -> (forall i, (i < length (unmasked m))%nat -> 0 < nth i s 0) ->
  (d0 < length (unmasked m))%nat -> (d1 < length (unmasked m))%nat ->
  @wt_value ROps (@native ROps m s) K (Uat m d0) (Uat m d1) =
  sumR (map (fun i => Cop c i d0 * Cop c i d1 * / (nth i s 0 * nth i s 0)) (seq 0 (length (unmasked m)))).
Proof. exact wt_value_is_overlap. Qed.
(* w_tilde_curvature_imaging_from (the dense matrix) = C^T N^-1 C *)
Theorem C04_w_tilde_curvature_is_CT_Ninv_C : forall m (K : @kernel ROps) c (s : list R),
  rectb m = true -> @convolver_init ROps m K = Ok c ->
  length s = length (unmasked m) -> (forall i, (i < length (unmasked m))%nat -> 0 < nth i s 0) ->
  forall d0 d1, (d0 < length (unmasked m))%nat -> (d1 < length (unmasked m))%nat ->
  mget (@wt_dense ROps (@native ROps m s) K (unmasked m)) d0 d1 =
  sumR (map (fun i => Cop c i d0 * Cop c i d1 * / (nth i s 0 * nth i s 0)) (seq 0 (length (unmasked m)))).
Proof. exact wt_dense_is_overlap. Qed.

(* ------------------------------------------------------------------ the two formalisms agree (no hypotheses left) *)
(* mapper diagonal / mapper-mapper blocks computed from the real preload of the dataset *)
Theorem C04_wtilde_mapper_diagonal_block : forall m (K : @kernel ROps) c, rectb m = true -> @convolver_init ROps m K = Ok c ->
  forall (s : list R) e P a b, let n := length (unmasked m) in
  length s = n -> (forall i, (i < n)%nat -> 0 < nth i s 0) -> enc_ok e P -> (a < P)%nat -> (b < P)%nat ->
  let '(pre, idx, lens) := @preload ROps (@native ROps m s) K (unmasked m) in
  mget (@curv_preload ROps pre idx lens e P) a b =
  sumR (map (fun i => Bm e c n i a * Bm e c n i b / (nth i s 0 * nth i s 0)) (seq 0 n)).
Proof. exact wt_diag_block_full. Qed.
Theorem C04_wtilde_mapper_mapper_block : forall m (K : @kernel ROps) c, rectb m = true -> @convolver_init ROps m K = Ok c ->
  forall (s : list R) e0 P0 e1 P1 a b, let n := length (unmasked m) in
  length s = n -> (forall i, (i < n)%nat -> 0 < nth i s 0) -> enc_ok e0 P0 -> enc_ok e1 P1 -> (a < P0)%nat -> (b < P1)%nat ->
  let '(pre, idx, lens) := @preload ROps (@native ROps m s) K (unmasked m) in
  mget (@off_diag ROps pre idx lens e0 P0 e1 P1) a b =
  sumR (map (fun i => Bm e0 c n i a * Bm e1 c n i b / (nth i s 0 * nth i s 0)) (seq 0 n)).
Proof. exact wt_off_block_full. Qed.
(* after the mirror every entry of the w-tilde matrix is the normal-equation entry of the stacked operated matrix *)
Theorem C04_wtilde_mirrored_is_normal_equations : forall m (K : @kernel ROps) c, rectb m = true -> @convolver_init ROps m K = Ok c ->
  forall objs (s : list R), let n := length (unmasked m) in
  (0 < n)%nat -> length s = n -> (forall i, (i < n)%nat -> 0 < nth i s 0) -> (forall o, In o objs -> wf_obj c n o) ->
  forall a b, (a < tp objs)%nat -> (b < tp objs)%nat ->
  let noise := @native ROps m s in let nfs := unmasked m in
  shape (tp objs) (tp objs) (@F_wt_pre ROps c (fst (fst (@preload ROps noise K nfs))) (snd (fst (@preload ROps noise K nfs))) (snd (@preload ROps noise K nfs)) objs s) /\
  mget (mirrored (@F_wt_pre ROps c (fst (fst (@preload ROps noise K nfs))) (snd (fst (@preload ROps noise K nfs))) (snd (@preload ROps noise K nfs)) objs s)) a b
  = Snorm (op_matrix c objs n) s n a b.
Proof. exact mirrored_wt_is_normal_full. Qed.
(* InversionImagingWTilde.curvature_matrix = InversionImagingMapping.curvature_matrix, entry by entry: any rectangular mask, any odd
   kernel (any shape, any signs) whose footprint stays inside the frame (convolver_init = Ok), strictly positive noise, any ordered
   list of mappers and function lists, with or without regularization (diagonal term included) *)
Theorem C04_curvature_wtilde_eq_mapping : forall m (K : @kernel ROps) c, rectb m = true -> @convolver_init ROps m K = Ok c ->
  forall objs (s : list R) eps a b, let n := length (unmasked m) in
  (0 < n)%nat -> length s = n -> (forall i, (i < n)%nat -> 0 < nth i s 0) -> (forall o, In o objs -> wf_obj c n o) ->
  (a < tp objs)%nat -> (b < tp objs)%nat ->
  mget (@F_wt ROps c m K objs s eps) a b = mget (@F_mapping ROps c objs n s eps) a b.
Proof. exact F_wt_eq_F_mapping_full. Qed.
Theorem C04_curvature_wtilde_symmetric : forall m (K : @kernel ROps) c, rectb m = true -> @convolver_init ROps m K = Ok c ->
  forall objs (s : list R) eps a b, let n := length (unmasked m) in
  (0 < n)%nat -> length s = n -> (forall i, (i < n)%nat -> 0 < nth i s 0) -> (forall o, In o objs -> wf_obj c n o) ->
  (a < tp objs)%nat -> (b < tp objs)%nat ->
  mget (@F_wt ROps c m K objs s eps) a b = mget (@F_wt ROps c m K objs s eps) b a.
Proof. exact F_wt_symmetric_full. Qed.
(* the w-tilde data vector of one mapper (w_tilde_data_imaging_from then data_vector_via_w_tilde_data_imaging_from) = B^T N^-1 d *)
Theorem C04_wtilde_data_vector_block : forall m (K : @kernel ROps) c, rectb m = true -> @convolver_init ROps m K = Ok c ->
  forall (d s : list R) e P p, let n := length (unmasked m) in
  length d = n -> length s = n -> (forall i, (i < n)%nat -> nth i s 0 <> 0) -> enc_ok e P -> (p < P)%nat ->
  nth p (@dv_wtd ROps (@wt_data ROps (@native ROps m d) (@native ROps m s) K (unmasked m)) e P) 0 =
  sumR (map (fun i => nth i d 0 * Bm e c n i p / (nth i s 0 * nth i s 0)) (seq 0 n)).
Proof. exact wt_data_vector_block_full. Qed.
(* InversionImagingWTilde.data_vector = InversionImagingMapping.data_vector, entry by entry, for every ordered list of mappers AND
   function lists (all three branches: _data_vector_x1_mapper, _data_vector_multi_mapper, _data_vector_func_list_and_mapper) *)
Theorem C04_data_vector_wtilde_eq_mapping : forall m (K : @kernel ROps) c, rectb m = true -> @convolver_init ROps m K = Ok c ->
  forall objs (d s : list R) a, let n := length (unmasked m) in
  (0 < n)%nat -> length d = n -> length s = n ->
  (forall i, (i < n)%nat -> nth i s 0 <> 0) -> (forall o, In o objs -> wf_obj c n o) -> (a < tp objs)%nat ->
  nth a (@D_wt ROps c m K objs d s) 0 = nth a (@D_mapping ROps c objs d s) 0.
Proof. exact D_wt_eq_D_mapping_full. Qed.

(* InversionImagingWTilde.mapped_reconstructed_data = InversionImagingMapping.mapped_reconstructed_data (equal lists) for every ordered
   list of mappers and function lists and every reconstruction vector: blurring M r (convolve_no_blurring of the unique-mapping
   product) is the same as (blurred M) r, object by object, summed in the same order *)
Theorem C04_mapped_reconstructed_data_wtilde_eq_mapping : forall m (K : @kernel ROps) c, rectb m = true -> @convolver_init ROps m K = Ok c ->
  forall objs (r : list R), let n := length (unmasked m) in
  (forall o, In o objs -> wf_obj c n o) -> length r = tp objs ->
  @mapped_wt ROps c objs n r = @mapped_mapping ROps c objs n r.
Proof. exact mapped_wt_eq_mapped_mapping. Qed.

(* ------------------------------------------------------------------ PHASE 3 *)
(* mapped_reconstructed_data, pixel i, is ONE sum over all parameters of the stacked operated matrix: (B r)[i], in both classes
   (the mapping class adds per-object matrix-vector products; the w-tilde class maps each mapper's slice through its unique
   mappings, convolves it, and uses np.sum(reconstruction * operated_mapping_matrix, axis=1) for function lists) *)
Theorem C04_mapped_reconstructed_data_mapping_is_B_r : forall (c : @convolver ROps) objs n (r : list R) i,
  (forall o, In o objs -> shape n (params o) (opmat c o)) -> length r = tp objs -> (i < n)%nat ->
  nth i (@mapped_mapping ROps c objs n r) 0 = sumR (map (fun a => mget (op_matrix c objs n) i a * nth a r 0) (seq 0 (tp objs))).
Proof. exact mapped_mapping_is_stacked. Qed.
Theorem C04_mapped_reconstructed_data_wtilde_is_B_r : forall m (K : @kernel ROps) c, rectb m = true -> @convolver_init ROps m K = Ok c ->
  forall objs (r : list R) i, let n := length (unmasked m) in
  (forall o, In o objs -> wf_obj c n o) -> length r = tp objs -> (i < n)%nat ->
  nth i (@mapped_wt ROps c objs n r) 0 = sumR (map (fun a => mget (op_matrix c objs n) i a * nth a r 0) (seq 0 (tp objs))).
Proof. exact mapped_wt_is_stacked. Qed.

(* the cached properties of ONE instance (heap cells; curvature_reg_matrix adds H into the cached curvature_matrix array and deletes
   the cache entry when there is a single linear object): every read of every sequence of reads, repeats included, returns the pure
   value -- operated_mapping_matrix B, data_vector D, curvature_matrix F, curvature_reg_matrix F + H (F when nothing is regularized) *)
Theorem C04_cached_reads_return_pure_values : forall (objs : list (@lobj ROps)) (Bv : @mat ROps) (Dv : list R) (Fv H : @mat ROps) qs,
  rrun true objs Bv Dv Fv H (@ist0 ROps) qs = map (rpure objs Bv Dv Fv H) qs.
Proof. exact rrun_pure0. Qed.
(* the deletion of the cache entry is what makes this true: without it curvature_matrix read after curvature_reg_matrix is F + H *)
Theorem C04_cached_reads_without_del_refuted :
  exists (objs : list (@lobj ROps)) (Bv : @mat ROps) (Dv : list R) (Fv H : @mat ROps) (qs : list rq),
    rrun false objs Bv Dv Fv H (@ist0 ROps) qs <> map (rpure objs Bv Dv Fv H) qs.
Proof. exact reads_without_del_refuted. Qed.

(* Preloads.curvature_matrix (mapping.py / w_tilde.py: `return copy.copy(self.preloads.curvature_matrix)`; Model/C04Pre.v): the caller's
   preloaded array [Fp] lives in cell 0 of the heap and TWO instances are made with the same Preloads object, one after the other, their
   cached properties read in ANY orders [qs1], [qs2] with repeats: every read of both instances returns the pure value (curvature_matrix
   Fp, curvature_reg_matrix Fp + H, ...) and the caller's array still holds Fp afterwards *)
Theorem C04_preloaded_curvature_two_instances_pure :
  forall (objs : list (@lobj ROps)) (Bv : @mat ROps) (Dv : list R) (Fp H : @mat ROps) qs1 qs2,
  two_instances true objs Bv Dv Fp H qs1 qs2 = (map (rpure objs Bv Dv Fp H) qs1, map (rpure objs Bv Dv Fp H) qs2, Fp).
Proof. exact two_instances_pure. Qed.
(* the copy.copy is what makes this true: without it the first instance's curvature_reg_matrix (single regularized object) adds H into
   the caller's array and the second instance's curvature_matrix is Fp + H *)
Theorem C04_preloaded_curvature_without_copy_refuted :
  exists (objs : list (@lobj ROps)) (Bv : @mat ROps) (Dv : list R) (Fp H : @mat ROps) (qs1 qs2 : list rq),
    two_instances false objs Bv Dv Fp H qs1 qs2 <> (map (rpure objs Bv Dv Fp H) qs1, map (rpure objs Bv Dv Fp H) qs2, Fp).
Proof. exact two_instances_without_copy_refuted. Qed.
(* non-vacuity / the model computes: a single regularized object, F = [[2]], H = [[1]], reads (FR, F, FR) then (F, FR) *)
Example ex_preloaded_two_instances :
  @two_instances ROps true [@LMapper ROps (@Build_enc ROps [] [] []) [] 1%nat true] [] [] [[2]] [[1]] [RFR; RF; RFR] [RF; RFR]
  = ([@OutM ROps [[3]]; @OutM ROps [[2]]; @OutM ROps [[3]]], [@OutM ROps [[2]]; @OutM ROps [[3]]], ([[2]] : @mat ROps)).
Proof. cbn. unfold hcell. cbn. repeat f_equal; lra. Qed.

(* the w_tilde object is handed over separately (dataset.w_tilde, preloads.w_tilde, DatasetInterface.w_tilde).  Made by Imaging.w_tilde
   of ANY dataset with the same mask, psf and noise map -- the object has no component that depends on data -- the instance is the one
   of the theorems above *)
Theorem C04_instance_with_w_tilde_of_same_noise_map : forall (m : mask) (K : @kernel ROps) (d s : list R) objs wt eps,
  @inversion_w ROps m K d s (@imaging_w_tilde ROps m K s) objs wt eps = @inversion ROps m K d s objs wt eps.
Proof. exact inversion_w_own. Qed.
(* whatever w_tilde object is handed over, operated_mapping_matrix and data_vector are those of the data and noise map PASSED IN
   (w_tilde_data is computed by the instance from its own dataset): they do not depend on the object *)
Theorem C04_data_vector_independent_of_w_tilde_object : forall (m : mask) (K : @kernel ROps) (d s : list R) (w w' : @wtilde ROps) objs wt eps o o',
  @inversion_w ROps m K d s w objs wt eps = Ok o -> @inversion_w ROps m K d s w' objs wt eps = Ok o' ->
  o_B o = o_B o' /\ o_D o = o_D o'.
Proof. exact inversion_w_B_D_independent_of_w. Qed.
(* check_noise_map: an object whose noise_map_value is not noise_map[0] is refused by the w-tilde class *)
Theorem C04_check_noise_map_refuses : forall (m : mask) (K : @kernel ROps) c (d s : list R) (w : @wtilde ROps) objs eps,
  @convolver_init ROps m K = Ok c -> nth 0 s 0 <> w_nmv w ->
  @inversion_w ROps m K d s w objs true eps = Raise InversionException.
Proof. exact inversion_w_refuses. Qed.

(* factory.inversion_imaging_from as a total function of (object kinds, settings.use_w_tilde, preloads.use_w_tilde) *)
Theorem C04_factory_class_choice : forall (objs : list (@lobj ROps)) su pu,
  factory_use_wt objs su pu = true <-> su = true /\ forallb (@is_func ROps) objs = false /\ pu <> Some false.
Proof. exact factory_use_wt_spec. Qed.
(* ... and the values do not depend on it: both classes exist on every valid input and agree on B (same list), D and F *)
Theorem C04_values_independent_of_class : forall m (K : @kernel ROps) c, rectb m = true -> @convolver_init ROps m K = Ok c ->
  forall objs (d s : list R) eps, let n := length (unmasked m) in
  (0 < n)%nat -> length d = n -> length s = n -> (forall i, (i < n)%nat -> 0 < nth i s 0) -> (forall o, In o objs -> wf_obj c n o) ->
  forall wt wt', exists o o', @inversion ROps m K d s objs wt eps = Ok o /\ @inversion ROps m K d s objs wt' eps = Ok o' /\
    o_B o = o_B o' /\
    (forall a, (a < tp objs)%nat -> nth a (o_D o) 0 = nth a (o_D o') 0) /\
    (forall a b, (a < tp objs)%nat -> (b < tp objs)%nat -> mget (o_F o) a b = mget (o_F o') a b).
Proof. exact inversion_values_independent_of_class. Qed.
(* aa.Inversion(dataset, linear_obj_list, settings, preloads): whatever the two flags say and whether the w_tilde object comes from
   the dataset or from the preloads (made from the same noise map), the instance exists and has the same values *)
Theorem C04_inversion_from_values_independent_of_flags : forall m (K : @kernel ROps) c, rectb m = true -> @convolver_init ROps m K = Ok c ->
  forall objs (d s : list R) eps, let n := length (unmasked m) in
  (0 < n)%nat -> length d = n -> length s = n -> (forall i, (i < n)%nat -> 0 < nth i s 0) -> (forall o, In o objs -> wf_obj c n o) ->
  forall su pu su' pu' pw pw',
  (pw = None \/ pw = Some (@imaging_w_tilde ROps m K s)) -> (pw' = None \/ pw' = Some (@imaging_w_tilde ROps m K s)) ->
  exists o o', @inversion_from ROps m K d s (@imaging_w_tilde ROps m K s) pw objs su pu eps = Ok o /\
               @inversion_from ROps m K d s (@imaging_w_tilde ROps m K s) pw' objs su' pu' eps = Ok o' /\
    o_B o = o_B o' /\
    (forall a, (a < tp objs)%nat -> nth a (o_D o) 0 = nth a (o_D o') 0) /\
    (forall a b, (a < tp objs)%nat -> (b < tp objs)%nat -> mget (o_F o) a b = mget (o_F o') a b).
Proof. exact inversion_from_values_independent_of_flags. Qed.
(* one instance of either class, any sequence of reads: always the instance's own B, D, F and F + H *)
Theorem C04_inversion_reads_pure : forall m (K : @kernel ROps) c, @convolver_init ROps m K = Ok c ->
  forall objs (d s : list R) eps wt (H : @mat ROps) qs,
  exists o, @inversion ROps m K d s objs wt eps = Ok o /\
    @inversion_reads ROps m K d s (@imaging_w_tilde ROps m K s) objs wt eps H qs = Ok (map (rpure objs (o_B o) (o_D o) (o_F o) H) qs).
Proof. exact inversion_reads_pure. Qed.

(* the two classes hand the SAME matrix and the SAME vector to the solver (equal lists, not only equal entries), hence the same
   reconstruction whatever the solver (np.linalg.solve, fnnls: C05) and the regularization matrix *)
Theorem C04_curvature_wtilde_eq_mapping_as_matrices : forall m (K : @kernel ROps) c, rectb m = true -> @convolver_init ROps m K = Ok c ->
  forall objs (s : list R) eps, let n := length (unmasked m) in
  objs <> [] -> (0 < n)%nat -> length s = n -> (forall i, (i < n)%nat -> 0 < nth i s 0) -> (forall o, In o objs -> wf_obj c n o) ->
  @F_wt ROps c m K objs s eps = @F_mapping ROps c objs n s eps.
Proof. exact F_wt_eq_F_mapping_list. Qed.
Theorem C04_data_vector_wtilde_eq_mapping_as_vectors : forall m (K : @kernel ROps) c, rectb m = true -> @convolver_init ROps m K = Ok c ->
  forall objs (s : list R), let n := length (unmasked m) in
  objs <> [] -> (0 < n)%nat -> length s = n -> (forall i, (i < n)%nat -> 0 < nth i s 0) -> (forall o, In o objs -> wf_obj c n o) ->
  forall d : list R, length d = n ->
  @D_wt ROps c m K objs d s = @D_mapping ROps c objs d s.
Proof. exact D_wt_eq_D_mapping_list. Qed.
Theorem C04_reconstruction_wtilde_eq_mapping : forall m (K : @kernel ROps) c, rectb m = true -> @convolver_init ROps m K = Ok c ->
  forall objs (s : list R) eps, let n := length (unmasked m) in
  objs <> [] -> (0 < n)%nat -> length s = n -> (forall i, (i < n)%nat -> 0 < nth i s 0) -> (forall o, In o objs -> wf_obj c n o) ->
  forall d : list R, length d = n ->
  forall (solve : @mat ROps -> list R -> list R) (H : @mat ROps),
  solve (FRv objs (@F_wt ROps c m K objs s eps) H) (@D_wt ROps c m K objs d s) =
  solve (FRv objs (@F_mapping ROps c objs n s eps) H) (@D_mapping ROps c objs d s).
Proof. exact reconstruction_wtilde_eq_mapping. Qed.

(* ------------------------------------------------------------------ the model meets the EXECUTABLE specification of the correspondence check *)
(* [B_spec] / [D_spec] / [F_spec] / [mapped_spec] (Model/C04.v) are what spec_ok evaluates on every implementation output: conv_full
   (the true 2-D convolution of each column placed on the mask) and plain sums -- no frames, no preload, no blocks.  The property's
   first sentence, for both classes: B is the column-wise PSF-blurred mapping matrix of all objects in object order, the data vector is
   B^T N^-1 d and the curvature matrix B^T N^-1 B plus eps exactly on the diagonal entries of the parameters without regularization *)
Theorem C04_operated_matrix_is_blurred_mapping_matrix : forall m (K : @kernel ROps) c, rectb m = true -> @convolver_init ROps m K = Ok c ->
  (0 < length (unmasked m))%nat -> forall objs, (forall o, In o objs -> wf_obj c (length (unmasked m)) o) ->
  op_matrix c objs (length (unmasked m)) = @B_spec ROps m K objs.
Proof. exact op_matrix_is_B_spec. Qed.
Theorem C04_data_vector_mapping_meets_spec : forall m (K : @kernel ROps) c, rectb m = true -> @convolver_init ROps m K = Ok c ->
  (0 < length (unmasked m))%nat -> forall objs, (forall o, In o objs -> wf_obj c (length (unmasked m)) o) ->
  forall s d : list R, length d = length (unmasked m) -> forall p, (p < tp objs)%nat ->
  nth p (@D_mapping ROps c objs d s) 0 = nth p (@D_spec ROps (@B_spec ROps m K objs) d s (tp objs)) 0.
Proof. exact D_mapping_is_D_spec. Qed.
Theorem C04_curvature_mapping_meets_spec : forall m (K : @kernel ROps) c, rectb m = true -> @convolver_init ROps m K = Ok c ->
  (0 < length (unmasked m))%nat -> forall objs, (forall o, In o objs -> wf_obj c (length (unmasked m)) o) ->
  forall (s : list R) (eps : R), (forall i, (i < length (unmasked m))%nat -> nth i s 0 <> 0) ->
  forall a b, (a < tp objs)%nat -> (b < tp objs)%nat ->
  mget (@F_mapping ROps c objs (length (unmasked m)) s eps) a b =
  mget (@F_spec ROps (@B_spec ROps m K objs) s (@unreg_flags ROps objs) eps) a b.
Proof. exact F_mapping_is_F_spec. Qed.
Theorem C04_mapped_reconstructed_data_meets_spec : forall m (K : @kernel ROps) c, rectb m = true -> @convolver_init ROps m K = Ok c ->
  (0 < length (unmasked m))%nat -> forall objs, (forall o, In o objs -> wf_obj c (length (unmasked m)) o) ->
  forall (r : list R) i, length r = tp objs -> (i < length (unmasked m))%nat ->
  nth i (@mapped_mapping ROps c objs (length (unmasked m)) r) 0 = nth i (@mapped_spec ROps (@B_spec ROps m K objs) r) 0.
Proof. exact mapped_mapping_is_mapped_spec. Qed.
Theorem C04_data_vector_wtilde_meets_spec : forall m (K : @kernel ROps) c, rectb m = true -> @convolver_init ROps m K = Ok c ->
  forall objs (d s : list R), let n := length (unmasked m) in
  (0 < n)%nat -> length d = n -> length s = n -> (forall i, (i < n)%nat -> 0 < nth i s 0) -> (forall o, In o objs -> wf_obj c n o) ->
  forall p, (p < tp objs)%nat ->
  nth p (@D_wt ROps c m K objs d s) 0 = nth p (@D_spec ROps (@B_spec ROps m K objs) d s (tp objs)) 0.
Proof. exact D_wt_is_D_spec. Qed.
Theorem C04_curvature_wtilde_meets_spec : forall m (K : @kernel ROps) c, rectb m = true -> @convolver_init ROps m K = Ok c ->
  forall objs (s : list R) eps, let n := length (unmasked m) in
  (0 < n)%nat -> length s = n -> (forall i, (i < n)%nat -> 0 < nth i s 0) -> (forall o, In o objs -> wf_obj c n o) ->
  forall a b, (a < tp objs)%nat -> (b < tp objs)%nat ->
  mget (@F_wt ROps c m K objs s eps) a b = mget (@F_spec ROps (@B_spec ROps m K objs) s (@unreg_flags ROps objs) eps) a b.
Proof. exact F_wt_is_F_spec. Qed.

(* ------------------------------------------------------------------ the mapper hypothesis discharged from C06's development *)
(* wf_obj asks of a mapper that its sparse unique-mapping triple represents its dense mapping matrix.  For ANY mapper arrays
   (mappings, sizes, weights -- rectangular and Delaunay mappers alike) satisfying C06's [mapper_ok] on the dataset's rectangular mask,
   the matrix built by mapper_util.mapping_matrix_from (model C06) together with the triple built by
   mapper_util.data_slim_to_pixelization_unique_from (model C06), read as a C04 encoding by [enc_of_rows], is a well-formed C04 mapper *)
Theorem C04_c06_mapper_is_well_formed : forall (m : mask) (subs : list nat) (P : nat) (mp : list (list Z)) (sz : list nat) (wt : list (list R)),
  rectb m = true -> PAV.Proofs.C06.mapper_ok m subs P mp sz -> (0 < length (unmasked m))%nat -> (0 < P)%nat ->
  exists M rows,
    @PAV.Model.C06.mapping_matrix ROps mp sz wt P (PAV.Model.C06.count_unmasked m) (PAV.Model.C06.slim_for_sub m subs)
       (@PAV.Model.C06.sub_fractions ROps subs) = Ok M /\
    @PAV.Model.C06.unique_from ROps mp sz wt P subs = Ok rows /\
    forall (c : @convolver ROps) reg, wf_obj c (length (unmasked m)) (@LMapper ROps (enc_of_rows rows) M P reg).
Proof. exact c06_mapper_is_wf_on_mask. Qed.

(* ------------------------------------------------------------------ non-vacuity of the hypothesis sets *)
(* hypotheses of C04_curvature_is_BT_Ninv_B: a 2x2 signed matrix, two different noise values, one unregularized parameter *)
Example ex_curv_hyps :
  let B : @mat ROps := [[1; -2]; [3; 4]] in let s := [1; 2] in let idx := [1%nat] in
  (forall i, (i < length B)%nat -> nth i s 0 <> 0) /\ Forall (fun i => (i < ncols B)%nat) idx /\ NoDup idx.
Proof.
  cbn. split; [|split].
  - intros [|[|i]] H; cbn; try lra; lia.
  - repeat constructor.
  - repeat constructor. intros [].
Qed.
(* a square matrix with a blanked lower entry, as the w-tilde assembly produces *)
Example ex_shape : shape 2 2 ([[1; 5]; [0; 3]] : @mat ROps).
Proof. split; [reflexivity|]. intros [|[|a]] H; cbn; auto; lia. Qed.
(* a sparse encoding with a filler entry and preload rows with a negative value *)
Definition ex_e : @enc ROps := @Build_enc ROps [[0%Z; 1%Z]; [1%Z; (-1)%Z]] [[1/2; 1/2]; [1; 0]] [2%nat; 1%nat].
Example ex_enc_ok : enc_ok ex_e 2 /\ rows_ok [[(0%nat, 1); (1%nat, -2)]; [(1%nat, 1/2)]] 2.
Proof.
  split.
  - intros [|[|d]] pw H; cbn in H.
    + destruct H as [<-|[<-|[]]]; cbn; lia.
    + destruct H as [<-|[]]; cbn; lia.
    + destruct d; cbn in H; contradiction.
  - intros [|[|d]] iw H; cbn in H.
    + destruct H as [<-|[<-|[]]]; cbn; lia.
    + destruct H as [<-|[]]; cbn; lia.
    + destruct d; cbn in H; contradiction.
Qed.
(* a one-pixel dataset: kernel [[2]], noise 1, one mapper with one source pixel; all hypotheses of the assembly theorems hold *)
Definition ex_c : @convolver ROps := @Build_convolver ROps 1 [[(0%nat, 2)]] [] [[true]].
Definition ex_m : @enc ROps := @Build_enc ROps [[0%Z]] [[1]] [1%nat].
Definition ex_objs : list (@lobj ROps) := [@LMapper ROps ex_m [[1]] 1 false; @LFunc ROps [[3]] (Some [[5]]) 1 false].
Example ex_main_hyps :
  let nfs := [(0%Z, 0%Z)] in let s := [1] in let K : @kernel ROps := [[2]] in let noise := fun _ : px => 1 in
  (0 < length nfs)%nat /\ frames_ok ex_c (length nfs) /\ (forall i, (i < length nfs)%nat -> nth i s 0 <> 0) /\
  W_is_overlap ex_c s (@wt_dense ROps noise K nfs) (length nfs) /\ (forall o, In o ex_objs -> wf_obj ex_c (length nfs) o).
Proof.
  cbn [length]. split; [lia|]. split; [|split; [|split]].
  - split; [reflexivity|]. intros [|[|s0]] tk H; cbn in H.
    + destruct H as [<-|[]]. cbn. lia.
    + contradiction.
    + destruct s0; contradiction.
  - intros [|i] H; cbn; [lra|lia].
  - intros d0 d1 H0 H1. assert (d0 = 0%nat) by lia. assert (d1 = 0%nat) by lia. subst.
    unfold Cop, wt_dense, wt_value, mget, nthT, sumT, zero, one, sq, kat, seqZ, rows, cols, getZ. cbn.
    unfold Rltb. destruct (Rlt_dec 0 1) as [_|N]; [|exfalso; lra]. cbn. unfold hits. cbn. change (Pos.to_nat 1) with 1%nat. cbn. field.
  - intros o [<-|[<-|[]]].
    + split; [cbn; lia|]. split; [apply (shape_convolve_matrix ex_c [[1]])|].
      split; [|split; [|repeat split]].
      * intros [|d] pw H; cbn in H; [destruct H as [<-|[]]; cbn; lia | destruct d; contradiction].
      * intros d p Hd Hp. assert (d = 0%nat) by lia. assert (p = 0%nat) by lia. subst. unfold E, hits. cbn. lra.
    + split; [cbn; lia|]. split; [|exact I]. cbn. split; [reflexivity|]. intros [|a] H; [reflexivity|lia].
Qed.

(* the hypotheses of the hypothesis-free theorems: a 3x4 mask with two adjacent unmasked pixels, a signed 3x3 kernel whose
   footprint stays inside the frame, two different positive noise values, a function list followed by a regularized mapper *)
Definition ex2_m : mask := [[true; true; true; true]; [true; false; false; true]; [true; true; true; true]].
Definition ex2_K : @kernel ROps := [[1; 2; 3]; [4; 5; 6]; [7; 8; -9]].
Definition ex2_c : @convolver ROps :=
  Eval vm_compute in match @convolver_init ROps ex2_m ex2_K with Ok c => c | Raise _ => @Build_convolver ROps 0 [] [] [] end.
Definition ex2_e : @enc ROps := @Build_enc ROps [[0%Z]; [0%Z]] [[1]; [1]] [1%nat; 1%nat].
Definition ex2_objs : list (@lobj ROps) := [@LFunc ROps [[3]; [4]] (Some [[5]; [-6]]) 1 false; @LMapper ROps ex2_e [[1]; [1]] 1 true].
Example ex_full_hyps :
  let s := [1; 2] in let n := length (unmasked ex2_m) in
  rectb ex2_m = true /\ @convolver_init ROps ex2_m ex2_K = Ok ex2_c /\ (0 < n)%nat /\ length s = n /\
  (forall i, (i < n)%nat -> 0 < nth i s 0) /\ (forall o, In o ex2_objs -> wf_obj ex2_c n o).
Proof.
  cbv zeta. split; [reflexivity|]. split; [vm_compute; reflexivity|]. change (length (unmasked ex2_m)) with 2%nat.
  split; [lia|]. split; [reflexivity|]. split.
  - intros [|[|i]] H; cbn; try lra; lia.
  - intros o [<-|[<-|[]]].
    + split; [cbn; lia|]. split; [|exact I]. cbn. split; [reflexivity|]. intros [|[|a]] H; try reflexivity; lia.
    + split; [cbn; lia|]. split; [apply (shape_convolve_matrix ex2_c [[1]; [1]])|].
      split; [|split; [|repeat split]].
      * intros [|[|d]] pw H; cbn in H; try (destruct H as [<-|[]]; cbn; lia). destruct d; contradiction.
      * intros d p Hd Hp. assert (p = 0%nat) by lia. subst p. destruct d as [|[|d]]; [| |lia]; unfold E, hits; cbn; lra.
Qed.

(* phase 3: the extra hypotheses of the list-equality / reconstruction theorems on the same dataset (a non-empty object list, data
   of the mask's length), and a w_tilde object that check_noise_map refuses (made from a noise map with another first value) *)
Example ex_phase3_hyps :
  ex2_objs <> [] /\ length ([3; -4] : list R) = length (unmasked ex2_m) /\
  nth 0 ([1; 2] : list R) 0 <> w_nmv (@imaging_w_tilde ROps ex2_m ex2_K [2; 2]).
Proof.
  split; [discriminate|]. split; [reflexivity|]. rewrite imaging_w_tilde_nmv. cbn. lra.
Qed.
(* a single regularized object, curvature_reg_matrix read between two reads of curvature_matrix (and twice itself): the cell model
   hands out F, F + H, F, F + H *)
Example ex_reads :
  rrun true [@LMapper ROps ex2_e [[1]; [1]] 1 true] ([] : @mat ROps) ([] : list R) ([[5]] : @mat ROps) ([[2]] : @mat ROps) (@ist0 ROps) [RF; RFR; RF; RFR]
  = [@OutM ROps [[5]]; @OutM ROps [[5 + 2]]; @OutM ROps [[5]]; @OutM ROps [[5 + 2]]].
Proof. reflexivity. Qed.

(* the hypotheses of C04_c06_mapper_is_well_formed: C06's example mapper (2 unmasked pixels, sub-sizes 1 and 2, repeated and 3-fold
   mappings onto 4 source pixels) *)
Example ex_c06_mapper_hyps :
  let m := [[true; false]; [false; true]] in
  rectb m = true /\ (0 < length (unmasked m))%nat /\
  PAV.Proofs.C06.mapper_ok m [1; 2]%nat 4 [[2; -1; -1]; [0; 1; 3]; [3; -1; -1]; [1; 1; 2]; [0; 3; -1]]%Z [1; 3; 1; 3; 2]%nat.
Proof.
  cbv zeta. split; [reflexivity|]. split; [vm_compute; lia|]. apply PAV.Proofs.C06.mapper_okb_ok. vm_compute. reflexivity.
Qed.

Print Assumptions C04_data_vector_is_BT_Ninv_d.
Print Assumptions C04_curvature_is_BT_Ninv_B.
Print Assumptions C04_added_to_diag.
Print Assumptions C04_mirrored.
Print Assumptions C04_mirrored_symmetric.
Print Assumptions C04_mirror_completes.
Print Assumptions C04_preload_rows_recovered.
Print Assumptions C04_preload_represents_dense.
Print Assumptions C04_curvature_via_preload.
Print Assumptions C04_off_diag_via_preload.
Print Assumptions C04_data_vector_via_w_tilde_data.
Print Assumptions C04_off_diag_mapper_func.
Print Assumptions C04_mapped_via_unique.
Print Assumptions C04_mapped_via_matrix.
Print Assumptions C04_blurred_mapping_matrix_is_operator_times_M.
Print Assumptions C04_convolve_no_blurring_is_operator.
Print Assumptions C04_wtilde_mapper_diagonal_block_abstract.
Print Assumptions C04_wtilde_mapper_mapper_block_abstract.
Print Assumptions C04_wtilde_mapper_func_block.
Print Assumptions C04_wtilde_func_func_block.
Print Assumptions C04_operated_matrix_blocks_follow_object_order.
Print Assumptions C04_wtilde_mirrored_is_normal_equations_abstract.
Print Assumptions C04_curvature_wtilde_eq_mapping_abstract.
Print Assumptions C04_F_wt_is_instance.
Print Assumptions C04_curvature_mapping_blocks.
Print Assumptions C04_curvature_mapping_symmetric.
Print Assumptions C04_no_regularization_index_list.
Print Assumptions C04_data_vector_mapping_blocks.
Print Assumptions C04_wtilde_data_vector_block_abstract.
Print Assumptions C04_curvature_wtilde_symmetric_abstract.
Print Assumptions C04_data_vector_wtilde_eq_mapping_abstract.
Print Assumptions C04_convolver_frames_ok.
Print Assumptions C04_frame_operator_entries.
Print Assumptions C04_w_tilde_data_is_CT_Ninv_d.
Print Assumptions C04_w_tilde_curvature_value_is_CT_Ninv_C.
Print Assumptions C04_w_tilde_curvature_is_CT_Ninv_C.
Print Assumptions C04_wtilde_mapper_diagonal_block.
Print Assumptions C04_wtilde_mapper_mapper_block.
Print Assumptions C04_wtilde_mirrored_is_normal_equations.
Print Assumptions C04_curvature_wtilde_eq_mapping.
Print Assumptions C04_curvature_wtilde_symmetric.
Print Assumptions C04_wtilde_data_vector_block.
Print Assumptions C04_data_vector_wtilde_eq_mapping.
Print Assumptions C04_mapped_reconstructed_data_wtilde_eq_mapping.
Print Assumptions C04_mapped_reconstructed_data_mapping_is_B_r.
Print Assumptions C04_mapped_reconstructed_data_wtilde_is_B_r.
Print Assumptions C04_cached_reads_return_pure_values.
Print Assumptions C04_cached_reads_without_del_refuted.
Print Assumptions C04_preloaded_curvature_two_instances_pure.
Print Assumptions C04_preloaded_curvature_without_copy_refuted.
Print Assumptions C04_instance_with_w_tilde_of_same_noise_map.
Print Assumptions C04_data_vector_independent_of_w_tilde_object.
Print Assumptions C04_check_noise_map_refuses.
Print Assumptions C04_factory_class_choice.
Print Assumptions C04_values_independent_of_class.
Print Assumptions C04_inversion_from_values_independent_of_flags.
Print Assumptions C04_inversion_reads_pure.
Print Assumptions C04_curvature_wtilde_eq_mapping_as_matrices.
Print Assumptions C04_data_vector_wtilde_eq_mapping_as_vectors.
Print Assumptions C04_reconstruction_wtilde_eq_mapping.
Print Assumptions C04_operated_matrix_is_blurred_mapping_matrix.
Print Assumptions C04_data_vector_mapping_meets_spec.
Print Assumptions C04_curvature_mapping_meets_spec.
Print Assumptions C04_mapped_reconstructed_data_meets_spec.
Print Assumptions C04_data_vector_wtilde_meets_spec.
Print Assumptions C04_curvature_wtilde_meets_spec.
Print Assumptions C04_c06_mapper_is_well_formed.
