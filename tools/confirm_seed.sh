#!/bin/bash
# usage: tools/confirm_seed.sh <dir with patch.diff demo.py meta.json>
# confirms in a scratch worktree of /repo: patch applies, demo exits 1 with it and 0 without, pinned baseline still passes.
set -u
D=$(realpath $1); WT=/tmp/pav_cs_$$
git -C /repo worktree add --detach -q $WT HEAD || exit 3
cp $D/demo.py $WT/demo.py
run_demo() { (cd $WT && PYTHONPATH=$WT timeout 900 /venv/bin/python demo.py >/tmp/pav_cs_$$.log 2>&1; echo $?); }
CLEAN=$(run_demo)
git -C $WT apply $D/patch.diff || { echo "patch does not apply"; git -C /repo worktree remove --force $WT; exit 3; }
CHANGED=$(run_demo); tail -3 /tmp/pav_cs_$$.log
rm -f $WT/demo.py
BASE=$(python3 $(dirname $0)/baseline.py $WT | head -1)
git -C /repo worktree remove --force $WT; rm -f /tmp/pav_cs_$$.log
echo "demo clean exit=$CLEAN changed exit=$CHANGED ; baseline: $BASE"
[[ "$CLEAN" == 0 && "$CHANGED" != 0 && "$BASE" == *"missing: 0" ]] && { echo CONFIRMED; exit 0; } || { echo NOT-CONFIRMED; exit 1; }
