"""C20 -- triangle up-sampling tiles exactly; neighbourhoods and selections are faithful."""
import numpy as np
from fractions import Fraction
from harness.common import cz, cq, cnat, cbool, clist, ctup, cres, import_aa, frac, exn_name

ID = "C20"
GEN = []
PROPS = "Props/C20.v"
COQ_CHECK = ("Model.C20", "check")
COQ_FALLBACK = None
COQ_IMPORTS = ""
SHARD = 40
RULE = ("ArrayTriangles: random index triples over random dyadic (k/4) vertices of either sign (arbitrary, also degenerate and "
        "repeated corners, duplicate vertex rows; a malformed stream with out-of-range index rows), connected meshes cut from a skewed lattice, and the output of "
        "ArrayTriangles.for_limits_and_scale; CoordinateArrayTriangles: random integer coordinates in [-5,5]^2 of both parities "
        "(duplicates included), side in {1/4,1/2,1,3/2,2,3}, offsets k/4, both flip states, the output of "
        "CoordinateArrayTriangles.for_limits_and_scale, and objects reached through up_sample()/neighborhood() chains of the real "
        "classes. Operations: .triangles, .area, len, .up_sample(), .neighborhood(), .for_indexes (random index lists with "
        "repeats), .with_vertices, .vertices/.indices, .containing_indices(shape) with Point/Circle/Square/Triangle/Polygon "
        "shapes whose reference point is placed by barycentric coordinates inside / on an edge / on a corner / outside a chosen "
        "triangle. Comparisons: exact rationals for dyadic ArrayTriangles; 1e-9 where HEIGHT_FACTOR = sqrt(3)/2 enters; every "
        "containment decision is kept >= 1e-6 from its boundary unless the floating-point evaluation is exact (cases inside the "
        "band are skipped and counted). Non-trivial = at least two triangles; distinct = distinct JSON input.")
EXHAUSTIVE = {}
TRUSTED = ["hand-written Gallina model coq/Model/C20.v of abstract.py / array.py / abstract_coordinate_array.py / "
           "coordinate_array.py / shape.py, tied to /repo by this correspondence run (comparison evaluated inside Coq by vm_compute)",
           "numpy: vertices[indices] fancy indexing, np.unique(axis=0, return_inverse) = lexicographically sorted distinct rows + "
           "row positions, np.sort(axis=1), np.where, np.arange(start, stop, step) = start + i*step for i < ceil((stop-start)/step), "
           "x/0 -> inf/nan whose comparisons are False",
           "HEIGHT_FACTOR is a parameter h of the model (theorems hold for every h, most need h > 0 or nothing); the run passes the "
           "exact rational value of the double 3**0.5/2",
           "doubles: ArrayTriangles inputs are dyadic so midpoints, reflections and areas are exact; elsewhere 1e-9 tolerance"]
ASSUMPTIONS = ["real arithmetic (no rounding); coincident corners computed along different floating-point paths may differ in the "
               "last bit in the implementation (np.unique then keeps both): geometric comparison at 1e-9",
               "NaN coordinates (the jax variants' padding) are not modelled; index arrays are in range (numpy raises IndexError "
               "otherwise) and non-negative",
               "for_limits_and_scale (both classes) is covered by correspondence only"]

_skipped = {"in_band": 0}
def extra_evidence():
    return {"skipped_in_band": _skipped["in_band"]}

SIDES = [Fraction(1, 4), Fraction(1, 2), Fraction(1), Fraction(3, 2), Fraction(2), Fraction(3)]
MARGIN = Fraction(1, 10 ** 6)

def F(s): return Fraction(s)
def S(x): return str(Fraction(x))

# ----------------------------------------------------------------------------- generators
def rand_pt(rng, lo=-8, hi=8, den=4):
    return [S(Fraction(rng.randint(lo, hi), den)), S(Fraction(rng.randint(lo, hi), den))]

def gen_array(rng):
    style = rng.choice(["random", "random", "mesh", "mesh", "dup", "single"])
    if style == "single":
        vs = [rand_pt(rng) for _ in range(3)]
        return {"idx": [[0, 1, 2]], "verts": vs}
    if style == "mesh":
        # skewed lattice p = o + i*u + j*v ; cells split into two triangles; random subset
        o = [Fraction(rng.randint(-4, 4), 4), Fraction(rng.randint(-4, 4), 4)]
        u = [Fraction(rng.randint(1, 6), 2), Fraction(rng.randint(-2, 2), 2)]
        v = [Fraction(rng.randint(-2, 2), 2), Fraction(rng.randint(1, 6), 2)]
        if rng.random() < 0.3: u, v = v, u       # orientation of either sign
        ni, nj = rng.randint(1, 3), rng.randint(1, 2)
        pts = {}
        def pid(i, j):
            if (i, j) not in pts: pts[(i, j)] = len(pts)
            return pts[(i, j)]
        tris = []
        for i in range(ni):
            for j in range(nj):
                if rng.random() < 0.8: tris.append([pid(i, j), pid(i + 1, j), pid(i, j + 1)])
                if rng.random() < 0.8: tris.append([pid(i + 1, j), pid(i, j + 1), pid(i + 1, j + 1)])
        if not tris: tris.append([pid(0, 0), pid(1, 0), pid(0, 1)])
        verts = [None] * len(pts)
        for (i, j), k in pts.items():
            verts[k] = [S(o[0] + i * u[0] + j * v[0]), S(o[1] + i * u[1] + j * v[1])]
        for t in tris: rng.shuffle(t)
        return {"idx": tris, "verts": verts}
    nv = rng.randint(3, 7)
    vs = [rand_pt(rng, -6, 6, rng.choice([1, 2, 4])) for _ in range(nv)]
    if style == "dup":
        vs.append(list(vs[rng.randrange(nv)])); vs.append(list(vs[rng.randrange(nv)])); nv += 2
    nt = rng.randint(1, 5)
    idx = []
    for _ in range(nt):
        if rng.random() < 0.12: idx.append([rng.randrange(nv) for _ in range(3)])      # corners may repeat
        else: idx.append(rng.sample(range(nv), 3))
    return {"idx": idx, "verts": vs}

def gen_coord(rng):
    n = rng.choice([1, 1, 2, 3, 4, 5, 6])
    r = rng.choice([1, 2, 5])
    coords = [[rng.randint(-r, r), rng.randint(-r, r)] for _ in range(n)]
    if n > 2 and rng.random() < 0.2: coords.append(list(coords[0]))
    if rng.random() < 0.3:      # an edge-connected cluster
        x, y = coords[0]
        coords = [[x, y], [x + 1, y], [x - 1, y], [x, y + 1], [x, y - 1]][:rng.randint(2, 5)]
    return {"coords": coords, "side": S(rng.choice(SIDES)), "xo": S(Fraction(rng.randint(-6, 6), 4)),
            "yo": S(Fraction(rng.randint(-6, 6), 4)), "fl": rng.random() < 0.5,
            "pre": rng.choice([[], [], [], ["up"], ["nbr"], ["up", "up"], ["up", "nbr"], ["nbr", "up"]]) if n <= 2 else
                   rng.choice([[], [], [], ["nbr"]]) if n <= 4 else []}

def gen_shape(rng):
    """shape described relative to a target triangle: barycentric position of its reference point"""
    kind = rng.choice(["point", "point", "circle", "square", "triangle", "polygon"])
    pos = rng.choice(["inside", "inside", "edge", "corner", "outside", "outside", "far"])
    den = rng.choice([2, 4, 8])
    if pos == "inside":
        a = rng.randint(1, den - 1) if den > 2 else 1; b = rng.randint(0, den - a)
        bc = [Fraction(a, den), Fraction(b, den)]
        if rng.random() < 0.4: bc = [Fraction(rng.randint(1, 5), 12), Fraction(rng.randint(1, 5), 12)]
    elif pos == "edge": bc = rng.choice([[Fraction(0), Fraction(rng.randint(1, den - 1), den)],
                                         [Fraction(rng.randint(1, den - 1), den), Fraction(0)],
                                         [Fraction(1, 2), Fraction(1, 2)]])
    elif pos == "corner": bc = rng.choice([[Fraction(1), Fraction(0)], [Fraction(0), Fraction(1)], [Fraction(0), Fraction(0)]])
    elif pos == "outside": bc = [Fraction(rng.randint(-den, 2 * den), den), Fraction(rng.randint(-den, 2 * den), den)]
    else: bc = [Fraction(rng.randint(-20, 20)), Fraction(rng.randint(-20, 20))]
    return {"kind": kind, "bc": [S(x) for x in bc], "which": rng.randrange(10 ** 6),
            "size": S(Fraction(rng.randint(0, 12), 4)), "aspect": S(Fraction(rng.randint(1, 12), 4)),
            "seed": rng.randrange(10 ** 9)}

def gen_inputs(tier, rng):
    big = tier == "thorough"
    n = 800 if big else 60
    for i in range(n):
        A = gen_array(rng)
        for op in ("a_tris", "a_up", "a_nbr"):
            yield dict(A, op=op)
        nt = len(A["idx"])
        yield dict(A, op="a_for", sel=[rng.randrange(nt) for _ in range(rng.randint(0, nt + 1))])
        yield dict(A, op="a_with", verts2=[rand_pt(rng) for _ in A["verts"]])
        for _ in range(2): yield dict(A, op="a_contain", shape=gen_shape(rng))
    for i in range(n):
        C = gen_coord(rng)
        for op in ("c_tris", "c_up", "c_nbr", "c_repr"):
            yield dict(C, op=op)
        yield dict(C, op="c_for", selseed=rng.randrange(10 ** 9))
        for _ in range(2): yield dict(C, op="c_contain", shape=gen_shape(rng))
    for i in range(n // 2):
        lo = [Fraction(rng.randint(-8, 8), 4) for _ in range(2)]
        ext = [Fraction(rng.randint(0, 6), 4) for _ in range(2)]
        sc = rng.choice(SIDES[1:])
        L = {"lims": [S(lo[0]), S(lo[0] + ext[0]), S(lo[1]), S(lo[1] + ext[1])], "scale": S(sc)}
        yield dict(L, op="a_limits")
        yield dict(L, op="c_limits")
        yield dict(L, op=rng.choice(["al_up", "al_nbr", "al_for", "al_contain"]), seed=rng.randrange(10 ** 9), shape=gen_shape(rng))
    for i in range(30 if big else 8):
        yield {"op": "shape_init", "nv": i % 5, "seed": rng.randrange(10 ** 9)}
    # malformed stream: an index row that addresses no vertex (numpy raises IndexError)
    for i in range(40 if big else 10):
        A = gen_array(rng)
        if i % 3:
            r = rng.randrange(len(A["idx"])); A["idx"][r][rng.randrange(3)] = len(A["verts"]) + rng.randint(0, 2)
        yield dict(A, op="a_checked")

# ----------------------------------------------------------------------------- Coq printing
def cpt(p): return ctup([cq(p[0]), cq(p[1])])
def ctri(t): return ctup([cpt(t[0]), cpt(t[1]), cpt(t[2])])
def ctris(ts): return clist([ctri(t) for t in ts])
def cidx(rows): return clist([ctup([cnat(i) for i in r]) for r in rows])
def catri(idx, verts): return ctup([cidx(idx), clist([cpt(v) for v in verts])])
def czpts(cs): return clist([ctup([cz(c[0]), cz(c[1])]) for c in cs])
def ccs(c): return f"(mkq {czpts(c['coords'])} {cq(c['side'])} {cq(c['xo'])} {cq(c['yo'])} {cbool(c['fl'])})"
def cnats(l): return clist([cnat(i) for i in l])

def fr_tris(arr): return [[[frac(v[0]), frac(v[1])] for v in t] for t in np.asarray(arr)]
def fr_pts(arr): return [[frac(v[0]), frac(v[1])] for v in np.asarray(arr)]
def int_rows(arr): return [[int(x) for x in r] for r in np.asarray(arr)]
def atri_of(obj): return int_rows(obj.indices), fr_pts(obj.vertices)
def cs_of(obj):
    co = np.asarray(obj.coordinates)
    ints = [[int(round(float(x))) for x in r] for r in co]
    assert all(float(a) == b for r, ri in zip(co, ints) for a, b in zip(r, ri)), "non-integer lattice coordinates"
    return {"coords": ints, "side": frac(obj.side_length), "xo": frac(obj.x_offset), "yo": frac(obj.y_offset),
            "fl": bool(obj.flipped)}

def cshape(sh):
    k = sh[0]
    if k == "point": return f"(QPoint {cpt(sh[1])})"
    if k == "circle": return f"(QCircle {cpt(sh[1])} {cq(sh[2])})"
    if k == "triangle": return f"(QTriangle {cpt(sh[1])} {cpt(sh[2])} {cpt(sh[3])})"
    if k == "polygon": return f"(QPolygon {clist([cpt(p) for p in sh[1]])})"
    if k == "square": return f"(QSquare {cq(sh[1])} {cq(sh[2])} {cq(sh[3])} {cq(sh[4])})"
    raise ValueError(k)

def py_shape(sh):
    from autoarray.structures.triangles import shape as SH
    k = sh[0]; fl = float
    if k == "point": return SH.Point(fl(sh[1][0]), fl(sh[1][1]))
    if k == "circle": return SH.Circle(fl(sh[1][0]), fl(sh[1][1]), radius=fl(sh[2]))
    if k == "triangle": return SH.Triangle(*[(fl(p[0]), fl(p[1])) for p in sh[1:4]])
    if k == "polygon": return SH.Polygon([(fl(p[0]), fl(p[1])) for p in sh[1]])
    if k == "square": return SH.Square(top=fl(sh[1]), bottom=fl(sh[2]), left=fl(sh[3]), right=fl(sh[4]))
    raise ValueError(k)

# ----------------------------------------------------------------------------- exact margins of the containment decisions
def is_dy(x):
    """small dyadic: every sum / product of a few of these is exact in double arithmetic"""
    x = Fraction(x); d = x.denominator
    return d & (d - 1) == 0 and d <= 1024 and abs(x) <= 4096
def mean_fr(l): return sum(l, Fraction(0)) / len(l)

class Band(Exception): pass

def dec(margin, exact_ok):
    """a comparison whose two sides differ by `margin` (exactly): refuse the case if rounding could flip it"""
    m = abs(margin)
    if m >= MARGIN: return
    if m == 0 and exact_ok: return
    raise Band()

def bary_dec(p, a, b, c, exact_ctx):
    den = (b[1] - c[1]) * (a[0] - c[0]) + (c[0] - b[0]) * (a[1] - c[1])
    exact_ctx = exact_ctx and all(is_dy(x) for q in (p, a, b, c) for x in q)
    if den == 0:
        if not exact_ctx: raise Band()
        return
    if abs(den) < MARGIN: raise Band()
    ca = ((b[1] - c[1]) * (p[0] - c[0]) + (c[0] - b[0]) * (p[1] - c[1])) / den
    cb = ((c[1] - a[1]) * (p[0] - c[0]) + (a[0] - c[0]) * (p[1] - c[1])) / den
    cc = 1 - ca - cb
    # with small dyadic inputs numerators and denominator are exact, so a quotient that is exactly 0 or 1 is computed
    # exactly; 1 - ca - cb is exact only if both quotients are themselves small dyadics
    for v in (ca, cb):
        dec(v, exact_ctx); dec(1 - v, exact_ctx)
    okc = exact_ctx and is_dy(ca) and is_dy(cb)
    dec(cc, okc); dec(1 - cc, okc)

def ref_of(sh):
    k = sh[0]
    if k in ("point", "circle"): return sh[1]
    if k == "triangle": return [mean_fr([p[0] for p in sh[1:4]]), mean_fr([p[1] for p in sh[1:4]])]
    if k == "polygon": return [mean_fr([p[0] for p in sh[1]]), mean_fr([p[1] for p in sh[1]])]
    if k == "square": return [(sh[3] + sh[4]) / 2, (sh[1] + sh[2]) / 2]

def tri_shape_dec(a, b, c, t, cen, cen_exact, exact_ctx):
    sw = lambda p: [p[1], p[0]]
    bary_dec(cen, sw(a), sw(b), sw(c), exact_ctx and cen_exact)
    r = [mean_fr([a[0], b[0], c[0]]), mean_fr([a[1], b[1], c[1]])]
    bary_dec(r, t[0], t[1], t[2], exact_ctx)

def check_band(sh, tris, exact_ctx):
    """raise Band if some decision of shape.mask(tris) is within the rounding band"""
    k = sh[0]
    r = ref_of(sh)
    for t in tris:
        cen = [mean_fr([v[0] for v in t]), mean_fr([v[1] for v in t])]
        cen_exact = exact_ctx and is_dy(cen[0]) and is_dy(cen[1])
        bary_dec(r, t[0], t[1], t[2], exact_ctx)
        if k == "circle":
            d2 = (cen[0] - r[0]) ** 2 + (cen[1] - r[1]) ** 2
            dec(d2 - sh[2] ** 2, cen_exact)
        elif k == "square":
            for m in (cen[0] - sh[3], sh[4] - cen[0], sh[2] - cen[1], cen[1] - sh[1]): dec(m, exact_ctx)
        elif k == "triangle":
            tri_shape_dec(sh[1], sh[2], sh[3], t, cen, cen_exact, exact_ctx)
        elif k == "polygon":
            vs = sh[1]
            for s2, s3 in zip(vs[1:], vs[2:]): tri_shape_dec(vs[0], s2, s3, t, cen, cen_exact, exact_ctx)

NUDGES = [(0, 0), (Fraction(1, 16), Fraction(1, 32)), (Fraction(-3, 64), Fraction(1, 16)), (Fraction(5, 128), Fraction(-7, 128)),
          (Fraction(11, 64), Fraction(13, 128))]
def shape_for(desc, tris, exact_ctx):
    """the requested shape, nudged off the rounding band if necessary; None if every attempt is inside the band"""
    for nd in NUDGES:
        sh = build_shape(desc, tris, exact_ctx, nd)
        try:
            check_band(sh, tris, exact_ctx)
            return sh
        except Band:
            continue
    return None

def build_shape(desc, tris, exact_ctx, nudge=(0, 0)):
    """concrete shape whose reference point has the requested barycentric position in one of `tris`"""
    import random
    rng = random.Random(desc["seed"])
    t = tris[desc["which"] % len(tris)]
    ca, cb = F(desc["bc"][0]) + nudge[0], F(desc["bc"][1]) + nudge[1]; cc = 1 - ca - cb
    p = [ca * t[0][0] + cb * t[1][0] + cc * t[2][0], ca * t[0][1] + cb * t[1][1] + cc * t[2][1]]
    sh = _build_shape(desc, p, rng)
    # snap every parameter to a double so that the shape the code sees is the shape the model sees
    sn = lambda x: frac(float(x))
    snp = lambda q: [sn(q[0]), sn(q[1])]
    k = sh[0]
    if k == "point": return ("point", snp(sh[1]))
    if k == "circle": return ("circle", snp(sh[1]), sn(sh[2]))
    if k == "square": return ("square",) + tuple(sn(x) for x in sh[1:])
    if k == "triangle": return ("triangle",) + tuple(snp(q) for q in sh[1:])
    return ("polygon", [snp(q) for q in sh[1]])

def _build_shape(desc, p, rng):
    size, asp = F(desc["size"]), F(desc["aspect"])
    k = desc["kind"]
    if k == "point": return ("point", p)
    if k == "circle": return ("circle", p, size)
    if k == "square":
        hw, hh = size / 2, size * asp / 2
        return ("square", p[1] - hh, p[1] + hh, p[0] - hw, p[0] + hw)
    d = [[Fraction(rng.randint(-8, 8), 4), Fraction(rng.randint(-8, 8), 4)] for _ in range(rng.randint(2, 4))]
    if k == "triangle":
        d = d[:2]
        d.append([-d[0][0] - d[1][0], -d[0][1] - d[1][1]])      # offsets sum to zero: the mean is p
        return ("triangle",) + tuple([p[0] + q[0], p[1] + q[1]] for q in d)
    d.append([-sum(q[0] for q in d), -sum(q[1] for q in d)])
    return ("polygon", [[p[0] + q[0], p[1] + q[1]] for q in d])

# ----------------------------------------------------------------------------- the operations
def hq():
    from autoarray.structures.triangles.abstract import HEIGHT_FACTOR
    return frac(HEIGHT_FACTOR)

def mk_array(inp):
    from autoarray.structures.triangles.array import ArrayTriangles
    verts = [[F(v[0]), F(v[1])] for v in inp["verts"]]
    A = ArrayTriangles(indices=np.array(inp["idx"], dtype=int).reshape(-1, 3),
                       vertices=np.array([[float(v[0]), float(v[1])] for v in verts]))
    return A, inp["idx"], verts

def mk_coord(inp):
    from autoarray.structures.triangles.coordinate_array import CoordinateArrayTriangles
    C = CoordinateArrayTriangles(coordinates=np.array(inp["coords"], dtype=int).reshape(-1, 2), side_length=float(F(inp["side"])),
                                 x_offset=float(F(inp["xo"])), y_offset=float(F(inp["yo"])), flipped=inp["fl"])
    for step in inp.get("pre", []):
        C = C.up_sample() if step == "up" else C.neighborhood()
    return C

def skip(kind):
    _skipped["in_band"] += 1
    return {"coq": None, "out": "skipped: a decision lies inside the rounding band", "py_ok": None, "nontrivial": False,
            "kind": kind + ":in-band"}

def array_ops(A, idx, verts, op, inp, ex, base):
    """operations on an ArrayTriangles object A whose exact input description is (idx, verts)"""
    from autoarray.structures.triangles.array import ArrayTriangles
    cA = catri(idx, verts)
    exb = cbool(ex)
    if op == "tris":
        out = fr_tris(A.triangles)
        area = frac(A.area)
        ok = len(A) == len(idx)
        return dict(base, coq=f"(KATris {cA} {ctris(out)})", extra_coq=[f"(KAArea {cA} {cq(area)})"] if ex else [],
                    out={"triangles": str(out)[:400], "area": str(area)}, py_ok=ok)
    if op == "up":
        U = A.up_sample()
        oi, ov = atri_of(U)
        ok = isinstance(U, ArrayTriangles) and len(U) == 4 * len(A) and bool(np.array_equal(U.triangles, A._up_sample_triangle()))
        return dict(base, coq=f"(KAUp {exb} {cA} {catri(oi, ov)})", out={"indices": oi, "vertices": str(ov)[:300]}, py_ok=ok)
    if op == "nbr":
        N = A.neighborhood()
        oi, ov = atri_of(N)
        return dict(base, coq=f"(KANbr {exb} {cA} {catri(oi, ov)})", out={"indices": oi, "vertices": str(ov)[:300]})
    if op == "for":
        sel = inp["sel"]
        R = A.for_indexes(np.array(sel, dtype=int))
        oi, ov = atri_of(R)
        ok = bool(np.array_equal(R.triangles, A.triangles[np.array(sel, dtype=int)])) if sel else len(R) == 0
        return dict(base, coq=f"(KAFor {exb} {cA} {cnats(sel)} {catri(oi, ov)})", out={"indices": oi, "vertices": str(ov)[:300]}, py_ok=ok)
    if op == "with":
        v2 = [[F(v[0]), F(v[1])] for v in inp["verts2"]]
        R = A.with_vertices(np.array([[float(v[0]), float(v[1])] for v in v2]))
        out = fr_tris(R.triangles)
        return dict(base, coq=f"(KAWith {cA} {clist([cpt(v) for v in v2])} {ctris(out)})", out=str(out)[:400])
    if op == "contain":
        tris = [[verts[i] for i in r] for r in idx]
        sh = shape_for(inp["shape"], tris, ex)
        if sh is None: return skip(base["kind"])
        out = [int(i) for i in A.containing_indices(py_shape(sh))]
        return dict(base, coq=f"(KAContain {cA} {cshape(sh)} {cnats(out)})", out=out, shape=str(sh)[:300])
    raise ValueError(op)

def run_case(inp):
    aa = import_aa()
    np.seterr(all="ignore")
    from autoarray.structures.triangles.array import ArrayTriangles
    from autoarray.structures.triangles.coordinate_array import CoordinateArrayTriangles
    op = inp["op"]
    h = hq()
    if op == "a_checked":
        A, idx, verts = mk_array(inp)
        try: out = ("ok", fr_tris(A.triangles))
        except Exception as e: out = ("raise", exn_name(e))
        return {"coq": f"(KATrisRes {catri(idx, verts)} {cres(out, ctris)})", "out": str(out)[:300], "py_ok": None,
                "nontrivial": len(idx) >= 2, "kind": op + (":raise" if out[0] == "raise" else "")}
    if op.startswith("a_") and op != "a_limits":
        A, idx, verts = mk_array(inp)
        base = {"kind": op, "nontrivial": len(idx) >= 2, "py_ok": None}
        return array_ops(A, idx, verts, op[2:], inp, True, base)
    if op in ("a_limits", "al_up", "al_nbr", "al_for", "al_contain"):
        y0, y1, x0, x1 = [F(v) for v in inp["lims"]]; sc = F(inp["scale"])
        if y1 == y0:      # np.arange(y, y + height, height): the row count ceil(((y+height)-y)/height) is rounding-dependent
            return skip(op)
        A = ArrayTriangles.for_limits_and_scale(float(y0), float(y1), float(x0), float(x1), float(sc))
        idx, verts = atri_of(A)
        base = {"kind": op, "nontrivial": len(idx) >= 2, "py_ok": None}
        if op == "a_limits":
            coq = f"(KALimits {cq(h)} {cq(y0)} {cq(y1)} {cq(x0)} {cq(x1)} {cq(sc)} {catri(idx, verts)})"
            return dict(base, coq=coq, out={"n_triangles": len(idx), "n_vertices": len(verts), "indices": idx[:12]})
        if len(idx) > 40: return {"coq": None, "out": "too large", "py_ok": None, "nontrivial": False, "kind": op + ":skipped-large"}
        sub = op[3:]
        inp2 = dict(inp)
        if sub == "for":
            import random
            r = random.Random(inp["seed"])
            inp2["sel"] = [r.randrange(len(idx)) for _ in range(r.randint(1, 6))]
        return array_ops(A, idx, verts, sub, inp2, False, base)
    if op == "c_limits":
        x0, x1, y0, y1 = [F(v) for v in inp["lims"]]; sc = F(inp["scale"])
        for v in (y0 / (h * sc), y1 / (h * sc)):      # int() of a quotient by the irrational height
            if v != 0 and abs(v - round(v)) < MARGIN: return skip(op)
        C = CoordinateArrayTriangles.for_limits_and_scale(float(x0), float(x1), float(y0), float(y1), float(sc))
        out = cs_of(C)
        coq = f"(KCLimits {cq(h)} {cq(x0)} {cq(x1)} {cq(y0)} {cq(y1)} {cq(sc)} {ccs(out)})"
        return {"coq": coq, "out": {"n": len(out["coords"]), "coords": out["coords"][:10]}, "py_ok": None,
                "nontrivial": len(out["coords"]) >= 2, "kind": op}
    if op.startswith("c_"):
        C = mk_coord(inp)
        S0 = cs_of(C)
        it = fr_tris(C.triangles)
        base = {"kind": op + ("+" + "".join(s[0] for s in inp.get("pre", [])) if inp.get("pre") else ""),
                "nontrivial": len(S0["coords"]) >= 2, "py_ok": None}
        if len(S0["coords"]) > 60: return {"coq": None, "out": "too large", "py_ok": None, "nontrivial": False, "kind": op + ":skipped-large"}
        pre = f"{cq(h)} {ccs(S0)}"
        if op == "c_tris":
            area = frac(C.area)
            ok = len(C) == len(S0["coords"])
            return dict(base, coq=f"(KCTris {pre} {ctris(it)})", extra_coq=[f"(KCArea {pre} {cq(area)})"],
                        out={"triangles": str(it)[:400], "area": str(area)}, py_ok=ok)
        if op in ("c_up", "c_nbr", "c_for"):
            if op == "c_up": R = C.up_sample(); k = "KCUp"; mid = ""
            elif op == "c_nbr": R = C.neighborhood(); k = "KCNbr"; mid = ""
            else:
                import random
                r = random.Random(inp["selseed"]); n = len(S0["coords"])
                sel = [r.randrange(n) for _ in range(r.randint(0, n + 1))]
                R = C.for_indexes(np.array(sel, dtype=int)); k = "KCFor"; mid = cnats(sel) + " "
            ok = isinstance(R, CoordinateArrayTriangles)
            if op == "c_up": ok = ok and len(R) == 4 * len(C) and abs(float(R.area) - float(C.area)) <= 1e-9 * max(1.0, float(C.area))
            So = cs_of(R); ot = fr_tris(R.triangles) if len(So["coords"]) else []
            return dict(base, coq=f"({k} {pre} {ctris(it)} {mid}{ccs(So)} {ctris(ot)})",
                        out={"coords": So["coords"], "side": str(So["side"]), "yo": str(So["yo"]), "fl": So["fl"]}, py_ok=ok)
        if op == "c_repr":
            oi, ov = int_rows(C.indices), fr_pts(C.vertices)
            W = C.with_vertices(C.vertices)
            ok = isinstance(W, ArrayTriangles) and bool(np.array_equal(W.triangles, C.triangles))
            return dict(base, coq=f"(KCRepr {pre} {catri(oi, ov)})", out={"indices": oi, "vertices": str(ov)[:300]}, py_ok=ok)
        if op == "c_contain":
            sh = shape_for(inp["shape"], it, False)
            if sh is None: return skip(base["kind"])
            out = [int(i) for i in C.containing_indices(py_shape(sh))]
            return dict(base, coq=f"(KCContain {pre} {ctris(it)} {cshape(sh)} {cnats(out)})", out=out, shape=str(sh)[:300])
    if op == "shape_init":
        import random
        from autoarray.structures.triangles import shape as SH
        r = random.Random(inp["seed"])
        vs = [[Fraction(r.randint(-8, 8), 4), Fraction(r.randint(-8, 8), 4)] for _ in range(inp["nv"])]
        try:
            P = SH.Polygon([(float(p[0]), float(p[1])) for p in vs])
            out = ("ok", [frac(P.x), frac(P.y)])
        except Exception as e:
            out = ("raise", exn_name(e))
        return {"coq": f"(KShapeInit (QPolygon {clist([cpt(p) for p in vs])}) {cres(out, cpt)})", "out": str(out), "py_ok": None,
                "nontrivial": inp["nv"] >= 3, "kind": op}
    raise ValueError(op)
