(* C05 -- soundness of the executable KKT certificate [kkt_ok] that the correspondence run evaluates on the IMPLEMENTATION's output,
   whatever way the solver left its loop (loop condition, no_update break, ...):
     kkt_ok A b d tol = true   ==>   d >= 0, |gradient| <= tol on the positive entries, gradient >= -tol on the zero entries
                               ==>   (A symmetric positive definite)  F(d) <= F(y) + tol * (sum y + sum d)  for every y >= 0,
   F(s) = 1/2 s^T A s - b^T s.  No statement about the solver model is used: this is a property of the certificate alone, so a
   vector that passes is near-optimal even if the active-set loop was left early, and a vector that is clearly not optimal
   (negative gradient on a zero entry) cannot pass. *)
From Coq Require Import ZArith List Bool Reals Lra Lia Arith.
From PAV Require Import Base.Res Base.Check Base.NumOps Base.Sum Model.C05 Proofs.C05.
Import ListNotations.
Open Scope R_scope.

(* what the certificate establishes: approximate KKT *)
Definition KKTa (A : list (list R)) (b d : list R) (tol : R) : Prop :=
  length d = length b /\
  forall i, (i < length b)%nat ->
    0 <= nth i d 0 /\ (0 < nth i d 0 -> Rabs (gradR A b d i) <= tol) /\ (nth i d 0 = 0 -> - tol <= gradR A b d i).

Lemma absT_Rabs (x : R) : @absT ROps x = Rabs x.
Proof.
  unfold absT, zero. cbn [ltb opp ofZ ROps]. destruct (Rltb x 0) eqn:E; rbool.
  - rewrite Rabs_left by exact E. reflexivity.
  - rewrite Rabs_right by lra. reflexivity.
Qed.

Lemma kkt_ok_sound A b d (tol : R) : @kkt_ok ROps A b d tol = true -> KKTa A b d tol.
Proof.
  unfold kkt_ok. norm. intros H. apply andb_true_iff in H. destruct H as [Hl H].
  apply Nat.eqb_eq in Hl. split; [exact Hl|]. intros i Hi.
  rewrite forallb_forall in H. specialize (H i). rewrite in_seq in H. specialize (H ltac:(lia)).
  rewrite nthT_R, grad_gradR in H. apply andb_true_iff in H. destruct H as [H1 H2].
  unfold zero in *. cbn [leb ltb opp ofZ ROps] in *. rbool.
  split; [exact H1|]. destruct (Rltb 0 (nth i d 0)) eqn:E; rbool.
  - rewrite absT_Rabs in H2. rbool. split; [intros _; exact H2|]. intros Hz. lra.
  - rbool. split; [intros Hp; lra|]. intros _. exact H2.
Qed.

(* exact KKT (what the solver model is proved to return through its loop condition) is approximate KKT *)
Lemma KKT_KKTa A b d (tau : R) : 0 <= tau -> KKT A b d tau -> KKTa A b d tau.
Proof.
  intros Ht [Hl H]. split; [exact Hl|]. intros i Hi. destruct (H i Hi) as [H1 [H2 H3]].
  split; [exact H1|]. split; [|exact H3]. intros Hp. rewrite (H2 Hp), Rabs_R0. exact Ht.
Qed.

Theorem kkta_minimiser n A b d (tol : R) y :
  wf n A b -> sym_mat n A -> pos_def n A -> 0 <= tol -> KKTa A b d tol ->
  length y = n -> (forall i, (i < n)%nat -> 0 <= nth i y 0) ->
  objR A b d - tol * (sumR y + sumR d) <= objR A b y.
Proof.
  intros Hwf Hsym Hpd Ht [Hl Hk] Hy Hpos. pose proof Hwf as [HA [Hr Hb]]. rewrite Hb in *.
  pose proof (objR_expansion n A b d y Hwf Hsym Hl Hy) as HE. cbv zeta in HE.
  set (e := fun i => vf y i - vf d i) in *.
  assert (Hq : 0 <= Bil (aij A) n e e).
  { destruct (all_zero_dec n e) as [Hz|Hnz]; [rewrite Bil_zero by exact Hz; lra|].
    set (el := map e (seq 0 n)).
    assert (Hel : length el = n) by (unfold el; rewrite map_length, seq_length; reflexivity).
    assert (Hev : forall i, (i < n)%nat -> vf el i = e i) by (intros i Hi; unfold vf, el; apply nth_map_seq; exact Hi).
    pose proof (Hpd el Hel) as H0. rewrite (quadR_Bil n A b el Hwf Hel) in H0.
    rewrite (Bil_ext _ n (vf el) (vf el) e e Hev Hev) in H0. apply Rlt_le. apply H0.
    destruct Hnz as [i [Hi He]]. exists i. split; [exact Hi|]. change (vf el i <> 0). rewrite Hev by exact Hi. exact He. }
  assert (Hg : S1 n (fun i => - tol * (vf y i + vf d i)) <= S1 n (fun i => gradR A b d i * e i)).
  { apply S1_le. intros i Hi. destruct (Hk i Hi) as [H1 [H2 H3]]. specialize (Hpos i Hi).
    unfold e, vf in *. destruct (Rle_lt_or_eq_dec _ _ H1) as [Hlt|Heq].
    - specialize (H2 Hlt). unfold Rabs in H2. destruct (Rcase_abs (gradR A b d i)) in H2; nra.
    - specialize (H3 (eq_sym Heq)). rewrite <- Heq. nra. }
  rewrite S1_scal, S1_add in Hg. rewrite !sumR_S1, Hy, Hl. fold (vf y) (vf d). lra.
Qed.

(* the statement used by the check: an output accepted by the executable certificate is a minimiser up to tol * (sum y + sum d) *)
Theorem certified_output_is_minimiser n A b d (tol : R) y :
  wf n A b -> sym_mat n A -> pos_def n A -> 0 <= tol -> @kkt_ok ROps A b d tol = true ->
  length y = n -> (forall i, (i < n)%nat -> 0 <= nth i y 0) ->
  objR A b d - tol * (sumR y + sumR d) <= objR A b y.
Proof. intros Hwf Hs Hp Ht Hk. apply (kkta_minimiser n A b d tol y Hwf Hs Hp Ht). apply kkt_ok_sound. exact Hk. Qed.

(* a vector with a gradient below -tol on one of its zero entries is rejected: the shape of the early-exit failure *)
Theorem certificate_rejects_negative_gradient A b d (tol : R) i :
  (i < length b)%nat -> nth i d 0 = 0 -> gradR A b d i < - tol -> @kkt_ok ROps A b d tol = false.
Proof.
  intros Hi Hz Hg. destruct (@kkt_ok ROps A b d tol) eqn:E; [|reflexivity].
  destruct (kkt_ok_sound A b d tol E) as [_ H]. destruct (H i Hi) as [_ [_ H3]]. specialize (H3 Hz). lra.
Qed.
