(* C19 -- correspondence checker: runs the GENERATED model (Gen/Gen_layout.v) on the inputs of a
   case and compares with what the implementation returned. *)
From Coq Require Import ZArith List Bool.
From PAV Require Import Base.Res Base.Check Gen.Gen_layout Model.C19.
Import ListNotations.
Local Open Scope Z_scope.

(* hand model of the Layout2D glue (autoarray/layout/layout.py), on top of the generated functions:
   the three regions are rotated / extracted in the code's order, the first exception wins *)
Definition rbind {A B} (x : res A) (f : A -> res B) : res B := match x with Ok a => f a | Raise e => Raise e end.
Definition lay_rot (l : layout) (c : reg1) : res layout :=
  let '(s, c0, po, sp, so) := l in
  rbind (rotate_region_via_roe_corner_from po s c) (fun po' =>
  rbind (rotate_region_via_roe_corner_from sp s c) (fun sp' =>
  rbind (rotate_region_via_roe_corner_from so s c) (fun so' => Ok (s, c, po', sp', so')))).
Definition lay_ext (l : layout) (e : reg2) : res layout :=
  let '(s, c0, po, sp, so) := l in
  rbind (region_after_extraction po e) (fun po' =>
  rbind (region_after_extraction sp e) (fun sp' =>
  rbind (region_after_extraction so e) (fun so' => Ok (s, c0, po', sp', so')))).

(* model of a history on one array object: the state is (contents, corner, the array returned by the latest read);
   reads are the GENERATED rotation of the current contents, writes are numpy slice assignments, every returned
   array is a fresh one (an edit of it does not touch the contents, a write does not touch it) *)
Fixpoint arun (steps : list astep) (m : list (list Z)) (c : reg1) (last : option (list (list Z)))
  : list (option (list (list Z))) :=
  match steps with
  | [] => []
  | ARead :: t => let o := rotate_array_via_roe_corner_from m c in o :: arun t m c o
  | ASlice r :: t => let o := Some (slice2 m r) in o :: arun t m c o
  | AWrite r v :: t => arun t (fill2 m r v) c last
  | AEditOut r v :: t => let o := option_map (fun a => fill2 a r v) last in o :: arun t m c o
  | ALast :: t => last :: arun t m c last
  | ACorner c' :: t => arun t m c' last
  | ADerive :: t => arun t m c last
  end.

(* the read-only attributes, through the GENERATED accessors (the slices np.s_[a:b] are modelled by hand as (a, b)) *)
Definition props1 (s : reg1) : list Z :=
  [Region1D_x0 s; Region1D_x1 s; Region1D_total_pixels s; Region1D_x0 s; Region1D_x1 s; Region1D_x0 s; Region1D_x1 s].
Definition props2 (s : reg2) (p : reg1) : list Z :=
  let sh := Region2D_shape s in let rg := Region2D_serial_x_front_range_from s p in
  [Region2D_y0 s; Region2D_y1 s; Region2D_x0 s; Region2D_x1 s; Region2D_total_rows s; Region2D_total_columns s;
   fst sh; snd sh; fst rg; snd rg;
   Region2D_y0 s; Region2D_y1 s; Region2D_x0 s; Region2D_x1 s; Region2D_y0 s; Region2D_y1 s; Region2D_x0 s; Region2D_x1 s].
(* hand model of rotate_pattern_ci_via_roe_corner_from: the list comprehension over the generated region rotation *)
Fixpoint mapM_res {A B} (f : A -> res B) (l : list A) : res (list B) :=
  match l with
  | [] => Ok []
  | x :: t => rbind (f x) (fun y => rbind (mapM_res f t) (fun ys => Ok (y :: ys)))
  end.
Definition pat_rot (rs : list (option reg2)) (s c : reg1) : res (list (option reg2)) :=
  mapM_res (fun r => rotate_region_via_roe_corner_from r s c) rs.

Definition agree (k : case) : bool :=
  match k with
  | KInit1 r out => r1e (Region1D_init r) out
  | KInit2 r out => r2e (Region2D_init r) out
  | KFront1 s p e out => r1e (Region1D_front_region_from s p e) out
  | KTrail1 s p out => r1e (Region1D_trailing_region_from s p) out
  | KParFront s p e out => r2e (Region2D_parallel_front_region_from s p e) out
  | KParTrail s p out => r2e (Region2D_parallel_trailing_region_from s p) out
  | KParFull s sh out => r2e (Region2D_parallel_full_region_from s sh) out
  | KSerFront s p e out => r2e (Region2D_serial_front_region_from s p e) out
  | KSerTrail s p out => r2e (Region2D_serial_trailing_region_from s p) out
  | KSerRoe s sh p out => r2e (Region2D_serial_towards_roe_full_region_from s sh p) out
  | KX0X1 a b c d out => prod_eqb (option_eqb Z.eqb) (option_eqb Z.eqb) (x0x1_after_extraction a b c d) out
  | KExtract o e out => or2e (region_after_extraction o e) out
  | KRotRegion r s c out => or2e (rotate_region_via_roe_corner_from r s c) out
  | KRotArray m c out => option_eqb arr_eqb (rotate_array_via_roe_corner_from m c) out
  | KCommute m r c out =>
      let s := shape_of m in
      match rotate_array_via_roe_corner_from m c, rotate_region_via_roe_corner_from (Some r) s c with
      | Some m', Ok (Some r') => arr_eqb (slice2 m' r') out
      | _, _ => false
      end
  | KTwice m r c out =>
      let s := shape_of m in
      match rotate_array_via_roe_corner_from m c with
      | Some m1 =>
          match rotate_array_via_roe_corner_from m1 c, rotate_region_via_roe_corner_from (Some r) s c with
          | Some m2, Ok (Some r1) =>
              match rotate_region_via_roe_corner_from (Some r1) s c with
              | Ok (Some r2) => prod_eqb arr_eqb reg2_eqb (m2, r2) out
              | _ => false
              end
          | _, _ => false
          end
      | None => false
      end
  | KLayRot l c out => rle (lay_rot l c) out
  | KLayExt l e out => rle (lay_ext l e) out
  | KSlice m r out => arr_eqb (slice2 m r) out
  | KHistA m0 c0 steps outs => list_eqb oarr_eqb (arun steps m0 c0 None) outs
  | KProps1 s out => list_eqb Z.eqb (props1 s) out
  | KProps2 s p out => list_eqb Z.eqb (props2 s p) out
  | KRotPattern rs s c out => res_eqb (list_eqb oreg_eqb) (pat_rot rs s c) out
  end.

Definition check (k : case) : nat := verdict (agree k) (spec_ok k).
