"""py2v plug-in `geometry`: FAIL-CLOSED translation of the float geometry code of PyAutoArray to Gallina over NumOps.

Emits coq/Gen/Gen_geometry.v from
  autoarray/geometry/geometry_util.py   (scalar conversions, the slim-grid conversion loops, the native 3-D index loop)
  autoarray/geometry/geometry_2d.py     (Geometry2D: the extent properties, central coordinates, the scalar and grid METHODS)
  autoarray/geometry/geometry_1d.py     (Geometry1D: the four extent properties)
  autoarray/mask/mask_2d_util.py        (mask_2d_centres_from; the circular / annular / anti-annular / elliptical constructor loops)
  autoarray/mask/mask_2d.py, mask_1d.py (the classmethod constructors all_false / circular / ... / elliptical_annular, .geometry)
  autoarray/mask/derive/{mask_2d,grid_2d,mask_1d}.py   (derive_mask.all_false, derive_grid.all_false / unmasked)
  autoarray/structures/grids/grid_2d_util.py, grid_1d_util.py  (pixel-centre grids from a mask / from a shape)
  autoarray/structures/grids/uniform_2d.py, uniform_1d.py      (Grid2D / Grid1D .from_mask, .uniform)

Scope (everything else raises py2v.Fail naming the node -- never guessed):
  * straight-line functions / methods / classmethods / properties: `name = expr` assignments (local `from autoarray.x import Class` lines are
    skipped), a final `return expr`; docstrings skipped; every default in a translated signature must be an all-zero tuple, False or None;
  * expressions: int / float constants (floats must be dyadic, emitted as exact fractions), names, tuples, constant
    subscripts of tuples, + - * / unary -, x**2, int(), float(), np.sqrt, np.array(x) (values of an object / identity on tuples),
    np.full(shape, bool), a.astype('int'), comparisons (also chained), and/or/not, keyword calls of other translated functions
    (module-qualified, `cls.m(...)`, `Class.m(...)`, `self.m(...)`), constructor calls of the object classes, attributes of objects from a
    fixed table (ATTRS) or translated properties (OBJPROPS), `self.<attr>` inside the pinned geometry classes;
  * four loop shapes, recognised literally (see the tr_* functions): the row-wise map over a slim grid, the row-of-rows map over a native grid,
    the masked row-major gather with a running index, and the `np.full(shape, True)` + conditional `= False` double loop.
Types are declared (plan tables in gen_geometry), not inferred: Z (python int), T (python/numpy float -> NumOps carrier), tuples of these,
`grid` = list (T*T), `vec` = list T, `mask` = list (list bool), `grid3` = list (list (T*T)), and OBJECTS = the tuple of what the constructor
stores (Mask2D = (content, pixel_scales, origin), Grid2D = (slim values, mask object), ...: see the header of the generated file, which also
states the pinned glue and the constructor contract).  A python 1-tuple is its single component.  An `over_sampling` parameter is opaque:
it may only be handed on and is not represented.
Semantics kept: operation ORDER and association exactly as written (so that exact-rational execution follows the
code's own arithmetic), `int()` = truncation toward zero (NumOps.trunc), `/` = NumOps.div (division by zero is not
modelled: theorems carry `pixel_scale > 0`), values written into a float array by `a[i] = int(..)` are re-injected by ofZ.
"""
import ast, os, textwrap
from fractions import Fraction
import py2v
from py2v import Fail, fail, find_def, pinned, write_if_changed

# ------------------------------------------------------------------ types
Z, T, B = "Z", "T", "bool"
def Tup(*ts): return ("tup",) + tuple(ts)
ZZ, TT, T4 = Tup(Z, Z), Tup(T, T), Tup(T, T, T, T)
GRID, VEC, MASK, MASK1 = "grid", "vec", "mask", "mask1"
GRID3 = "grid3"                      # a natively shaped grid: rows of rows of (y, x)
# objects: an instance is the tuple of what its constructor stores (see the header of the generated file)
M2O, G2O, A2O, GEO2 = "mask2d_obj", "grid2d_obj", "array2d_obj", "geometry2d_obj"
M1O, G1O, GEO1 = "mask1d_obj", "grid1d_obj", "geometry1d_obj"
DM2O, DG2O, DM1O = "derive_mask2d_obj", "derive_grid2d_obj", "derive_mask1d_obj"     # DeriveX(mask=m) is represented by m
OPQ = "opaque"                       # a parameter that is only handed on (over_sampling): not represented

def coq_ty(t):
    if t == Z: return "Z"
    if t == T: return "T O"
    if t == B: return "bool"
    if t == GRID: return "list (T O * T O)"
    if t == VEC: return "list (T O)"
    if t == MASK: return "list (list bool)"
    if t == MASK1: return "list bool"
    if t == GRID3: return "list (list (T O * T O))"
    if t in (M2O, DM2O, DG2O): return "(list (list bool) * (T O * T O) * (T O * T O))"
    if t == G2O: return "(list (T O * T O) * " + coq_ty(M2O) + ")"
    if t == A2O: return "(list (T O) * " + coq_ty(M2O) + ")"
    if t == GEO2: return "((Z * Z) * (T O * T O) * (T O * T O))"
    if t in (M1O, DM1O): return "(list bool * T O * T O)"
    if t == G1O: return "(list (T O) * " + coq_ty(M1O) + ")"
    if t == GEO1: return "(Z * T O * T O)"
    if isinstance(t, tuple) and t[0] == "tup":
        return "(" + " * ".join(coq_ty(x) for x in t[1:]) + ")"
    raise Fail(f"py2v: no Coq type for {t}")

def proj(e, t, k):
    """k-th component of a Coq tuple expression of python type t (left-nested pairs)"""
    n = len(t) - 1
    if not (0 <= k < n): raise Fail(f"py2v: tuple index {k} out of range for {t}")
    s = e
    for _ in range(n - 1 - k if k > 0 else n - 1): s = f"(fst {s})"
    if k > 0: s = f"(snd {s})"
    return s, t[1 + k]

class Ctx:
    def __init__(self, funcs, env, selfinfo=None):
        self.funcs = funcs        # name -> (coq_name, [(pname, type)], ret_type)
        self.env = dict(env)      # local name -> type
        self.selfinfo = selfinfo  # (class prefix, {attr: type}, {prop: type}, coq args string)
        self.subst = {}           # ast.dump(node) -> (coq, type): array reads `a[i, 0]` bound by a loop pattern
        self.real = False         # True: a real-number-only function (np.arctan2 / sin / cos / radians allowed)
        self.clsname = None       # the class whose classmethod is being translated (`cls(...)`, `cls.m(...)`)
        self.methods = {}         # methods of the pinned class of `self`: name -> (coq_name, params, ret)

def const(v, node):
    if isinstance(v, bool): fail(node, "boolean constant")
    if isinstance(v, int): return (f"({v})" if v < 0 else str(v)), Z
    if isinstance(v, float):
        f = Fraction(v)
        if f.denominator & (f.denominator - 1): fail(node, "non-dyadic float constant")
        if f.denominator > 2 ** 20 or abs(f.numerator) > 2 ** 40: fail(node, "float constant is not a short dyadic")
        num = f"(ofZ O ({f.numerator}))" if f.numerator < 0 else f"(ofZ O {f.numerator})"
        return (num if f.denominator == 1 else f"(div O {num} (ofZ O {f.denominator}))"), T
    fail(node, "constant")

def to_T(e, t, node):
    if t == T: return e
    if t == Z: return f"(ofZ O {e})"
    fail(node, f"expected a number, got {t}")

def is_np(node, name):
    return isinstance(node, ast.Attribute) and isinstance(node.value, ast.Name) and node.value.id == "np" and node.attr == name

def tr(node, cx):
    """-> (coq expression, type)"""
    key = ast.dump(node)
    if key in cx.subst: return cx.subst[key]
    if isinstance(node, ast.Constant): return const(node.value, node)
    if isinstance(node, ast.Name):
        if node.id not in cx.env: fail(node, "unknown name")
        return node.id, cx.env[node.id]
    if isinstance(node, ast.Tuple):
        parts = [tr(e, cx) for e in node.elts]
        if len(parts) == 1: return parts[0]
        return "(" + ", ".join(p[0] for p in parts) + ")", Tup(*[p[1] for p in parts])
    if isinstance(node, ast.Attribute):
        if isinstance(node.value, ast.Name) and node.value.id == "self" and cx.selfinfo:
            prefix, attrs, props, args = cx.selfinfo
            if node.attr in attrs: return node.attr, attrs[node.attr]
            if node.attr in props: return f"({prefix}_{node.attr} {args})", props[node.attr]
            fail(node, "attribute")
        if isinstance(node.value, (ast.Name, ast.Attribute)):
            e, t = tr(node.value, cx)
            if (t, node.attr) in ATTRS:
                fmt, rt = ATTRS[(t, node.attr)]
                return fmt.format(e=e), rt
            if (t, node.attr) in OBJPROPS:                   # a translated @property of the object's class
                cname, rt = OBJPROPS[(t, node.attr)]
                if cx.real: cname = f"@{cname} ROps"
                return f"({cname} {e})", rt
        fail(node, "attribute")
    if isinstance(node, ast.Subscript):
        idx = node.slice
        if isinstance(idx, ast.Constant) and isinstance(idx.value, int) and not isinstance(idx.value, bool):
            e, t = tr(node.value, cx)
            if t in (Z, T):                 # a python 1-tuple is represented by its component
                if idx.value != 0: fail(node, "index into a 1-tuple")
                return e, t
            if isinstance(t, tuple) and t[0] == "tup": return proj(e, t, idx.value)
        fail(node, "subscript")
    if isinstance(node, ast.UnaryOp):
        if isinstance(node.op, ast.USub):
            e, t = tr(node.operand, cx)
            if t == Z: return f"(- {e})", Z
            if t == T: return f"(opp O {e})", T
        if isinstance(node.op, ast.Not):
            e, t = tr(node.operand, cx)
            if t == B: return f"(negb {e})", B
        fail(node, "unary operator")
    if isinstance(node, ast.BinOp):
        a, ta = tr(node.left, cx); b, tb = tr(node.right, cx)
        if isinstance(node.op, ast.Pow):
            if isinstance(node.right, ast.Constant) and node.right.value in (2, 2.0) and not isinstance(node.right.value, bool):
                if ta == T: return f"(mul O {a} {a})", T
                if ta == Z: return f"({a} * {a})", Z
            fail(node, "power other than **2")
        if ta not in (Z, T) or tb not in (Z, T): fail(node, "arithmetic on non-numbers")
        if isinstance(node.op, ast.Div):
            return f"(div O {to_T(a, ta, node)} {to_T(b, tb, node)})", T
        ops = {ast.Add: ("+", "add"), ast.Sub: ("-", "sub"), ast.Mult: ("*", "mul")}
        for k, (zo, to) in ops.items():
            if isinstance(node.op, k):
                if ta == Z and tb == Z: return f"({a} {zo} {b})", Z
                return f"({to} O {to_T(a, ta, node)} {to_T(b, tb, node)})", T
        fail(node, "binary operator")
    if isinstance(node, ast.Compare):
        terms = [tr(node.left, cx)] + [tr(c, cx) for c in node.comparators]
        outs = []
        for (a, ta), op, (b, tb) in zip(terms, node.ops, terms[1:]):
            if ta not in (Z, T) or tb not in (Z, T): fail(node, "comparison of non-numbers")
            if ta == Z and tb == Z:
                m = {ast.LtE: f"({a} <=? {b})", ast.Lt: f"({a} <? {b})", ast.GtE: f"({b} <=? {a})", ast.Gt: f"({b} <? {a})"}
            else:
                a2, b2 = to_T(a, ta, node), to_T(b, tb, node)
                m = {ast.LtE: f"(leb O {a2} {b2})", ast.Lt: f"(ltb O {a2} {b2})",
                     ast.GtE: f"(leb O {b2} {a2})", ast.Gt: f"(ltb O {b2} {a2})"}
            if type(op) not in m: fail(node, "comparison operator")
            outs.append(m[type(op)])
        e = outs[0]
        for o in outs[1:]: e = f"(andb {e} {o})"
        return e, B
    if isinstance(node, ast.BoolOp):
        parts = [tr(v, cx) for v in node.values]
        if any(t != B for _, t in parts): fail(node, "and/or of non-booleans")
        f = "andb" if isinstance(node.op, ast.And) else "orb"
        e = parts[0][0]
        for p, _ in parts[1:]: e = f"({f} {e} {p})"
        return e, B
    if isinstance(node, ast.Call):
        fn = node.func
        if isinstance(fn, ast.Name) and fn.id in ("int", "float") and len(node.args) == 1 and not node.keywords:
            e, t = tr(node.args[0], cx)
            if t not in (Z, T): fail(node, "int()/float() of a non-number")
            if fn.id == "float": return to_T(e, t, node), T
            return (e if t == Z else f"(trunc {e})"), Z
        if is_np(fn, "sqrt") and len(node.args) == 1 and not node.keywords:
            e, t = tr(node.args[0], cx)
            return f"(sqrtT O {to_T(e, t, node)})", T
        if is_np(fn, "array") and len(node.args) == 1 and not node.keywords:
            # np.array(x): the values of a slim Grid2D / Grid1D, the content of a mask object; a tuple stays the tuple
            e, t = tr(node.args[0], cx)
            if t in (G2O, G1O, A2O): return f"(fst {e})", {G2O: GRID, G1O: VEC, A2O: VEC}[t]
            if t == M2O: return f"(fst (fst {e}))", MASK
            if t == M1O: return f"(fst (fst {e}))", MASK1
            if t in (TT, ZZ, T, Z, GRID, VEC, MASK, MASK1): return e, t
            fail(node, "np.array of this type")
        if is_np(fn, "full"):
            kw = {k.arg: k.value for k in node.keywords}
            if node.args:
                if kw or len(node.args) != 2: fail(node, "np.full call shape")
                kw = {"shape": node.args[0], "fill_value": node.args[1]}
            if set(kw) != {"shape", "fill_value"}: fail(node, "np.full arguments")
            fv = kw["fill_value"]
            if not (isinstance(fv, ast.Constant) and isinstance(fv.value, bool)): fail(node, "np.full fill value is not a boolean constant")
            e, t = tr(kw["shape"], cx)
            b = "true" if fv.value else "false"
            if t == ZZ: return f"(full2 {b} {e})", MASK
            if t == Z: return f"(full1 {b} {e})", MASK1
            fail(node, "np.full shape type")
        if (isinstance(fn, ast.Attribute) and fn.attr == "astype" and len(node.args) == 1 and not node.keywords
                and isinstance(node.args[0], ast.Constant) and node.args[0].value == "int"):
            e, t = tr(fn.value, cx)
            if t == GRID: return f"(astype_int_grid {e})", GRID
            if t == VEC: return f"(astype_int_vec {e})", VEC
            fail(node, ".astype('int') of this type")
        # constructors of the object classes
        ctor = None
        if isinstance(fn, ast.Name):
            ctor = cx.clsname if fn.id == "cls" else fn.id
        if ctor in CTORS and not node.args:
            params, opt, fmt, rt = CTORS[ctor]
            kw = {k.arg: k.value for k in node.keywords}
            vals = {}
            for p, pt in params:
                if p in kw:
                    e, t = tr(kw.pop(p), cx)
                    if t != pt: fail(node, f"constructor {ctor}: argument {p}: expected {pt}, got {t}")
                    vals[p] = e
                elif p in opt: vals[p] = opt[p]
                else: fail(node, f"constructor {ctor}: argument {p} missing")
            for p, v in kw.items():          # an opaque pass-through argument is dropped
                if not (p == "over_sampling" and isinstance(v, ast.Name) and cx.env.get(v.id) == OPQ): fail(node, f"constructor {ctor}: argument {p}")
            e = fmt.format(**vals)
            if cx.real: e = e.replace("(Mask2D_new ", "(@Mask2D_new ROps ")
            return e, rt
        if cx.real and not node.keywords:
            for np_name, arity, coq in (("arctan2", 2, "atan2R"), ("radians", 1, "radiansR"), ("sin", 1, "sin"), ("cos", 1, "cos")):
                if is_np(fn, np_name) and len(node.args) == arity:
                    args = [to_T(*tr(a, cx), node) for a in node.args]
                    return f"({coq} " + " ".join(args) + ")", T
        name = None
        self_args = ""
        if isinstance(fn, ast.Name): name = fn.id
        elif isinstance(fn, ast.Attribute) and isinstance(fn.value, ast.Name):
            if fn.value.id in ("geometry_util", "mask_2d_util", "grid_2d_util", "grid_1d_util"): name = fn.attr
            elif fn.value.id == "self" and cx.selfinfo and fn.attr in cx.methods:        # a method of the same pinned class
                name = "self." + fn.attr; self_args = cx.selfinfo[3] + " "
            elif fn.value.id == "cls" and cx.clsname: name = cx.clsname + "." + fn.attr     # a classmethod of the same class
            elif fn.value.id in OBJ_CLASSES: name = fn.value.id + "." + fn.attr               # a classmethod of an object class
        table = dict(cx.funcs); table.update({"self." + k: v for k, v in cx.methods.items()})
        if name in IDENTITY:
            # pinned conversion that is the identity on an argument of the declared type (its `type(x) is float` branch is dead)
            pname, pt = IDENTITY[name]
            if node.args or [k.arg for k in node.keywords] != [pname]: fail(node, f"arguments of {name}")
            e, t = tr(node.keywords[0].value, cx)
            if t != pt: fail(node, f"argument of {name}: expected {pt}, got {t}")
            return e, t
        if name in table:
            cname, params, ret = table[name][:3]
            defaults = table[name][3] if len(table[name]) > 3 else {}
            if node.args and (node.keywords or len(node.args) != len(params)):
                fail(node, "mixed / partial positional arguments in a call of a translated function")
            kw = {p: a for (p, _), a in zip(params, node.args)} if node.args else {k.arg: k.value for k in node.keywords}
            if not (set(kw) <= {p for p, _ in params} and {p for p, _ in params} - set(kw) <= set(defaults)):
                fail(node, f"arguments of {name} are not {[p for p, _ in params]} (defaults: {sorted(defaults)})")
            args = []
            for p, pt in params:
                if p not in kw:
                    args.append(defaults[p]); continue
                if pt == OPQ:
                    if not (isinstance(kw[p], ast.Name) and cx.env.get(kw[p].id) == OPQ): fail(node, f"argument {p} of {name} is not a pass-through")
                    continue
                e, t = tr(kw[p], cx)
                if t != pt:
                    if pt == T and t == Z: e = to_T(e, t, node)
                    elif pt == TT and t == ZZ: e = f"(ofZ O (fst {e}), ofZ O (snd {e}))"
                    else: fail(node, f"argument {p} of {name}: expected {pt}, got {t}")
                args.append(e)
            args = [a for a in args if a is not None]
            if self_args: args = [self_args.strip()] + args
            if cx.real and name not in REAL_ONLY: cname = f"@{cname} ROps"      # a polymorphic definition used at the reals
            if (not cx.real) and name in REAL_ONLY: fail(node, "a real-number-only function called from executable code")
            return f"({cname} " + " ".join(args) + ")", ret
        fail(node, "call")
    fail(node, "expression")

REAL_ONLY = set()     # names of the functions emitted over R only (they use arctan2 / sin / cos)

def as_real(txt):
    """a definition emitted over the section variable O, specialised to ROps (placed after the section)"""
    import re
    txt = re.sub(r"\bO\b", "ROps", txt)
    return re.sub(r"\(trunc ", "(@trunc ROps ", txt)

def strip_doc(body):
    if body and isinstance(body[0], ast.Expr) and isinstance(body[0].value, ast.Constant) and isinstance(body[0].value.value, str):
        return body[1:]
    return body

def check_zero_defaults(fn):
    """every default written in a translated signature is one the model may ignore: an all-zero tuple (origin / origins / centre),
    False (invert) or None (over_sampling, shape_native) -- the correspondence harness calls the entry points WITHOUT these arguments
    whenever the value is the default, so the model (which always receives the value) stays tied to the code"""
    for d in list(fn.args.defaults) + [d for d in fn.args.kw_defaults if d is not None]:
        ok = (isinstance(d, ast.Constant) and (d.value is None or d.value is False)) or \
             (isinstance(d, ast.Tuple) and d.elts and all(isinstance(e, ast.Constant) and type(e.value) is float and e.value == 0.0 for e in d.elts))
        if not ok: fail(fn, "a default argument is not an all-zero tuple / False / None")

def check_args(fn, params, allow_self=False):
    check_zero_defaults(fn)
    a = fn.args
    names = [x.arg for x in a.args]
    if allow_self:
        if names[:1] != ["self"]: fail(fn, "method without self")
        names = names[1:]
    if a.vararg or a.kwarg or a.kwonlyargs or a.posonlyargs: fail(fn, "unsupported parameter kinds")
    if names != [p for p, _ in params]: fail(fn, f"parameters are {names}, expected {[p for p, _ in params]}")

def lets(stmts, cx):
    """straight-line `name = expr` prefix -> list of `let` lines; extends cx.env"""
    out = []
    for s in stmts:
        if isinstance(s, ast.ImportFrom) and s.module and s.module.startswith("autoarray.") and all(a.asname is None and a.name in OBJ_CLASSES for a in s.names):
            continue                                  # `from autoarray.x import Grid2D`: binds a class name of the fixed vocabulary
        if not (isinstance(s, ast.Assign) and len(s.targets) == 1 and isinstance(s.targets[0], ast.Name)): fail(s, "statement")
        e, t = tr(s.value, cx)
        n = s.targets[0].id
        if n in cx.env and cx.env[n] != t: fail(s, "re-assignment at a different type")
        cx.env[n] = t
        out.append(f"let {n} := {e} in")
    return out

def emit(cname, params, ret, body_lines, extra_params=""):
    ps = " ".join(f"({p} : {coq_ty(t)})" for p, t in params if t != OPQ)
    return f"Definition {cname} {extra_params}{ps} : {coq_ty(ret)} :=\n  " + "\n  ".join(body_lines) + ".\n"

def tr_straight(fn, cname, params, ret, funcs, selfinfo=None, real=False):
    check_args(fn, params if not selfinfo else [], allow_self=bool(selfinfo))
    cx = Ctx(funcs, {} if selfinfo else dict(params), selfinfo)   # a method sees its object's state only as self.<attr>
    cx.real = real
    body = strip_doc(fn.body)
    if not body or not isinstance(body[-1], ast.Return) or body[-1].value is None: fail(fn, "function does not end in `return expr`")
    lines = lets(body[:-1], cx)
    e, t = tr(body[-1].value, cx)
    if t != ret: fail(body[-1], f"return type {t}, declared {ret}")
    return emit(cname, params, ret, lines + [e])

# ------------------------------------------------------------------ objects (fixed vocabulary; the glue it rests on is pinned below)
OBJ_CLASSES = ("Mask2D", "Grid2D", "Array2D", "Geometry2D", "Mask1D", "Grid1D", "Geometry1D")
ATTRS = {
    (M2O, "pixel_scales"): ("(snd (fst {e}))", TT), (M2O, "origin"): ("(snd {e})", TT),
    (M2O, "shape"): ("(mshape (fst (fst {e})))", ZZ), (M2O, "shape_native"): ("(mshape (fst (fst {e})))", ZZ),
    (M2O, "derive_mask"): ("{e}", DM2O), (M2O, "derive_grid"): ("{e}", DG2O), (DM2O, "mask"): ("{e}", M2O), (DG2O, "mask"): ("{e}", M2O),
    (G2O, "mask"): ("(snd {e})", M2O), (A2O, "mask"): ("(snd {e})", M2O),
    # Structure.shape_native / pixel_scales / origin are the mask's (pinned)
    (G2O, "shape_native"): ("(mshape (fst (fst (snd {e}))))", ZZ), (G2O, "pixel_scales"): ("(snd (fst (snd {e})))", TT), (G2O, "origin"): ("(snd (snd {e}))", TT),
    (M1O, "pixel_scales"): ("(snd (fst {e}))", T), (M1O, "origin"): ("(snd {e})", T),
    (M1O, "shape"): ("(Z.of_nat (length (fst (fst {e}))))", Z), (M1O, "shape_native"): ("(Z.of_nat (length (fst (fst {e}))))", Z),
    (M1O, "shape_slim"): ("(Z.of_nat (length (fst (fst {e}))))", Z),
    (M1O, "derive_mask"): ("{e}", DM1O), (DM1O, "mask"): ("{e}", M1O), (G1O, "mask"): ("(snd {e})", M1O),
}
OBJPROPS = {}        # (object type, property name) -> (coq name, return type): filled as the properties are translated
CTORS = {            # class -> (parameters, optional ones with their default, format, result type)
    "Mask2D": ([("mask", MASK), ("pixel_scales", TT), ("origin", TT), ("invert", B)], {"invert": "false"},
               "(Mask2D_new {mask} {pixel_scales} {origin} {invert})", M2O),
    "Mask1D": ([("mask", MASK1), ("pixel_scales", T), ("origin", T), ("invert", B)], {"invert": "false"},
               "(Mask1D_new {mask} {pixel_scales} {origin} {invert})", M1O),
    "Geometry2D": ([("shape_native", ZZ), ("pixel_scales", TT), ("origin", TT)], {}, "({shape_native}, {pixel_scales}, {origin})", GEO2),
    "Geometry1D": ([("shape_native", Z), ("pixel_scales", T), ("origin", T)], {}, "({shape_native}, {pixel_scales}, {origin})", GEO1),
    "Grid2D": ([("values", GRID), ("mask", M2O)], {}, "({values}, {mask})", G2O),
    "Array2D": ([("values", VEC), ("mask", M2O)], {}, "({values}, {mask})", A2O),
    "Grid1D": ([("values", VEC), ("mask", M1O)], {}, "({values}, {mask})", G1O),
}
IDENTITY = {"convert_pixel_scales_2d": ("pixel_scales", TT), "convert_pixel_scales_1d": ("pixel_scales", T)}

def check_defaults(fn, defaults):
    """the declared defaults are the ones written in the source"""
    a = fn.args
    src = {x.arg: d for x, d in zip(a.args[len(a.args) - len(a.defaults):], a.defaults)}
    for p, v in defaults.items():
        d = src.get(p)
        if not (isinstance(d, ast.Constant) and isinstance(d.value, bool) and ("true" if d.value else "false") == v):
            fail(fn, f"default of {p} is not {v}")

def tr_method(fn, cname, self_params, params, ret, funcs, first, clsname=None, selfinfo=None, methods=None, self_ty=None, real=False):
    """a method / classmethod / property with a straight-line body.  first = "self" | "cls"; self_params: the Coq parameters that
    stand for `self` (the stored constructor arguments, or one object-typed `self`)"""
    check_zero_defaults(fn)
    a = fn.args
    names = [x.arg for x in a.args]
    if names[:1] != [first]: fail(fn, f"first parameter is not {first}")
    if a.vararg or a.kwarg or a.kwonlyargs or a.posonlyargs: fail(fn, "unsupported parameter kinds")
    if names[1:] != [p for p, _ in params]: fail(fn, f"parameters are {names[1:]}, expected {[p for p, _ in params]}")
    env = dict(params)
    if self_ty: env["self"] = self_ty
    cx = Ctx(funcs, env, selfinfo)
    cx.real = real; cx.clsname = clsname; cx.methods = methods or {}
    body = strip_doc(fn.body)
    if not body or not isinstance(body[-1], ast.Return) or body[-1].value is None: fail(fn, "method does not end in `return expr`")
    lines = lets(body[:-1], cx)
    e, t = tr(body[-1].value, cx)
    if t != ret: fail(body[-1], f"return type {t}, declared {ret}")
    return emit(cname, list(self_params) + list(params), ret, lines + [e])

# ------------------------------------------------------------------ loop shapes (recognised literally)
def key(src):
    return ast.dump(ast.parse(src, mode="eval").body)

def same(node, src):
    """node is literally the expression / assignment target `src`"""
    return ast.dump(node).replace("Store()", "Load()") == key(src)

def stmt_is(node, src):
    return ast.unparse(node) == ast.unparse(ast.parse(src).body[0])

def range_over(node):
    """`for v in range(E):` (no else) -> (v, E)"""
    if not (isinstance(node, ast.For) and isinstance(node.target, ast.Name) and not node.orelse
            and isinstance(node.iter, ast.Call) and isinstance(node.iter.func, ast.Name) and node.iter.func.id == "range"
            and len(node.iter.args) == 1 and not node.iter.keywords):
        fail(node, "loop header is not `for v in range(E)`")
    return node.target.id, node.iter.args[0]

def assigned_name(s):
    if isinstance(s, ast.Assign) and len(s.targets) == 1 and isinstance(s.targets[0], ast.Name): return s.targets[0].id
    return None

def store_value(s, target_src):
    """`target_src = E` -> E"""
    if not (isinstance(s, ast.Assign) and len(s.targets) == 1 and same(s.targets[0], target_src)):
        fail(s, f"statement is not `{target_src} = E`")
    return s.value

def tr_rowmap(fn, cname, params, funcs, src, width):
    """
        OUT = np.zeros((SRC.shape[0], 2))      |  OUT = np.zeros(SRC.shape[0])
        <name = expr>*                          (SRC is a parameter, or bound here by a call that returns a grid)
        for i in range(SRC.shape[0]):           (or OUT.shape[0]: the same number, by the allocation)
            OUT[i, 0] = E0 ; OUT[i, 1] = E1    |  OUT[i] = E
        return OUT
    where the E read SRC only as SRC[i, 0] / SRC[i, 1] and never read OUT or i:   OUT = map (fun row => (E0, E1)) SRC.
    """
    check_args(fn, params)
    cx = Ctx(funcs, dict(params))
    body = strip_doc(fn.body)
    if len(body) < 3 or not (isinstance(body[-1], ast.Return) and isinstance(body[-1].value, ast.Name)):
        fail(fn, "row-map: does not end in `return OUT`")
    out = body[-1].value.id
    loop = body[-2]
    i, bound = range_over(loop)
    pre = body[:-2]
    allocs = [k for k, s in enumerate(pre) if assigned_name(s) == out]
    if len(allocs) != 1: fail(fn, "row-map: OUT is not allocated exactly once")
    if src not in dict(params):
        binds = [k for k, s in enumerate(pre) if assigned_name(s) == src]
        if len(binds) != 1 or binds[0] > allocs[0]: fail(fn, "row-map: SRC is not bound once before the allocation")
    lines = lets([s for k, s in enumerate(pre) if k != allocs[0]], cx)
    if cx.env.get(src) != GRID or out in cx.env or i in cx.env: fail(fn, "row-map: name clash / source is not a grid")
    if not same(pre[allocs[0]].value, f"np.zeros(({src}.shape[0], 2))" if width == 2 else f"np.zeros({src}.shape[0])"):
        fail(pre[allocs[0]], "row-map: allocation is not np.zeros over the rows of the source")
    if not (same(bound, f"{src}.shape[0]") or same(bound, f"{out}.shape[0]")): fail(loop, "row-map: loop bound is not the row count")
    cxb = Ctx(funcs, {k: v for k, v in cx.env.items() if k != src})     # SRC, OUT, i are unreadable except as SRC[i, k]
    cxb.subst = {key(f"{src}[{i}, 0]"): ("(fst row)", T), key(f"{src}[{i}, 1]"): ("(snd row)", T)}
    targets = [f"{out}[{i}, 0]", f"{out}[{i}, 1]"] if width == 2 else [f"{out}[{i}]"]
    if len(loop.body) != len(targets): fail(loop, "row-map: loop body is not one store per output column")
    es = []
    for s, tg in zip(loop.body, targets):
        e, t = tr(store_value(s, tg), cxb)
        es.append(to_T(e, t, s))
    rowfun = f"(fun row : {coq_ty(TT)} => " + (f"({es[0]}, {es[1]})" if width == 2 else es[0]) + ")"
    return emit(cname, params, GRID if width == 2 else VEC, lines + [f"map {rowfun} {src}"])

def tr_rowmap3(fn, cname, params, funcs, src):
    """
        OUT = np.zeros((SRC.shape[0], SRC.shape[1], 2))
        <name = expr>*
        for y in range(SRC.shape[0]):
            for x in range(SRC.shape[1]):
                OUT[y, x, 0] = E0 ; OUT[y, x, 1] = E1
        return OUT
    where the E read SRC only as SRC[y, x, 0] / SRC[y, x, 1] and never read OUT, y or x:   OUT = map (map (fun row => (E0, E1))) SRC
    (SRC is a rectangular array: every row has SRC.shape[1] entries).
    """
    check_args(fn, params)
    cx = Ctx(funcs, dict(params))
    body = strip_doc(fn.body)
    if len(body) < 3 or not (isinstance(body[-1], ast.Return) and isinstance(body[-1].value, ast.Name)):
        fail(fn, "row-map-3: does not end in `return OUT`")
    out = body[-1].value.id
    if cx.env.get(src) != GRID3 or out in cx.env: fail(fn, "row-map-3: name clash / source is not a native grid")
    if not stmt_is(body[0], f"{out} = np.zeros(({src}.shape[0], {src}.shape[1], 2))"): fail(body[0], "row-map-3: allocation")
    lines = lets(body[1:-2], cx)
    loop = body[-2]
    y, b0 = range_over(loop)
    if not same(b0, f"{src}.shape[0]") or len(loop.body) != 1: fail(loop, "row-map-3: outer loop")
    inner = loop.body[0]
    x, b1 = range_over(inner)
    if not same(b1, f"{src}.shape[1]") or x == y or x in cx.env or y in cx.env: fail(inner, "row-map-3: inner loop")
    cxb = Ctx(funcs, {k: v for k, v in cx.env.items() if k != src})
    cxb.subst = {key(f"{src}[{y}, {x}, 0]"): ("(fst row)", T), key(f"{src}[{y}, {x}, 1]"): ("(snd row)", T)}
    targets = [f"{out}[{y}, {x}, 0]", f"{out}[{y}, {x}, 1]"]
    if len(inner.body) != 2: fail(inner, "row-map-3: loop body is not one store per output column")
    es = []
    for s, tg in zip(inner.body, targets):
        e, t = tr(store_value(s, tg), cxb)
        es.append(to_T(e, t, s))
    return emit(cname, params, GRID3, lines + [f"map (map (fun row : {coq_ty(TT)} => ({es[0]}, {es[1]}))) {src}"])

def tr_gather(fn, cname, params, funcs, mask, dims, total_call):
    """
        total_pixels = <total_call>(MASK)                 (pinned: the number of False entries)
        OUT = np.zeros(shape=(total_pixels, 2))           | np.zeros(shape=(total_pixels,))
        <name = expr>*                                    (MASK.shape is the mask's shape)
        index = 0
        for y in range(MASK.shape[0]):
            for x in range(MASK.shape[1]):                (dims = 1: a single loop over x)
                if not MASK[y, x]:
                    OUT[index, 0] = E0 ; OUT[index, 1] = E1 ; index += 1      | OUT[index] = E ; index += 1
        return OUT
    = the row-major concatenation, over the unmasked pixels, of [(E0, E1)]  (E may read y, x but not index / OUT / MASK).
    """
    check_args(fn, params)
    cx = Ctx(funcs, {k: v for k, v in params if k != mask})
    body = strip_doc(fn.body)
    if len(body) < 6 or not (isinstance(body[-1], ast.Return) and isinstance(body[-1].value, ast.Name)):
        fail(fn, "gather: does not end in `return OUT`")
    out = body[-1].value.id
    if not stmt_is(body[0], f"total_pixels = {total_call}({mask})"): fail(body[0], "gather: first statement is not the unmasked count")
    if not stmt_is(body[1], f"{out} = np.zeros(shape=(total_pixels, 2))" if dims == 2 else f"{out} = np.zeros(shape=(total_pixels,))"):
        fail(body[1], "gather: allocation is not np.zeros(shape=(total_pixels, ..))")
    if not stmt_is(body[-3], "index = 0"): fail(body[-3], "gather: `index = 0` does not precede the loop")
    shape_ty = ZZ if dims == 2 else Z
    shape_coq = f"(mshape {mask})" if dims == 2 else f"(Z.of_nat (length {mask}))"
    cx.subst[key(f"{mask}.shape")] = (shape_coq, shape_ty)
    lines = lets(body[2:-3], cx)
    for n in ("index", "total_pixels", out):
        if n in cx.env: fail(fn, "gather: name clash")
    loop = body[-2]
    vs = []
    for d in range(dims):
        v, bound = range_over(loop)
        if not same(bound, f"{mask}.shape[{d}]"): fail(loop, "gather: loop bound is not the mask's shape")
        if v in cx.env or v in vs: fail(loop, "gather: loop variable shadows a name")
        vs.append(v)
        if len(loop.body) != 1: fail(loop, "gather: loop body is not a single statement")
        loop = loop.body[0]
    test = loop
    cond = f"not {mask}[{vs[0]}, {vs[1]}]" if dims == 2 else f"not {mask}[{vs[0]}]"
    if not (isinstance(test, ast.If) and not test.orelse and same(test.test, cond)): fail(test, f"gather: not `if {cond}:` without else")
    targets = [f"{out}[index, 0]", f"{out}[index, 1]"] if dims == 2 else [f"{out}[index]"]
    if len(test.body) != len(targets) + 1 or not stmt_is(test.body[-1], "index += 1"): fail(test, "gather: body is not the stores followed by `index += 1`")
    cxb = Ctx(funcs, dict(cx.env)); cxb.subst = dict(cx.subst)
    for v in vs: cxb.env[v] = Z
    es = []
    for s, tg in zip(test.body, targets):
        e, t = tr(store_value(s, tg), cxb)
        es.append(to_T(e, t, s))
    if dims == 2:
        y, x = vs
        expr = (f"flat_map (fun {y} : Z => flat_map (fun {x} : Z => if mget2 {mask} {y} {x} then [] else [({es[0]}, {es[1]})]) "
                f"(zrange (snd (mshape {mask})))) (zrange (fst (mshape {mask})))")
        ret = GRID
    else:
        x = vs[0]
        expr = f"flat_map (fun {x} : Z => if mget1 {mask} {x} then [] else [{es[0]}]) (zrange (Z.of_nat (length {mask})))"
        ret = VEC
    return emit(cname, params, ret, lines + [expr])

def tr_maskfill(fn, cname, params, funcs, shape, real=False):
    """
        MASK = np.full(SHAPE, True)
        <name = expr>*                                   (MASK.shape is SHAPE)
        for y in range(MASK.shape[0]):
            for x in range(MASK.shape[1]):
                <name = expr>*
                if COND:
                    MASK[y, x] = False
        return MASK
    = the SHAPE-d array whose (y, x) entry is `if COND then False else True`.
    """
    check_args(fn, params)
    cx = Ctx(funcs, dict(params))
    cx.real = real
    body = strip_doc(fn.body)
    if len(body) < 3 or not (isinstance(body[-1], ast.Return) and isinstance(body[-1].value, ast.Name)):
        fail(fn, "mask-fill: does not end in `return MASK`")
    m = body[-1].value.id
    if m in cx.env: fail(fn, "mask-fill: name clash")
    if not stmt_is(body[0], f"{m} = np.full({shape}, True)"): fail(body[0], "mask-fill: first statement is not np.full(shape, True)")
    if cx.env.get(shape) != ZZ: fail(fn, "mask-fill: shape is not a pair of ints")
    cx.subst[key(f"{m}.shape")] = (shape, ZZ)
    lines = lets(body[1:-2], cx)
    loop = body[-2]
    vs = []
    for d in range(2):
        v, bound = range_over(loop)
        if not same(bound, f"{m}.shape[{d}]"): fail(loop, "mask-fill: loop bound is not the mask's shape")
        if v in cx.env or v in vs: fail(loop, "mask-fill: loop variable shadows a name")
        vs.append(v)
        if d == 0:
            if len(loop.body) != 1: fail(loop, "mask-fill: outer loop body is not the inner loop")
            loop = loop.body[0]
    y, x = vs
    cxb = Ctx(funcs, dict(cx.env)); cxb.subst = dict(cx.subst); cxb.real = real
    cxb.env[y] = Z; cxb.env[x] = Z
    inner = loop.body
    if not inner or not isinstance(inner[-1], ast.If): fail(loop, "mask-fill: inner body does not end in an `if`")
    inner_lets = lets(inner[:-1], cxb)
    test = inner[-1]
    if test.orelse or len(test.body) != 1 or not stmt_is(test.body[0], f"{m}[{y}, {x}] = False"):
        fail(test, "mask-fill: the `if` is not `if COND: MASK[y, x] = False`")
    c, t = tr(test.test, cxb)
    if t != B: fail(test, "mask-fill: condition is not boolean")
    expr = (f"map (fun {y} : Z => map (fun {x} : Z =>\n      " + "\n      ".join(inner_lets + [f"if {c} then false else true"])
            + f")\n    (zrange (snd {shape}))) (zrange (fst {shape}))")
    return emit(cname, params, MASK, lines + [expr])

# ------------------------------------------------------------------ classes: an instance is its constructor arguments
def check_init(fn, names, convert, what):
    """__init__ stores exactly its arguments (pixel_scales optionally through the pinned float -> pair widening)"""
    got = [ast.unparse(s) for s in strip_doc(fn.body)]
    exp = ([f"pixel_scales = geometry_util.{convert}(pixel_scales=pixel_scales)"] if convert else []) + [f"self.{n} = {n}" for n in names]
    if got != exp or [a.arg for a in fn.args.args] != ["self"] + names:
        raise Fail(f"py2v: pinned glue changed: {what}")

def tr_class(cls, cnode, attrs, plan, funcs, out):
    params = list(attrs.items())
    args = " ".join(attrs)
    props = {}
    for pname, ret in plan:
        fn = find_def(cnode.body, pname)
        if not py2v.is_property(fn): raise Fail(f"py2v: {cls}.{pname} is not a property")
        txt = tr_straight(fn, f"{cls}_{pname}", params, ret, funcs, selfinfo=(cls, attrs, dict(props), args))
        props[pname] = ret
        out.append(f"(* {cls}.{pname}: line {fn.lineno} *)\n" + txt)
    return props

HEADER = """(* GENERATED by /verif/py2v/gen_geometry.py (py2v plug-in) from {src} -- do not edit; regenerated on every run *)
From Coq Require Import ZArith List Bool Reals.
From PAV Require Import Base.NumOps.
Import ListNotations.
Local Open Scope Z_scope.

(* the fixed vocabulary of the translation of the real-number-only functions (NumPy's oracle contract):
   numpy.arctan2(y, x) = the angle of the point (x, y) in (-pi, pi], 0 at the origin;  numpy.radians(d) = d pi / 180;
   numpy.sin / cos / sqrt = the mathematical functions *)
Definition atan2R (y x : R) : R :=
  (if Rlt_dec 0 x then atan (y / x)
   else if Rlt_dec x 0 then (if Rle_dec 0 y then atan (y / x) + PI else atan (y / x) - PI)
   else if Rlt_dec 0 y then PI / 2 else if Rlt_dec y 0 then - (PI / 2) else 0)%R.
Definition radiansR (deg : R) : R := (deg * PI / 180)%R.

(* the fixed vocabulary of the translation: range(n), array shape, array reads (a read outside the array is never reached
   by the translated loops, whose bounds are the array's own shape) *)
Definition zrange (n : Z) : list Z := map Z.of_nat (seq 0 (Z.to_nat n)).
Definition mshape (m : list (list bool)) : Z * Z := (Z.of_nat (length m), Z.of_nat (length (hd [] m))).
Definition mget2 (m : list (list bool)) (y x : Z) : bool := nth (Z.to_nat x) (nth (Z.to_nat y) m []) true.
Definition mget1 (m : list bool) (x : Z) : bool := nth (Z.to_nat x) m true.
(* np.full(shape, b) *)
Definition full2 (b : bool) (sh : Z * Z) : list (list bool) := repeat (repeat b (Z.to_nat (snd sh))) (Z.to_nat (fst sh)).
Definition full1 (b : bool) (n : Z) : list bool := repeat b (Z.to_nat n).

Section Gen.
Context {{O : NumOps}}.

(* OBJECTS.  An instance is represented by what its constructor stores:
     Mask2D      (content, pixel_scales, origin)            Mask1D      (content, pixel_scale, origin)
     Geometry2D  (shape_native, pixel_scales, origin)       Geometry1D  (shape_native, pixel_scale, origin)
     Grid2D      (slim values, mask object)                 Array2D / Grid1D likewise;   DeriveMask2D(mask) / DeriveGrid2D(mask): the mask
   resting on this pinned (literally compared) glue: Mask2D.__init__ / Mask1D.__init__ (bool content, `invert` complements it, the pixel
   scales / origin are stored), Mask.__init__, Mask2D.shape_native / Mask1D.shape_native / shape_slim (= the array's shape),
   Mask2D.derive_mask / derive_grid, DeriveMask2D.__init__ / DeriveGrid2D.__init__ / DeriveMask1D.__init__, Grid2D.no_mask / Grid1D.no_mask,
   convert_pixel_scales_{{1,2}}d (the identity on a tuple), and on this contract of the structure constructors (checked by the
   correspondence run, not derived from source): Grid2D(values=v, mask=M) / Array2D(..) / Grid1D(..) with slim `v` stores v unchanged;
   np.array(G) of a slim-stored structure is its values, np.array(M) of a mask its content; a.astype('int') truncates toward zero. *)
Definition astype_int_grid (g : list (T O * T O)) : list (T O * T O) := map (fun p => (ofZ O (trunc (fst p)), ofZ O (trunc (snd p)))) g.
Definition astype_int_vec (v : list (T O)) : list (T O) := map (fun x => ofZ O (trunc x)) v.
Definition Mask2D_new (mask : list (list bool)) (pixel_scales origin : T O * T O) (invert : bool)
  : list (list bool) * (T O * T O) * (T O * T O) := (if invert then map (map negb) mask else mask, pixel_scales, origin).
Definition Mask1D_new (mask : list bool) (pixel_scales origin : T O) (invert : bool) : list bool * T O * T O :=
  (if invert then map negb mask else mask, pixel_scales, origin).
"""
FOOTER = "End Gen.\n"

COUNT2 = '''
    def total_pixels_2d_from(mask_2d):
        total_regular_pixels = 0
        for y in range(mask_2d.shape[0]):
            for x in range(mask_2d.shape[1]):
                if not mask_2d[y, x]:
                    total_regular_pixels += 1
        return total_regular_pixels
    '''
COUNT1 = '''
    def total_pixels_1d_from(mask_1d):
        total_regular_pixels = 0
        for x in range(mask_1d.shape[0]):
            if not mask_1d[x]:
                total_regular_pixels += 1
        return total_regular_pixels
    '''

def parse(repo, rel):
    return ast.parse(open(os.path.join(repo, rel)).read())

def unannotated(fn):
    """pinned() compares with un-annotated source"""
    fn = ast.parse(ast.unparse(fn)).body[0]
    fn.returns = None; fn.decorator_list = []
    for a in fn.args.args: a.annotation = None
    return fn

def gen_geometry(repo, outdir):
    os.makedirs(outdir, exist_ok=True)
    out = []
    out_real = []
    funcs = {}
    REAL_ONLY.clear()
    def add(tree, name, params, ret, kind="straight", real=False, **kw):
        fn = find_def(tree.body, name)
        if not isinstance(fn, ast.FunctionDef): raise Fail(f"py2v: {name} is not a function")
        if kind == "straight": txt = tr_straight(fn, name, params, ret, funcs, real=real)
        elif kind == "rowmap": txt = tr_rowmap(fn, name, params, funcs, **kw)
        elif kind == "rowmap3": txt = tr_rowmap3(fn, name, params, funcs, **kw)
        elif kind == "gather": txt = tr_gather(fn, name, params, funcs, **kw)
        elif kind == "maskfill": txt = tr_maskfill(fn, name, params, funcs, real=real, **kw)
        else: raise Fail("py2v: unknown kind " + kind)
        funcs[name] = (name, params, ret)
        if real:
            REAL_ONLY.add(name)
            out_real.append(f"(* {name}: line {fn.lineno} *)\n" + as_real(txt))
        else:
            out.append(f"(* {name}: line {fn.lineno} *)\n" + txt)

    gu = parse(repo, "autoarray/geometry/geometry_util.py")
    add(gu, "central_pixel_coordinates_1d_from", [("shape_slim", Z)], T)
    add(gu, "central_scaled_coordinate_1d_from", [("shape_slim", Z), ("pixel_scales", T), ("origin", T)], T)
    add(gu, "pixel_coordinates_1d_from", [("scaled_coordinates_1d", T), ("shape_slim", Z), ("pixel_scales", T), ("origins", T)], Z)
    add(gu, "scaled_coordinates_1d_from", [("pixel_coordinates_1d", T), ("shape_slim", Z), ("pixel_scales", T), ("origins", T)], T)
    add(gu, "central_pixel_coordinates_2d_from", [("shape_native", ZZ)], TT)
    add(gu, "central_scaled_coordinate_2d_from", [("shape_native", ZZ), ("pixel_scales", TT), ("origin", TT)], TT)
    add(gu, "pixel_coordinates_2d_from", [("scaled_coordinates_2d", TT), ("shape_native", ZZ), ("pixel_scales", TT), ("origins", TT)], ZZ)
    add(gu, "scaled_coordinates_2d_from", [("pixel_coordinates_2d", TT), ("shape_native", ZZ), ("pixel_scales", TT), ("origins", TT)], TT)
    P = [("shape_native", ZZ), ("pixel_scales", TT), ("origin", TT)]
    add(gu, "grid_pixels_2d_slim_from", [("grid_scaled_2d_slim", GRID)] + P, GRID, kind="rowmap", src="grid_scaled_2d_slim", width=2)
    add(gu, "grid_pixel_centres_2d_slim_from", [("grid_scaled_2d_slim", GRID)] + P, GRID, kind="rowmap", src="grid_scaled_2d_slim", width=2)
    add(gu, "grid_pixel_indexes_2d_slim_from", [("grid_scaled_2d_slim", GRID)] + P, VEC, kind="rowmap", src="grid_pixels_2d_slim", width=1)
    add(gu, "grid_scaled_2d_slim_from", [("grid_pixels_2d_slim", GRID)] + P, GRID, kind="rowmap", src="grid_pixels_2d_slim", width=2)

    mu = parse(repo, "autoarray/mask/mask_2d_util.py")
    pinned(unannotated(find_def(mu.body, "total_pixels_2d_from")), COUNT2, "mask_2d_util.total_pixels_2d_from")
    add(mu, "mask_2d_centres_from", [("shape_native", ZZ), ("pixel_scales", TT), ("centre", TT)], TT)
    S = [("shape_native", ZZ), ("pixel_scales", TT)]
    add(mu, "mask_2d_circular_from", S + [("radius", T), ("centre", TT)], MASK, kind="maskfill", shape="shape_native")
    add(mu, "mask_2d_circular_annular_from", S + [("inner_radius", T), ("outer_radius", T), ("centre", TT)], MASK,
        kind="maskfill", shape="shape_native")
    add(mu, "mask_2d_circular_anti_annular_from",
        S + [("inner_radius", T), ("outer_radius", T), ("outer_radius_2_scaled", T), ("centre", TT)], MASK,
        kind="maskfill", shape="shape_native")

    add(mu, "elliptical_radius_from", [("y_scaled", T), ("x_scaled", T), ("angle", T), ("axis_ratio", T)], T, real=True)
    add(mu, "mask_2d_elliptical_from", S + [("major_axis_radius", T), ("axis_ratio", T), ("angle", T), ("centre", TT)], MASK,
        kind="maskfill", real=True, shape="shape_native")
    add(mu, "mask_2d_elliptical_annular_from",
        S + [("inner_major_axis_radius", T), ("inner_axis_ratio", T), ("inner_phi", T),
             ("outer_major_axis_radius", T), ("outer_axis_ratio", T), ("outer_phi", T), ("centre", TT)], MASK,
        kind="maskfill", real=True, shape="shape_native")

    g2u = parse(repo, "autoarray/structures/grids/grid_2d_util.py")
    add(g2u, "grid_2d_slim_via_mask_from", [("mask_2d", MASK), ("pixel_scales", TT), ("origin", TT)], GRID,
        kind="gather", mask="mask_2d", dims=2, total_call="mask_2d_util.total_pixels_2d_from")
    m1u = parse(repo, "autoarray/mask/mask_1d_util.py")
    pinned(unannotated(find_def(m1u.body, "total_pixels_1d_from")), COUNT1, "mask_1d_util.total_pixels_1d_from")
    g1u = parse(repo, "autoarray/structures/grids/grid_1d_util.py")
    add(g1u, "grid_1d_slim_via_mask_from", [("mask_1d", MASK1), ("pixel_scales", T), ("origin", T)], VEC,
        kind="gather", mask="mask_1d", dims=1, total_call="mask_1d_util.total_pixels_1d_from")

    # ---- the native (3-D) index routine, the all-false pixel-centre grids
    add(gu, "grid_pixel_centres_2d_from", [("grid_scaled_2d", GRID3)] + P, GRID3, kind="rowmap3", src="grid_scaled_2d")
    add(g2u, "grid_2d_slim_via_shape_native_from", P, GRID)
    add(g1u, "grid_1d_slim_via_shape_slim_from", [("shape_slim", Z), ("pixel_scales", T), ("origin", T)], VEC)

    # ---- Geometry2D / Geometry1D
    g2 = find_def(parse(repo, "autoarray/geometry/geometry_2d.py").body, "Geometry2D")
    check_init(find_def(g2.body, "__init__"), ["shape_native", "pixel_scales", "origin"],
               convert="convert_pixel_scales_2d", what="Geometry2D.__init__")
    pinned(unannotated(find_def(gu.body, "convert_pixel_scales_2d")), '''
        def convert_pixel_scales_2d(pixel_scales):
            if type(pixel_scales) is float:
                pixel_scales = (pixel_scales, pixel_scales)
            return pixel_scales
        ''', "geometry_util.convert_pixel_scales_2d")
    pinned(unannotated(find_def(gu.body, "convert_pixel_scales_1d")), '''
        def convert_pixel_scales_1d(pixel_scales):
            if type(pixel_scales) is float:
                pixel_scales = (pixel_scales,)
            return pixel_scales
        ''', "geometry_util.convert_pixel_scales_1d")
    g2attrs = {"shape_native": ZZ, "pixel_scales": TT, "origin": TT}
    props2 = tr_class("Geometry2D", g2, g2attrs,
                      [("shape_native_scaled", TT), ("scaled_maxima", TT), ("scaled_minima", TT), ("extent", T4),
                       ("central_pixel_coordinates", TT), ("central_scaled_coordinates", TT)], funcs, out)
    methods2 = {}
    for mname, params, ret in [("pixel_coordinates_2d_from", [("scaled_coordinates_2d", TT)], ZZ),
                               ("scaled_coordinates_2d_from", [("pixel_coordinates_2d", TT)], TT),
                               ("scaled_coordinate_2d_to_scaled_at_pixel_centre_from", [("scaled_coordinate_2d", TT)], TT),
                               ("grid_pixels_2d_from", [("grid_scaled_2d", G2O)], G2O),
                               ("grid_pixel_centres_2d_from", [("grid_scaled_2d", G2O)], G2O),
                               ("grid_pixel_indexes_2d_from", [("grid_scaled_2d", G2O)], A2O),
                               ("grid_scaled_2d_from", [("grid_pixels_2d", G2O)], G2O)]:
        fn = find_def(g2.body, mname)
        txt = tr_method(fn, f"Geometry2D_{mname}", list(g2attrs.items()), params, ret, funcs, "self",
                        selfinfo=("Geometry2D", g2attrs, props2, "shape_native pixel_scales origin"), methods=methods2)
        methods2[mname] = (f"Geometry2D_{mname}", params, ret)
        out.append(f"(* Geometry2D.{mname}: line {fn.lineno} *)\n" + txt)
    g1 = find_def(parse(repo, "autoarray/geometry/geometry_1d.py").body, "Geometry1D")
    check_init(find_def(g1.body, "__init__"), ["shape_native", "pixel_scales", "origin"], convert=None, what="Geometry1D.__init__")
    tr_class("Geometry1D", g1, {"shape_native": Z, "pixel_scales": T, "origin": T},
             [("shape_slim_scaled", T), ("scaled_maxima", T), ("scaled_minima", T), ("extent", TT)], funcs, out)

    # ---- Mask2D: constructors and the geometry it hands out
    OBJPROPS.clear()
    def method(cnode, cls, mname, coqname, self_params, params, ret, first, defaults=None, objprop=None, real=False, **kw):
        fn = find_def(cnode.body, mname)
        if defaults: check_defaults(fn, defaults)
        if objprop and not py2v.is_property(fn): raise Fail(f"py2v: {cls}.{mname} is not a property")
        if first == "cls" and not any(isinstance(d, ast.Name) and d.id == "classmethod" for d in fn.decorator_list):
            raise Fail(f"py2v: {cls}.{mname} is not a classmethod")
        txt = tr_method(fn, coqname, self_params, params, ret, funcs, first, clsname=cls, real=real, **kw)
        if first == "cls": funcs[f"{cls}.{mname}"] = (coqname, params, ret, defaults or {})
        if objprop: OBJPROPS[objprop] = (coqname, ret)
        if real:
            REAL_ONLY.add(f"{cls}.{mname}")
            out_real.append(f"(* {cls}.{mname}: line {fn.lineno} *)\n" + as_real(txt))
        else:
            out.append(f"(* {cls}.{mname}: line {fn.lineno} *)\n" + txt)
    mtree = parse(repo, "autoarray/mask/mask_2d.py")
    m2 = find_def(mtree.body, "Mask2D")
    pinned(unannotated(find_def(m2.body, "__init__")), '''
        def __init__(self, mask, pixel_scales, origin=(0.0, 0.0), invert=False, *args, **kwargs):
            if type(mask) is list:
                mask = np.asarray(mask).astype("bool")
            if not isinstance(mask, np.ndarray):
                mask = mask._array
            if invert:
                mask = np.invert(mask)
            pixel_scales = geometry_util.convert_pixel_scales_2d(pixel_scales=pixel_scales)
            if len(mask.shape) != 2:
                raise exc.MaskException("The input mask is not a two dimensional array")
            super().__init__(mask=mask, origin=origin, pixel_scales=pixel_scales)
        ''', "Mask2D.__init__")
    amask = find_def(parse(repo, "autoarray/mask/abstract_mask.py").body, "Mask")
    pinned(unannotated(find_def(amask.body, "__init__")), '''
        def __init__(self, mask, origin, pixel_scales, *args, **kwargs):
            mask = mask.astype("bool")
            super().__init__(mask)
            self.pixel_scales = pixel_scales
            self.origin = origin
        ''', "Mask.__init__")
    pinned(unannotated(find_def(m2.body, "shape_native")), "def shape_native(self):\n    return self.shape", "Mask2D.shape_native")
    pinned(unannotated(find_def(m2.body, "derive_mask")), "def derive_mask(self):\n    return DeriveMask2D(mask=self)", "Mask2D.derive_mask")
    pinned(unannotated(find_def(m2.body, "derive_grid")), "def derive_grid(self):\n    return DeriveGrid2D(mask=self)", "Mask2D.derive_grid")
    dm2 = find_def(parse(repo, "autoarray/mask/derive/mask_2d.py").body, "DeriveMask2D")
    dg2 = find_def(parse(repo, "autoarray/mask/derive/grid_2d.py").body, "DeriveGrid2D")
    for c, w in ((dm2, "DeriveMask2D"), (dg2, "DeriveGrid2D")):
        pinned(unannotated(find_def(c.body, "__init__")), "def __init__(self, mask):\n    self.mask = mask", w + ".__init__")
    SH = [("shape_native", ZZ)]; TAIL = [("pixel_scales", TT), ("origin", TT), ("centre", TT), ("invert", B)]
    INV = {"invert": "false"}
    method(m2, "Mask2D", "all_false", "Mask2D_all_false", [], SH + [("pixel_scales", TT), ("origin", TT), ("invert", B)], M2O, "cls", defaults=INV)
    method(m2, "Mask2D", "circular", "Mask2D_circular", [], SH + [("radius", T)] + TAIL, M2O, "cls", defaults=INV)
    method(m2, "Mask2D", "circular_annular", "Mask2D_circular_annular", [], SH + [("inner_radius", T), ("outer_radius", T)] + TAIL, M2O, "cls", defaults=INV)
    method(m2, "Mask2D", "circular_anti_annular", "Mask2D_circular_anti_annular", [],
           SH + [("inner_radius", T), ("outer_radius", T), ("outer_radius_2", T)] + TAIL, M2O, "cls", defaults=INV)
    method(m2, "Mask2D", "elliptical", "Mask2D_elliptical", [],
           SH + [("major_axis_radius", T), ("axis_ratio", T), ("angle", T)] + TAIL, M2O, "cls", defaults=INV, real=True)
    method(m2, "Mask2D", "elliptical_annular", "Mask2D_elliptical_annular", [],
           SH + [("inner_major_axis_radius", T), ("inner_axis_ratio", T), ("inner_phi", T),
                 ("outer_major_axis_radius", T), ("outer_axis_ratio", T), ("outer_phi", T)] + TAIL, M2O, "cls", defaults=INV, real=True)
    method(m2, "Mask2D", "geometry", "Mask2D_geometry", [("self", M2O)], [], GEO2, "self", objprop=(M2O, "geometry"), self_ty=M2O)
    method(dm2, "DeriveMask2D", "all_false", "DeriveMask2D_all_false", [("self", DM2O)], [], M2O, "self", objprop=(DM2O, "all_false"), self_ty=DM2O)

    # ---- Grid2D constructors, DeriveGrid2D
    st = find_def(parse(repo, "autoarray/structures/abstract_structure.py").body, "Structure")
    for pn, body in (("shape_native", "return self.mask.shape"), ("pixel_scales", "return self.mask.pixel_scales"), ("origin", "return self.mask.origin")):
        pinned(unannotated(find_def(st.body, pn)), f"def {pn}(self):\n    {body}", "Structure." + pn)
    gr2 = find_def(parse(repo, "autoarray/structures/grids/uniform_2d.py").body, "Grid2D")
    pinned(unannotated(find_def(gr2.body, "no_mask")), '''
        def no_mask(cls, values, pixel_scales, shape_native=None, origin=(0.0, 0.0), over_sampling=None):
            pixel_scales = geometry_util.convert_pixel_scales_2d(pixel_scales=pixel_scales)
            values = grid_2d_util.convert_grid(grid=values)
            if len(values.shape) == 2:
                grid_2d_util.check_grid_slim(grid=values, shape_native=shape_native)
            else:
                shape_native = (int(values.shape[0]), int(values.shape[1]))
            mask = Mask2D.all_false(shape_native=shape_native, pixel_scales=pixel_scales, origin=origin)
            return Grid2D(values=values, mask=mask, over_sampling=over_sampling)
        ''', "Grid2D.no_mask")
    NM = [("values", GRID), ("shape_native", ZZ), ("pixel_scales", TT), ("origin", TT), ("over_sampling", OPQ)]
    out.append("(* Grid2D.no_mask (pinned), for slim `values` and a shape_native that is given *)\n"
               + emit("Grid2D_no_mask", NM, G2O, ["(values, Mask2D_all_false shape_native pixel_scales origin false)"]))
    funcs["Grid2D.no_mask"] = ("Grid2D_no_mask", NM, G2O, {})
    method(gr2, "Grid2D", "from_mask", "Grid2D_from_mask", [], [("mask", M2O), ("over_sampling", OPQ)], G2O, "cls")
    method(gr2, "Grid2D", "uniform", "Grid2D_uniform", [], SH + [("pixel_scales", TT), ("origin", TT), ("over_sampling", OPQ)], G2O, "cls")
    method(dg2, "DeriveGrid2D", "all_false", "DeriveGrid2D_all_false", [("self", DG2O)], [], G2O, "self", objprop=(DG2O, "all_false"), self_ty=DG2O)
    method(dg2, "DeriveGrid2D", "unmasked", "DeriveGrid2D_unmasked", [("self", DG2O)], [], G2O, "self", objprop=(DG2O, "unmasked"), self_ty=DG2O)

    # ---- 1-D: Mask1D, Grid1D
    m1 = find_def(parse(repo, "autoarray/mask/mask_1d.py").body, "Mask1D")
    pinned(unannotated(find_def(m1.body, "__init__")), '''
        def __init__(self, mask, pixel_scales, origin=(0.0,), invert=False):
            if type(mask) is list:
                mask = np.asarray(mask).astype("bool")
            if invert:
                mask = np.invert(mask)
            if type(pixel_scales) is float:
                pixel_scales = (pixel_scales,)
            if len(mask.shape) != 1:
                raise exc.MaskException("The input mask is not a one dimensional array")
            super().__init__(mask=mask, pixel_scales=pixel_scales, origin=origin)
        ''', "Mask1D.__init__")
    for pn in ("shape_native", "shape_slim"):
        pinned(unannotated(find_def(m1.body, pn)), f"def {pn}(self):\n    return self.shape", "Mask1D." + pn)
    pinned(unannotated(find_def(m1.body, "derive_mask")), "def derive_mask(self):\n    return DeriveMask1D(mask=self)", "Mask1D.derive_mask")
    dm1 = find_def(parse(repo, "autoarray/mask/derive/mask_1d.py").body, "DeriveMask1D")
    pinned(unannotated(find_def(dm1.body, "__init__")), "def __init__(self, mask):\n    self.mask = mask", "DeriveMask1D.__init__")
    method(m1, "Mask1D", "all_false", "Mask1D_all_false", [], [("shape_slim", Z), ("pixel_scales", T), ("origin", T), ("invert", B)], M1O, "cls", defaults=INV)
    method(m1, "Mask1D", "geometry", "Mask1D_geometry", [("self", M1O)], [], GEO1, "self", objprop=(M1O, "geometry"), self_ty=M1O)
    method(dm1, "DeriveMask1D", "all_false", "DeriveMask1D_all_false", [("self", DM1O)], [], M1O, "self", objprop=(DM1O, "all_false"), self_ty=DM1O)
    gr1 = find_def(parse(repo, "autoarray/structures/grids/uniform_1d.py").body, "Grid1D")
    pinned(unannotated(find_def(gr1.body, "no_mask")), '''
        def no_mask(cls, values, pixel_scales, origin=(0.0,)):
            pixel_scales = geometry_util.convert_pixel_scales_1d(pixel_scales=pixel_scales)
            values = grid_2d_util.convert_grid(grid=values)
            mask = Mask1D.all_false(shape_slim=values.shape[0], pixel_scales=pixel_scales, origin=origin)
            return Grid1D(values=values, mask=mask)
        ''', "Grid1D.no_mask")
    NM1 = [("values", VEC), ("pixel_scales", T), ("origin", T)]
    out.append("(* Grid1D.no_mask (pinned) *)\n"
               + emit("Grid1D_no_mask", NM1, G1O, ["(values, Mask1D_all_false (Z.of_nat (length values)) pixel_scales origin false)"]))
    funcs["Grid1D.no_mask"] = ("Grid1D_no_mask", NM1, G1O, {})
    method(gr1, "Grid1D", "from_mask", "Grid1D_from_mask", [], [("mask", M1O)], G1O, "cls")
    method(gr1, "Grid1D", "uniform", "Grid1D_uniform", [], [("shape_native", Z), ("pixel_scales", T), ("origin", T)], G1O, "cls")

    srcs = ("autoarray/geometry/{geometry_util,geometry_2d,geometry_1d}.py, autoarray/mask/{mask_2d_util,mask_2d,mask_1d}.py, "
            "autoarray/mask/derive/{mask_2d,grid_2d,mask_1d}.py, autoarray/structures/grids/{grid_2d_util,grid_1d_util,uniform_2d,uniform_1d}.py")
    text = (HEADER.format(src=srcs) + "\n" + "\n".join(out) + "\n" + FOOTER
            + "\n(* ---- real-number-only definitions (arctan2 / sin / cos: not executable; see Model/C02x.v for the executable form) *)\n"
            + "\n".join(out_real))
    write_if_changed(os.path.join(outdir, "Gen_geometry.v"), text)

TARGETS = {"geometry": gen_geometry}
