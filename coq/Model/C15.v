(* C15 -- preloaded and cached intermediate results never change inversion outputs.

   Executable model of
     autoarray/inversion/inversion/factory.py          inversion_imaging_from (formalism selection)
     autoarray/dataset/abstract/w_tilde.py             check_noise_map
     autoarray/inversion/inversion/abstract.py         the cached_property graph of AbstractInversion
     autoarray/inversion/inversion/imaging/abstract.py the three dictionaries
     autoarray/inversion/inversion/imaging/mapping.py  InversionImagingMapping
     autoarray/inversion/inversion/imaging/w_tilde.py  InversionImagingWTilde
     autoarray/preloads.py                             the slots of a Preloads object
   as a state machine over (a) the [pstore]: one cell per slot of ONE Preloads object shared by all
   the inversions of a history, and (b) the per-inversion cache of cached_property values.
   An array held by an inversion is a reference: either an array the inversion owns ([MOwn]/[VOwn]) or an
   ALIAS of a preload cell; in-place numpy statements (`curvature_matrix += regularization_matrix`,
   `data_vector[a:b] = ...`, `curvature_matrix[a:b, c:d] = ...`) go through the reference, so they write the
   preload cell when the reference is an alias.  `copy.copy(preloads.curvature_matrix)` (and, since /repo commit
   902c41f, `copy.copy(preloads.curvature_matrix_mapper_diag)`) is what turns the alias into an owned array.

   Scalars are an abstract type [T]; the numeric kernels (convolution, B^T N^-1 d, B^T N^-1 B, the w-tilde
   kernels, the solver, the log-determinants ...) are the fields of an arbitrary record [kernels]: the theorems
   hold for EVERY interpretation of them.  Structural numpy code (block assignment, hstack, block_diag,
   mirroring, diagonal term, np.delete, np.add) is concrete.
   The two [variant] flags select mutants used only by the refutation lemmas:
     v_copy  = false  removes the copy.copy of the preloaded curvature matrix,
     v_guard = false  is InversionImagingMapping.data_vector before the repair fixes/C15_mapping_data_vector_mapper.diff.
   [code] (both true) is the code that exists.  No proofs here. *)
From Coq Require Import List Arith Bool ZArith QArith Qabs Lia.
From PAV Require Import Base.Res Base.Check.
Import ListNotations.

Set Implicit Arguments.
Local Open Scope nat_scope.

(* ------------------------------------------------------------------------------------------------ *)
(* generic list helpers                                                                              *)
Fixpoint imap {A} (f : nat -> A -> A) (i : nat) (l : list A) : list A :=
  match l with
  | [] => []
  | x :: t => f i x :: imap f (S i) t
  end.
Definition is_some {A} (o : option A) : bool := match o with Some _ => true | None => false end.
Definition map_res {A B} (f : A -> B) (r : res A) : res B :=
  match r with Ok a => Ok (f a) | Raise e => Raise e end.
Fixpoint map2 {A B C} (f : A -> B -> C) (l1 : list A) (l2 : list B) : list C :=
  match l1, l2 with
  | a :: t1, b :: t2 => f a b :: map2 f t1 t2
  | _, _ => []
  end.

Section Types.
  Variable T : Type.
  Definition vec := list T.
  Definition mat := list (list T).

  (* WTildeImaging: the sparse (curvature_preload, indexes, lengths) triple is opaque to this model and
     is carried as one matrix-shaped token; noise_map_value is what check_noise_map compares *)
  Record wtilde := { wt_w : mat; wt_nv : T }.

  (* a linear object: AbstractMapper (lo_mapper) or AbstractLinearObjFuncList; lo_reg = Some H iff its
     `regularization` is not None (H = linear_obj.regularization_matrix); a mapper's unique_mappings are a
     function of the mapper, which is represented by its mapping matrix *)
  Record lobj := { lo_mapper : bool; lo_mm : mat; lo_ovr : option mat; lo_p : nat; lo_reg : option mat }.
  Record dataset := { ds_d : vec; ds_n : vec; ds_wt : wtilde }.
  Record input := { in_ds : dataset; in_objs : list lobj; in_use_wt : bool; in_eps : T }.

  (* numeric kernels + the three scalar operations the structural code needs *)
  Record kernels := {
    t0 : T; tadd : T -> T -> T; tnz : T -> bool; teqb : T -> T -> bool;
    conv_mm : mat -> mat;                     (* Convolver.convolve_mapping_matrix *)
    conv_img : vec -> vec;                    (* Convolver.convolve_image_no_blurring *)
    k_dv_bmm : mat -> vec -> vec -> vec;      (* data_vector_via_blurred_mapping_matrix_from(bmm, image, noise) *)
    k_curv_mm : mat -> vec -> mat;            (* (mm / noise[:,None]).T @ (mm / noise[:,None]) *)
    k_wtd : vec -> vec -> vec;                (* w_tilde_data_imaging_from(image, noise, [kernel, mask]) *)
    k_dv_wt : vec -> mat -> nat -> vec;       (* data_vector_via_w_tilde_data_imaging_from(w_tilde_data, mapper) *)
    k_curv_wt : mat -> mat -> nat -> mat;     (* curvature_matrix_via_w_tilde_curvature_preload_imaging_from *)
    k_off_wt : mat -> mat -> nat -> mat -> nat -> mat;   (* _curvature_matrix_off_diag_from(mapper_0, mapper_1) *)
    k_cw : mat -> vec -> mat;                 (* omm / noise[:,None]**2 *)
    k_wv : mat -> vec -> mat;                 (* omm / noise[:,None] *)
    k_dotT : mat -> mat -> mat;               (* np.dot(a.T, b) *)
    k_dlfm : mat -> mat;                      (* data_linear_func_matrix_from(curvature_weights, [convolver]) *)
    k_off_dlfm : mat -> mat -> nat -> mat;    (* curvature_matrix_off_diags_via_data_linear_func_matrix_from *)
    k_off_mf : mat -> nat -> mat -> mat;      (* ..._via_mapper_and_linear_func_curvature_vector_from *)
    k_mapped_mm : mat -> vec -> vec;          (* mapped_reconstructed_data_via_mapping_matrix_from *)
    k_mapped_um : mat -> vec -> vec;          (* mapped_reconstructed_data_via_image_to_pix_unique_from *)
    k_rowsum : vec -> mat -> vec;             (* np.sum(reconstruction * omm, axis=1) *)
    k_quad : vec -> mat -> T;                 (* s.T @ (H @ s) *)
    k_solve : mat -> vec -> res vec;          (* AbstractInversion.reconstruction (either solver, incl. zeroed pixels) *)
    k_ldc : mat -> res T;                     (* 2 sum log diag cholesky *)
    k_ldr : mat -> res T                      (* splu / cholesky log-determinant *)
  }.

  (* ---------------------------------------------------------------------------------------------- *)
  (* the Preloads object: one cell per slot                                                          *)
  Record pstore := {
    s_use_wt : option bool; s_wt : option wtilde;
    s_omm : option mat; s_curv : option mat; s_cmd : option mat; s_reg : option mat;
    s_dvm : option vec;
    s_lf : option (list mat); s_dlf : option (list mat); s_momm : option (list mat);
    s_ldr : option T }.
  Definition empty_store : pstore :=
    {| s_use_wt := None; s_wt := None; s_omm := None; s_curv := None; s_cmd := None; s_reg := None;
       s_dvm := None; s_lf := None; s_dlf := None; s_momm := None; s_ldr := None |}.

  Inductive mslot := SOmm | SCurv | SCmd | SReg.
  Definition mslot_get (s : mslot) (p : pstore) : option mat :=
    match s with SOmm => s_omm p | SCurv => s_curv p | SCmd => s_cmd p | SReg => s_reg p end.
  Definition mslot_set (s : mslot) (m : mat) (p : pstore) : pstore :=
    match s with
    | SOmm => {| s_use_wt := s_use_wt p; s_wt := s_wt p; s_omm := Some m; s_curv := s_curv p; s_cmd := s_cmd p;
                 s_reg := s_reg p; s_dvm := s_dvm p; s_lf := s_lf p; s_dlf := s_dlf p; s_momm := s_momm p; s_ldr := s_ldr p |}
    | SCurv => {| s_use_wt := s_use_wt p; s_wt := s_wt p; s_omm := s_omm p; s_curv := Some m; s_cmd := s_cmd p;
                 s_reg := s_reg p; s_dvm := s_dvm p; s_lf := s_lf p; s_dlf := s_dlf p; s_momm := s_momm p; s_ldr := s_ldr p |}
    | SCmd => {| s_use_wt := s_use_wt p; s_wt := s_wt p; s_omm := s_omm p; s_curv := s_curv p; s_cmd := Some m;
                 s_reg := s_reg p; s_dvm := s_dvm p; s_lf := s_lf p; s_dlf := s_dlf p; s_momm := s_momm p; s_ldr := s_ldr p |}
    | SReg => {| s_use_wt := s_use_wt p; s_wt := s_wt p; s_omm := s_omm p; s_curv := s_curv p; s_cmd := s_cmd p;
                 s_reg := Some m; s_dvm := s_dvm p; s_lf := s_lf p; s_dlf := s_dlf p; s_momm := s_momm p; s_ldr := s_ldr p |}
    end.
  Definition dvm_set (v : vec) (p : pstore) : pstore :=
    {| s_use_wt := s_use_wt p; s_wt := s_wt p; s_omm := s_omm p; s_curv := s_curv p; s_cmd := s_cmd p;
       s_reg := s_reg p; s_dvm := Some v; s_lf := s_lf p; s_dlf := s_dlf p; s_momm := s_momm p; s_ldr := s_ldr p |}.

  (* references held by an inversion *)
  Inductive mref := MOwn (m : mat) | MAlias (s : mslot).
  Inductive vref := VOwn (v : vec) | VAlias.       (* the only vector slot is data_vector_mapper *)
  Definition rdm (r : mref) (p : pstore) : mat :=
    match r with MOwn m => m | MAlias s => match mslot_get s p with Some m => m | None => [] end end.
  Definition rdv (r : vref) (p : pstore) : vec :=
    match r with VOwn v => v | VAlias => match s_dvm p with Some v => v | None => [] end end.

  (* the cached_property values of one inversion *)
  Inductive qty := QLf | QMomm | QOmm | QWtd | QDv | QCurv | QReg | QRegRed | QCrm | QCrmRed
                 | QRec | QRecRed | QMapped | QRegTerm | QLdc | QLdr.
  Definition qty_eqb (a b : qty) : bool :=
    match a, b with
    | QLf, QLf | QMomm, QMomm | QOmm, QOmm | QWtd, QWtd | QDv, QDv | QCurv, QCurv | QReg, QReg
    | QRegRed, QRegRed | QCrm, QCrm | QCrmRed, QCrmRed | QRec, QRec | QRecRed, QRecRed
    | QMapped, QMapped | QRegTerm, QRegTerm | QLdc, QLdc | QLdr, QLdr => true
    | _, _ => false
    end.
  Inductive cval := CM (r : mref) | CV (r : vref) | CL (l : list mat) | CRV (x : res vec) | CRT (x : res T).
  (* what an observer sees (the array read through the reference) *)
  Inductive pval := PM (m : mat) | PV (v : vec) | PL (l : list mat) | PRV (x : res vec) | PRT (x : res T).
  Definition readc (c : cval) (p : pstore) : pval :=
    match c with
    | CM r => PM (rdm r p) | CV r => PV (rdv r p) | CL l => PL l | CRV x => PRV x | CRT x => PRT x
    end.
  Definition as_m (v : pval) : mat := match v with PM m => m | _ => [] end.
  Definition as_v (v : pval) : vec := match v with PV x => x | _ => [] end.
  Definition as_l (v : pval) : list mat := match v with PL l => l | _ => [] end.
  Definition as_rv (v : pval) : res vec := match v with PRV x => x | _ => Raise OtherException end.
  Definition as_rt (v : pval) : res T := match v with PRT x => x | _ => Raise OtherException end.
  Definition c_mref (c : cval) : mref := match c with CM r => r | _ => MOwn [] end.

  Record state := { cache : qty -> option cval; store : pstore }.
  Definition M (A : Type) := state -> A * state.
  Definition ret {A} (a : A) : M A := fun st => (a, st).
  Definition bind {A B} (m : M A) (f : A -> M B) : M B := fun st => let (a, st1) := m st in f a st1.
  Definition gets {A} (f : pstore -> A) : M A := fun st => (f (store st), st).
  Definition modify (f : pstore -> pstore) : M unit := fun st => (tt, {| cache := cache st; store := f (store st) |}).
  Definition set_cache (q : qty) (o : option cval) : M unit :=
    fun st => (tt, {| cache := fun q' => if qty_eqb q' q then o else cache st q'; store := store st |}).
  Definition cached (q : qty) (compute : M cval) : M cval :=
    fun st => match cache st q with
              | Some c => (c, st)
              | None => let (c, st1) := compute st in (c, snd (set_cache q (Some c) st1))
              end.
End Types.

Arguments ret {T A} a.
Arguments bind {T A B} m f.
Arguments gets {T A} f.
Arguments VAlias {T}.
Arguments MAlias {T} s.
Arguments empty_store {T}.
Notation "x <- m ;; f" := (bind m (fun x => f)) (at level 61, m at next level, right associativity).

Record variant := { v_copy : bool; v_guard : bool }.
Definition code : variant := {| v_copy := true; v_guard := true |}.

Section Model.
  Variable T : Type.
  Variable K : kernels T.
  Variable V : variant.
  Variable inp : input T.
  Notation vec := (vec T).
  Notation mat := (mat T).
  Let z := t0 K.

  (* ---------------------------------------------------------------------------------------------- *)
  (* structural numpy code                                                                           *)
  Definition zeros_v (n : nat) : vec := repeat z n.
  Definition zeros_m (r c : nat) : mat := repeat (repeat z c) r.
  Definition in_rng (lo hi i : nat) : bool := (lo <=? i) && (i <? hi).

  (* v[lo:hi] = b *)
  Record vwrite := { vw_lo : nat; vw_hi : nat; vw_b : vec }.
  Definition apply_vw (v : vec) (w : vwrite) : vec :=
    imap (fun i x => if in_rng (vw_lo w) (vw_hi w) i then nth (i - vw_lo w) (vw_b w) z else x) 0 v.
  Definition apply_vws (v : vec) (ws : list vwrite) : vec := fold_left apply_vw ws v.
  (* m[r0:r1, c0:c1] = b *)
  Record mwrite := { mw_r0 : nat; mw_r1 : nat; mw_c0 : nat; mw_c1 : nat; mw_b : mat }.
  Definition apply_mw (m : mat) (w : mwrite) : mat :=
    imap (fun i row =>
            if in_rng (mw_r0 w) (mw_r1 w) i
            then imap (fun j x => if in_rng (mw_c0 w) (mw_c1 w) j
                                  then nth (j - mw_c0 w) (nth (i - mw_r0 w) (mw_b w) []) z else x) 0 row
            else row) 0 m.
  Definition apply_mws (m : mat) (ws : list mwrite) : mat := fold_left apply_mw ws m.

  Definition hstack (l : list mat) : mat :=          (* np.hstack of matrices with equal row counts *)
    match l with
    | [] => []
    | m0 :: t => fold_left (fun acc m => map2 (@app T) acc m) t m0
    end.
  Fixpoint block_diag_from (off total : nat) (l : list (nat * mat)) : mat :=   (* scipy.linalg.block_diag *)
    match l with
    | [] => []
    | (p, h) :: t =>
        map (fun row => repeat z off ++ firstn p (row ++ repeat z p) ++ repeat z (total - off - p))
            (firstn p (h ++ repeat [] p))
        ++ block_diag_from (off + p) total t
    end.
  Definition mget (m : mat) (i j : nat) : T := nth j (nth i m []) z.
  (* curvature_matrix_mirrored_from.  The double loop visits (i, j) and (j, i); at each visit the two conditional writes set
     BOTH cells, first from [i, j] then from [j, i].  The last visit of a pair is the one with the larger row index, whose
     second test reads the UPPER-triangle cell: the pair ends up with the upper value if it is non-zero, else the lower one
     (same reading as C04's [mir]; the two only differ when both cells are non-zero and different, which the block
     assembly never produces) *)
  Definition mirror (m : mat) : mat :=
    imap (fun i row => imap (fun j _ =>
            let lo := Nat.min i j in let hi := Nat.max i j in
            if tnz K (mget m lo hi) then mget m lo hi else if tnz K (mget m hi lo) then mget m hi lo else z) 0 row) 0 m.
  (* curvature_matrix_with_added_to_diag_from *)
  Definition add_diag (eps : T) (idx : list nat) (m : mat) : mat :=
    fold_left (fun acc k => imap (fun i row => if Nat.eqb i k
                                   then imap (fun j x => if Nat.eqb j k then tadd K x eps else x) 0 row
                                   else row) 0 acc) idx m.
  Definition madd (a b : mat) : mat := map2 (map2 (tadd K)) a b.
  Definition delete_v {A} (idx : list nat) (v : list A) : list A :=       (* np.delete(v, idx) *)
    map snd (filter (fun ix => negb (existsb (Nat.eqb (fst ix)) idx)) (combine (seq 0 (length v)) v)).
  Definition delete_rc (idx : list nat) (m : mat) : mat := map (delete_v idx) (delete_v idx m).
  Definition slice (lo hi : nat) (v : vec) : vec := firstn (hi - lo) (skipn lo v).
  Definition vsum (l : list vec) : vec :=            (* sum(dict.values()) *)
    match l with [] => [] | v0 :: t => fold_left (map2 (tadd K)) t v0 end.

  (* ---------------------------------------------------------------------------------------------- *)
  (* the linear objects of this inversion                                                            *)
  Definition objs := in_objs inp.
  Definition d := ds_d (in_ds inp).
  Definition n := ds_n (in_ds inp).
  Fixpoint ranges_from (off : nat) (l : list (lobj T)) : list (nat * nat) :=   (* param_range_list_from *)
    match l with
    | [] => []
    | o :: t => (off, off + lo_p o) :: ranges_from (off + lo_p o) t
    end.
  Definition orng : list (lobj T * (nat * nat)) := combine objs (ranges_from 0 objs).
  Definition mappers := filter (fun x => lo_mapper (fst x)) orng.
  Definition funcs := filter (fun x => negb (lo_mapper (fst x))) orng.
  Definition total : nat := fold_left (fun a o => a + lo_p o) objs 0.
  Definition has_func : bool := negb (Nat.eqb (length funcs) 0).
  Definition has_mapper : bool := negb (Nat.eqb (length mappers) 0).
  Definition has_reg : bool := existsb (fun o => is_some (lo_reg o)) objs.      (* has(cls=AbstractRegularization) *)
  Definition all_reg : bool := forallb (fun o => is_some (lo_reg o)) objs.      (* all_linear_obj_have_regularization *)
  Definition noreg_idx : list nat :=
    flat_map (fun x => match lo_reg (fst x) with
                       | Some _ => []
                       | None => seq (fst (snd x)) (snd (snd x) - fst (snd x))
                       end) orng.
  Definition reg_of (o : lobj T) : mat :=
    match lo_reg o with Some h => h | None => zeros_m (lo_p o) (lo_p o) end.
  Definition with_diag (m : mat) : mat :=
    if Nat.eqb (length noreg_idx) 0 then m else add_diag (in_eps inp) noreg_idx m.

  (* _updated_cls_key_dict_from: zip(cls_list, preload_dict.values()) *)
  Definition rekey {A B} (keys : list A) (vals : list B) : list B := firstn (length keys) vals.

  (* position of every object among the function objects (for dictionary look-ups) *)
  Fixpoint func_index_from (k : nat) (l : list (lobj T)) : list nat :=
    match l with
    | [] => []
    | o :: t => k :: func_index_from (if lo_mapper o then k else S k) t
    end.
  (* operated_mapping_matrix_list *)
  Definition omm_list_of (lf : list mat) : list mat :=
    map2 (fun o k => match lo_ovr o with None => conv_mm K (lo_mm o) | Some _ => nth k lf [] end)
         objs (func_index_from 0 objs).
  Definition lf_fresh : list mat :=
    map (fun x => match lo_ovr (fst x) with Some m => m | None => conv_mm K (lo_mm (fst x)) end) funcs.
  Definition momm_fresh : list mat := map (fun x => conv_mm K (lo_mm (fst x))) mappers.
  Definition dlf_of (lf : list mat) : list mat := map (fun l => k_dlfm K (k_cw K l n)) lf.

  (* ---------------------------------------------------------------------------------------------- *)
  (* block-assignment programs (pure data: the values written never depend on the array written to)   *)
  Definition curv_via_mm (B : mat) : mat := with_diag (k_curv_mm K B n).
  (* mapping._data_vector_mapper *)
  Definition dvm_writes_map : list vwrite :=
    map (fun x => {| vw_lo := fst (snd x); vw_hi := snd (snd x);
                     vw_b := k_dv_bmm K (conv_mm K (lo_mm (fst x))) d n |}) mappers.
  (* w_tilde._data_vector_mapper *)
  Definition dvm_writes_wt (wtd : vec) : list vwrite :=
    map (fun x => {| vw_lo := fst (snd x); vw_hi := snd (snd x);
                     vw_b := k_dv_wt K wtd (lo_mm (fst x)) (lo_p (fst x)) |}) mappers.
  (* w_tilde._data_vector_func_list_and_mapper *)
  Definition dv_func_writes (lf : list mat) : list vwrite :=
    map2 (fun x l => {| vw_lo := fst (snd x); vw_hi := snd (snd x); vw_b := k_dv_bmm K l d n |}) funcs lf.
  (* w_tilde._curvature_matrix_mapper_diag *)
  Definition cmd_writes (w : mat) : list mwrite :=
    map (fun x => {| mw_r0 := fst (snd x); mw_r1 := snd (snd x); mw_c0 := fst (snd x); mw_c1 := snd (snd x);
                     mw_b := k_curv_wt K w (lo_mm (fst x)) (lo_p (fst x)) |}) mappers.
  (* w_tilde._curvature_matrix_multi_mapper: pairs i < j *)
  Fixpoint pairs_lt {A} (l : list A) : list (A * A) :=
    match l with
    | [] => []
    | x :: t => map (fun y => (x, y)) t ++ pairs_lt t
    end.
  Definition multi_writes (w : mat) : list mwrite :=
    if Nat.eqb (length mappers) 1 then []
    else map (fun xy => let x := fst xy in let y := snd xy in
                {| mw_r0 := fst (snd x); mw_r1 := snd (snd x); mw_c0 := fst (snd y); mw_c1 := snd (snd y);
                   mw_b := k_off_wt K w (lo_mm (fst x)) (lo_p (fst x)) (lo_mm (fst y)) (lo_p (fst y)) |})
             (pairs_lt mappers).
  (* w_tilde._curvature_matrix_func_list_and_mapper: the off-diagonal kernel depends on which of the two
     dictionaries is PRESENT in the Preloads object *)
  Inductive off_mode := OffDlf (dlf : list mat) | OffMomm (omml : list mat) | OffFresh.
  Definition off_block (md : off_mode) (lf : list mat) (i : nat) (x : lobj T * (nat * nat)) (f : nat) : mat :=
    match md with
    | OffDlf dlf => k_off_dlfm K (nth f dlf []) (lo_mm (fst x)) (lo_p (fst x))
    | OffMomm omml => k_dotT K (nth i omml []) (k_cw K (nth f lf []) n)
    | OffFresh => k_off_mf K (lo_mm (fst x)) (lo_p (fst x)) (k_cw K (nth f lf []) n)
    end.
  Definition enum {A} (l : list A) : list (nat * A) := combine (seq 0 (length l)) l.
  Definition flm_writes (md : off_mode) (lf : list mat) : list mwrite :=
    flat_map (fun ix => map (fun fy =>
        {| mw_r0 := fst (snd (snd ix)); mw_r1 := snd (snd (snd ix));
           mw_c0 := fst (snd (snd fy)); mw_c1 := snd (snd (snd fy));
           mw_b := off_block md lf (fst ix) (snd ix) (fst fy) |}) (enum funcs)) (enum mappers)
    ++ flat_map (fun f0 => map (fun f1 =>
        {| mw_r0 := fst (snd (snd f0)); mw_r1 := snd (snd (snd f0));
           mw_c0 := fst (snd (snd f1)); mw_c1 := snd (snd (snd f1));
           mw_b := k_dotT K (k_wv K (nth (fst f0) lf []) n) (k_wv K (nth (fst f1) lf []) n) |}) (enum funcs)) (enum funcs).
  Definition curv_finish (m : mat) : mat := with_diag (mirror m).

  (* per-object mapped reconstructed data *)
  Definition ranges := ranges_from 0 objs.
  Definition mapped_map (l : list mat) (s : vec) : vec :=
    vsum (map2 (fun B r => k_mapped_mm K B (slice (fst r) (snd r) s)) l ranges).
  Definition mapped_wt (lf : list mat) (s : vec) : vec :=
    vsum (map2 (fun (ok : lobj T * nat) r =>
                  let o := fst ok in
                  if lo_mapper o then conv_img K (k_mapped_um K (lo_mm o) (slice (fst r) (snd r) s))
                  else k_rowsum K (slice (fst r) (snd r) s) (nth (snd ok) lf []))
               (combine objs (func_index_from 0 objs)) ranges).

  (* ---------------------------------------------------------------------------------------------- *)
  (* the inversion object.  mode = None: InversionImagingMapping; Some w: InversionImagingWTilde with   *)
  (* self.w_tilde = w                                                                                  *)
  Variable mode : option (wtilde T).
  Notation M := (M T).
  Notation cval := (cval T).

  Definition write_m (r : mref T) (ws : list mwrite) : M (mref T) :=
    match r with
    | MOwn m => ret (MOwn (apply_mws m ws))
    | MAlias s => _ <- modify (fun p => mslot_set s (apply_mws (rdm (MAlias s) p) ws) p) ;; ret (MAlias s)
    end.
  (* `a += b` through a reference *)
  Definition inplace_add (r : mref T) (b : mat) : M (mref T) :=
    match r with
    | MOwn m => ret (MOwn (madd m b))
    | MAlias s => _ <- modify (fun p => mslot_set s (madd (rdm (MAlias s) p) b) p) ;; ret (MAlias s)
    end.

  Definition get_lf : M cval := cached QLf (
    s <- gets (@s_lf T) ;;
    match s with
    | Some l => ret (CL (rekey funcs l))
    | None => ret (CL lf_fresh)
    end).
  Definition val (get : M cval) : M (pval T) := c <- get ;; gets (readc c).
  Definition omm_list : M (list mat) := lf <- val get_lf ;; ret (omm_list_of (as_l lf)).
  Definition get_momm : M cval := cached QMomm (
    s <- gets (@s_momm T) ;;
    match s with
    | Some l => ret (CL (rekey mappers l))
    | None => ret (CL momm_fresh)
    end).
  Definition get_omm : M cval := cached QOmm (
    s <- gets (@s_omm T) ;;
    match s with
    | Some _ => ret (CM (MAlias SOmm))
    | None => l <- omm_list ;; ret (CM (MOwn (hstack l)))
    end).
  Definition get_wtd : M cval := cached QWtd (ret (CV (VOwn (k_wtd K d n)))).

  (* _data_vector_mapper (a property, not cached) of the w-tilde class *)
  Definition dvm_ref_wt : M (vref T) :=
    s <- gets (@s_dvm T) ;;
    match s with
    | Some _ => ret VAlias
    | None => wtd <- val get_wtd ;; ret (VOwn (apply_vws (zeros_v total) (dvm_writes_wt (as_v wtd))))
    end.

  Definition get_dv : M cval := cached QDv (
    match mode with
    | None =>
        s <- gets (@s_dvm T) ;;
        if is_some s && (negb (v_guard V) || negb has_func) then ret (CV VAlias)
        else so <- gets (@s_omm T) ;;
             B <- match so with Some b => ret b | None => b <- val get_omm ;; ret (as_m b) end ;;
             ret (CV (VOwn (k_dv_bmm K B d n)))
    | Some _ =>
        if has_func then
          (* data_vector = copy.copy(self._data_vector_mapper)  (/repo 95fc1c6: the function rows are assigned into a COPY;
             before that commit they were assigned into the preloaded Preloads.data_vector_mapper array itself) *)
          r <- dvm_ref_wt ;; v <- gets (rdv r) ;; lf <- val get_lf ;;
          ret (CV (VOwn (apply_vws v (dv_func_writes (as_l lf)))))
        else
          s <- gets (@s_dvm T) ;;
          match s with
          | Some _ => ret (CV VAlias)
          | None =>
              wtd <- val get_wtd ;;
              if Nat.eqb (length mappers) 1
              then ret (CV (VOwn (match objs with
                                  | o :: _ => k_dv_wt K (as_v wtd) (lo_mm o) (lo_p o)
                                  | [] => []
                                  end)))
              else ret (CV (VOwn (concat (map (fun o => k_dv_wt K (as_v wtd) (lo_mm o) (lo_p o)) objs))))
          end
    end).

  (* _curvature_matrix_mapper_diag / _multi_mapper / _func_list_and_mapper of the w-tilde class *)
  Definition cmd_ref (w : wtilde T) : M (mref T) :=
    s <- gets (@s_cmd T) ;;
    match s with
    | Some c => ret (MOwn c)      (* copy.copy(self.preloads.curvature_matrix_mapper_diag): /repo commit 902c41f *)
    | None => ret (MOwn (apply_mws (zeros_m total total) (cmd_writes (wt_w w))))
    end.
  Definition multi_ref (w : wtilde T) : M (mref T) := r <- cmd_ref w ;; write_m r (multi_writes (wt_w w)).
  Definition flm_ref (w : wtilde T) : M (mref T) :=
    r <- multi_ref w ;;
    lf <- val get_lf ;;
    sd <- gets (@s_dlf T) ;;
    sm <- gets (@s_momm T) ;;
    md <- match sd, sm with
          | Some l, _ => ret (OffDlf (rekey funcs l))
          | None, Some _ => l <- val get_momm ;; ret (OffMomm (as_l l))
          | None, None => ret OffFresh
          end ;;
    write_m r (flm_writes md (as_l lf)).

  Definition get_curv : M cval := cached QCurv (
    s <- gets (@s_curv T) ;;
    match s with
    | Some c => ret (CM (if v_copy V then MOwn c else MAlias SCurv))
    | None =>
        match mode with
        | None => B <- val get_omm ;; ret (CM (MOwn (curv_via_mm (as_m B))))
        | Some w =>
            r <- (if has_func then flm_ref w
                  else if Nat.eqb (length mappers) 1 then cmd_ref w else multi_ref w) ;;
            m <- gets (rdm r) ;;
            ret (CM (MOwn (curv_finish m)))
        end
    end).

  Definition get_reg : M cval := cached QReg (
    s <- gets (@s_reg T) ;;
    match s with
    | Some _ => ret (CM (MAlias SReg))
    | None => ret (CM (MOwn (block_diag_from 0 total (map (fun o => (lo_p o, reg_of o)) objs))))
    end).
  Definition get_regred : M cval := cached QRegRed (
    c <- get_reg ;;
    if all_reg then ret c
    else m <- gets (readc c) ;; ret (CM (MOwn (delete_rc noreg_idx (as_m m))))).

  Definition get_crm : M cval := cached QCrm (
    if negb has_reg then get_curv
    else if Nat.eqb (length objs) 1 then
      c <- get_curv ;;
      H <- val get_reg ;;
      r <- inplace_add (c_mref c) (as_m H) ;;
      _ <- set_cache QCurv None ;;                 (* del self.__dict__["curvature_matrix"] *)
      ret (CM r)
    else
      F <- val get_curv ;; H <- val get_reg ;; ret (CM (MOwn (madd (as_m F) (as_m H))))).
  Definition get_crmred : M cval := cached QCrmRed (
    if all_reg then get_crm
    else m <- val get_crm ;; ret (CM (MOwn (delete_rc noreg_idx (as_m m))))).

  Definition get_rec : M cval := cached QRec (
    dv <- val get_dv ;; crm <- val get_crm ;; ret (CRV (k_solve K (as_m crm) (as_v dv)))).
  Definition get_recred : M cval := cached QRecRed (
    r <- val get_rec ;;
    if all_reg then ret (CRV (as_rv r)) else ret (CRV (map_res (delete_v noreg_idx) (as_rv r)))).
  Definition get_mapped : M cval := cached QMapped (
    r <- val get_rec ;;
    match mode with
    | None => l <- omm_list ;; ret (CRV (map_res (mapped_map l) (as_rv r)))
    | Some _ => lf <- val get_lf ;; ret (CRV (map_res (mapped_wt (as_l lf)) (as_rv r)))
    end).
  Definition get_regterm : M cval := cached QRegTerm (
    if negb has_reg then ret (CRT (Ok z))
    else r <- val get_recred ;; H <- val get_regred ;;
         ret (CRT (map_res (fun s => k_quad K s (as_m H)) (as_rv r)))).
  Definition get_ldc : M cval := cached QLdc (
    if negb has_reg then ret (CRT (Ok z))
    else m <- val get_crmred ;; ret (CRT (k_ldc K (as_m m)))).
  Definition get_ldr : M cval := cached QLdr (
    if negb has_reg then ret (CRT (Ok z))
    else s <- gets (@s_ldr T) ;;
         match s with
         | Some x => ret (CRT (Ok x))
         | None => m <- val get_regred ;; ret (CRT (k_ldr K (as_m m)))
         end).

  Definition get (q : qty) : M cval :=
    match q with
    | QLf => get_lf | QMomm => get_momm | QOmm => get_omm | QWtd => get_wtd | QDv => get_dv
    | QCurv => get_curv | QReg => get_reg | QRegRed => get_regred | QCrm => get_crm | QCrmRed => get_crmred
    | QRec => get_rec | QRecRed => get_recred | QMapped => get_mapped | QRegTerm => get_regterm
    | QLdc => get_ldc | QLdr => get_ldr
    end.
  (* reading an attribute of the inversion *)
  Definition observe (q : qty) : M (pval T) := val (get q).
  Fixpoint observe_all (qs : list qty) : M (list (pval T)) :=
    match qs with
    | [] => ret []
    | q :: t => v <- observe q ;; vs <- observe_all t ;; ret (v :: vs)
    end.

  (* ---------------------------------------------------------------------------------------------- *)
  (* SPECIFICATION: the same quantities as plain functions of the inputs -- no Preloads object, no     *)
  (* cache, no references                                                                              *)
  Definition p_omm : mat := hstack (omm_list_of lf_fresh).
  Definition p_wtd : vec := k_wtd K d n.
  Definition p_dvm : vec :=
    match mode with
    | None => apply_vws (zeros_v total) dvm_writes_map
    | Some _ => apply_vws (zeros_v total) (dvm_writes_wt p_wtd)
    end.
  Definition p_dv : vec :=
    match mode with
    | None => k_dv_bmm K p_omm d n
    | Some _ =>
        if has_func then apply_vws p_dvm (dv_func_writes lf_fresh)
        else if Nat.eqb (length mappers) 1
             then match objs with o :: _ => k_dv_wt K p_wtd (lo_mm o) (lo_p o) | [] => [] end
             else concat (map (fun o => k_dv_wt K p_wtd (lo_mm o) (lo_p o)) objs)
    end.
  Definition p_cmd (w : wtilde T) : mat := apply_mws (zeros_m total total) (cmd_writes (wt_w w)).
  Definition p_pre (w : wtilde T) : mat :=      (* the array handed to curvature_matrix_mirrored_from *)
    if has_func then apply_mws (apply_mws (p_cmd w) (multi_writes (wt_w w))) (flm_writes OffFresh lf_fresh)
    else if Nat.eqb (length mappers) 1 then p_cmd w
    else apply_mws (p_cmd w) (multi_writes (wt_w w)).
  Definition p_curv : mat :=
    match mode with
    | None => curv_via_mm p_omm
    | Some w => curv_finish (p_pre w)
    end.
  Definition p_reg : mat := block_diag_from 0 total (map (fun o => (lo_p o, reg_of o)) objs).
  Definition p_regred : mat := if all_reg then p_reg else delete_rc noreg_idx p_reg.
  Definition p_crm : mat := if negb has_reg then p_curv else madd p_curv p_reg.
  Definition p_crmred : mat := if all_reg then p_crm else delete_rc noreg_idx p_crm.
  Definition p_rec : res vec := k_solve K p_crm p_dv.
  Definition p_recred : res vec := if all_reg then p_rec else map_res (delete_v noreg_idx) p_rec.
  Definition p_mapped : res vec :=
    match mode with
    | None => map_res (mapped_map (omm_list_of lf_fresh)) p_rec
    | Some _ => map_res (mapped_wt lf_fresh) p_rec
    end.
  Definition p_regterm : res T := if negb has_reg then Ok z else map_res (fun s => k_quad K s p_regred) p_recred.
  Definition p_ldc : res T := if negb has_reg then Ok z else k_ldc K p_crmred.
  Definition p_ldr : res T := if negb has_reg then Ok z else k_ldr K p_regred.
  Definition pure (q : qty) : pval T :=
    match q with
    | QLf => PL lf_fresh | QMomm => PL momm_fresh | QOmm => PM p_omm | QWtd => PV p_wtd | QDv => PV p_dv
    | QCurv => PM p_curv | QReg => PM p_reg | QRegRed => PM p_regred | QCrm => PM p_crm | QCrmRed => PM p_crmred
    | QRec => PRV p_rec | QRecRed => PRV p_recred | QMapped => PRV p_mapped | QRegTerm => PRT p_regterm
    | QLdc => PRT p_ldc | QLdr => PRT p_ldr
    end.
End Model.

(* -------------------------------------------------------------------------------------------------- *)
(* factory.inversion_imaging_from + InversionImagingWTilde.__init__ (check_noise_map)                   *)
Section Factory.
  Variable T : Type.
  Variable K : kernels T.
  Variable inp : input T.
  Definition all_func : bool := forallb (fun o => negb (lo_mapper o)) (in_objs inp).
  Definition choose_wt (p : pstore T) : bool :=
    let u := if all_func then false
             else match s_use_wt p with Some b => b | None => in_use_wt inp end in
    if negb (in_use_wt inp) then false else u.
  Definition check_noise_map (w : wtilde T) : bool := teqb K (hd (t0 K) (ds_n (in_ds inp))) (wt_nv w).
  Definition make_inversion (p : pstore T) : res (option (wtilde T)) :=
    if choose_wt p then
      let w := match s_wt p with Some w => w | None => ds_wt (in_ds inp) end in
      if check_noise_map w then Ok (Some w) else Raise InversionException
    else Ok None.

  (* one inversion: built by the factory, then the listed attributes are read in order *)
  Variable V : variant.
  Definition empty_cache : qty -> option (cval T) := fun _ => None.
  Definition run_inversion (p : pstore T) (qs : list qty) : res (list (pval T)) * pstore T :=
    match make_inversion p with
    | Raise e => (Raise e, p)
    | Ok mode =>
        let (vs, st) := observe_all K V inp mode qs {| cache := empty_cache; store := p |} in
        (Ok vs, store st)
    end.
  (* a history: successive inversions on the same inputs sharing one Preloads object *)
  Fixpoint run_history (p : pstore T) (h : list (list qty)) : list (res (list (pval T))) * pstore T :=
    match h with
    | [] => ([], p)
    | qs :: t => let (r, p1) := run_inversion p qs in
                 let (rs, p2) := run_history p1 t in (r :: rs, p2)
    end.
End Factory.


(* -------------------------------------------------------------------------------------------------- *)
(* Preloads.set_*(fit_0, fit_1): the production path that FILLS the slots, from the inversions of two fits.         *)
(* A fit's inversion is an inversion object in some state (its cached_property values, its own Preloads object).   *)
(* Every set_* method first clears its slots, then reads attributes of BOTH inversions (which fills their caches), *)
(* compares them (max |a - b| < 1e-8, [cmpk]) and stores fit_0's values.  set_curvature_matrix stores a COPY of     *)
(* inversion_0.curvature_matrix (/repo commit 1fc8a9b; before it, an alias of the cached array, which               *)
(* curvature_reg_matrix overwrites in place).                                                                       *)
Section SetPreloads.
  Variable T : Type.
  Variable K : kernels T.
  Variable V : variant.
  Record cmpk := { c_close_v : vec T -> vec T -> bool; c_close_m : mat T -> mat T -> bool; c_close_t : T -> T -> bool }.
  Variable Cm : cmpk.
  Definition put_use_wt (o : option bool) (p : pstore T) : pstore T :=
    {| s_use_wt := o; s_wt := s_wt p; s_omm := s_omm p; s_curv := s_curv p; s_cmd := s_cmd p; s_reg := s_reg p; s_dvm := s_dvm p; s_lf := s_lf p; s_dlf := s_dlf p; s_momm := s_momm p; s_ldr := s_ldr p |}.
  Definition put_wt (o : option (wtilde T)) (p : pstore T) : pstore T :=
    {| s_use_wt := s_use_wt p; s_wt := o; s_omm := s_omm p; s_curv := s_curv p; s_cmd := s_cmd p; s_reg := s_reg p; s_dvm := s_dvm p; s_lf := s_lf p; s_dlf := s_dlf p; s_momm := s_momm p; s_ldr := s_ldr p |}.
  Definition put_omm (o : option (mat T)) (p : pstore T) : pstore T :=
    {| s_use_wt := s_use_wt p; s_wt := s_wt p; s_omm := o; s_curv := s_curv p; s_cmd := s_cmd p; s_reg := s_reg p; s_dvm := s_dvm p; s_lf := s_lf p; s_dlf := s_dlf p; s_momm := s_momm p; s_ldr := s_ldr p |}.
  Definition put_curv (o : option (mat T)) (p : pstore T) : pstore T :=
    {| s_use_wt := s_use_wt p; s_wt := s_wt p; s_omm := s_omm p; s_curv := o; s_cmd := s_cmd p; s_reg := s_reg p; s_dvm := s_dvm p; s_lf := s_lf p; s_dlf := s_dlf p; s_momm := s_momm p; s_ldr := s_ldr p |}.
  Definition put_cmd (o : option (mat T)) (p : pstore T) : pstore T :=
    {| s_use_wt := s_use_wt p; s_wt := s_wt p; s_omm := s_omm p; s_curv := s_curv p; s_cmd := o; s_reg := s_reg p; s_dvm := s_dvm p; s_lf := s_lf p; s_dlf := s_dlf p; s_momm := s_momm p; s_ldr := s_ldr p |}.
  Definition put_reg (o : option (mat T)) (p : pstore T) : pstore T :=
    {| s_use_wt := s_use_wt p; s_wt := s_wt p; s_omm := s_omm p; s_curv := s_curv p; s_cmd := s_cmd p; s_reg := o; s_dvm := s_dvm p; s_lf := s_lf p; s_dlf := s_dlf p; s_momm := s_momm p; s_ldr := s_ldr p |}.
  Definition put_dvm (o : option (vec T)) (p : pstore T) : pstore T :=
    {| s_use_wt := s_use_wt p; s_wt := s_wt p; s_omm := s_omm p; s_curv := s_curv p; s_cmd := s_cmd p; s_reg := s_reg p; s_dvm := o; s_lf := s_lf p; s_dlf := s_dlf p; s_momm := s_momm p; s_ldr := s_ldr p |}.
  Definition put_lf (o : option (list (mat T))) (p : pstore T) : pstore T :=
    {| s_use_wt := s_use_wt p; s_wt := s_wt p; s_omm := s_omm p; s_curv := s_curv p; s_cmd := s_cmd p; s_reg := s_reg p; s_dvm := s_dvm p; s_lf := o; s_dlf := s_dlf p; s_momm := s_momm p; s_ldr := s_ldr p |}.
  Definition put_dlf (o : option (list (mat T))) (p : pstore T) : pstore T :=
    {| s_use_wt := s_use_wt p; s_wt := s_wt p; s_omm := s_omm p; s_curv := s_curv p; s_cmd := s_cmd p; s_reg := s_reg p; s_dvm := s_dvm p; s_lf := s_lf p; s_dlf := o; s_momm := s_momm p; s_ldr := s_ldr p |}.
  Definition put_momm (o : option (list (mat T))) (p : pstore T) : pstore T :=
    {| s_use_wt := s_use_wt p; s_wt := s_wt p; s_omm := s_omm p; s_curv := s_curv p; s_cmd := s_cmd p; s_reg := s_reg p; s_dvm := s_dvm p; s_lf := s_lf p; s_dlf := s_dlf p; s_momm := o; s_ldr := s_ldr p |}.
  Definition put_ldr (o : option T) (p : pstore T) : pstore T :=
    {| s_use_wt := s_use_wt p; s_wt := s_wt p; s_omm := s_omm p; s_curv := s_curv p; s_cmd := s_cmd p; s_reg := s_reg p; s_dvm := s_dvm p; s_lf := s_lf p; s_dlf := s_dlf p; s_momm := s_momm p; s_ldr := o |}.

  Record fit := { f_inp : input T; f_mode : option (wtilde T); f_st : state T }.
  Definition with_st (f : fit) (st : state T) : fit :=
    {| f_inp := f_inp f; f_mode := f_mode f; f_st := st |}.
  Definition fread (f : fit) (q : qty) : pval T * fit :=
    let (v, st) := observe K V (f_inp f) (f_mode f) q (f_st f) in (v, with_st f st).
  Fixpoint freads (f : fit) (qs : list qty) : list (pval T) * fit :=
    match qs with
    | [] => ([], f)
    | q :: t => let (v, f1) := fread f q in let (vs, f2) := freads f1 t in (v :: vs, f2)
    end.
  (* the three attributes read by the set_* methods that are not among the observed quantities *)
  Definition dvm_prop (f : fit) : option (vec T) * fit :=                 (* inversion._data_vector_mapper *)
    let inp := f_inp f in
    match f_mode f with
    | None => (match s_dvm (store (f_st f)) with
               | Some v => Some v
               | None => if has_mapper inp then Some (apply_vws K (zeros_v K (total inp)) (dvm_writes_map K inp)) else None
               end, f)
    | Some _ => let (r, st) := dvm_ref_wt K inp (f_st f) in (Some (rdv r (store st)), with_st f st)
    end.
  (* InversionImagingMapping._curvature_matrix_mapper_diag (since /repo commit f780999: one block
     curvature_matrix_via_mapping_matrix_from(blurred mapping matrix of the mapper, noise_map) per mapper, WITHOUT the
     no-regularization diagonal term, then curvature_matrix_mirrored_from) *)
  Definition cmd_writes_map (inp : input T) : list (mwrite T) :=
    map (fun x => {| mw_r0 := fst (snd x); mw_r1 := snd (snd x); mw_c0 := fst (snd x); mw_c1 := snd (snd x);
                     mw_b := k_curv_mm K (conv_mm K (lo_mm (fst x))) (n inp) |}) (mappers inp).
  Definition p_cmd_map (inp : input T) : mat T :=
    mirror K (apply_mws K (zeros_m K (total inp) (total inp)) (cmd_writes_map inp)).
  Definition cmd_prop (f : fit) : res (option (mat T)) :=                 (* inversion._curvature_matrix_mapper_diag *)
    let inp := f_inp f in
    match f_mode f with
    | None => match s_cmd (store (f_st f)) with
              | Some m => Ok (Some m)
              | None => if has_mapper inp then Ok (Some (p_cmd_map inp)) else Ok None
              end
    | Some w => let (r, st) := cmd_ref K inp w (f_st f) in Ok (Some (rdm r (store st)))
    end.
  Definition dlf_prop (f : fit) : list (mat T) * fit :=                   (* inversion.data_linear_func_matrix_dict *)
    let inp := f_inp f in
    match s_dlf (store (f_st f)) with
    | Some l => (rekey (funcs inp) l, f)
    | None => let (lf, f1) := fread f QLf in (dlf_of K inp (as_l lf), f1)
    end.

  Inductive setter := SetWt | SetOmm | SetLf | SetCurv | SetReg.
  Definition ncols (m : mat T) : nat := length (hd [] m).
  Definition same_shape (a b : mat T) : bool := Nat.eqb (length a) (length b) && Nat.eqb (ncols a) (ncols b).

  Definition run_setter (s : setter) (P : pstore T) (f0 f1 : fit) : res unit * pstore T * fit * fit :=
    let inp0 := f_inp f0 in
    match s with
    | SetWt =>                                                  (* set_w_tilde_imaging *)
        let P1 := put_use_wt (Some false) (put_wt None P) in
        if negb (has_mapper inp0) then (Ok tt, P1, f0, f1)
        else if c_close_v Cm (n inp0) (n (f_inp f1))
             then (Ok tt, put_use_wt (Some true)
                            (put_wt (Some {| wt_w := wt_w (ds_wt (in_ds inp0)); wt_nv := hd (t0 K) (n inp0) |}) P1), f0, f1)
             else (Ok tt, P1, f0, f1)
    | SetOmm =>                                                 (* set_operated_mapping_matrix_with_preloads *)
        let P1 := put_omm None P in
        let (b0, f0a) := fread f0 QOmm in let (b1, f1a) := fread f1 QOmm in
        if Nat.eqb (ncols (as_m b0)) (ncols (as_m b1)) && c_close_m Cm (as_m b0) (as_m b1)
        then (Ok tt, put_omm (Some (as_m b0)) P1, f0a, f1a) else (Ok tt, P1, f0a, f1a)
    | SetLf =>                                                  (* set_linear_func_inversion_dicts *)
        let P1 := put_lf None P in
        if negb (has_mapper inp0) || negb (has_func inp0) then (Ok tt, P1, f0, f1)
        else
          let (l0, f0a) := fread f0 QLf in let (l1, f1a) := fread f1 QLf in
          let pairs := combine (as_l l0) (as_l l1) in
          if negb (Nat.eqb (length pairs) 0) && forallb (fun ab => c_close_m Cm (fst ab) (snd ab)) pairs
          then let (dl, f0b) := dlf_prop f0a in (Ok tt, put_dlf (Some dl) (put_lf (Some (as_l l0)) P1), f0b, f1a)
          else (Ok tt, P1, f0a, f1a)
    | SetCurv =>                                                (* set_curvature_matrix *)
        let P1 := put_momm None (put_cmd None (put_dvm None (put_curv None P))) in
        match cmd_prop f0 with
        | Raise e => (Raise e, P1, f0, f1)
        | Ok c0 =>
            let (F0, f0a) := fread f0 QCurv in let (F1, f1a) := fread f1 QCurv in
            if same_shape (as_m F0) (as_m F1) then
              if c_close_m Cm (as_m F0) (as_m F1) then (Ok tt, put_curv (Some (as_m F0)) P1, f0a, f1a)
              else match c0 with
                   | None => (Ok tt, P1, f0a, f1a)
                   | Some m0 =>
                       match cmd_prop f1a with
                       | Raise e => (Raise e, P1, f0a, f1a)
                       | Ok c1 =>
                           if c_close_m Cm m0 (match c1 with Some m1 => m1 | None => [] end) then
                             let (mo, f0b) := fread f0a QMomm in
                             let (dv, f0c) := dvm_prop f0b in
                             (Ok tt, put_cmd (Some m0) (put_dvm dv (put_momm (Some (as_l mo)) P1)), f0c, f1a)
                           else (Ok tt, P1, f0a, f1a)
                       end
                   end
            else (Ok tt, P1, f0a, f1a)
        end
    | SetReg =>                                                 (* set_regularization_matrix_and_term *)
        let P1 := put_ldr None (put_reg None P) in
        if negb (has_mapper inp0) then (Ok tt, P1, f0, f1)
        else
          let (l0, f0a) := fread f0 QLdr in
          match as_rt l0 with
          | Raise e => (Raise e, P1, f0a, f1)
          | Ok x0 =>
              let (l1, f1a) := fread f1 QLdr in
              match as_rt l1 with
              | Raise e => (Raise e, P1, f0a, f1a)
              | Ok x1 =>
                  if c_close_t Cm x0 x1
                  then let (H, f0b) := fread f0a QReg in (Ok tt, put_ldr (Some x0) (put_reg (Some (as_m H)) P1), f0b, f1a)
                  else (Ok tt, P1, f0a, f1a)
              end
          end
    end.
  (* the methods are called one after the other; an exception of one does not stop the caller from calling the next *)
  Fixpoint run_setters (ss : list setter) (P : pstore T) (f0 f1 : fit) : list (res unit) * pstore T * fit * fit :=
    match ss with
    | [] => ([], P, f0, f1)
    | s :: t => let '(r, P1, f0a, f1a) := run_setter s P f0 f1 in
                let '(rs, P2, f0b, f1b) := run_setters t P1 f0a f1a in (r :: rs, P2, f0b, f1b)
    end.
  (* aa.Inversion(dataset, objs, settings, preloads=own): the inversion of a fit *)
  Definition make_fit (inp : input T) (own : pstore T) : res fit :=
    match make_inversion K inp own with
    | Raise e => Raise e
    | Ok mode => Ok {| f_inp := inp; f_mode := mode; f_st := {| cache := empty_cache T; store := own |} |}
    end.
End SetPreloads.

(* ==================================================================================================== *)
(* Execution instance: T = Q, dense reference semantics of the kernels; solver and log-determinants are   *)
(* finite oracle tables taken from the implementation (execution devices of the correspondence run only). *)
Local Open Scope Q_scope.
Definition qadd (a b : Q) : Q := Qred (a + b).
Definition qmul (a b : Q) : Q := Qred (a * b).
Definition qdiv (a b : Q) : Q := Qred (a / b).
Definition qnz (a : Q) : bool := negb (Qeq_bool a 0).
Definition qvec := list Q.
Definition qmat := list (list Q).
Definition qsum (l : list Q) : Q := fold_left qadd l 0.
Definition qdot (a b : qvec) : Q := qsum (map2 qmul a b).
Fixpoint qtranspose_n (c : nat) (m : qmat) : qmat :=      (* c = number of columns *)
  match c with
  | O => []
  | S c' => map (fun r => hd 0 r) m :: qtranspose_n c' (map (fun r => tl r) m)
  end.
Definition qcols (m : qmat) : nat := length (hd [] m).
Definition qtr (m : qmat) : qmat := qtranspose_n (qcols m) m.
Definition qmv (m : qmat) (v : qvec) : qvec := map (fun r => qdot r v) m.
Definition qmm (a b : qmat) : qmat := let bt := qtr b in map (fun r => map (fun c => qdot r c) bt) a.
Definition qtmv (m : qmat) (v : qvec) : qvec := qmv (qtr m) v.            (* m^T v *)
Definition qtmm (a b : qmat) : qmat := qmm (qtr a) b.                     (* a^T b; shape from a's columns *)
Definition qrowdiv (m : qmat) (s : qvec) : qmat := map2 (fun r x => map (fun y => qdiv y x) r) m s.
Definition qsq (v : qvec) : qvec := map (fun x => qmul x x) v.

Definition qclose (tol a b : Q) : bool := Qle_bool (Qabs (a - b)) (tol * (1 + Qabs b)).
(* comparisons are relative to the SCALE of the expected value (an absolute tolerance would hide tiny columns):
   - arrays every entry of which the implementation computes exactly on the dyadic inputs of the correspondence run
     (operated mapping matrices, data vector, curvature / regularization matrices and their sums, the slots) are compared
     ENTRY-WISE relative: |a - b| <= tol |b|  (so an expected exact zero must be an exact zero);
   - solved vectors (reconstruction, mapped data) relative to the largest expected entry;
   - the regularization term s^T H s relative to |b| + amb, amb = (sum |s_i|)^2 max |H_ij| (its rounding scale);
   - the two log-determinants with 1 + |b| (a logarithm has an absolute scale). *)
Definition qrel (tol a b : Q) : bool := Qle_bool (Qabs (a - b)) (tol * Qabs b).
Definition qvclose tol := list_eqb (qrel tol).
Definition qmclose tol := list_eqb (qvclose tol).
Definition qmaxabs (v : qvec) : Q := fold_left (fun m x => if Qle_bool m (Qabs x) then Qabs x else m) v 0.
Definition qvclose_max (tol : Q) (a b : qvec) : bool :=
  let s := qmaxabs b in list_eqb (fun x y => Qle_bool (Qabs (x - y)) (tol * s)) a b.
Definition qtol : Q := 1 # 1000000000.
Definition qkey : Q := 1 # 100000000.
Definition qtol_spec : Q := 1 # 10000000.

Record oracle := {
  or_solve : list ((qmat * qvec) * res qvec);
  or_ldc : list (qmat * res Q);
  or_ldr : list (qmat * res Q) }.
Fixpoint lookup {A B} (eqk : A -> A -> bool) (k : A) (l : list (A * B)) (dflt : B) : B :=
  match l with
  | [] => dflt
  | (k', v) :: t => if eqk k k' then v else lookup eqk k t dflt
  end.

(* C = dense PSF operator on the unmasked pixels (C[i][j] = weight of image pixel j in blurred pixel i) *)
Definition qkernels (C : qmat) (o : oracle) : kernels Q := {|
  t0 := 0; tadd := qadd; tnz := qnz; teqb := Qeq_bool;
  conv_mm := fun M => qmm C M;
  conv_img := fun v => qmv C v;
  k_dv_bmm := fun B d n => qtmv B (map2 qdiv d (qsq n));
  k_curv_mm := fun B n => let A := qrowdiv B n in qtmm A A;
  k_wtd := fun d n => qtmv C (map2 qdiv d (qsq n));
  k_dv_wt := fun wtd M _ => qtmv M wtd;
  k_curv_wt := fun W M _ => qtmm M (qmm W M);
  k_off_wt := fun W M0 _ M1 _ => qtmm M0 (qmm W M1);
  k_cw := fun L n => qrowdiv L (qsq n);
  k_wv := fun L n => qrowdiv L n;
  k_dotT := qtmm;
  k_dlfm := fun cw => qtmm C cw;
  k_off_dlfm := fun dl M _ => qtmm M dl;
  k_off_mf := fun M _ cw => qtmm M (qtmm C cw);
  k_mapped_mm := fun B s => qmv B s;
  k_mapped_um := fun M s => qmv M s;
  k_rowsum := fun s L => qmv L s;
  k_quad := fun s H => qdot s (qmv H s);
  k_solve := fun A b => lookup (fun x y => qmclose qkey (fst x) (fst y) && qvclose qkey (snd x) (snd y))
                               (A, b) (or_solve o) (Raise OtherException);
  k_ldc := fun A => lookup (qmclose qkey) A (or_ldc o) (Raise OtherException);
  k_ldr := fun A => lookup (qmclose qkey) A (or_ldr o) (Raise OtherException) |}.

(* ---------------------------------------------------------------------------------------------------- *)
(* correspondence cases                                                                                   *)
Definition res_close {A} (eqa : A -> A -> bool) (x y : res A) : bool := res_eqb eqa x y.
(* model output [a] against implementation output [b] for attribute [q] *)
Definition pval_close_at (amb : Q) (q : qty) (a b : pval Q) : bool :=
  match a, b with
  | PM x, PM y => qmclose qtol x y
  | PV x, PV y => qvclose qtol x y
  | PL x, PL y => list_eqb (qmclose qtol) x y
  | PRV x, PRV y => res_close (qvclose_max qtol) x y
  | PRT x, PRT y =>
      match q with
      | QRegTerm => res_close (fun u v => Qle_bool (Qabs (u - v)) (qtol * (Qabs v + amb))) x y
      | _ => res_close (qclose qtol) x y
      end
  | _, _ => false
  end.
Fixpoint list_close_at (amb : Q) (qs : list qty) (a b : list (pval Q)) : bool :=
  match qs, a, b with
  | [], [], [] => true
  | q :: qt, x :: at_, y :: bt => pval_close_at amb q x y && list_close_at amb qt at_ bt
  | _, _, _ => false
  end.
Definition outs_close_at (amb : Q) (qs : list qty) (a b : res (list (pval Q))) : bool :=
  res_eqb (list_close_at amb qs) a b.
Fixpoint hist_close_at (amb : Q) (h : list (list qty)) (a b : list (res (list (pval Q)))) : bool :=
  match h, a, b with
  | [], [], [] => true
  | qs :: ht, x :: at_, y :: bt => outs_close_at amb qs x y && hist_close_at amb ht at_ bt
  | _, _, _ => false
  end.
(* implementation output against implementation output (specification side: no model value available): identical
   computations on identical bits, so everything is compared relative to its own size *)
Definition pval_same (a b : pval Q) : bool :=
  match a, b with
  | PM x, PM y => qmclose qtol x y
  | PV x, PV y => qvclose qtol x y
  | PL x, PL y => list_eqb (qmclose qtol) x y
  | PRV x, PRV y => res_close (qvclose_max qtol_spec) x y
  | PRT x, PRT y => res_close (qrel qtol_spec) x y
  | _, _ => false
  end.
Definition outs_close (a b : res (list (pval Q))) : bool := res_eqb (list_eqb pval_same) a b.

Definition opt_close {A} (eqa : A -> A -> bool) := option_eqb eqa.
Definition wt_close (a b : wtilde Q) : bool := qmclose qtol (wt_w a) (wt_w b) && Qeq_bool (wt_nv a) (wt_nv b).
Definition store_close (a b : pstore Q) : bool :=
  option_eqb Bool.eqb (s_use_wt a) (s_use_wt b) && option_eqb wt_close (s_wt a) (s_wt b)
  && option_eqb (qmclose qtol) (s_omm a) (s_omm b) && option_eqb (qmclose qtol) (s_curv a) (s_curv b)
  && option_eqb (qmclose qtol) (s_cmd a) (s_cmd b) && option_eqb (qmclose qtol) (s_reg a) (s_reg b)
  && option_eqb (qvclose qtol) (s_dvm a) (s_dvm b)
  && option_eqb (list_eqb (qmclose qtol)) (s_lf a) (s_lf b)
  && option_eqb (list_eqb (qmclose qtol)) (s_dlf a) (s_dlf b)
  && option_eqb (list_eqb (qmclose qtol)) (s_momm a) (s_momm b)
  && option_eqb (qclose qtol) (s_ldr a) (s_ldr b).
(* the slots that must stay untouched: ALL of them (since /repo 95fc1c6 the w-tilde class no longer assigns the function rows
   into a preloaded data_vector_mapper) *)
Definition store_same_exact (a b : pstore Q) : bool :=
  let me := list_eqb (list_eqb Qeq_bool) in
  option_eqb Bool.eqb (s_use_wt a) (s_use_wt b)
  && option_eqb (fun x y => me (wt_w x) (wt_w y) && Qeq_bool (wt_nv x) (wt_nv y)) (s_wt a) (s_wt b)
  && option_eqb me (s_omm a) (s_omm b) && option_eqb me (s_curv a) (s_curv b)
  && option_eqb me (s_cmd a) (s_cmd b) && option_eqb me (s_reg a) (s_reg b)
  && option_eqb (list_eqb Qeq_bool) (s_dvm a) (s_dvm b)
  && option_eqb (list_eqb me) (s_lf a) (s_lf b) && option_eqb (list_eqb me) (s_dlf a) (s_dlf b)
  && option_eqb (list_eqb me) (s_momm a) (s_momm b) && option_eqb Qeq_bool (s_ldr a) (s_ldr b).

Inductive case :=
  (* one history: the Preloads object [pre] (slot values as the harness filled them), the attribute lists read
     from each successive inversion, and what the implementation returned:
     fresh  = outputs of the same first attribute list on an inversion built WITHOUT preloads,
     outs   = outputs of every inversion of the history,
     post   = content of the Preloads object after the last inversion *)
| KHist (C : qmat) (o : oracle) (inp : input Q) (pre : pstore Q) (h : list (list qty))
        (fresh : res (list (pval Q))) (outs : list (res (list (pval Q)))) (post : pstore Q)
  (* the factory given a Preloads object whose w_tilde may carry another noise_map_value *)
| KNoise (inp : input Q) (pre : pstore Q) (raised : bool)
  (* Preloads.set_*(fit_0, fit_1): the inversions of the two fits (input, own Preloads object), the attributes read from fit_0's inversion beforehand, the methods called in
     order, and what the implementation did: which calls raised, the content of the Preloads object afterwards [post], the
     attributes [reads1] read from fit_0's inversion AFTER the calls ([outs1]) and from a fresh inversion ([fresh1]);
     [fresh_slots] = every slot as a fresh inversion of fit_0's class computes it (specification side);
     [dvm_loose] = fit_0's own preloaded data_vector_mapper may already hold the function rows *)
| KSet (C : qmat) (o : oracle) (inp0 : input Q) (own0 : pstore Q) (reads0 : list qty)
       (inp1 : input Q) (own1 : pstore Q) (ss : list setter) (raised : list bool) (post : pstore Q)
       (fresh_slots : pstore Q) (dvm_loose : bool) (reads1 : list qty) (outs1 fresh1 : res (list (pval Q))).

(* np.max(abs(a - b)) < 1e-8 *)
Definition qlt8 (a b : Q) : bool := negb (Qle_bool (1 # 100000000) (Qabs (a - b))).
Definition qcmp : cmpk Q :=
  {| c_close_v := list_eqb qlt8; c_close_m := list_eqb (list_eqb qlt8); c_close_t := qlt8 |}.
Definition sumabs (v : qvec) : Q := fold_left (fun m x => qadd m (Qabs x)) v 0.
(* rounding scale of the regularization term, from the model's own fresh values *)
Definition amb_regterm (K : kernels Q) (inp : input Q) : Q :=
  match fst (run_inversion K inp code empty_store [QRecRed; QRegRed]) with
  | Ok [PRV (Ok s); PM H] => let a := sumabs s in qmul (qmul a a) (qmaxabs (concat H))
  | _ => 0
  end.
Definition agree (k : case) : bool :=
  match k with
  | KHist C o inp pre h fresh outs post =>
      let K := qkernels C o in
      let amb := amb_regterm K inp in
      let (mo, mp) := run_history K inp code pre h in
      hist_close_at amb h mo outs && store_close mp post
      && match h with
         | qs :: _ => outs_close_at amb qs (fst (run_inversion K inp code empty_store qs)) fresh
         | [] => true
         end
  | KNoise inp pre raised =>
      Bool.eqb (negb (is_ok (make_inversion (qkernels [] {| or_solve := []; or_ldc := []; or_ldr := [] |}) inp pre))) raised
  | KSet C o inp0 own0 reads0 inp1 own1 ss raised post fresh_slots dvm_loose reads1 outs1 fresh1 =>
      let K := qkernels C o in
      match make_fit K inp0 own0, make_fit K inp1 own1 with
      | Ok f0, Ok f1 =>
          let (_, f0a) := freads K code f0 reads0 in
          let '(rs, P, f0b, _) := run_setters K code qcmp ss empty_store f0a f1 in
          list_eqb Bool.eqb (map (fun r : res unit => negb (is_ok r)) rs) raised && store_close P post
          && outs_close_at (amb_regterm K inp0) reads1 (Ok (fst (freads K code f0b reads1))) outs1
      | _, _ => false
      end
  end.

(* transparency / reuse / immutability stated on the implementation's outputs only *)
Definition spec_ok (k : case) : bool :=
  match k with
  | KHist C o inp pre h fresh outs post =>
      (* every inversion of the history reading the same attributes as the fresh one returns the same values *)
      forallb (fun qo => if list_eqb (@qty_eqb) (fst qo) (hd [] h) then outs_close (snd qo) fresh else true)
              (combine h outs)
      (* reuse: two inversions of the history reading the same attributes agree with each other *)
      && forallb (fun qo1 => forallb (fun qo2 =>
                    if list_eqb (@qty_eqb) (fst qo1) (fst qo2) then outs_close (snd qo1) (snd qo2) else true)
                    (combine h outs)) (combine h outs)
      (* the preloaded curvature matrix (and every other slot, data_vector_mapper included) is unchanged *)
      && store_same_exact post pre
  | KNoise inp pre raised =>
      (* InversionException exactly when the w-tilde class is built with a w_tilde whose value differs from noise_map[0] *)
      let uses_wt := negb (forallb (fun o => negb (lo_mapper o)) (in_objs inp)) && in_use_wt inp
                     && match s_use_wt pre with Some b => b | None => true end in
      let w := match s_wt pre with Some w => w | None => ds_wt (in_ds inp) end in
      Bool.eqb raised (uses_wt && negb (Qeq_bool (hd 0 (ds_n (in_ds inp))) (wt_nv w)))
  | KSet C o inp0 own0 reads0 inp1 own1 ss raised post fresh_slots dvm_loose reads1 outs1 fresh1 =>
      (* what the set_* methods stored satisfies the fresh-value premise, and fit_0's inversion is undisturbed *)
      let sub {A} (eqa : A -> A -> bool) (x y : option A) : bool :=
        match x with Some v => match y with Some u => eqa v u | None => false end | None => true end in
      sub (qmclose qtol) (s_omm post) (s_omm fresh_slots) && sub (qmclose qtol) (s_curv post) (s_curv fresh_slots)
      && sub (qmclose qtol) (s_cmd post) (s_cmd fresh_slots) && sub (qmclose qtol) (s_reg post) (s_reg fresh_slots)
      && (dvm_loose || sub (qvclose qtol) (s_dvm post) (s_dvm fresh_slots))
      && sub (list_eqb (qmclose qtol)) (s_lf post) (s_lf fresh_slots)
      && sub (list_eqb (qmclose qtol)) (s_dlf post) (s_dlf fresh_slots)
      && sub (list_eqb (qmclose qtol)) (s_momm post) (s_momm fresh_slots)
      && sub (qrel qtol_spec) (s_ldr post) (s_ldr fresh_slots)
      && sub wt_close (s_wt post) (s_wt fresh_slots)
      && outs_close outs1 fresh1
  end.

Definition check (k : case) : nat := verdict (agree k) (spec_ok k).
