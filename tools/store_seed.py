#!/usr/bin/env python3
"""usage: store_seed.py <src dir> <seed id> <property> <detected: yes|no|n/a> <note...>  -> /verif/seeded/<seed id>/"""
import sys, os, json, shutil
src, sid, pid, det = sys.argv[1:5]; note = " ".join(sys.argv[5:])
dst = os.path.join(os.path.dirname(os.path.dirname(os.path.abspath(__file__))), "seeded", sid)
os.makedirs(dst, exist_ok=True)
for f in ("patch.diff", "demo.py"): shutil.copy(os.path.join(src, f), dst)
m = json.load(open(os.path.join(src, "meta.json")))
m.update({"breaks_property": pid, "origin": "independent sub-agent given only the property text and a scratch worktree of /repo",
          "confirmed_by_coordinator": "tools/confirm_seed.sh: patch applies to HEAD, demo exits 0 on the clean tree and non-zero with the patch, pinned baseline 699/699 with the patch",
          "check_run": f"tools/mut.sh {pid} seeded/{sid}/patch.diff  (scratch worktree of /repo via VERIF_REPO; builder agents were using /repo concurrently)",
          "detected_by_check": det, "detection_note": note})
json.dump(m, open(os.path.join(dst, "meta.json"), "w"), indent=1)
print("stored", dst)
