"""C17 -- grid decorators return containers mirroring the input grid, entry k for point k."""
import os, math, atexit, shutil, tempfile
import numpy as np
from fractions import Fraction
from harness.common import cz, cq, cnat, cbool, clist, ctup, import_aa, frac, exn_name

ID = "C17"
GEN = []
PROPS = "Props/C17.v"
COQ_CHECK = ("Model.C17x", "checkx")
COQ_FALLBACK = None
COQ_IMPORTS = "From PAV Require Import Base.NumOps Model.C17.\nNotation case := casex (only parsing)."      # the wrapped cases of Model/C17x.v
SHARD = 90
RULE = ("profile objects are generated classes whose methods are decorated with aa.grid_dec.to_array / to_grid / to_vector_yx / "
        "project_grid / relocate_to_radial_minimum / transform (alone and stacked to_X(transform(relocate(f))), also with a nested "
        "second decorated method); the user function is drawn from a family that makes any pairing error visible (affine and quadratic "
        "pointwise maps with distinct coefficients, position-weighted, running sum, mirrored, wrong-length), returning values, (y,x) "
        "pairs or lists of them, and records the grid it received. Inputs: Grid2D.from_mask and Grid2D(values, mask) on random "
        "non-square masks (1x1 .. 6x6, densities 0.1-0.9, anisotropic dyadic pixel scales, origins k/4), Grid2DIrregular, Grid1D with "
        "masked entries, plain ndarrays; profile centres k/4 inside and outside the frame and placed so that each of the four "
        "directions (+y, -y, +x, -x) is the longest reach, also exact ties, mostly with anisotropic scales; angles at quarter turns and Pythagorean "
        "(3-4-5, 5-12-13, 8-15-17) directions, remove_projected_centre both ways, radial minima {absent, -1, 0, 1/4 .. 5} with "
        "coordinates on a 1/16 lattice around the centre including exactly at the centre (known finding) and exactly at radius = "
        "minimum. Phase 2: every grid also natively stored (store_native=True from slim / full arrays with arbitrary masked entries, "
        ".native; native Grid2D through makers and project_grid) and derived (copy, deepcopy, g[:], g+0.0, 1.0*g, -(-g), g+c, with_new_array, "
        ".slim/.native round trips, ndarray views / Fortran order / strided views), integer dtype, full-mantissa coordinates; every call is wrapped "
        "in a fingerprint of the caller's grid (array bytes, dtype, shape, mask object/bytes/scales/origin) and of the profile's centre/angle; "
        "histories of 1-4 calls on living grid and profile objects (repeated call, other decorator / function / profile instance, second grid of "
        "the same kind and mask on the same profile instance) with the user's in-place edits grid[k] = p / grid[k, c] = v between calls and returned "
        "grids fed back as inputs, each call compared with model and specification on the contents current at that moment plus the array read "
        "back after the call; whole histories scaled to units 2^-40, 2^-27, 2^34 (tolerance 1e-9 * unit). "
        "Phase 3: every stream also with SUBCLASS instances of the accepted classes (aa.Grid2DIrregularUniform direct / from_grid_sparse_uniform_upscale, "
        "harness-defined subclasses of Grid2D / Grid2DIrregular / Grid1D / Grid2DIrregularUniform / ndarray and subclasses of those; directed sweep over "
        "stream x class x flavour), the observed MRO goes into the Coq case; list results as list-subclass instances, values as autoarray structures; "
        "calls by position / by keyword, with further keyword (and, through project_grid / relocate, positional) arguments that must reach the method "
        "as the same objects; histories over grids of different kinds on the same profile objects, also the same method + attributes on both in turn. "
        "Non-trivial = at least 2 coordinates reach the function (histories: always); distinct = distinct JSON input.")
EXHAUSTIVE = {}
TRUSTED = ["hand-written Gallina model coq/Model/C17.v, tied to /repo by this correspondence run: both the grid the user function "
           "received and the returned container are compared inside Coq (vm_compute) with tolerance 1e-9 (sqrt / trig are inexact)",
           "numpy arctan2 / sin / cos / radians (oracle: the model applies the angle-difference identity, proved in Proofs/C17.v)",
           "QOps square root: rational approximation to 2^-64 relative (execution device; decisions r < rmin are kept at a margin "
           ">= 4e-4 or exactly on the boundary with exactly representable square roots)",
           "autoconf configuration lookup: the harness pushes an overlay with grids.radial_minimum entries for its generated "
           "class names and general.grid.remove_projected_centre (both recorded in the case)"]
ASSUMPTIONS = ["real arithmetic (no rounding); finite inputs (no inf / NaN coordinates)",
               "a user function returning the kind of result the decorator is meant for (values for to_array / project_grid, pairs "
               "for to_grid / to_vector_yx); other combinations are outside the property's quantifier and not modelled",
               "over_sample (C09) is not part of this property"]

# --------------------------------------------------------------------------------------------- configuration overlay
RMINS = ["-1", "0", "1/4", "1/2", "1", "5/4", "3/2", "2", "5/2", "13/4", "5"]
UNITS = [-40, -27, 34]        # scaled copies of the whole case: lengths of the order 2^e (9e-13, 7e-9 -- the shipped radial minima are 1e-8 --, 2e10)
def unit(e): return Fraction(2) ** e
def all_rmins(): return RMINS + [str(Fraction(r) * unit(e)) for e in UNITS for r in RMINS]
def _cls_name(rmin):
    if rmin is None: return "PavProfileNoEntry"
    f = Fraction(rmin)
    return "PavProfile_" + ("m" if f < 0 else "") + f"{abs(f.numerator)}_{f.denominator}"
_CFG = {}
_BASE = []
def _cfg_dir(rpc):
    """rpc = True / False: overlay sets general.grid.remove_projected_centre; "default": the repository's own general.yaml decides"""
    if rpc not in _CFG:
        d = tempfile.mkdtemp(prefix="verif_c17_cfg_")
        atexit.register(shutil.rmtree, d, True)
        if rpc != "default":
            with open(os.path.join(d, "general.yaml"), "w") as f:
                f.write("grid:\n  remove_projected_centre: %s\n" % ("true" if rpc else "false"))
        with open(os.path.join(d, "grids.yaml"), "w") as f:
            f.write("radial_minimum:\n  radial_minimum:\n")
            for r in all_rmins(): f.write(f"    {_cls_name(r)}: {float(Fraction(r))!r}\n")
        _CFG[rpc] = d
    return _CFG[rpc]
_STACKS = {}
def push_cfg(rpc):
    import logging
    logging.getLogger("autoarray").setLevel(logging.ERROR)      # anisotropic pixel scales log a warning per access
    from autoconf import conf
    from autoconf.conf import RecursiveConfig
    if not _BASE: _BASE.extend(conf.instance.configs)          # [cwd/config (absent), <repo>/autoarray/config]
    key = rpc if rpc == "default" else bool(rpc)
    # exactly one overlay in front of the repository defaults (conf.instance.push would keep earlier overlays as fall-backs).
    # Assigning `configs` makes autoconf re-read every yaml file at the next lookup, so the assignment is made only when the
    # overlay really changes and the three stacks are kept (the files do not change during a run).
    if key not in _STACKS: _STACKS[key] = [RecursiveConfig(_cfg_dir(key))] + list(_BASE)
    if conf.instance.configs is not _STACKS[key]: conf.instance.configs = _STACKS[key]

# --------------------------------------------------------------------------------------------- user functions
def F(x, d=None): return Fraction(x) if d is None else Fraction(x, d)
def to_nd(grid):
    return np.array(grid.array if hasattr(grid, "array") else grid, dtype=float)

def sapply(s, cs):
    k = s[0]; co = [float(Fraction(v)) for v in s[1:]]
    y, x = cs[:, 0], cs[:, 1]
    n = cs.shape[0]
    if k == "aff": return co[0] * y + co[1] * x + co[2]
    if k == "quad": return co[0] * (y * y) + co[1] * (x * x) + co[2] * (y * x)
    if k == "idx": return np.arange(1, n + 1) * (co[0] * y) + co[1] * x
    if k == "cum": return np.cumsum(co[0] * y + co[1] * x)
    if k == "mir": return (co[0] * y + co[1] * x)[::-1].copy()
    if k == "drop": return (co[0] * y + co[1] * x)[1:].copy()
    raise ValueError(k)
def uapply1(f, cs):
    if f[0] == "V": return sapply(f[1], cs)
    a, b = sapply(f[1], cs), sapply(f[2], cs)
    n = min(len(a), len(b))
    return np.stack([a[:n], b[:n]], axis=-1) if n else np.zeros((0, 2))
def uapply(u, cs):
    if u["list"]: return [uapply1(f, cs) for f in u["fs"]]
    return uapply1(u["fs"][0], cs)

def renative(x, hw):
    return x.reshape(hw + x.shape[1:]) if x.shape[0] == hw[0] * hw[1] else x

SF = {"aff": "SAff", "quad": "SQuad", "idx": "SIdx", "cum": "SCum", "mir": "SMir", "drop": "SDrop"}
def c_sfun(s): return "(@" + SF[s[0]] + " QOps " + " ".join(cq(F(v)) for v in s[1:]) + ")"
def c_ufun1(f):
    return f"(@FV QOps {c_sfun(f[1])})" if f[0] == "V" else f"(@FP QOps {c_sfun(f[1])} {c_sfun(f[2])})"
def c_ufun(u):
    return f"(@FL QOps {clist([c_ufun1(f) for f in u['fs']])})" if u["list"] else f"(@F1 QOps {c_ufun1(u['fs'][0])})"

# --------------------------------------------------------------------------------------------- Coq printing of data
def c_pt(p): return ctup([cq(p[0]), cq(p[1])])
def c_pts(ps): return clist([c_pt(p) for p in ps])
def c_vals(v): return clist([cq(x) for x in v])
def c_bits2(b): return clist([clist([cbool(x) for x in r]) for r in b])
def c_mask2(m): return f"(@Build_mask2 QOps {c_bits2(m['bits'])} {c_pt(m['ps'])} {c_pt(m['org'])})"
def c_mask1(m): return f"(@Build_mask1 QOps {clist([cbool(x) for x in m['bits']])} {cq(m['ps'])} {cq(m['org'])})"
def c_opt(x, f): return "None" if x is None else f"(Some {f(x)})"
def fr2(p): return [F(p[0]), F(p[1])]
def frs(l): return [F(v) for v in l]
def frps(l): return [fr2(p) for p in l]

def pm2(g): return {"bits": g["bits"], "ps": fr2(g["ps"]), "org": fr2(g["org"])}
def pm1(g): return {"bits": g["bits"], "ps": F(g["ps"]), "org": F(g["org"])}

# --------------------------------------------------------------------------------------------- grids: construction, storage, derivation
# g = {"k": mask|2d|irr|raw|1d, ..., "store": slim|ctor_native|ctor_full (+ "junk"), "derive": [op, ...]}
#   store  ctor_native : Grid1D / Grid2D(values = slim values, mask, store_native=True)
#          ctor_full   : ... (values = one value per pixel, "junk" in the masked ones, store_native=True): the constructor zeroes them
#   derive ops (applied left to right to the constructed object; the result is what the decorators get):
#          native, slim (.native / .slim), copy, deepcopy, slice (g[:]), add0 (g + 0.0), mul1 (1.0 * g), neg2 (-(-g)),
#          wna (g.with_new_array(copy of its array)), ["shift", c] (g + c: every stored entry, also the masked ones of a native
#          array, moves by c), and for ndarrays: fortran (np.asfortranarray), stride (every other row of a larger buffer), view
def exact_centres(g):
    H, W = len(g["bits"]), len(g["bits"][0])
    psy, psx = fr2(g["ps"]); oy, ox = fr2(g["org"])
    return [[(F(H - 1) / 2 - y) * psy + oy, (x - F(W - 1) / 2) * psx + ox]
            for y in range(H) for x in range(W) if not g["bits"][y][x]]
def flat_bits(g): return [b for r in g["bits"] for b in r] if g["k"] in ("mask", "2d", "2dnat") else list(g["bits"])
def to_native(bits, vals, junk):
    it = iter(vals); return [junk if b else next(it) for b in bits]
def to_slim(bits, vals): return [v for b, v in zip(bits, vals) if not b]
def fl_add(a, c): return Fraction(float(a) + float(c))          # what numpy does to one stored double

def shadow_of(g):
    """the exact contents the object handed to the decorators must hold, computed from the INPUT alone: a dict of kind
    mask / 2d / irr / raw / 1d (slim storage: "cs" / "xs") or 1dnat / 2dnat (native storage: "nv" / "nc", one entry per pixel)"""
    k = g["k"]
    sh = {"k": k}
    for f in ("bits", "ps", "org"):
        if f in g: sh[f] = g[f]
    one_d = k == "1d"
    if k == "mask": vals = exact_centres(g)
    elif one_d: vals = frs(g["xs"])
    else: vals = frps(g["cs"])
    native = False
    zero = F(0) if one_d else [F(0), F(0)]
    store = g.get("store", "slim")
    if store != "slim":
        if k not in ("mask", "2d", "1d"): raise ValueError("native storage needs a mask")
        vals = to_native(flat_bits(g), vals, zero); native = True        # the constructor zeroes the masked entries
    touched = store != "slim"
    for d in g.get("derive", []):
        op = d if isinstance(d, str) else d[0]
        touched = True
        if op == "native":
            if k in ("mask", "2d", "1d"):        # .native of a native array multiplies the masked entries by 0 again
                vals = to_native(flat_bits(g), to_slim(flat_bits(g), vals) if native else vals, zero); native = True
        elif op == "slim":
            if native: vals = to_slim(flat_bits(g), vals); native = False
        elif op == "shift":
            c = F(d[1])
            vals = [fl_add(v, c) for v in vals] if one_d else [[fl_add(v[0], c), fl_add(v[1], c)] for v in vals]
        elif op in ("copy", "deepcopy", "slice", "add0", "mul1", "neg2", "wna", "fortran", "stride", "view"): pass
        else: raise ValueError(op)
    if native:
        sh["k"] = "1dnat" if one_d else "2dnat"
        sh["nv" if one_d else "nc"] = vals
    elif k == "mask" and not touched: pass                               # Grid2D.from_mask as it is: the model computes the centres
    else:
        if k == "mask": sh["k"] = "2d"
        sh["xs" if one_d else "cs"] = vals
    return sh

def sh_stored(sh):
    """the stored entries of a shadow, as pairs (1-D: (0, x))"""
    k = sh["k"]
    if k == "mask": return exact_centres(sh)
    if k == "1d": return [[F(0), F(v)] for v in sh["xs"]]
    if k == "1dnat": return [[F(0), F(v)] for v in sh["nv"]]
    if k == "2dnat": return [fr2(p) for p in sh["nc"]]
    return frps(sh["cs"])
def sh_coords(sh):
    """coordinate k of the grid (slim order), as pairs"""
    k = sh["k"]
    if k in ("1dnat", "2dnat"): return to_slim(flat_bits(sh), sh_stored(sh))
    return sh_stored(sh)
def sh_edit(sh, k, v, comp=None):
    """grid[k] = v (comp None) or grid[k, comp] = v on the stored array"""
    sh = dict(sh)
    if sh["k"] == "mask": sh["cs"] = exact_centres(sh); sh["k"] = "2d"
    f = {"1d": "xs", "1dnat": "nv", "2dnat": "nc"}.get(sh["k"], "cs")
    vals = list(sh[f])
    if sh["k"] in ("1d", "1dnat"): vals[k] = F(v)
    elif comp is None: vals[k] = fr2(v)
    else:
        q = list(fr2(vals[k])); q[comp] = F(v); vals[k] = q
    sh[f] = vals
    return sh

def c_gspec(g):
    k = g["k"]
    if k == "mask": return f"(SMask {c_mask2(pm2(g))})"
    if k == "2d": return f"(S2D {c_mask2(pm2(g))} {c_pts(frps(g['cs']))})"
    if k == "irr": return f"(SIrr {c_pts(frps(g['cs']))})"
    if k == "raw": return f"(SRaw {c_pts(frps(g['cs']))})"
    if k == "1d": return f"(S1D {c_mask1(pm1(g))} {c_vals(frs(g['xs']))})"
    if k == "1dnat": return f"(S1DNat {c_mask1(pm1(g))} {c_vals(frs(g['nv']))})"
    if k == "2dnat": return f"(S2DNat {c_mask2(pm2(g))} {c_pts(frps(g['nc']))})"
    raise ValueError(k)

def fl(v): return float(F(v))
def derive(aa, obj, d):
    import copy as _copy
    op = d if isinstance(d, str) else d[0]
    raw = isinstance(obj, np.ndarray)
    if op == "native": return obj if raw else obj.native
    if op == "slim": return obj if raw else obj.slim
    if op == "copy": return obj.copy() if raw else _copy.copy(obj)
    if op == "deepcopy": return _copy.deepcopy(obj)
    if op == "slice": return obj[:]
    if op == "view": return obj[:] if raw else obj
    if op == "add0": return obj + 0.0
    if op == "mul1": return 1.0 * obj
    if op == "neg2": return -(-obj)
    if op == "shift": return obj + fl(d[1])
    if op == "wna": return obj if raw else obj.with_new_array(np.array(obj.array, copy=True))
    if op == "fortran": return np.asfortranarray(obj) if raw else obj
    if op == "stride":
        if not raw: return obj
        big = np.full((2 * obj.shape[0] + 1, 4), 777.0); big[1::2, 1:3] = obj
        return big[1::2, 1:3]
    raise ValueError(op)

# ---- subclass instances: a grid that IS a Grid2D / Grid2DIrregular / Grid1D (/ ndarray) without being exactly that class
# g["sub"]: "pav"        a trivial harness-defined subclass of the accepted class (class PavGrid2D(aa.Grid2D): pass ...)
#           "pav2"       a subclass of that subclass (the accepted class is two steps up the MRO)
#           "uniform"    aa.Grid2DIrregularUniform (the library's own subclass of Grid2DIrregular), built directly
#           "upscale"    aa.Grid2DIrregularUniform.from_grid_sparse_uniform_upscale(g["sparse"], g["f"], g["ups"]); g["cs"] holds
#                        the exact upscaled coordinates (computed by the generator with `upscaled`), checked by `holds`
#           "pavuniform" a harness-defined subclass of aa.Grid2DIrregularUniform
# The decorators must treat all of them as the accepted class: same container type, mask and entries.
BASE_OF = {"mask": "Grid2D", "2d": "Grid2D", "irr": "Grid2DIrregular", "1d": "Grid1D", "raw": "ndarray"}
BASE_NAMES = ("Grid2D", "Grid2DIrregular", "Grid1D", "ndarray")
_SUB = {}
def sub_class(aa, k, sub):
    """the class of the input object for kind k and subclass tag sub (None: the accepted class itself)"""
    base = {"Grid2D": aa.Grid2D, "Grid2DIrregular": aa.Grid2DIrregular, "Grid1D": aa.Grid1D, "ndarray": np.ndarray}[BASE_OF[k]]
    if sub is None: return base
    key = (BASE_OF[k], sub)
    if key not in _SUB:
        if sub == "pav": c = type("Pav" + base.__name__, (base,), {})
        elif sub == "pav2": c = type("PavPav" + base.__name__, (sub_class(aa, k, "pav"),), {})
        elif sub in ("uniform", "upscale"): c = aa.Grid2DIrregularUniform
        elif sub == "pavuniform": c = type("PavGrid2DIrregularUniform", (aa.Grid2DIrregularUniform,), {})
        else: raise ValueError(sub)
        if not issubclass(c, base) or c is base: raise ValueError(sub)
        _SUB[key] = c
    return _SUB[key]
def upscaled(sparse, f, ps):
    """grid_2d_slim_upscaled_from, exactly: every sparse point becomes the f x f sub-pixel centres of a pixel of size ps around it"""
    psy, psx = F(ps[0]), F(ps[1])
    return [[F(y) + psy / 2 - j * (psy / f) - psy / f / 2, F(x) - psx / 2 + i * (psx / f) + psx / f / 2]
            for y, x in sparse for j in range(f) for i in range(f)]
def mro_names(obj): return [c.__name__ for c in type(obj).__mro__]
def c_mro(aa, obj):
    """the MRO of the object's class as the Coq model sees it: the four classes the decorators test for (by identity), NOther for the rest"""
    names = {aa.Grid2D: "NGrid2D", aa.Grid2DIrregular: "NGrid2DIrregular", aa.Grid1D: "NGrid1D", np.ndarray: "NNdarray"}
    return clist([names.get(c, "NOther") for c in type(obj).__mro__])
def k_obj(mros, term): return f"(KObj {clist(mros)} {term})"
def is_a(obj, name): return name in mro_names(obj)
def base_name(obj):
    """the accepted class the object is an instance of (first hit along its MRO)"""
    return next((n for n in mro_names(obj) if n in BASE_NAMES), None)

def build_grid(aa, g):
    k = g["k"]
    store = g.get("store", "slim")
    sub = g.get("sub")
    G2, GI, G1 = (sub_class(aa, kk, sub if BASE_OF[kk] == BASE_OF[k] else None) for kk in ("2d", "irr", "1d"))
    dt = int if g.get("dtype") == "int" else float      # integer arrays are kept as they are by the structures
    if k in ("mask", "2d"):
        mask = aa.Mask2D(mask=np.array(g["bits"], dtype=bool), pixel_scales=tuple(fl(v) for v in g["ps"]),
                         origin=tuple(fl(v) for v in g["org"]))
        if k == "mask" and store == "slim":
            obj = aa.Grid2D.from_mask(mask=mask)
            # Grid2D's class methods build `Grid2D(...)` whatever class they are called on: a subclass instance with the very
            # coordinates from_mask computed comes out of the subclass constructor
            if sub: obj = G2(values=np.array(obj.array, copy=True), mask=mask)
        else:
            cs = exact_centres(g) if k == "mask" else frps(g["cs"])
            vals = np.array([[float(a), float(b)] for a, b in cs]).reshape(-1, 2)
            if dt is int and store == "slim": vals = vals.astype(int)
            if store == "slim": obj = G2(values=vals, mask=mask)
            elif store == "ctor_native": obj = G2(values=vals, mask=mask, store_native=True)
            else:
                junk = [[fl(a), fl(b)] for a, b in g["junk"]]
                full = to_native(flat_bits(g), [list(v) for v in vals], None)
                it = iter(junk); full = [next(it) if v is None else v for v in full]
                H, W = len(g["bits"]), len(g["bits"][0])
                obj = G2(values=np.array(full).reshape(H, W, 2), mask=mask, store_native=True)
    elif k == "irr":
        vals = [(dt(F(a)), dt(F(b))) for a, b in g["cs"]]
        if sub == "upscale":
            obj = GI.from_grid_sparse_uniform_upscale(grid_sparse_uniform=np.array([[fl(a), fl(b)] for a, b in g["sparse"]]),
                                                      upscale_factor=g["f"], pixel_scales=tuple(fl(v) for v in g["ups"]))
        elif sub in ("uniform", "pavuniform"):
            u = g.get("uni", {})
            if u.get("nd"): vals = np.array(vals, dtype=dt).reshape(-1, 2)      # an [n, 2] array instead of a list of tuples
            obj = GI(values=vals, shape_native=tuple(u["shape"]) if u.get("shape") else None,
                     pixel_scales=tuple(fl(v) for v in u["ps"]) if u.get("ps") else None)
        else: obj = GI(values=vals)
    elif k == "raw":
        obj = np.array([[dt(F(a)), dt(F(b))] for a, b in g["cs"]], dtype=dt).reshape(-1, 2)
        if sub: obj = obj.view(sub_class(aa, "raw", sub))
    elif k == "1d":
        mask = aa.Mask1D(mask=np.array(g["bits"], dtype=bool), pixel_scales=fl(g["ps"]), origin=(fl(g["org"]),))
        xs = [fl(v) for v in g["xs"]]
        if store == "slim": obj = G1(values=np.array(xs, dtype=dt), mask=mask)
        elif store == "ctor_native": obj = G1(values=np.array(xs), mask=mask, store_native=True)
        else:
            it = iter([fl(v) for v in g["junk"]])
            full = [next(it) if v is None else v for v in to_native(g["bits"], xs, None)]
            obj = G1(values=np.array(full), mask=mask, store_native=True)
    else: raise ValueError(k)
    for d in g.get("derive", []): obj = derive(aa, obj, d)
    return obj

def stored_of(obj):
    """the entries of the object's array, as exact pairs (1-D: (0, x))"""
    a = np.array(obj.array if hasattr(obj, "array") else obj, dtype=float)
    if is_a(obj, "Grid1D"): return [[F(0), frac(v)] for v in a.ravel()]
    return [[frac(r[0]), frac(r[1])] for r in a.reshape(-1, 2)]
def fingerprint(obj):
    """everything a decorated call must leave as it was"""
    a = obj.array if hasattr(obj, "array") else obj
    fp = [type(obj).__name__, type(a).__name__, str(a.dtype), tuple(a.shape), np.array(a, copy=True).tobytes()]
    fp.append(getattr(obj, "_is_transformed", None) if not isinstance(obj, np.ndarray) else None)
    m = getattr(obj, "mask", None)
    if m is not None and not isinstance(obj, np.ndarray):
        fp += [id(m), np.array(m).tobytes(), tuple(m.shape), tuple(float(v) for v in m.pixel_scales), tuple(float(v) for v in m.origin)]
    return fp

# --------------------------------------------------------------------------------------------- encoding the implementation's output
def enc_mask2(m):
    return {"bits": [[bool(b) for b in r] for r in np.array(m)], "ps": [frac(v) for v in m.pixel_scales], "org": [frac(v) for v in m.origin]}
def enc_mask1(m):
    return {"bits": [bool(b) for b in np.array(m)], "ps": frac(m.pixel_scales[0]), "org": frac(m.origin[0])}
def enc_vals(a): return [frac(v) for v in np.array(a, dtype=float).ravel()]
def enc_pairs(a): return [[frac(r[0]), frac(r[1])] for r in np.array(a, dtype=float).reshape(-1, 2)]
def slim_nd(x):
    s = x.slim
    return np.array(s.array if hasattr(s, "array") else s, dtype=float)

def enc_container(r):
    t = type(r).__name__
    if t == "Array2D": return ("Array2D", enc_mask2(r.mask), enc_vals(slim_nd(r)))
    if t == "Grid2D": return ("Grid2D", enc_mask2(r.mask), enc_pairs(slim_nd(r)))
    if t == "VectorYX2D": return ("Vector2D", enc_mask2(r.mask), enc_pairs(slim_nd(r.grid)), enc_pairs(slim_nd(r)))
    if t == "ArrayIrregular": return ("ArrayIrr", enc_vals(to_nd(r)))
    if t == "Grid2DIrregular": return ("GridIrr", enc_pairs(to_nd(r)))
    if t == "VectorYX2DIrregular": return ("VectorIrr", enc_pairs(to_nd(r.grid)), enc_pairs(to_nd(r)))
    if t == "Array1D": return ("Array1D", enc_mask1(r.mask), enc_vals(slim_nd(r)))
    if t == "ndarray":
        if r.ndim == 1: return ("RawV", enc_vals(r))
        if r.ndim == 2 and r.shape[1] == 2: return ("RawP", enc_pairs(r))
    raise AssertionError("unexpected container " + t)
def c_container(c):
    t = c[0]
    if t == "Array2D": return f"(@Array2D QOps {c_mask2(c[1])} {c_vals(c[2])})"
    if t == "Grid2D": return f"(@Grid2D QOps {c_mask2(c[1])} {c_pts(c[2])})"
    if t == "Vector2D": return f"(@Vector2D QOps {c_mask2(c[1])} {c_pts(c[2])} {c_pts(c[3])})"
    if t == "ArrayIrr": return f"(@ArrayIrr QOps {c_vals(c[1])})"
    if t == "GridIrr": return f"(@GridIrr QOps {c_pts(c[1])})"
    if t == "VectorIrr": return f"(@VectorIrr QOps {c_pts(c[1])} {c_pts(c[2])})"
    if t == "Array1D": return f"(@Array1D QOps {c_mask1(c[1])} {c_vals(c[2])})"
    if t == "RawV": return f"(@RawOne QOps (@Vals QOps {c_vals(c[1])}))"
    if t == "RawP": return f"(@RawOne QOps (@Pairs QOps {c_pts(c[1])}))"
    raise ValueError(t)
def enc_output(r):
    if isinstance(r, list): return ("many", [enc_container(x) for x in r])
    return ("one", enc_container(r))
def c_rout(o):
    if o[0] == "raise": return f"(@Raise (@output QOps) {o[1]})"
    kind, v = o[1]
    if kind == "many": return f"(Ok (@OMany QOps {clist([c_container(c) for c in v])}))"
    return f"(Ok (@OOne QOps {c_container(v)}))"

# --------------------------------------------------------------------------------------------- profile classes
_CLS = {}
def profile_class(aa, rmin):
    """a class (named after its radial minimum, which is how the decorator finds the config entry) whose methods are decorated"""
    name = _cls_name(rmin)
    if name in _CLS: return _CLS[name]
    dec = aa.grid_dec
    from autoarray.geometry import geometry_util

    class PavList(list): pass

    class Base:
        def __init__(self, u, rad=("euclid",)):
            self.u = u; self.rad = rad
            self.seen = None; self.seen_obj = None; self.calls = 0; self.tf_calls = 0
        def _f(self, grid, args=(), kwargs=None):
            self.calls += 1
            self.got = (args, dict(kwargs or {}))
            self.seen_obj = grid
            a = to_nd(grid)
            self.seen = a.reshape(-1, 2)
            r = uapply(self.u, self.seen)
            if a.ndim == 3:          # a natively stored Grid2D: a function written for it returns results of native shape
                r = [renative(x, a.shape[:2]) for x in r] if isinstance(r, list) else renative(r, a.shape[:2])
            elif self.u.get("wrap") and getattr(self, "wrap_ok", False) and not isinstance(grid, np.ndarray):
                # the function hands back autoarray structures (what a body that calls another decorated method returns)
                # instead of bare ndarrays: the decorator must take their values all the same
                def w(x):
                    if x.shape[0] == 0: return x
                    return aa.ArrayIrregular(values=x) if x.ndim == 1 else aa.Grid2DIrregular(values=x)
                r = [w(x) for x in r] if isinstance(r, list) else w(r)
            if self.u.get("lsub") and isinstance(r, list): r = PavList(r)      # a list subclass is a list: wrapped element by element
            return r
        # the profile's own geometry methods (what PyAutoGalaxy's profiles supply)
        def radial_grid_from(self, grid):
            if self.rad[0] == "euclid":
                return np.sqrt(np.add(np.square(grid[:, 0]), np.square(grid[:, 1])))
            q = float(Fraction(self.rad[1]))
            return np.sqrt(np.add(np.square(grid[:, 0]), np.square(np.divide(grid[:, 1], q))))
        def transformed_to_reference_frame_grid_from(self, grid, **kwargs):
            self.tf_calls += 1
            # the grid's own buffer goes into the frame map (no copy), as in PyAutoGalaxy's profiles
            buf = grid.array if hasattr(grid, "array") else grid
            arr = geometry_util.transform_grid_2d_to_reference_frame(grid_2d=buf, centre=self.centre, angle=self.angle)
            return grid.with_new_array(arr) if hasattr(grid, "with_new_array") else arr
        # single decorators
        @dec.to_array
        def m_array(self, grid, *args, **kwargs): return self._f(grid, args, kwargs)
        @dec.to_grid
        def m_grid(self, grid, *args, **kwargs): return self._f(grid, args, kwargs)
        @dec.to_vector_yx
        def m_vector(self, grid, *args, **kwargs): return self._f(grid, args, kwargs)
        @dec.project_grid
        def m_project(self, grid, *args, **kwargs): return self._f(grid, args, kwargs)
        @dec.relocate_to_radial_minimum
        def m_relocate(self, grid, *args, **kwargs): return self._f(grid, args, kwargs)
        # the usual stack
        @dec.transform
        @dec.relocate_to_radial_minimum
        def inner(self, grid, *args, **kwargs): return self._f(grid, args, kwargs)
        @dec.to_array
        @dec.transform
        @dec.relocate_to_radial_minimum
        def s_array(self, grid, *args, **kwargs): return self._f(grid, args, kwargs)
        @dec.to_grid
        @dec.transform
        @dec.relocate_to_radial_minimum
        def s_grid(self, grid, *args, **kwargs): return self._f(grid, args, kwargs)
        @dec.to_vector_yx
        @dec.transform
        @dec.relocate_to_radial_minimum
        def s_vector(self, grid, *args, **kwargs): return self._f(grid, args, kwargs)
        # ... whose body calls a second decorated method, handing its kwargs on (is_transformed travels with them)
        @dec.to_array
        @dec.transform
        @dec.relocate_to_radial_minimum
        def n_array(self, grid, *args, **kwargs): return self.inner(grid, *args, **kwargs)
        @dec.to_grid
        @dec.transform
        @dec.relocate_to_radial_minimum
        def n_grid(self, grid, *args, **kwargs): return self.inner(grid, *args, **kwargs)
        @dec.to_vector_yx
        @dec.transform
        @dec.relocate_to_radial_minimum
        def n_vector(self, grid, *args, **kwargs): return self.inner(grid, *args, **kwargs)

    cls = type(name, (Base,), {})
    _CLS[name] = cls
    return cls

ANGLES = [("1", "0"), ("0", "1"), ("-1", "0"), ("0", "-1"), ("3/5", "4/5"), ("4/5", "-3/5"), ("-5/13", "12/13"),
          ("-8/17", "-15/17"), ("12/13", "5/13"), ("-4/5", "3/5")]
def angle_deg(a):
    c, s = float(F(a[0])), float(F(a[1]))
    q = {(1.0, 0.0): 0.0, (0.0, 1.0): 90.0, (-1.0, 0.0): 180.0, (0.0, -1.0): -90.0}
    return q.get((c, s), math.degrees(math.atan2(s, c)))

# --------------------------------------------------------------------------------------------- running one call
class Sentinel:
    """an opaque extra argument of the user's method"""
    def __init__(self, tag): self.tag = tag
def call(fn, grid, args=(), kwargs=None, by_keyword=False):
    try:
        if by_keyword: return ("ok", fn(grid=grid, **(kwargs or {})))        # how PyAutoGalaxy calls its profiles' methods
        return ("ok", fn(grid, *args, **(kwargs or {})))
    except Exception as e:   # noqa
        return ("raise", exn_name(e), type(e).__name__)

def n_coords(g):
    if g["k"] in ("mask", "2d"): return sum(1 for r in g["bits"] for b in r if not b)
    if g["k"] == "1d": return sum(1 for b in g["bits"] if not b)
    return len(g["cs"])

def frame_pts(ci, sh):
    """exact coordinates, in the profile frame, that the radial-minimum step looks at (Fractions)"""
    cs = sh_coords(sh)
    if ci["op"] == "stack":
        cy, cx = fr2(ci["centre"]); c, s = fr2(ci["angle"])
        cs = [[(y - cy) * c - (x - cx) * s, (x - cx) * c + (y - cy) * s] for y, x in cs]
    return cs
def rad2(ci, p):
    if ci["op"] == "relocate" and ci["rad"][0] == "ellip":
        return p[0] ** 2 + (p[1] / F(ci["rad"][1])) ** 2
    return p[0] ** 2 + p[1] ** 2

FINDING = "coordinate equals the profile centre"
SKIPPED = {"band": 0}

def classify(ci, sh, e=0):
    """(finding key or None, in_band): computed from the INPUT only (the call's parameters and the grid's current contents)"""
    if ci["op"] not in ("relocate", "stack") or ci["rmin"] is None: return None, False
    u2 = unit(e) ** 2
    rm = F(ci["rmin"])
    if rm <= 0: return None, False
    pts = frame_pts(ci, sh)
    at_centre = any(p[0] == 0 and p[1] == 0 for p in pts)
    exact = ci["op"] == "relocate"          # no trig in front of the comparison: exact boundary cases are decidable
    band = any((rad2(ci, p) == rm * rm and not exact) or (0 < abs(rad2(ci, p) - rm * rm) < F(1, 1024) * u2) for p in pts)
    return (FINDING if at_centre else None), band

_POOL = {}
def profile_obj(aa, ci, pool):
    """the profile instance of a call: a fresh one, or (histories) the one living in slot ci["o"] of the pool -- the same
    instance then serves several calls, with other grids, functions, centres and angles"""
    op = ci["op"]
    cls = profile_class(aa, ci.get("rmin") if op in ("relocate", "stack") else "1")
    key = (cls.__name__, ci.get("o"))
    if pool is not None and ci.get("o") is not None and key in pool: obj = pool[key]
    else:
        obj = cls(None)
        if pool is not None and ci.get("o") is not None: pool[key] = obj
    obj.u = ci["u"]; obj.rad = tuple(ci["rad"]) if op == "relocate" else ("euclid",)
    obj.wrap_ok = op != "relocate"        # relocate alone hands the function's own result back: nothing to unwrap
    obj.seen = None; obj.seen_obj = None; obj.calls = 0; obj.tf_calls = 0; obj.got = None
    for a in ("centre", "angle"):
        if a in obj.__dict__: del obj.__dict__[a]
    return obj

def do_call(aa, ci, grid, sh, pool=None):
    """one decorated call on the object `grid` whose exact contents are the shadow `sh`.
    returns dict(parts = (constructor suffix, args before the grid, args after), notes, py_ok, seen, out, finding)"""
    op = ci["op"]; u = ci["u"]
    rpc_in = ci.get("rpc", False)
    push_cfg(rpc_in)
    rpc = False if rpc_in == "default" else bool(rpc_in)      # the repository default (after fixes/C17_default_config...) is false
    rmin = ci.get("rmin")
    obj = profile_obj(aa, ci, pool)
    py_ok = True
    notes = []
    if op == "make":
        fn = {"array": obj.m_array, "grid": obj.m_grid, "vector": obj.m_vector}[ci["dec"]]
    elif op == "project":
        if ci["centre"] != "absent": obj.centre = None if ci["centre"] is None else tuple(fl(v) for v in ci["centre"])
        if ci["angle"] != "absent": obj.angle = None if ci["angle"] is None else angle_deg(ci["angle"])
        fn = obj.m_project
    elif op == "relocate":
        fn = obj.m_relocate
    elif op == "stack":
        obj.centre = tuple(fl(v) for v in ci["centre"]); obj.angle = angle_deg(ci["angle"])
        fn = getattr(obj, ("n_" if ci["nested"] else "s_") + ci["dec"])
    else:
        raise ValueError(op)
    attrs = (getattr(obj, "centre", "absent"), getattr(obj, "angle", "absent"))
    # the user's method may take further arguments: the decorators hand them on untouched.  Two things the code does that are not
    # C17 clauses (the property quantifies over functions of a grid) and are therefore kept out of the inputs: transform replaces
    # the caller's keyword arguments by its own is_transformed flag (no keywords go into a stack), and the three makers are built
    # with `Maker(func=func, obj=obj, grid=grid, *args, **kwargs)`, so that ANY further positional argument raises "TypeError:
    # got multiple values for argument 'func'" (positional extras only through project_grid / relocate_to_radial_minimum)
    by_kw = bool(ci.get("kw"))
    xargs, xkw, xlist = (), {}, [1, 2]
    if ci.get("xargs"):
        if not by_kw and op in ("project", "relocate"): xargs = (Sentinel("a"), xlist)
        if op != "stack": xkw = {"pav_extra": Sentinel("k"), "pav_list": xlist}
    before = fingerprint(grid)
    r = call(fn, grid, xargs, xkw, by_kw)
    after = fingerprint(grid)
    if obj.calls == 1 and obj.got is not None:
        ga, gk = obj.got
        if op == "stack": gk = {k: v for k, v in gk.items() if k != "is_transformed"}
        if len(ga) != len(xargs) or any(a is not b for a, b in zip(ga, xargs)):
            py_ok = False; notes.append("the user's method did not receive the caller's extra positional arguments")
        if set(gk) != set(xkw) or any(gk[k] is not xkw[k] for k in xkw):
            py_ok = False; notes.append(f"the user's method did not receive the caller's keyword arguments (got {sorted(gk)})")
        if xlist != [1, 2]: py_ok = False; notes.append("the caller's list argument was modified")
    if before != after:
        py_ok = False
        what = [n for n, a, b in zip(("type", "array type", "dtype", "shape", "array content", "_is_transformed", "mask object", "mask content", "mask shape",
                                      "pixel scales", "origin"), before, after) if a != b]
        notes.append("the decorated call changed the caller's grid in place: " + ", ".join(what))
    if attrs != (getattr(obj, "centre", "absent"), getattr(obj, "angle", "absent")):
        py_ok = False; notes.append("the decorated call changed the profile's centre / angle")
    seen = [] if obj.seen is None else enc_pairs(obj.seen)
    k = sh["k"]
    if r[0] == "ok":
        out = ("ok", enc_output(r[1]))
        # relations only Python can see: object identity of the mask, the container handed to the function, call counts
        res0 = r[1][0] if isinstance(r[1], list) and r[1] else r[1]
        if op in ("make", "stack") and k in ("mask", "2d", "2dnat") and hasattr(res0, "mask"):
            if res0.mask is not grid.mask: py_ok = False; notes.append("returned container is not on the input grid's mask object")
        if op in ("make",) and k in ("1d", "1dnat") and ci["dec"] == "array" and hasattr(res0, "mask"):
            if res0.mask is not grid.mask: py_ok = False; notes.append("returned Array1D is not on the input grid's mask object")
        if op in ("relocate", "stack", "make") and k in ("mask", "2d", "2dnat", "irr") and obj.seen_obj is not None:
            if type(obj.seen_obj).__name__ != type(grid).__name__:
                py_ok = False; notes.append(f"function received a {type(obj.seen_obj).__name__} for a {type(grid).__name__} input")
            elif k != "irr" and obj.seen_obj.mask is not grid.mask:
                py_ok = False; notes.append("function received a grid on a different mask object")
        fits = not any(sf[0] == "drop" for f in u["fs"] for sf in f[1:])      # the function returned one entry per coordinate
        for x in (r[1] if isinstance(r[1], list) else [r[1]]):
            # "one entry per unmasked pixel in slim order": the container itself, not only its .slim view
            if fits and type(x).__name__ in ("Array2D", "Grid2D", "VectorYX2D", "Array1D") and hasattr(x, "mask"):
                want = (int(x.mask.pixels_in_mask),) + ((2,) if type(x).__name__ in ("Grid2D", "VectorYX2D") else ())
                if tuple(x.array.shape) != want:
                    py_ok = False; notes.append(f"returned {type(x).__name__} stores an array of shape {tuple(x.array.shape)}, not one entry per unmasked pixel {want}")
        if op == "stack" and obj.tf_calls != 1: py_ok = False; notes.append(f"grid transformed {obj.tf_calls} times")
        if obj.calls != 1: py_ok = False; notes.append(f"user function called {obj.calls} times")
    else:
        out = ("raise", r[1])
        notes.append(r[2])
    sn = c_pts(seen)
    tail = f"{c_ufun(u)} {sn} {c_rout(out)}"
    if op == "make":
        parts = ("Make", DEC[ci['dec']], tail)
    elif op == "project":
        c = None if ci["centre"] in (None, "absent") else fr2(ci["centre"])
        a = None if ci["angle"] in (None, "absent") else fr2(ci["angle"])
        parts = ("Project", f"{c_opt(c, c_pt)} {c_opt(a, c_pt)} {cbool(rpc)}", tail)
    elif op == "relocate":
        rf = "REuclid" if ci["rad"][0] == "euclid" else f"(REllip {cq(F(ci['rad'][1]))})"
        parts = ("Relocate", f"{c_opt(None if rmin is None else F(rmin), cq)} {rf}", tail)
    else:
        parts = ("Stack", f"{DEC[ci['dec']]} {c_opt(None if rmin is None else F(rmin), cq)} {c_pt(fr2(ci['centre']))} "
                          f"{c_pt(fr2(ci['angle']))} {cbool(ci['nested'])}", tail)
    res = {"parts": parts, "notes": notes, "py_ok": py_ok, "raised": r[0] != "ok", "seen": seen, "out": out}
    if r[0] == "ok": res["result"] = r[1]
    return res

def k_term(parts, sh): return f"(K{parts[0]} {parts[1]} {c_gspec(sh)} {parts[2]})"
def c_term(parts): return f"(C{parts[0]} {parts[1]} {parts[2]})"

def holds(obj, sh, e=0):
    """the constructed / derived object stores what the input says (precondition of every comparison)"""
    a, b = stored_of(obj), sh_stored(sh)
    t = Fraction(1, 10 ** 12) * unit(e)
    return len(a) == len(b) and all(abs(p[0] - q[0]) <= t and abs(p[1] - q[1]) <= t for p, q in zip(a, b))

def shape_case(aa, ci, grid, sh):
    if ci["op"] == "project" and sh["k"] in ("mask", "2d", "2dnat"):
        c0 = [F(0), F(0)] if ci["centre"] in (None, "absent") else fr2(ci["centre"])
        n = grid.grid_2d_radial_projected_shape_slim_from(centre=(float(c0[0]), float(c0[1])))
        return [k_obj([], f"(KShape {c_mask2(pm2(sh))} {c_pt(c0)} {cz(int(n))})")]
    return []

def kind_of(ci, sh): return ci["op"] + ":" + sh["k"] + (":" + ci["dec"] if "dec" in ci else "")
def variant_full(g):
    v = ([g["store"]] if g.get("store", "slim") != "slim" else []) + [d if isinstance(d, str) else d[0] for d in g.get("derive", [])]
    return ("+" + "+".join(v)) if v else ""
def variant(g): return ("+derived" if g.get("derive") else "") + ("+sub" if g.get("sub") else "")

def run_case(inp):
    aa = import_aa()
    if inp["op"] == "hist": return run_hist(aa, inp)
    g = inp["grid"]
    sh = shadow_of(g)
    finding, band = classify(inp, sh)
    if band:
        SKIPPED["band"] += 1
        return {"coq": None, "out": "skipped: a radius within 1e-3 of the radial minimum", "py_ok": None, "kind": inp["op"] + ":skipped", "nontrivial": False}
    grid = build_grid(aa, g)
    if not holds(grid, sh):
        return {"coq": None, "out": {"stored": [[str(a), str(b)] for a, b in stored_of(grid)][:12]}, "py_ok": False, "kind": "construct:" + g["k"],
                "nontrivial": True, "detail": "the constructed / derived grid does not store the requested contents (" + variant_full(g) + ")"}
    d = do_call(aa, inp, grid, sh)
    res = {"coq": k_obj([c_mro(aa, grid)], k_term(d["parts"], sh)), "extra_coq": shape_case(aa, inp, grid, sh),
           "out": {"seen": [[str(a), str(b)] for a, b in d["seen"]][:12], "result": summarize(d["out"]), "notes": d["notes"]},
           "py_ok": d["py_ok"] if not (d["raised"] and d["py_ok"]) else None, "kind": kind_of(inp, sh) + variant(g),
           "nontrivial": len(d["seen"]) >= 2}
    if not d["py_ok"]: res["detail"] = "; ".join(d["notes"])
    elif finding: res["finding"] = finding          # a listed finding never absorbs a Python-side relation that failed
    return res

# --------------------------------------------------------------------------------------------- histories
# {"op": "hist", "e": unit exponent, "rpc": bool, "grids": [g, ...], "steps": [step, ...]}
#   step = {"t": "call", "gi": i, <the fields of a single call without "grid">, "o": profile slot or None}
#        | {"t": "edit", "gi": i, "k": stored index, "v": [y, x] | x, "comp": None | 0 | 1}      grid[k] = v  /  grid[k, comp] = v
# The grid objects are built once and live through the history; nothing but the edits may change what they hold.
def py_edit(obj, k, v, comp):
    one_d = is_a(obj, "Grid1D")
    a = obj.array if hasattr(obj, "array") else obj
    if one_d: obj[k] = fl(v); return
    if a.ndim == 3:
        idx = (k // a.shape[1], k % a.shape[1])
        if comp is None: obj[idx] = (fl(v[0]), fl(v[1]))
        else: obj[idx + (comp,)] = fl(v)
    elif comp is None: obj[k] = (fl(v[0]), fl(v[1]))
    else: obj[k, comp] = fl(v)

def run_hist(aa, inp):
    e = inp.get("e", 0)
    shs = [shadow_of(g) for g in inp["grids"]]
    objs = [build_grid(aa, g) for g in inp["grids"]]
    for o, sh, g in zip(objs, shs, inp["grids"]):
        if not holds(o, sh, e):
            return {"coq": None, "out": {"stored": [[str(a), str(b)] for a, b in stored_of(o)][:12]}, "py_ok": False, "kind": "construct:" + g["k"],
                    "nontrivial": True, "detail": "the constructed / derived grid does not store the requested contents (" + variant_full(g) + ")"}
    shs0 = list(shs)
    pool = {}
    steps = []; notes = []; py_ok = True; finding = None; outs = []; ncalls = 0; kinds = []
    for st in inp["steps"]:
        gi = st["gi"]
        if st["t"] == "edit":
            if gi >= len(objs): continue
            if st["k"] >= len(sh_stored(shs[gi])): continue
            py_edit(objs[gi], st["k"], st["v"], st.get("comp"))
            old = sh_stored(shs[gi])[st["k"]]
            shs[gi] = sh_edit(shs[gi], st["k"], st["v"], st.get("comp"))
            new = sh_stored(shs[gi])[st["k"]]
            steps.append(f"(HEdit {cnat(gi)} {cnat(st['k'])} {c_pt(new)})")
            continue
        if gi >= len(objs): continue                  # a grid that was to come out of an earlier call which raised / was skipped
        ci = dict(st); ci["rpc"] = inp.get("rpc", False)
        fnd, band = classify(ci, shs[gi], e)
        if band:
            SKIPPED["band"] += 1; continue
        d = do_call(aa, ci, objs[gi], shs[gi], pool)
        post = stored_of(objs[gi])
        if st.get("feed") and "result" in d:
            # the returned grid becomes an input of later steps (its contents: what the call returned, already compared above)
            r = d["result"]
            if type(r).__name__ == "Grid2D":
                m = enc_mask2(r.mask)
                nsh = {"k": "2d", "bits": m["bits"], "ps": [S(v) for v in m["ps"]], "org": [S(v) for v in m["org"]], "cs": enc_pairs(slim_nd(r))}
            elif type(r).__name__ == "Grid2DIrregular": nsh = {"k": "irr", "cs": enc_pairs(to_nd(r))}
            else: nsh = None
            if nsh is not None and holds(r, nsh, e):
                objs.append(r); shs.append(nsh); shs0.append(nsh)
        steps.append(f"(HCall {cnat(gi)} {c_term(d['parts'])} {c_pts(post)})")
        if not d["py_ok"]: py_ok = False; notes.append(f"step {len(steps) - 1}: " + "; ".join(d["notes"]))
        if fnd: finding = fnd
        ncalls += 1; kinds.append(ci["op"])
        outs.append({"seen": [[str(a), str(b)] for a, b in d["seen"]][:8], "result": summarize(d["out"]), "notes": d["notes"]})
    if not ncalls:
        return {"coq": None, "out": "skipped: every call within 1e-3 of the radial minimum", "py_ok": None, "kind": "hist:skipped", "nontrivial": False}
    coq = k_obj([c_mro(aa, o) for o in objs], f"(KHist {cz(e)} {clist([c_gspec(s) for s in shs0])} {clist(steps)})")
    res = {"coq": coq, "out": outs[:4], "py_ok": py_ok, "nontrivial": True,
           "kind": "hist:" + "/".join(s["k"] + variant(g) for s, g in zip(shs0, inp["grids"])) + ("/fed" * (len(shs0) - len(inp["grids"])))
                   + ("@2^%d" % e if e else "")}
    if not py_ok: res["detail"] = "; ".join(notes)
    elif finding: res["finding"] = finding
    return res

DEC = {"array": "ToArray", "grid": "ToGrid", "vector": "ToVector"}
def summarize(out):
    if out[0] == "raise": return "raise " + out[1]
    kind, v = out[1]
    def one(c):
        vals = c[-1]
        return c[0] + " " + str([(str(x) if not isinstance(x, list) else [str(t) for t in x]) for x in vals][:8])
    return [one(c) for c in v][:3] if kind == "many" else one(v)

def extra_evidence():
    return {"skipped_in_band": SKIPPED["band"],
            "band_rule": "relocate/stack calls with a coordinate whose squared radius is within 1/1024 (times the squared unit) of rmin^2 (or exactly "
                         "on it after a rotation) are skipped: the implementation's comparison r < rmin is taken on rounded square roots"}

# --------------------------------------------------------------------------------------------- generators
PS = ["1/4", "1/2", "1", "3/2", "2", "3"]
def S(x): return str(Fraction(x))
def rand_mask2(rng, maxn=6, iso=0.6):
    H, W = rng.randint(1, maxn), rng.randint(1, maxn)
    p = rng.choice([0.0, 0.1, 0.3, 0.5, 0.7, 0.9])
    bits = [[rng.random() < p for _ in range(W)] for _ in range(H)]
    if all(all(r) for r in bits): bits[rng.randrange(H)][rng.randrange(W)] = False
    psy = rng.choice(PS); psx = psy if rng.random() < iso else rng.choice(PS)
    # origin = pixel scale * k/4: origin / pixel_scale (computed by the code) stays exact in doubles also for scales 3 and 3/2
    org = [S(F(psy) * F(rng.randint(-6, 6), 4)), S(F(psx) * F(rng.randint(-6, 6), 4))] if rng.random() < 0.7 else ["0", "0"]
    return {"bits": bits, "ps": [psy, psx], "org": org}
def rand_pts(rng, n, span=8, den=16):
    return [[S(F(rng.randint(-span * den, span * den), den)), S(F(rng.randint(-span * den, span * den), den))] for _ in range(n)]
def rand_grid(rng, kinds=("mask", "2d", "irr", "1d", "raw"), pts=None, iso=0.6):
    k = rng.choice(kinds)
    if k in ("mask", "2d"):
        m = rand_mask2(rng, iso=iso)
        g = dict(m, k=k)
        if k == "2d":
            n = n_coords(g)
            g["cs"] = pts(rng, n) if pts else rand_pts(rng, n)
        return g
    if k in ("irr", "raw"):
        n = rng.randint(1, 9)
        return {"k": k, "cs": pts(rng, n) if pts else rand_pts(rng, n)}
    L = rng.randint(1, 7)
    p = rng.choice([0.0, 0.3, 0.6])
    bits = [rng.random() < p for _ in range(L)]
    if all(bits): bits[rng.randrange(L)] = False
    n = sum(1 for b in bits if not b)
    return {"k": "1d", "bits": bits, "ps": rng.choice(PS), "org": S(F(rng.randint(-4, 4), 4)),
            "xs": [S(F(rng.randint(-64, 64), 8)) for _ in range(n)]}

COEF = ["1", "-1", "2", "-2", "3", "1/2", "-3/2", "5", "-7", "16"]
def rand_sfun(rng, allow_drop=False):
    k = rng.choice(["aff", "aff", "quad", "idx", "cum", "mir"] + (["drop"] if allow_drop else []))
    a, b = rng.sample(COEF, 2)
    if k in ("aff", "quad"): return [k, a, b, rng.choice(COEF + ["0"])]
    return [k, a, b]
def rand_ufun(rng, want, allow_drop=False, allow_list=True):
    """want = 'V' (values) or 'P' (pairs)"""
    def one():
        return ["V", rand_sfun(rng, allow_drop)] if want == "V" else ["P", rand_sfun(rng, allow_drop), rand_sfun(rng, allow_drop)]
    if allow_list and rng.random() < 0.3:
        return {"list": True, "fs": [one() for _ in range(rng.randint(1, 3))]}
    return {"list": False, "fs": [one()]}
IDENT = {"list": False, "fs": [["P", ["aff", "1", "0", "0"], ["aff", "0", "1", "0"]]]}     # returns the grid itself

def near_pts(rmin_choices, p0=0.06):
    """coordinates clustered around the origin / a centre, including exactly the centre and exactly radius = rmin"""
    ring = {"5/4": [("3/4", "1"), ("-1", "3/4")], "5/2": [("3/2", "2"), ("-2", "-3/2"), ("5/2", "0")], "5": [("3", "4"), ("-4", "3"), ("0", "-5")],
            "13/4": [("5/4", "3"), ("-3", "5/4")], "1": [("1", "0"), ("0", "-1")], "1/2": [("0", "1/2")], "2": [("-2", "0")],
            "1/4": [("1/4", "0")], "3/2": [("0", "3/2")]}
    def f(rng, n, c=(F(0), F(0)), rm=None):
        out = []
        for _ in range(n):
            t = rng.random()
            if t < p0: p = (F(0), F(0))
            elif t < 0.25 and rm in ring:
                q = rng.choice(ring[rm]); p = (F(q[0]), F(q[1]))
            elif t < 0.75: p = (F(rng.randint(-40, 40), 16), F(rng.randint(-40, 40), 16))
            else: p = (F(rng.randint(-100, 100), 16), F(rng.randint(-100, 100), 16))
            out.append([S(p[0] + c[0]), S(p[1] + c[1])])
        return out
    return f

def centre_towards(rng, g, d):
    """a profile centre for which the LONGEST axis-parallel distance to the frame edge points in direction d (each of the four
    branches of the max / == tests in grid_scaled_2d_slim_radial_projected_from), or the y and x reaches tie"""
    H, W = len(g["bits"]), len(g["bits"][0])
    psy, psx = fr2(g["ps"]); oy, ox = fr2(g["org"])
    hy, hx = psy * H / 2, psx * W / 2
    small = F(rng.randint(-2, 2), 4)
    if d in ("+y", "-y", "tie"):
        a = max(F(0), hx + abs(small) - hy) + (F(0) if d == "tie" else F(rng.randint(1, 8), 4))
        if d == "tie" and hx + abs(small) < hy: return [S(oy), S(ox + (hy - hx) * rng.choice([1, -1]))]
        return [S(oy + (a if d != "+y" else -a) if d != "tie" else oy + a * rng.choice([1, -1])), S(ox + small)]
    a = max(F(0), hy + abs(small) - hx) + F(rng.randint(1, 8), 4)
    return [S(oy + small), S(ox + (a if d == "-x" else -a))]

# ---- storage / derivation variants
SHIFTS = ["1/2", "-3/4", "2", "1/16", "-5"]
def add_variant(rng, g, native2d=False, p_plain=0.45):
    """decorate a grid specification with a storage format and a chain of derivations (see build_grid)"""
    k = g["k"]
    if rng.random() < p_plain: return g
    g = dict(g)
    masked = k in ("mask", "2d", "1d")
    can_native = k == "1d" or (masked and native2d)
    if can_native and rng.random() < 0.5:
        g["store"] = rng.choice(["ctor_native", "ctor_full"])
        if g["store"] == "ctor_full":
            nm = sum(1 for b in flat_bits(g) if b)
            g["junk"] = [S(F(rng.randint(-99, 99), 8)) for _ in range(nm)] if k == "1d" else rand_pts(rng, nm)
    if k == "raw": ops = ["copy", "view", "fortran", "stride", "add0", "shift"]
    else: ops = ["copy", "deepcopy", "slice", "add0", "mul1", "neg2", "wna", "shift", "slim", "native"]
    ds = []
    for _ in range(rng.choice([0, 1, 1, 2, 3]) if "store" in g else rng.choice([1, 1, 2, 3])):
        op = rng.choice(ops)
        ds.append(["shift", rng.choice(SHIFTS)] if op == "shift" else op)
    if masked and not can_native:
        # these streams are defined for slim storage only: leave a native detour, but end slim
        if any(d == "native" for d in ds) and not (ds and ds[-1] == "slim" and "native" not in ds[ds.index("native") + 1:]): ds.append("slim")
        last_n = max([i for i, d in enumerate(ds) if d == "native"], default=-1)
        if last_n >= 0 and "slim" not in ds[last_n + 1:]: ds.append("slim")
    if ds: g["derive"] = ds
    return g
def native_1d(rng, g):
    """a natively stored Grid1D with at least one masked pixel (the masked entries hold 0 or, after a shift, something else)"""
    g = dict(g)
    if not any(g["bits"]):
        j = rng.randrange(len(g["bits"]) + 1)
        g["bits"] = g["bits"][:j] + [True] + g["bits"][j:]
    how = rng.randrange(4)
    if how == 0: g["derive"] = ["native"]
    elif how == 1: g["store"] = "ctor_native"
    elif how == 2:
        g["store"] = "ctor_full"; g["junk"] = [S(F(rng.randint(-99, 99), 8)) for b in g["bits"] if b]
    else: g["derive"] = ["native", ["shift", rng.choice(SHIFTS)]]
    if rng.random() < 0.3: g["derive"] = g.get("derive", []) + [rng.choice(["copy", "add0", "slice", "wna"])]
    return g

# ---- subclass instances of the accepted classes
def add_sub(rng, g, p=0.35):
    """make the grid an instance of a SUBCLASS of its accepted class (see build_grid); contents and storage stay as they are"""
    if rng.random() >= p: return g
    g = dict(g)
    if g["k"] != "irr":
        g["sub"] = rng.choice(["pav", "pav", "pav2"])
        return g
    sub = rng.choice(["pav", "pav2", "uniform", "uniform", "upscale", "upscale", "pavuniform"])
    # upscale: factor 1 / 2 / 4, dyadic pixel scales and sparse points on the 1/16 lattice, so that the library's double arithmetic
    # is exact and the object holds exactly `upscaled(...)` (histories compare the array read back after a call exactly)
    if sub == "upscale" and (g.get("dtype") == "int" or any(F(v).denominator > 16 for q in g["cs"][:3] for v in q)): sub = "uniform"
    g["sub"] = sub
    if sub == "upscale":
        f = rng.choice([1, 2, 2, 4])
        ns = max(1, min(3 if f < 4 else 1, len(g["cs"]) // (f * f)))
        g["sparse"] = g["cs"][:ns]; g["f"] = f; g["ups"] = [rng.choice(PS), rng.choice(PS)]
        g["cs"] = [[S(a), S(b)] for a, b in upscaled(g["sparse"], f, g["ups"])]
    elif sub in ("uniform", "pavuniform"):
        g["uni"] = {"nd": rng.random() < 0.5}
        if rng.random() < 0.7: g["uni"]["ps"] = [rng.choice(PS), rng.choice(PS)]
        if rng.random() < 0.5: g["uni"]["shape"] = [rng.randint(1, 6), rng.randint(1, 6)]
    return g
def flag_call(rng, ci):
    """how the method is called: positionally / by keyword (grid=...), with further arguments of the user's method"""
    if rng.random() < 0.3: ci["kw"] = True
    if rng.random() < 0.3: ci["xargs"] = True
    return ci
def flag_u(rng, u, g, op):
    """result KINDS the decorators must take like plain ndarrays / lists: a list SUBCLASS, autoarray structures as values"""
    u = dict(u)
    if u["list"] and rng.random() < 0.4: u["lsub"] = True
    if op != "relocate" and g["k"] != "raw" and rng.random() < 0.12: u["wrap"] = True
    return u

# ---- scaled copies
def scale_grid(g, un):
    g = dict(g); g.pop("dtype", None)
    def sv(v): return S(F(v) * un)
    if "ps" in g: g["ps"] = sv(g["ps"]) if g["k"] == "1d" else [sv(v) for v in g["ps"]]
    if "org" in g: g["org"] = sv(g["org"]) if g["k"] == "1d" else [sv(v) for v in g["org"]]
    if "cs" in g: g["cs"] = [[sv(a), sv(b)] for a, b in g["cs"]]
    if "sparse" in g: g["sparse"] = [[sv(a), sv(b)] for a, b in g["sparse"]]; g["ups"] = [sv(v) for v in g["ups"]]
    if "uni" in g and g["uni"].get("ps"): g["uni"] = dict(g["uni"], ps=[sv(v) for v in g["uni"]["ps"]])
    if "xs" in g: g["xs"] = [sv(v) for v in g["xs"]]
    if "junk" in g: g["junk"] = [sv(v) for v in g["junk"]] if g["k"] == "1d" else [[sv(a), sv(b)] for a, b in g["junk"]]
    if "derive" in g: g["derive"] = [d if isinstance(d, str) else [d[0], sv(d[1])] for d in g["derive"]]
    return g
def scale_step(st, un):
    st = dict(st)
    def sv(v): return S(F(v) * un)
    if st["t"] == "edit":
        st["v"] = [sv(a) for a in st["v"]] if isinstance(st["v"], list) else sv(st["v"])
        return st
    if isinstance(st.get("centre"), list): st["centre"] = [sv(v) for v in st["centre"]]
    if st.get("rmin") is not None: st["rmin"] = sv(st["rmin"])
    return st

# ---- histories
def rand_call(rng, g, centre0, homogeneous=False, like=None):
    """one decorated call that the grid kind admits; like = an earlier call step: the same method of the same profile object with
    the same profile attributes again (the user function is drawn anew), if this grid kind admits it"""
    k = g["k"]
    native2d = k in ("mask", "2d") and (g.get("store", "slim") != "slim" or "native" in g.get("derive", []))
    if native2d: ops = ["make", "make", "project"]
    elif k == "1d": ops = ["make", "make", "project", "project", "stack", "stack"]
    elif k == "raw": ops = ["make", "relocate", "relocate", "stack", "stack", "project"]
    else: ops = ["make", "project", "relocate", "relocate", "stack", "stack"]
    if like is not None and (like["op"] not in ops or (k == "1d" and like["op"] == "stack" and like.get("dec") == "vector")): like = None
    op = like["op"] if like else rng.choice(ops)
    L = like or {}
    def ufun(want, **kw):
        u = rand_ufun(rng, want, **kw)
        if homogeneous:
            for f in u["fs"]:
                for j in range(1, len(f)):
                    if f[j][0] == "quad": f[j] = ["cum", f[j][1], f[j][2]]
                    elif f[j][0] == "aff": f[j] = ["aff", f[j][1], f[j][2], "0"]
        return u
    st = {"t": "call", "op": op, "o": L["o"] if like else rng.choice([0, 0, 1, None])}
    near = [S(centre0[0] + F(rng.randint(-6, 6), 4)), S(centre0[1] + F(rng.randint(-6, 6), 4))]
    if op == "make":
        st["dec"] = L.get("dec") or rng.choice(["array", "grid", "vector"])
        st["u"] = ufun("V" if st["dec"] == "array" else "P", allow_drop=rng.random() < 0.1)
    elif op == "project":
        st["centre"] = rng.choice(["absent", None, near, near]); st["angle"] = rng.choice(["absent", None] + [list(a) for a in ANGLES])
        if like: st["centre"] = L["centre"]; st["angle"] = L["angle"]
        st["u"] = ufun(rng.choice("VP") if k == "irr" else "V", allow_list=False)
    elif op == "relocate":
        st["rmin"] = rng.choice(RMINS + RMINS + [None]); st["rad"] = ["euclid"] if rng.random() < 0.75 else ["ellip", rng.choice(["2", "1/2"])]
        if like: st["rmin"] = L["rmin"]; st["rad"] = L["rad"]
        st["u"] = ufun(rng.choice("VP")) if rng.random() < 0.7 else IDENT
    else:
        st["dec"] = rng.choice(["array", "grid"] if k == "1d" else ["array", "grid", "vector"])
        st["rmin"] = rng.choice(RMINS + RMINS + [None]); st["centre"] = near; st["angle"] = list(rng.choice(ANGLES))
        st["nested"] = rng.random() < 0.5
        if like:
            for f in ("dec", "rmin", "centre", "angle", "nested"): st[f] = L[f]
        st["u"] = ufun("V" if st["dec"] == "array" else "P")
    st["u"] = flag_u(rng, st["u"], g, op)
    return flag_call(rng, st)

def n_stored(g):
    if "n" in g: return g["n"]
    sh = shadow_of(g)
    return len(sh_stored(sh))
def rand_hist(rng, e=0, kinds=("mask", "2d", "irr", "1d", "raw"), force_native1d=False, min_calls=2):
    c0 = (F(rng.randint(-8, 8), 4), F(rng.randint(-8, 8), 4))
    npf = near_pts(RMINS, p0=0.02)
    def pts(r, n): return npf(r, n, c=c0 if rng.random() < 0.5 else (F(0), F(0)), rm=rng.choice(RMINS))
    g0 = rand_grid(rng, kinds=kinds, pts=pts)
    if rng.random() < 0.08: g0 = as_int(rng, g0)
    if g0["k"] == "1d" and (force_native1d or rng.random() < 0.5): g0 = native_1d(rng, g0)
    else: g0 = add_variant(rng, g0, native2d=rng.random() < 0.3, p_plain=0.4)
    g0 = add_sub(rng, g0)
    grids = [g0]
    locked = False
    if rng.random() < 0.35:
        # a second grid of the same kind on an equal mask with other contents, served by the same profile objects
        g1 = dict(g0)
        if g1.get("sub") == "upscale":                     # other contents: no longer the upscaled lattice
            g1["sub"] = "uniform"; g1.pop("sparse"); g1["uni"] = {"ps": g1.pop("ups"), "nd": True}; g1.pop("f")
        if g1["k"] == "mask": g1["k"] = "2d"
        if g1["k"] == "1d": g1["xs"] = [S(F(rng.randint(-64, 64), 8)) for _ in g0["xs"]]
        else: g1["cs"] = pts(rng, len(g0["cs"]) if "cs" in g0 else n_coords(g0))
        if g0.get("dtype") == "int": g1 = as_int(rng, g1)
        grids.append(g1)
    elif rng.random() < 0.4:
        # a grid of ANOTHER kind / class / storage served by the same profile objects and methods (whatever a profile object or a
        # decorated method remembers from the previous call must not leak into the next one)
        g1 = rand_grid(rng, kinds=tuple(k for k in kinds if k != g0["k"]) or kinds, pts=pts)
        if g1["k"] == "1d" and rng.random() < 0.5: g1 = native_1d(rng, g1)
        else: g1 = add_variant(rng, g1, native2d=rng.random() < 0.3, p_plain=0.5)
        grids.append(add_sub(rng, g1))
        # ... deliberately: the SAME method of the SAME profile object, with the same profile attributes, on the two grids in turn
        locked = rng.random() < 0.6
    steps = []
    ncall = rng.randint(max(min_calls, 2) if locked else min_calls, 4)
    first = None
    for c in range(ncall):
        gi = (c + ncall) % 2 if locked else rng.randrange(len(grids))
        st = rand_call(rng, grids[gi], c0, homogeneous=e != 0, like=first if locked else None); st["gi"] = gi
        if locked and first is None:
            if st["o"] is None: st["o"] = 0
            first = st
        if c and not locked and rng.random() < 0.4:     # the same call again (perhaps through another profile object)
            st = dict(steps[[j for j, x in enumerate(steps) if x["t"] == "call"][-1]], o=st["o"]); st.pop("feed", None); gi = st["gi"]
        steps.append(st)
        gk = grids[gi]
        if (st["op"] in ("make", "stack") and st.get("dec") == "grid" and not st["u"]["list"] and gk["k"] in ("mask", "2d", "irr", "1d")
                and gk.get("store", "slim") == "slim" and "native" not in gk.get("derive", []) and rng.random() < 0.6 and c + 1 < ncall):
            st["feed"] = True                        # the returned Grid2D / Grid2DIrregular is used as a grid from now on
            grids.append({"k": "irr" if gk["k"] == "irr" else "2d", "n": gk["n"] if "n" in gk else n_coords(gk), "virtual": True})
        if c + 1 < ncall and rng.random() < 0.45:
            gi = rng.randrange(len(grids)); g = grids[gi]
            n = n_stored(g)
            kk = rng.randrange(n)
            if g["k"] == "1d": v, comp = S(F(rng.randint(-64, 64), 8)), None
            else:
                comp = rng.choice([None, None, 0, 1])
                pv = pts(rng, 1)[0]
                v = pv if comp is None else pv[comp]
            if g.get("dtype") == "int":            # numpy would truncate: integer grids get integer edits
                v = S(rng.randint(-6, 6)) if not isinstance(v, list) else [S(rng.randint(-6, 6)), S(rng.randint(-6, 6))]
            steps.append({"t": "edit", "gi": gi, "k": kk, "v": v, "comp": comp})
    grids = [g for g in grids if not g.get("virtual")]
    inp = {"op": "hist", "e": e, "rpc": rng.random() < 0.5, "grids": grids, "steps": steps}
    if e:
        un = unit(e)
        inp["grids"] = [scale_grid(g, un) for g in grids]; inp["steps"] = [scale_step(st, un) for st in steps]
    return inp

def int_pts(rng, n):
    return [[S(rng.randint(-6, 6)), S(rng.randint(-6, 6))] for _ in range(n)]
def as_int(rng, g):
    """the same kind of grid with integer coordinates held in an integer array (structures keep the dtype they are given)"""
    g = dict(g); g["dtype"] = "int"
    if g["k"] == "1d": g["xs"] = [S(rng.randint(-9, 9)) for _ in g["xs"]]
    elif g["k"] == "mask": g["k"] = "2d"; g["cs"] = int_pts(rng, n_coords(g))
    else: g["cs"] = int_pts(rng, len(g["cs"]))
    return g
def full_pts(rng, n):
    """coordinates with full 53-bit mantissas (nothing on a lattice), a few exact zeros"""
    def one():
        t = rng.random()
        if t < 0.08: return 0.0
        # |coordinate| <= 100: a quadratic user function with coefficient 16 stays below 2e5, where a double's rounding error is
        # far inside the absolute tolerance 1e-9 (huge magnitudes: the scaled histories, with homogeneous functions)
        return rng.uniform(-8, 8) if t < 0.8 else rng.uniform(-1, 1) * 10 ** rng.randint(-6, 2)
    return [[S(Fraction(one())), S(Fraction(one()))] for _ in range(n)]

def force_sub(rng, g, sub):
    for _ in range(50):
        h = add_sub(rng, g, p=1.1)
        if h["sub"] == sub: return h
    raise ValueError(sub)
def sweep_case(rng, npf, k, sub, j, rep, op, dec):
    centre = (F(rng.randint(-8, 8), 4), F(rng.randint(-8, 8), 4))
    rmin = rng.choice(RMINS[2:])
    g = rand_grid(rng, kinds=(k,), pts=lambda r, n: npf(r, n, c=centre if op == "stack" else (F(0), F(0)), rm=None if op == "stack" else rmin))
    if k in ("mask", "2d", "1d") and op in ("make", "project") and rng.random() < 0.3:
        g = native_1d(rng, g) if k == "1d" else add_variant(rng, g, native2d=True, p_plain=0.0)
    g = force_sub(rng, g, ["pav", "pav2"][(j + rep) % 2] if sub == "alt" else sub)
    want = "V" if dec == "array" or op == "project" else ("P" if dec else rng.choice("VP"))
    u = flag_u(rng, rand_ufun(rng, want, allow_list=op != "project"), g, op)
    inp = {"op": op, "grid": g, "u": u}
    if dec: inp["dec"] = dec
    if op == "project":
        inp.update(centre=rng.choice(["absent", [S(centre[0]), S(centre[1])]]), angle=rng.choice(["absent"] + [list(a) for a in ANGLES]), rpc=bool(j % 2))
    elif op == "relocate": inp.update(rmin=rmin, rad=["euclid"])
    elif op == "stack":
        inp.update(rmin=rmin, centre=[S(centre[0]), S(centre[1])], angle=list(rng.choice(ANGLES)), nested=bool((j + rep) % 2))
    return flag_call(rng, inp)
def sub_sweep(rng, N):
    npf = near_pts(RMINS, p0=0.0)
    calls = [("make", "array"), ("make", "grid"), ("make", "vector"), ("project", None), ("relocate", None),
             ("stack", "array"), ("stack", "grid"), ("stack", "vector")]
    for rep in range(N):
        for k, subs in (("mask", None), ("2d", None), ("1d", None), ("raw", None), ("irr", ["pav", "pav2", "uniform", "upscale", "pavuniform"])):
            for sub in (subs or ["alt"]):
                for j, (op, dec) in enumerate(calls):
                    if k == "1d" and (op == "relocate" or (op == "stack" and dec == "vector")): continue
                    for attempt in range(30):
                        inp = sweep_case(rng, npf, k, sub, j, rep, op, dec)
                        if not classify(inp, shadow_of(inp["grid"]))[1]: break          # not within the skipped band
                    yield inp

def gen_inputs(tier, rng):
    big = tier == "thorough"
    N = 8 if big else 1
    decs = ["array", "grid", "vector"]
    # ---- makers: every decorator x every grid kind (all storage formats / derived objects), values / pairs / lists
    for i in range(130 * N):
        dec = decs[i % 3]
        g = rand_grid(rng, pts=full_pts if i % 4 == 3 else None)
        if i % 11 == 5: g = as_int(rng, g)
        if g["k"] == "1d" and i % 2:
            g = native_1d(rng, g)
        else: g = add_variant(rng, g, native2d=True)
        g = add_sub(rng, g, p=0.4)
        u = flag_u(rng, rand_ufun(rng, "V" if dec == "array" else "P", allow_drop=(i % 7 == 0)), g, "make")
        yield flag_call(rng, {"op": "make", "dec": dec, "grid": g, "u": u})
    # ---- project_grid
    for i in range(100 * N):
        g = rand_grid(rng, kinds=("mask", "mask", "2d", "irr", "1d", "1d", "raw"), iso=0.3)
        centre = rng.choice(["absent", None, "v", "v", "v", "v"])
        if centre == "v":
            centre = [S(F(rng.randint(-16, 16), 4)), S(F(rng.randint(-16, 16), 4))]
            if g["k"] in ("mask", "2d") and i % 3:
                centre = centre_towards(rng, g, rng.choice(["+y", "-y", "+x", "-x", "tie"]))
        angle = rng.choice(["absent", None, "v", "v", "v", "v"])
        if angle == "v": angle = list(rng.choice(ANGLES))
        if g["k"] == "irr": u = rand_ufun(rng, rng.choice("VP"), allow_list=(i % 9 == 0))
        else: u = rand_ufun(rng, "V", allow_list=False)
        if g["k"] == "1d" and i % 2: g = native_1d(rng, g)
        else: g = add_variant(rng, g, native2d=True, p_plain=0.6)
        g = add_sub(rng, g); u = flag_u(rng, u, g, "project")
        yield flag_call(rng, {"op": "project", "grid": g, "u": u, "centre": centre, "angle": angle,
                              "rpc": "default" if (i % 5 == 0 and g["k"] in ("mask", "2d")) else bool(i % 2)})
    # ---- relocate_to_radial_minimum alone
    npf = near_pts(RMINS)
    for i in range(100 * N):
        rmin = rng.choice(RMINS + RMINS + [None])
        def pts(r, n): return npf(r, n, rm=rmin)
        kinds = ("2d", "irr", "raw") if i % 5 else ("mask",)
        g = rand_grid(rng, kinds=kinds, pts=full_pts if i % 6 == 1 else pts)
        if i % 11 == 5: g = as_int(rng, g)
        g = add_variant(rng, g, p_plain=0.6)
        rad = ["euclid"] if i % 4 else ["ellip", rng.choice(["2", "1/2"])]
        u = rand_ufun(rng, rng.choice("VP")) if i % 3 else IDENT
        g = add_sub(rng, g); u = flag_u(rng, u, g, "relocate")
        yield flag_call(rng, {"op": "relocate", "grid": g, "u": u, "rmin": rmin, "rad": rad})
    # ---- the stack to_X(transform(relocate(f))), plain and nested
    for i in range(120 * N):
        dec = decs[i % 3]
        rmin = rng.choice(RMINS + RMINS + [None])
        centre = (F(rng.randint(-8, 8), 4), F(rng.randint(-8, 8), 4))
        def pts(r, n): return npf(r, n, c=centre, rm=None)
        if i % 4 == 0:
            g = rand_grid(rng, kinds=("mask",))      # the profile centre on / half-way between pixel centres near the middle of the frame
            centre = (F(g["org"][0]) + F(rng.randint(-2, 2), 2) * F(g["ps"][0]), F(g["org"][1]) + F(rng.randint(-2, 2), 2) * F(g["ps"][1]))
        else:
            g = rand_grid(rng, kinds=("2d", "irr", "raw", "1d"), pts=pts)
            if i % 11 == 5: g = as_int(rng, g)
        if g["k"] == "1d" and i % 2: g = native_1d(rng, g)
        else: g = add_variant(rng, g, p_plain=0.6)
        if g["k"] == "1d" and dec == "vector": dec = "array"
        g = add_sub(rng, g)
        u = flag_u(rng, rand_ufun(rng, "V" if dec == "array" else "P"), g, "stack")
        yield flag_call(rng, {"op": "stack", "dec": dec, "grid": g, "u": u, "rmin": rmin, "centre": [S(centre[0]), S(centre[1])],
                              "angle": list(rng.choice(ANGLES)), "nested": bool(i % 2)})
    # ---- directed sweep: every decorator stream x every accepted class x every way of being a SUBCLASS instance of it
    yield from sub_sweep(rng, N)
    # ---- histories: grid and profile OBJECTS that live through several calls and in-place edits; interleaved (the scaled ones
    #      are the most expensive cases to evaluate: spread over the shards) with the same at other orders of magnitude
    #      (tiny: the shipped radial minima are 1e-8; huge)
    j = 0
    for i in range(110 * N):
        yield rand_hist(rng, force_native1d=(i % 5 == 0), kinds=("1d",) if i % 5 == 0 else ("mask", "2d", "irr", "1d", "raw"))
        if i % 5 in (1, 3) and j < 44 * N:
            yield rand_hist(rng, e=UNITS[j % len(UNITS)], min_calls=1); j += 1
