"""C03 -- masked PSF blurring equals true 2-D convolution restricted to the mask."""
import numpy as np
from fractions import Fraction
from harness.common import cz, cq, cnat, cbool, clist, ctup, cres, import_aa, frac, exn_name

ID = "C03"
GEN = []
PROPS = "Props/C03.v"
COQ_CHECK = ("Model.C03", "check")
COQ_FALLBACK = None
COQ_IMPORTS = ""
SHARD = 60
RULE = ("random masks (densities 0.1-0.9, plus single pixels, rings with holes, two components) inside frames up to 9x9 whose kernel "
        "footprint stays inside the frame; kernels kh,kw in {1,3,5,7} independently with signed integer / quarter entries, asymmetric; "
        "images, blurring images and mapping matrices with integer or k/4 entries of either sign, dense and sparse (zeros included); a "
        "separate malformed stream (even kernels, footprints leaving the frame). Entry points: Convolver.convolve_image / "
        "convolve_image_no_blurring / convolve_mapping_matrix, Kernel2D.convolved_array_from / convolved_array_with_mask_from, "
        "SimulatorImaging.via_image_from -> apply_mask -> convolver (zero residual). Non-trivial = at least 2 unmasked pixels and a "
        "kernel with more than one non-zero entry; distinct = distinct JSON input.")
EXHAUSTIVE = {}
TRUSTED = ["hand-written Gallina model coq/Model/C03.v (frame tables + scatter loops), tied to /repo by this correspondence run (exact "
           "rational comparison evaluated inside Coq by vm_compute)",
           "scipy.signal.convolve2d(mode='same') = zero-padded full convolution cropped about the kernel centre (oracle; compared with "
           "conv_full on every KWhole case)",
           "blurring_mask_2d_from is modelled by its input/output contract (C10 proves the contract of the loop)",
           "doubles: all generated values are integers or quarters of small magnitude so every product/sum is exact"]
ASSUMPTIONS = ["real arithmetic (no rounding): theorems over R, correspondence on exactly representable inputs",
               "the simulator -> apply_mask -> convolver pipeline (padding, trimming) is correspondence-only"]

KS = [1, 3, 5, 7]

def rand_kernel(rng, kh, kw, quarters=False):
    if quarters:
        return [[Fraction(rng.randint(-8, 8), 4) for _ in range(kw)] for _ in range(kh)]
    return [[rng.randint(-3, 3) for _ in range(kw)] for _ in range(kh)]

def rand_mask(rng, H, W, kh, kw, style):
    m = [[True] * W for _ in range(H)]
    y0, y1, x0, x1 = kh // 2, H - kh // 2, kw // 2, W - kw // 2
    cells = [(y, x) for y in range(y0, y1) for x in range(x0, x1)]
    if not cells: return None
    if style == "single":
        y, x = rng.choice(cells); m[y][x] = False
    elif style == "ring":
        for (y, x) in cells:
            if y in (y0, y1 - 1) or x in (x0, x1 - 1): m[y][x] = False
    elif style == "full":
        for (y, x) in cells: m[y][x] = False
    else:
        p = rng.choice([0.15, 0.3, 0.5, 0.7, 0.9])
        for (y, x) in cells:
            if rng.random() < p: m[y][x] = False
        if all(all(r) for r in m):
            y, x = rng.choice(cells); m[y][x] = False
    return m

def rand_vals(rng, n, sparse):
    out = []
    for _ in range(n):
        if sparse and rng.random() < 0.5: out.append(Fraction(0))
        elif rng.random() < 0.3: out.append(Fraction(rng.randint(-20, 20), 4))
        else: out.append(Fraction(rng.randint(-9, 9)))
    return out

def gen_inputs(tier, rng):
    n = 2500 if tier == "thorough" else 220
    styles = ["random", "random", "random", "single", "ring", "full"]
    for i in range(n):
        kh, kw = rng.choice(KS), rng.choice(KS)
        H = rng.randint(kh, min(9, kh + 5)); W = rng.randint(kw, min(9, kw + 5))
        m = rand_mask(rng, H, W, kh, kw, rng.choice(styles))
        if m is None: continue
        K = rand_kernel(rng, kh, kw, quarters=(i % 5 == 0))
        nun = sum(1 for r in m for b in r if not b)
        seed = rng.randrange(10 ** 9)
        for op in (["convolve", "noblur", "matrix", "init"] if i % 3 else ["convolve", "matrix", "whole", "init"]):
            yield {"op": op, "m": m, "K": [[str(v) for v in r] for r in K], "seed": seed, "sparse": bool(i % 2)}
    # malformed stream: even kernels, footprints leaving the frame
    for i in range(60 if tier == "thorough" else 20):
        kh, kw = rng.choice([1, 2, 3, 4, 5]), rng.choice([1, 2, 3, 4, 5])
        H, W = rng.randint(3, 6), rng.randint(3, 6)
        m = [[rng.random() < 0.5 for _ in range(W)] for _ in range(H)]
        if all(all(r) for r in m): m[0][0] = False
        K = rand_kernel(rng, kh, kw)
        yield {"op": "init", "m": m, "K": [[str(v) for v in r] for r in K], "seed": 0, "sparse": False}
    for i in range(40 if tier == "thorough" else 6):
        yield {"op": "simulate", "seed": rng.randrange(10 ** 9)}

def cmask(m): return clist([clist([cbool(b) for b in r]) for r in m])
def cqv(v): return clist([cq(x) for x in v])
def cqm(M): return clist([cqv(r) for r in M])
def fl(v): return [float(x) for x in v]

def run_case(inp):
    import random
    aa = import_aa()
    op = inp["op"]
    if op == "simulate": return run_simulate(aa, inp)
    m = inp["m"]; K = [[Fraction(v) for v in r] for r in inp["K"]]
    rng = random.Random(inp["seed"])
    ma = np.array(m, dtype=bool)
    nun = int((~ma).sum())
    kh, kw = len(K), len(K[0])
    kernel = aa.Kernel2D.no_mask(values=[fl(r) for r in K], pixel_scales=1.0)
    mask = aa.Mask2D(mask=ma, pixel_scales=1.0)
    nontrivial = nun >= 2 and sum(1 for r in K for v in r if v != 0) > 1
    base = {"kind": op, "nontrivial": nontrivial}
    if op == "init":
        try:
            c = aa.Convolver(mask=mask, kernel=kernel)
            out = ("ok", (int(c.pixels_in_mask), int(c.pixels_in_blurring_mask), [[bool(b) for b in r] for r in c.blurring_mask]))
        except Exception as e:
            out = ("raise", exn_name(e))
        coq = f"(KInit {cmask(m)} {cqm(K)} " + cres(out, lambda v: ctup([cnat(v[0]), cnat(v[1]), cmask(v[2])])) + ")"
        return dict(base, coq=coq, out=str(out)[:300])
    if op == "whole":
        native = [[Fraction(rng.randint(-9, 9)) for _ in range(len(m[0]))] for _ in range(len(m))]
        arr = aa.Array2D.no_mask(values=[fl(r) for r in native], pixel_scales=1.0)
        if inp["seed"] % 2:
            res = kernel.convolved_array_with_mask_from(array=arr.native, mask=mask)
        else:
            # convolved_array_from convolves array.native (zero outside the array's own mask) and slims by that mask
            arr = aa.Array2D(values=[fl(r) for r in native], mask=mask)
            native = [[Fraction(0) if m[y][x] else native[y][x] for x in range(len(m[0]))] for y in range(len(m))]
            res = kernel.convolved_array_from(array=arr)
        out = [frac(x) for x in np.array(res.slim)]
        return dict(base, coq=f"(KWhole {cmask(m)} {cqm(native)} {cqm(K)} {cqv(out)})", out=[str(x) for x in out])
    c = aa.Convolver(mask=mask, kernel=kernel)
    img = rand_vals(rng, nun, inp["sparse"])
    if op == "convolve":
        bm = mask.derive_mask.blurring_from(kernel_shape_native=(kh, kw))
        nb = int(bm.pixels_in_mask)
        bimg = rand_vals(rng, nb, inp["sparse"])
        res = c.convolve_image(image=aa.Array2D(values=fl(img), mask=mask),
                               blurring_image=aa.Array2D(values=fl(bimg), mask=bm) if nb else aa.Array2D(values=np.zeros(0), mask=bm))
        out = [frac(x) for x in np.array(res.slim)]
        return dict(base, coq=f"(KConvolve {cmask(m)} {cqm(K)} {cqv(img)} {cqv(bimg)} {cqv(out)})", out=[str(x) for x in out])
    if op == "noblur":
        res = c.convolve_image_no_blurring(image=aa.Array2D(values=fl(img), mask=mask))
        out = [frac(x) for x in np.array(res.slim)]
        return dict(base, coq=f"(KNoBlur {cmask(m)} {cqm(K)} {cqv(img)} {cqv(out)})", out=[str(x) for x in out])
    if op == "matrix":
        P = rng.randint(1, 4)
        M = [rand_vals(rng, P, inp["sparse"]) for _ in range(nun)]
        res = c.convolve_mapping_matrix(mapping_matrix=np.array([fl(r) for r in M]))
        out = [[frac(x) for x in r] for r in np.asarray(res)]
        return dict(base, coq=f"(KMatrix {cmask(m)} {cqm(K)} {cqm(M)} {cqm(out)})", out=[[str(x) for x in r] for r in out])
    raise ValueError(op)

def run_simulate(aa, inp):
    """noise-free simulation -> apply_mask -> convolver: the generating image is fitted with zero residual (Python-side relation)"""
    import random
    rng = random.Random(inp["seed"])
    kh, kw = rng.choice([1, 3, 5]), rng.choice([1, 3, 5])
    H, W = rng.randint(kh + 2, 9), rng.randint(kw + 2, 9)
    K = [[abs(v) for v in r] for r in rand_kernel(rng, kh, kw)]   # np.random.poisson (always evaluated) rejects negative rates
    if all(v == 0 for r in K for v in r): K[kh // 2][kw // 2] = 1
    image = [[float(rng.randint(0, 9)) for _ in range(W)] for _ in range(H)]
    kernel = aa.Kernel2D.no_mask(values=[fl(r) for r in K], pixel_scales=1.0)
    sim = aa.SimulatorImaging(exposure_time=1.0, psf=kernel, add_poisson_noise_to_data=False,
                              include_poisson_noise_in_noise_map=False, normalize_psf=False,
                              noise_if_add_noise_false=1.0, noise_seed=1)
    img = aa.Array2D.no_mask(values=image, pixel_scales=1.0)
    ds = sim.via_image_from(image=img)
    shp = ds.data.shape_native
    m = rand_mask(rng, shp[0], shp[1], kh, kw, "random")
    detail = {"K": [[str(v) for v in r] for r in K], "image": image, "data_shape": list(shp)}
    if m is None:
        return {"coq": None, "out": "no interior", "py_ok": None, "kind": "simulate", "nontrivial": False}
    mask = aa.Mask2D(mask=np.array(m), pixel_scales=1.0)
    dsm = ds.apply_mask(mask=mask)
    # the image that generated the data, on the (possibly trimmed) data frame: centred crop of the input
    full = np.array(img.native)
    oy, ox = (full.shape[0] - shp[0]) // 2, (full.shape[1] - shp[1]) // 2
    crop = full[oy:oy + shp[0], ox:ox + shp[1]]
    bm = dsm.mask.derive_mask.blurring_from(kernel_shape_native=(kh, kw))
    im = aa.Array2D(values=crop, mask=dsm.mask)
    bi = aa.Array2D(values=crop, mask=bm)
    blurred = dsm.convolver.convolve_image(image=im, blurring_image=bi)
    resid = np.array(dsm.data.slim) - np.array(blurred.slim)
    ok = bool(np.all(resid == 0.0)) and dsm.data.shape_native == tuple(shp)
    detail["residual_max"] = float(np.max(np.abs(resid))) if resid.size else 0.0
    return {"coq": None, "out": detail, "py_ok": ok, "kind": "simulate", "nontrivial": True, "detail": detail}
