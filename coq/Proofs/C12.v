(* C12 -- proofs.  All numeric statements are at [ROps] (Coq's real numbers). *)
From Coq Require Import ZArith QArith List Bool Reals Lra Lia Psatz.
From PAV Require Import Base.Res Base.Check Base.NumOps Model.C12.
Import ListNotations.
Local Open Scope R_scope.

Notation RP := (@pt ROps).
Notation RM := (@mask2d ROps).
Definition ps_ok (ps : RP) : Prop := fst ps <> 0 /\ snd ps <> 0.
Definition ps_pos (ps : RP) : Prop := 0 < fst ps /\ 0 < snd ps.
Lemma ps_pos_ok ps : ps_pos ps -> ps_ok ps.
Proof. intros [A B]; split; lra. Qed.

Ltac rs := cbn [fst snd T add sub mul div opp ofZ leb ltb eqb sqrtT ROps] in *.
Ltac unf := unfold padd, psub, central_scaled, central_pixel, centre_px, half, two, one, zero, sq in *; rs.

Lemma pt_eq (a b c d : R) : a = c -> b = d -> (a, b) = (c, d).
Proof. intros; subst; reflexivity. Qed.

Lemma padd_assoc (p a b : RP) : padd (padd p a) b = padd p (padd a b).
Proof. destruct p, a, b; unf; apply pt_eq; ring. Qed.
Lemma padd_zpt (p : RP) : padd p zpt = p.
Proof. destruct p; unfold zpt; unf; apply pt_eq; ring. Qed.
Lemma shift_shift (a b : RP) g : shift b (shift a g) = shift (padd a b) g.
Proof. unfold shift. rewrite map_map. apply map_ext. intros p. apply padd_assoc. Qed.
Lemma shift_app (d : RP) g h : shift d (g ++ h) = shift d g ++ shift d h.
Proof. apply map_app. Qed.
Lemma shift_length (d : RP) g : length (shift d g) = length g.
Proof. apply map_length. Qed.

(* ------------------------------------------------------------------ geometry_util *)
Lemma central_scaled_shift H W (ps o d : RP) :
  central_scaled H W ps (padd o d) =
  (fst (central_scaled H W ps o) + fst d / fst ps, snd (central_scaled H W ps o) - snd d / snd ps).
Proof. destruct ps, o, d; unf. apply pt_eq; unfold Rdiv; ring. Qed.

Lemma pixel_coordinates_invariant H W (ps o d p : RP) :
  pixel_coordinates H W ps (padd o d) (padd p d) = pixel_coordinates H W ps o p.
Proof.
  destruct ps, o, d, p; unfold pixel_coordinates; unf.
  f_equal; f_equal; unfold Rdiv; ring.
Qed.
Lemma grid_pixels_invariant H W (ps o d p : RP) :
  grid_pixels H W ps (padd o d) (padd p d) = grid_pixels H W ps o p.
Proof.
  destruct ps, o, d, p; unfold grid_pixels; unf. apply pt_eq; unfold Rdiv; ring.
Qed.
Lemma grid_pixel_centres_invariant H W (ps o d p : RP) :
  grid_pixel_centres H W ps (padd o d) (padd p d) = grid_pixel_centres H W ps o p.
Proof. unfold grid_pixel_centres. rewrite grid_pixels_invariant. reflexivity. Qed.
Lemma grid_pixel_indexes_invariant H W (ps o d p : RP) :
  grid_pixel_indexes H W ps (padd o d) (padd p d) = grid_pixel_indexes H W ps o p.
Proof. unfold grid_pixel_indexes. rewrite grid_pixel_centres_invariant. reflexivity. Qed.

Lemma scaled_coordinates_translates H W (ps o d q : RP) : ps_ok ps ->
  scaled_coordinates H W ps (padd o d) q = padd (scaled_coordinates H W ps o q) d.
Proof.
  intros [A B]. destruct ps, o, d, q; unfold scaled_coordinates; unf. apply pt_eq; field; assumption.
Qed.
Lemma grid_scaled_of_pixels_translates H W (ps o d q : RP) : ps_ok ps ->
  grid_scaled_of_pixels H W ps (padd o d) q = padd (grid_scaled_of_pixels H W ps o q) d.
Proof.
  intros [A B]. destruct ps, o, d, q; unfold grid_scaled_of_pixels; unf. apply pt_eq; field; assumption.
Qed.

(* origin-free forms *)
Lemma pixel_coordinates_spec H W (ps o p : RP) : pixel_coordinates H W ps o p = rel_pixel H W ps (psub p o).
Proof. destruct ps, o, p; unfold pixel_coordinates, rel_pixel; unf. f_equal; f_equal; unfold Rdiv; ring. Qed.
Lemma grid_pixels_spec H W (ps o p : RP) : grid_pixels H W ps o p = rel_pixel_float H W ps (psub p o).
Proof. destruct ps, o, p; unfold grid_pixels, rel_pixel_float; unf. apply pt_eq; unfold Rdiv; ring. Qed.
Lemma grid_pixel_centres_spec H W (ps o p : RP) : grid_pixel_centres H W ps o p = rel_pixel H W ps (psub p o).
Proof.
  unfold grid_pixel_centres. rewrite grid_pixels_spec. destruct ps, o, p; unfold rel_pixel, rel_pixel_float; unf. reflexivity.
Qed.
Lemma scaled_coordinates_spec H W (ps o q : RP) : ps_ok ps ->
  scaled_coordinates H W ps o q = padd (rel_of_pixel_centre H W ps q) o.
Proof. intros [A B]. destruct ps, o, q; unfold scaled_coordinates, rel_of_pixel_centre; unf. apply pt_eq; field; assumption. Qed.
Lemma grid_scaled_of_pixels_spec H W (ps o q : RP) : ps_ok ps ->
  grid_scaled_of_pixels H W ps o q = padd (rel_of_pixel H W ps q) o.
Proof. intros [A B]. destruct ps, o, q; unfold grid_scaled_of_pixels, rel_of_pixel; unf. apply pt_eq; field; assumption. Qed.

(* ------------------------------------------------------------------ pixel-centre grids *)
Lemma centre_of_pixel_spec H W (ps o : RP) p : ps_ok ps ->
  centre_of_pixel (central_scaled H W ps o) ps p = padd (rel_centre H W ps p) o.
Proof. intros [A B]. destruct ps, o, p; unfold centre_of_pixel, rel_centre; unf. apply pt_eq; field; assumption. Qed.

Theorem grid_via_mask_spec m (ps o : RP) : ps_ok ps -> grid_via_mask m ps o = shift o (rel_grid m ps).
Proof.
  intros Hps. unfold grid_via_mask, rel_grid, shift. rewrite map_map. apply map_ext. intros p.
  apply centre_of_pixel_spec; assumption.
Qed.
Theorem grid_via_mask_translates m (ps o d : RP) : ps_ok ps ->
  grid_via_mask m ps (padd o d) = shift d (grid_via_mask m ps o).
Proof. intros Hps. rewrite !grid_via_mask_spec by assumption. rewrite shift_shift. reflexivity. Qed.
Lemma grid_via_shape_translates H W (ps o d : RP) : ps_ok ps ->
  grid_via_shape H W ps (padd o d) = shift d (grid_via_shape H W ps o).
Proof. apply grid_via_mask_translates. Qed.

(* ------------------------------------------------------------------ over-sampled grids *)
Lemma sub_pixels_spec H W (ps o : RP) p s : ps_ok ps ->
  sub_pixels (central_scaled H W ps o) ps p s = shift o (rel_sub H W ps p s).
Proof.
  intros [A B]. destruct ps as [py px], o as [oy ox], p as [y x]. unfold sub_pixels, rel_sub, rel_centre, shift.
  rewrite flat_map_concat_map, flat_map_concat_map, concat_map, map_map. f_equal. apply map_ext. intros y1.
  rewrite map_map. apply map_ext. intros x1. unf. unfold Rdiv.
  generalize (/ IZR s). intros t. apply pt_eq; field; assumption.
Qed.
Theorem over_sampled_spec m (ps o : RP) subs : ps_ok ps -> over_sampled m ps o subs = shift o (rel_over m ps subs).
Proof.
  intros Hps. unfold over_sampled, rel_over, shift.
  rewrite !flat_map_concat_map, concat_map, map_map. f_equal. apply map_ext. intros [p s].
  apply sub_pixels_spec; assumption.
Qed.
Theorem over_sampled_translates m (ps o d : RP) subs : ps_ok ps ->
  over_sampled m ps (padd o d) subs = shift d (over_sampled m ps o subs).
Proof. intros Hps. rewrite !over_sampled_spec by assumption. rewrite shift_shift. reflexivity. Qed.

(* ------------------------------------------------------------------ extent *)
Lemma ext_eq (a b c d a' b' c' d' : R) : a = a' -> b = b' -> c = c' -> d = d' -> (a, b, c, d) = (a', b', c', d').
Proof. intros; subst; reflexivity. Qed.
Theorem extent_spec H W (ps o : RP) : extent H W ps o = ext_shift o (rel_extent H W ps).
Proof.
  destruct ps, o. unfold extent, rel_extent, ext_shift; unf. apply ext_eq; field.
Qed.
Lemma ext_shift_shift (a b : RP) e : ext_shift b (ext_shift a e) = ext_shift (padd a b) e.
Proof. destruct e as [[[x0 x1] y0] y1], a, b. unfold ext_shift; unf. apply ext_eq; ring. Qed.
Theorem extent_translates H W (ps o d : RP) : extent H W ps (padd o d) = ext_shift d (extent H W ps o).
Proof. rewrite !extent_spec, ext_shift_shift. reflexivity. Qed.

(* ------------------------------------------------------------------ max / min / centre of a grid *)
Lemma maxT_shift (a b d : R) : @maxT ROps (a + d) (b + d) = @maxT ROps a b + d.
Proof. unfold maxT; rs. destruct (Rltb (a + d) (b + d)) eqn:E1, (Rltb a b) eqn:E2; rbool; try reflexivity; lra. Qed.
Lemma minT_shift (a b d : R) : @minT ROps (a + d) (b + d) = @minT ROps a b + d.
Proof. unfold minT; rs. destruct (Rltb (b + d) (a + d)) eqn:E1, (Rltb b a) eqn:E2; rbool; try reflexivity; lra. Qed.
Lemma maxl_shift (d : R) l : forall x, @maxl ROps (x + d) (map (fun v => v + d) l) = @maxl ROps x l + d.
Proof. unfold maxl. induction l as [|a l IH]; intros x; cbn [map fold_left]; [reflexivity|]. rewrite maxT_shift. apply IH. Qed.
Lemma minl_shift (d : R) l : forall x, @minl ROps (x + d) (map (fun v => v + d) l) = @minl ROps x l + d.
Proof. unfold minl. induction l as [|a l IH]; intros x; cbn [map fold_left]; [reflexivity|]. rewrite minT_shift. apply IH. Qed.
Lemma map_fst_shift (d : RP) g : map fst (shift d g) = map (fun v => v + fst d) (map fst g).
Proof. unfold shift. rewrite !map_map. apply map_ext. intros [a b]. reflexivity. Qed.
Lemma map_snd_shift (d : RP) g : map snd (shift d g) = map (fun v => v + snd d) (map snd g).
Proof. unfold shift. rewrite !map_map. apply map_ext. intros [a b]. reflexivity. Qed.

Theorem grid_centre_shift (d : RP) g : grid_centre (shift d g) = oshift d (grid_centre g).
Proof.
  destruct g as [|p t]; [reflexivity|]. unfold grid_centre, oshift, option_map. cbn [shift map].
  fold (shift d t). rewrite map_fst_shift, map_snd_shift. destruct p as [py px], d as [dy dx]. unf.
  rewrite !maxl_shift, !minl_shift. apply f_equal. apply pt_eq; field.
Qed.
Theorem interior_shift (d : RP) g : interior (shift d g) = interior g.
Proof.
  destruct g as [|p t]; [reflexivity|]. unfold interior. cbn [shift map].
  fold (shift d t). rewrite map_fst_shift, map_snd_shift. destruct p as [py px], d as [dy dx]. unf.
  rewrite !maxl_shift, !minl_shift. apply f_equal. apply pt_eq; ring.
Qed.
Lemma maxT_ge_l (a b : R) : a <= @maxT ROps a b.
Proof. unfold maxT; rs. destruct (Rltb a b) eqn:E; rbool; lra. Qed.
Lemma minT_le_l (a b : R) : @minT ROps a b <= a.
Proof. unfold minT; rs. destruct (Rltb b a) eqn:E; rbool; lra. Qed.
Lemma maxl_ge l : forall x, x <= @maxl ROps x l.
Proof. unfold maxl. induction l as [|a l IH]; intros x; cbn [fold_left]; [lra|]. eapply Rle_trans; [apply (maxT_ge_l x a)|apply IH]. Qed.
Lemma minl_le l : forall x, @minl ROps x l <= x.
Proof. unfold minl. induction l as [|a l IH]; intros x; cbn [fold_left]; [lra|]. eapply Rle_trans; [apply IH|apply (minT_le_l x a)]. Qed.
Lemma interior_nonneg (g : list RP) (i : RP) : interior g = Some i -> 0 <= fst i /\ 0 <= snd i.
Proof.
  destruct g as [|[py px] t]; [discriminate|]. unfold interior. intros E. injection E as <-. rs.
  split; apply Rge_le, Rge_minus, Rle_ge.
  - eapply Rle_trans; [apply (minl_le (map fst t) py)|apply (maxl_ge (map fst t) py)].
  - eapply Rle_trans; [apply (minl_le (map snd t) px)|apply (maxl_ge (map snd t) px)].
Qed.

(* ================================================================== call sites (origin plumbing) *)
Theorem derive_mask_commutes (f : mask -> mask) (d : RP) (M : RM) :
  derive_mask f (translate d M) = translate d (derive_mask f M).
Proof. reflexivity. Qed.
Theorem from_mask_spec (M : RM) : ps_ok (mps M) -> from_mask M = shift (morg M) (rel_grid (mk M) (mps M)).
Proof. intros Hps. apply grid_via_mask_spec; assumption. Qed.
Theorem from_mask_translates (d : RP) (M : RM) : ps_ok (mps M) -> from_mask (translate d M) = shift d (from_mask M).
Proof. intros Hps. unfold from_mask, translate; cbn [mk mps morg]. apply grid_via_mask_translates; assumption. Qed.
Theorem derive_grid_all_false_translates (d : RP) (M : RM) : ps_ok (mps M) ->
  derive_grid_all_false (translate d M) = shift d (derive_grid_all_false M).
Proof. intros Hps. unfold derive_grid_all_false, translate; cbn [mk mps morg]. apply grid_via_shape_translates; assumption. Qed.

Lemma gather_shift (d : RP) (g : list RP) idx : Forall (fun i => (i < length g)%nat) idx ->
  gather zpt (shift d g) idx = shift d (gather zpt g idx).
Proof.
  intros HF. unfold gather, shift at 2. rewrite map_map. apply map_ext_in. intros i Hi.
  rewrite Forall_forall in HF. specialize (HF i Hi). unfold shift.
  rewrite (nth_indep _ zpt (padd zpt d)) by (rewrite map_length; exact HF).
  apply (map_nth (fun p => padd p d)).
Qed.
Theorem derive_grid_sel_translates (sel : mask -> list nat) (d : RP) (M : RM) : ps_ok (mps M) ->
  Forall (fun i => (i < length (from_mask M))%nat) (sel (mk M)) ->
  derive_grid_sel sel (translate d M) = shift d (derive_grid_sel sel M).
Proof.
  intros Hps HF. unfold derive_grid_sel. rewrite from_mask_translates by assumption.
  cbn [translate mk]. apply gather_shift; assumption.
Qed.
Theorem blurring_grid_from_translates (bl : mask -> mask) (d : RP) (M : RM) : ps_ok (mps M) ->
  blurring_grid_from bl (translate d M) = shift d (blurring_grid_from bl M).
Proof. intros Hps. unfold blurring_grid_from. rewrite derive_mask_commutes. apply from_mask_translates. exact Hps. Qed.

Theorem padded_mask_translates (d : RP) (M : RM) kh kw : padded_mask (translate d M) kh kw = translate d (padded_mask M kh kw).
Proof. reflexivity. Qed.
Theorem trimmed_array_mask_translates (d : RP) (M : RM) ih iw :
  trimmed_array_mask (translate d M) ih iw = translate d (trimmed_array_mask M ih iw).
Proof. reflexivity. Qed.
Theorem padded_grid_from_translates (d : RP) (M : RM) kh kw : ps_ok (mps M) ->
  padded_grid_from (translate d M) kh kw = shift d (padded_grid_from M kh kw).
Proof. intros Hps. unfold padded_grid_from. rewrite padded_mask_translates. apply from_mask_translates. exact Hps. Qed.

Theorem over_sampled_grid_translates (d : RP) (M : RM) subs : ps_ok (mps M) ->
  over_sampled_grid (translate d M) subs = shift d (over_sampled_grid M subs).
Proof. intros Hps. unfold over_sampled_grid, translate; cbn [mk mps morg]. apply over_sampled_translates; assumption. Qed.
Theorem over_sampled_grid_spec (M : RM) subs : ps_ok (mps M) ->
  over_sampled_grid M subs = shift (morg M) (rel_over (mk M) (mps M) subs).
Proof. intros Hps. apply over_sampled_spec; assumption. Qed.

Theorem subtracted_from_translates (d : RP) (M : RM) (off : RP) : ps_ok (mps M) ->
  subtracted_mask (translate d M) off = translate d (subtracted_mask M off) /\
  subtracted_grid (translate d M) off = shift d (subtracted_grid M off).
Proof.
  intros Hps. split.
  - unfold subtracted_mask, translate; cbn [mk mps morg]. f_equal. destruct (morg M), d, off; unf. apply pt_eq; ring.
  - unfold subtracted_grid. rewrite from_mask_translates by assumption. unfold shift. rewrite !map_map. apply map_ext.
    intros p. destruct p, d, off; unf. apply pt_eq; ring.
Qed.
Theorem mask_centre_translates (d : RP) (M : RM) : ps_ok (mps M) ->
  mask_centre (translate d M) = oshift d (mask_centre M).
Proof. intros Hps. unfold mask_centre. rewrite from_mask_translates by assumption. apply grid_centre_shift. Qed.
Theorem mask_extent_translates (d : RP) (M : RM) : mask_extent (translate d M) = ext_shift d (mask_extent M).
Proof. unfold mask_extent, translate; cbn [mk mps morg]. apply extent_translates. Qed.

(* ------------------------------------------------------------------ zoom *)
Lemma map_grid_pixels_shift H W (ps o d : RP) g :
  map (grid_pixels H W ps (padd o d)) (shift d g) = map (grid_pixels H W ps o) g.
Proof. unfold shift. rewrite map_map. apply map_ext. intros p. apply grid_pixels_invariant. Qed.
Theorem zoom_centre_invariant (d : RP) (M : RM) : ps_ok (mps M) -> zoom_centre (translate d M) = zoom_centre M.
Proof.
  intros Hps. unfold zoom_centre. rewrite from_mask_translates by assumption. cbn [translate mk mps morg].
  rewrite map_grid_pixels_shift. reflexivity.
Qed.
Theorem zoom_offset_pixels_invariant (d : RP) (M : RM) : ps_ok (mps M) -> zoom_offset_pixels (translate d M) = zoom_offset_pixels M.
Proof. intros Hps. unfold zoom_offset_pixels. rewrite zoom_centre_invariant by assumption. reflexivity. Qed.
Theorem zoom_offset_scaled_invariant (d : RP) (M : RM) : ps_ok (mps M) -> zoom_offset_scaled (translate d M) = zoom_offset_scaled M.
Proof. intros Hps. unfold zoom_offset_scaled. rewrite zoom_offset_pixels_invariant by assumption. reflexivity. Qed.
Lemma padd_comm3 (o f d : RP) : padd (padd o d) f = padd (padd o f) d.
Proof. destruct o, f, d; unf. apply pt_eq; ring. Qed.
Theorem zoom_mask_unmasked_translates (d : RP) (M : RM) : ps_ok (mps M) ->
  zoom_mask_unmasked (translate d M) = option_map (translate d) (zoom_mask_unmasked M).
Proof.
  intros Hps. unfold zoom_mask_unmasked. rewrite zoom_offset_scaled_invariant by assumption. cbn [translate mk mps morg].
  destruct (zoom_shape (mk M)) as [s|]; [|reflexivity]. destruct (zoom_offset_scaled M) as [f|]; [|reflexivity].
  cbn [option_map]. unfold m_all_false, translate; cbn [mk mps morg]. rewrite padd_comm3. reflexivity.
Qed.
Theorem zoomed_around_mask_translates (d : RP) (M : RM) b : ps_ok (mps M) ->
  zoomed_around_mask (translate d M) b = option_map (translate d) (zoomed_around_mask M b).
Proof.
  intros Hps. unfold zoomed_around_mask. rewrite mask_centre_translates by assumption. cbn [translate mk mps morg].
  destruct (zoom_region (mk M)) as [[[[y0 y1] x0] x1]|]; [|reflexivity].
  destruct (mask_centre M) as [c|]; reflexivity.
Qed.

(* ------------------------------------------------------------------ radial projection *)
Lemma radial_scale_invariant (e : @ext ROps) (c ps d : RP) :
  radial_scale (ext_shift d e) (padd c d) ps = radial_scale e c ps.
Proof.
  destruct e as [[[x0 x1] y0] y1], c as [cy cx], d as [dy dx]. unfold radial_scale, ext_shift; unf.
  replace (x1 + dx - (cx + dx)) with (x1 - cx) by ring. replace (y1 + dy - (cy + dy)) with (y1 - cy) by ring.
  replace (cx + dx - (x0 + dx)) with (cx - x0) by ring. replace (cy + dy - (y0 + dy)) with (cy - y0) by ring.
  reflexivity.
Qed.
Lemma radial_shape_invariant (e : @ext ROps) (c ps d : RP) ss :
  radial_shape (ext_shift d e) (padd c d) ps ss = radial_shape e c ps ss.
Proof. unfold radial_shape. rewrite radial_scale_invariant. reflexivity. Qed.
Lemma radii_from_shift n (r step dx : R) :
  @radii_from ROps n (r + dx) step = map (fun v => v + dx) (@radii_from ROps n r step).
Proof.
  revert r. induction n as [|n IH]; intros r; cbn [radii_from map]; [reflexivity|]. rs.
  f_equal. replace (r + dx + step) with (r + step + dx) by ring. apply IH.
Qed.
Lemma frame0_shift (c p d : RP) : frame0 (padd c d) (padd p d) = padd (frame0 c p) d.
Proof.
  destruct c as [cy cx], p as [py px], d as [dy dx]. unfold frame0; unf.
  replace (py + dy - (cy + dy)) with (py - cy) by ring. replace (px + dx - (cx + dx)) with (px - cx) by ring.
  apply pt_eq; ring.
Qed.
Lemma tl_shift (d : RP) g : tl (shift d g) = shift d (tl g).
Proof. destruct g; reflexivity. Qed.
Theorem radial_projected_translates (e : @ext ROps) (c ps d : RP) ss rm :
  radial_projected (ext_shift d e) (padd c d) ps ss rm = shift d (radial_projected e c ps ss rm).
Proof.
  unfold radial_projected. rewrite radial_shape_invariant, radial_scale_invariant.
  set (n := Z.to_nat (radial_shape e c ps ss)). set (st := snd (radial_scale e c ps)).
  assert (E : map (fun r => frame0 (padd c d) (add ROps zero (fst (padd c d)), r)) (radii_from n (snd (padd c d)) st)
              = shift d (map (fun r => frame0 c (add ROps zero (fst c), r)) (radii_from n (snd c) st))).
  { destruct c as [cy cx], d as [dy dx]. unfold padd at 3; rs. rewrite radii_from_shift. unfold shift. rewrite !map_map.
    apply map_ext. intros r. rewrite <- frame0_shift. f_equal. unf. apply pt_eq; ring. }
  rewrite E. destruct rm; [apply tl_shift|reflexivity].
Qed.
Theorem radial_projected_from_translates (d : RP) (M : RM) (c : RP) ss rm :
  radial_projected_from (translate d M) (padd c d) ss rm = shift d (radial_projected_from M c ss rm).
Proof. unfold radial_projected_from. rewrite mask_extent_translates. cbn [translate mps]. apply radial_projected_translates. Qed.
Theorem radial_shape_from_invariant (d : RP) (M : RM) (c : RP) ss :
  radial_shape (mask_extent (translate d M)) (padd c d) (mps M) ss = radial_shape (mask_extent M) c (mps M) ss.
Proof. rewrite mask_extent_translates. apply radial_shape_invariant. Qed.

(* ------------------------------------------------------------------ overlay image mesh *)
Lemma filter_combine_shift {B} (P : B -> bool) (d : RP) (ug : list RP) (cen : list B) :
  map fst (filter (fun pq => P (snd pq)) (combine (shift d ug) cen)) =
  shift d (map fst (filter (fun pq => P (snd pq)) (combine ug cen))).
Proof.
  revert cen. induction ug as [|u ug IH]; intros cen; [reflexivity|]. destruct cen as [|c cen]; [reflexivity|].
  cbn [shift map combine filter snd]. fold (shift d ug). destruct (P c); cbn [map fst shift]; rewrite IH; reflexivity.
Qed.
Theorem overlay_translates (d : RP) (M : RM) sy sx : ps_pos (mps M) -> (0 < sy)%Z -> (0 < sx)%Z ->
  overlay (translate d M) sy sx = rshift d (overlay M sy sx).
Proof.
  intros Hpos Hsy Hsx. pose proof (ps_pos_ok _ Hpos) as Hps. unfold overlay, overlay_with.
  rewrite from_mask_translates by assumption. rewrite interior_shift, grid_centre_shift. cbn [translate mk mps morg].
  destruct (interior (from_mask M)) as [i|] eqn:Ei; [|reflexivity].
  destruct (grid_centre (from_mask M)) as [c|] eqn:Ec; [|reflexivity]. cbn [oshift option_map].
  set (ps' := (div ROps (add ROps (fst i) (fst (mps M))) (ofZ ROps sy), div ROps (add ROps (snd i) (snd (mps M))) (ofZ ROps sx))).
  assert (Hps' : ps_ok ps').
  { destruct (interior_nonneg _ _ Ei) as [I0 I1]. destruct Hpos as [P0 P1]. unfold ps', ps_ok; rs.
    apply IZR_lt in Hsy, Hsx. split; apply Rgt_not_eq; apply Rdiv_lt_0_compat; lra. }
  rewrite (grid_via_shape_translates sy sx ps' c d Hps').
  set (ug := grid_via_shape sy sx ps' c).
  assert (E : map (grid_pixel_centres (rows (mk M)) (cols (mk M)) (mps M) (padd (morg M) d)) (shift d ug)
              = map (grid_pixel_centres (rows (mk M)) (cols (mk M)) (mps M) (morg M)) ug).
  { unfold shift. rewrite map_map. apply map_ext. intros p. apply grid_pixel_centres_invariant. }
  rewrite E. set (cen := map _ ug).
  match goal with |- context [forallb ?f cen] => destruct (forallb f cen) end; [|reflexivity]. cbn [rshift]. f_equal.
  apply (filter_combine_shift (fun q => match np_get (mk M) (fst q) (snd q) with Some b => negb b | None => false end)).
Qed.

(* ------------------------------------------------------------------ Hilbert image mesh geometry *)
Theorem hilbert_image_grid_translates (d : RP) (M : RM) n : ps_ok (mps M) ->
  hilbert_image_grid (translate d M) n = shift d (hilbert_image_grid M n).
Proof. intros Hps. unfold hilbert_image_grid, translate; cbn [mk mps morg]. apply grid_via_shape_translates; assumption. Qed.
Theorem hilbert_curve_grid_translates (d : RP) (M : RM) curve radius :
  hilbert_curve_grid (translate d M) curve radius = shift d (hilbert_curve_grid M curve radius).
Proof. unfold hilbert_curve_grid, translate; cbn [morg]. rewrite shift_shift. reflexivity. Qed.

(* ------------------------------------------------------------------ rectangular mesh and mapper *)
Theorem rect_overlay_grid_translates sy sx (g : list RP) (b : R) (d : RP) :
  rect_overlay_grid sy sx (shift d g) b =
  option_map (fun r => {| r_shape := r_shape r; r_ps := r_ps r; r_org := padd (r_org r) d |}) (rect_overlay_grid sy sx g b).
Proof.
  destruct g as [|p t]; [reflexivity|]. unfold rect_overlay_grid. cbn [shift map option_map].
  fold (shift d t). rewrite map_fst_shift, map_snd_shift. destruct p as [py px], d as [dy dx]. unf.
  rewrite !maxl_shift, !minl_shift. apply f_equal. cbn [r_shape r_ps r_org padd fst snd]; rs.
  match goal with |- @Build_rmesh _ ?s ?a ?b = @Build_rmesh _ ?s ?a' ?b' =>
    assert (Ea : a = a') by (apply pt_eq; unfold Rdiv; ring); assert (Eb : b = b') by (apply pt_eq; field) end.
  rewrite Ea, Eb. reflexivity.
Qed.
Theorem rect_mapper_invariant sy sx (g : list RP) (b : R) (d : RP) :
  rect_mapper sy sx (shift d g) b = rect_mapper sy sx g b.
Proof.
  unfold rect_mapper. rewrite rect_overlay_grid_translates. destruct (rect_overlay_grid sy sx g b) as [r|]; [|reflexivity].
  cbn [option_map]. f_equal. unfold rect_mappings; cbn [r_shape r_ps r_org]. unfold shift. rewrite map_map.
  apply map_ext. intros p. apply grid_pixel_indexes_invariant.
Qed.
Theorem rect_mesh_grid_translates (r : @rmesh ROps) (d : RP) : ps_ok (r_ps r) ->
  rect_mesh_grid {| r_shape := r_shape r; r_ps := r_ps r; r_org := padd (r_org r) d |} = shift d (rect_mesh_grid r).
Proof. intros Hps. unfold rect_mesh_grid; cbn [r_shape r_ps r_org]. apply grid_via_shape_translates; assumption. Qed.

(* ------------------------------------------------------------------ datasets *)
Definition timaging (d : RP) (ds : @imaging ROps) : @imaging ROps :=
  {| i_data := translate d (i_data ds); i_noise := translate d (i_noise ds) |}.
Theorem apply_mask_translates pad (d : RP) ds ds' (M : RM) :
  apply_mask pad ds' (translate d M) = timaging d (apply_mask pad ds M).
Proof. reflexivity. Qed.
Theorem apply_noise_scaling_translates (d : RP) ds : apply_noise_scaling (timaging d ds) = timaging d (apply_noise_scaling ds).
Proof. reflexivity. Qed.
Theorem trimmed_translates rz (d : RP) ds : trimmed rz (timaging d ds) = timaging d (trimmed rz ds).
Proof. reflexivity. Qed.
Theorem simulate_translates (d : RP) (image : RM) p : simulate (translate d image) p = timaging d (simulate image p).
Proof. destruct p; reflexivity. Qed.
Theorem s2n_limited_translates (d : RP) (data : RM) : s2n_limited (translate d data) = translate d (s2n_limited data).
Proof. reflexivity. Qed.
Theorem dataset_grid_translates (d : RP) ds : ps_ok (mps (i_data ds)) ->
  dataset_grid (timaging d ds) = shift d (dataset_grid ds).
Proof. intros Hps. unfold dataset_grid, timaging; cbn [i_data]. apply from_mask_translates; assumption. Qed.

(* ================================================================== the seven call sites as they were before the repairs:
   refuted on the executable model with origin (0,0) and d = (1,0) (exact rationals, by computation), and -- for the
   ones whose result does not depend on the origin at all -- over the reals as well *)
Local Open Scope Q_scope.
Definition q1 : Q := 1. Definition q0 : Q := 0.
Definition Mq (m : mask) : @mask2d QOps := @Build_mask2d QOps m (q1, q1) (q0, q0).
Definition dq : @pt QOps := (q1, q0).
Definition tq (ds : @imaging QOps) : @imaging QOps := {| i_data := translate dq (i_data ds); i_noise := translate dq (i_noise ds) |}.

Theorem padded_grid_from_dropped_refuted :
  exists (M : @mask2d QOps) (d : @pt QOps) kh kw,
    padded_grid_from_dropped (translate d M) kh kw <> shift d (padded_grid_from_dropped M kh kw).
Proof. exists (Mq [[false]]), dq, 3%Z, 3%Z. vm_compute. discriminate. Qed.
Theorem zoom_mask_unmasked_dropped_refuted :
  exists (M : @mask2d QOps) (d : @pt QOps),
    zoom_mask_unmasked_dropped (translate d M) <> option_map (translate d) (zoom_mask_unmasked_dropped M).
Proof.
  exists (Mq [[false; true]; [true; true]]), dq. intros E. apply (f_equal (option_map (@morg QOps))) in E.
  vm_compute in E. discriminate.
Qed.
Theorem overlay_dropped_refuted :
  exists (M : @mask2d QOps) (d : @pt QOps) sy sx,
    overlay_dropped (translate d M) sy sx <> rshift d (overlay_dropped M sy sx).
Proof. exists (Mq [[true]; [false]; [true]]), dq, 1%Z, 1%Z. vm_compute. discriminate. Qed.
Theorem hilbert_image_grid_dropped_refuted :
  exists (M : @mask2d QOps) (d : @pt QOps) n, hilbert_image_grid_dropped (translate d M) n <> shift d (hilbert_image_grid_dropped M n).
Proof. exists (Mq [[false]]), dq, 2%Z. vm_compute. discriminate. Qed.
Theorem hilbert_curve_grid_dropped_refuted :
  exists (M : @mask2d QOps) (d : @pt QOps) curve r,
    hilbert_curve_grid_dropped (translate d M) curve r <> shift d (hilbert_curve_grid_dropped M curve r).
Proof. exists (Mq [[false]]), dq, [(q0, q0)], q1. vm_compute. discriminate. Qed.
Theorem apply_noise_scaling_dropped_refuted :
  exists ds : @imaging QOps, apply_noise_scaling_dropped (tq ds) <> tq (apply_noise_scaling_dropped ds).
Proof.
  exists (@Build_imaging QOps (Mq [[false]]) (Mq [[false]])). intros E. apply (f_equal (fun r => @morg QOps (i_data r))) in E.
  vm_compute in E. discriminate.
Qed.
Theorem simulate_dropped_refuted :
  exists (image : @mask2d QOps) p, simulate_dropped (translate dq image) p <> tq (simulate_dropped image p).
Proof.
  exists (Mq [[false]]), false. intros E. apply (f_equal (fun r => @morg QOps (i_data r))) in E. vm_compute in E. discriminate.
Qed.
Theorem s2n_limited_dropped_refuted :
  exists data : @mask2d QOps, s2n_limited_dropped (translate dq data) <> translate dq (s2n_limited_dropped data).
Proof. exists (Mq [[false]]). intros E. apply (f_equal (@morg QOps)) in E. vm_compute in E. discriminate. Qed.
(* the repaired definitions on the same witnesses *)
Example repaired_on_witnesses :
  padded_grid_from (translate dq (Mq [[false]])) 3 3 = shift dq (padded_grid_from (Mq [[false]]) 3 3) /\
  option_map (@morg QOps) (zoom_mask_unmasked (translate dq (Mq [[false; true]; [true; true]])))
  = option_map (@morg QOps) (option_map (translate dq) (zoom_mask_unmasked (Mq [[false; true]; [true; true]]))) /\
  overlay (translate dq (Mq [[true]; [false]; [true]])) 1 1 = rshift dq (overlay (Mq [[true]; [false]; [true]]) 1 1) /\
  overlay (Mq [[true]; [false]; [true]]) 1 1 = Ok [(q0, q0)].
Proof. vm_compute. repeat split. Qed.
Local Close Scope Q_scope.

(* over the reals: a result that ignores the origin cannot be translated by a non-zero d *)
Lemma shift_fixed (d : RP) (g : list RP) : g <> [] -> shift d g = g -> fst d = 0 /\ snd d = 0.
Proof.
  destruct g as [|[a b] t]; [congruence|]. intros _ E. cbn [shift map] in E. injection E as E1 E2 _.
  destruct d as [dy dx]. unf. split; lra.
Qed.
Definition M11 : RM := @Build_mask2d ROps [[false]] (1, 1) (0, 0).
Definition d10 : RP := (1, 0).
Theorem padded_grid_from_dropped_refuted_R :
  exists (M : RM) (d : RP) kh kw, padded_grid_from_dropped (translate d M) kh kw <> shift d (padded_grid_from_dropped M kh kw).
Proof.
  exists M11, d10, 1%Z, 1%Z. intros E.
  change (padded_grid_from_dropped (translate d10 M11) 1 1) with (padded_grid_from_dropped M11 1 1) in E.
  symmetry in E. apply shift_fixed in E; [cbn [fst d10] in E; lra|].
  intros N. apply (f_equal (@length _)) in N. unfold padded_grid_from_dropped, from_mask, grid_via_mask in N.
  rewrite map_length in N. vm_compute in N. discriminate.
Qed.
Theorem hilbert_curve_grid_dropped_refuted_R :
  exists (M : RM) (d : RP) curve r, hilbert_curve_grid_dropped (translate d M) curve r <> shift d (hilbert_curve_grid_dropped M curve r).
Proof.
  exists M11, d10, [((0, 0) : RP)], 1. intros E.
  unfold hilbert_curve_grid_dropped, hilbert_cut in E. cbn [filter fst snd] in E. unf.
  replace (0 * 0 + 0 * 0) with 0 in E by ring. rewrite sqrt_0 in E.
  assert (L : Rleb 0 1 = true) by (apply Rleb_true; lra). rewrite L in E.
  cbn [shift map] in E. injection E as E1 _. unfold d10 in E1. unf. lra.
Qed.
Theorem s2n_limited_dropped_refuted_R :
  exists (data : RM) (d : RP), s2n_limited_dropped (translate d data) <> translate d (s2n_limited_dropped data).
Proof.
  exists M11, d10. intros E.
  apply (f_equal (@morg ROps)) in E. cbn in E. unfold zpt, padd, d10 in E. unf. injection E as E1 _. lra.
Qed.

(* ================================================================== statements with the hypotheses spelled out (used by Props/C12.v) *)
Section Export.
  Variables (ps : RP) (HY : fst ps <> 0) (HX : snd ps <> 0).
  Let Hps : ps_ok ps := conj HY HX.
  Lemma x_scaled_coordinates_translates H W o d q : scaled_coordinates H W ps (padd o d) q = padd (scaled_coordinates H W ps o q) d.
  Proof. apply scaled_coordinates_translates, Hps. Qed.
  Lemma x_grid_scaled_of_pixels_translates H W o d q : grid_scaled_of_pixels H W ps (padd o d) q = padd (grid_scaled_of_pixels H W ps o q) d.
  Proof. apply grid_scaled_of_pixels_translates, Hps. Qed.
  Lemma x_scaled_coordinates_spec H W o q : scaled_coordinates H W ps o q = padd (rel_of_pixel_centre H W ps q) o.
  Proof. apply scaled_coordinates_spec, Hps. Qed.
  Lemma x_grid_scaled_of_pixels_spec H W o q : grid_scaled_of_pixels H W ps o q = padd (rel_of_pixel H W ps q) o.
  Proof. apply grid_scaled_of_pixels_spec, Hps. Qed.
  Lemma x_grid_via_mask_spec m o : grid_via_mask m ps o = shift o (rel_grid m ps).
  Proof. apply grid_via_mask_spec, Hps. Qed.
  Lemma x_grid_via_mask_translates m o d : grid_via_mask m ps (padd o d) = shift d (grid_via_mask m ps o).
  Proof. apply grid_via_mask_translates, Hps. Qed.
  Lemma x_grid_via_shape_translates H W o d : grid_via_shape H W ps (padd o d) = shift d (grid_via_shape H W ps o).
  Proof. apply grid_via_shape_translates, Hps. Qed.
  Lemma x_over_sampled_spec m o subs : over_sampled m ps o subs = shift o (rel_over m ps subs).
  Proof. apply over_sampled_spec, Hps. Qed.
  Lemma x_over_sampled_translates m o d subs : over_sampled m ps (padd o d) subs = shift d (over_sampled m ps o subs).
  Proof. apply over_sampled_translates, Hps. Qed.
End Export.
Section ExportM.
  Variables (M : RM) (HY : fst (mps M) <> 0) (HX : snd (mps M) <> 0).
  Let Hps : ps_ok (mps M) := conj HY HX.
  Lemma x_from_mask_spec : from_mask M = shift (morg M) (rel_grid (mk M) (mps M)).
  Proof. apply from_mask_spec, Hps. Qed.
  Lemma x_from_mask_translates d : from_mask (translate d M) = shift d (from_mask M).
  Proof. apply from_mask_translates, Hps. Qed.
  Lemma x_derive_grid_all_false_translates d : derive_grid_all_false (translate d M) = shift d (derive_grid_all_false M).
  Proof. apply derive_grid_all_false_translates, Hps. Qed.
  Lemma x_derive_grid_sel_translates sel d : Forall (fun i => (i < length (from_mask M))%nat) (sel (mk M)) ->
    derive_grid_sel sel (translate d M) = shift d (derive_grid_sel sel M).
  Proof. apply derive_grid_sel_translates, Hps. Qed.
  Lemma x_blurring_grid_from_translates bl d : blurring_grid_from bl (translate d M) = shift d (blurring_grid_from bl M).
  Proof. apply blurring_grid_from_translates, Hps. Qed.
  Lemma x_padded_grid_from_translates d kh kw : padded_grid_from (translate d M) kh kw = shift d (padded_grid_from M kh kw).
  Proof. apply padded_grid_from_translates, Hps. Qed.
  Lemma x_over_sampled_grid_translates d subs : over_sampled_grid (translate d M) subs = shift d (over_sampled_grid M subs).
  Proof. apply over_sampled_grid_translates, Hps. Qed.
  Lemma x_over_sampled_grid_spec subs : over_sampled_grid M subs = shift (morg M) (rel_over (mk M) (mps M) subs).
  Proof. apply over_sampled_grid_spec, Hps. Qed.
  Lemma x_subtracted_from_translates d off :
    subtracted_mask (translate d M) off = translate d (subtracted_mask M off) /\
    subtracted_grid (translate d M) off = shift d (subtracted_grid M off).
  Proof. apply subtracted_from_translates, Hps. Qed.
  Lemma x_mask_centre_translates d : mask_centre (translate d M) = oshift d (mask_centre M).
  Proof. apply mask_centre_translates, Hps. Qed.
  Lemma x_zoom_centre_invariant d : zoom_centre (translate d M) = zoom_centre M.
  Proof. apply zoom_centre_invariant, Hps. Qed.
  Lemma x_zoom_offset_pixels_invariant d : zoom_offset_pixels (translate d M) = zoom_offset_pixels M.
  Proof. apply zoom_offset_pixels_invariant, Hps. Qed.
  Lemma x_zoom_offset_scaled_invariant d : zoom_offset_scaled (translate d M) = zoom_offset_scaled M.
  Proof. apply zoom_offset_scaled_invariant, Hps. Qed.
  Lemma x_zoom_mask_unmasked_translates d : zoom_mask_unmasked (translate d M) = option_map (translate d) (zoom_mask_unmasked M).
  Proof. apply zoom_mask_unmasked_translates, Hps. Qed.
  Lemma x_zoomed_around_mask_translates d b : zoomed_around_mask (translate d M) b = option_map (translate d) (zoomed_around_mask M b).
  Proof. apply zoomed_around_mask_translates, Hps. Qed.
  Lemma x_hilbert_image_grid_translates d n : hilbert_image_grid (translate d M) n = shift d (hilbert_image_grid M n).
  Proof. apply hilbert_image_grid_translates, Hps. Qed.
End ExportM.
Lemma x_overlay_translates (M : RM) (d : RP) sy sx : 0 < fst (mps M) -> 0 < snd (mps M) -> (0 < sy)%Z -> (0 < sx)%Z ->
  overlay (translate d M) sy sx = rshift d (overlay M sy sx).
Proof. intros A B. apply overlay_translates. split; assumption. Qed.
Lemma x_rect_mesh_grid_translates (r : @rmesh ROps) (d : RP) : fst (r_ps r) <> 0 -> snd (r_ps r) <> 0 ->
  rect_mesh_grid {| r_shape := r_shape r; r_ps := r_ps r; r_org := padd (r_org r) d |} = shift d (rect_mesh_grid r).
Proof. intros A B. apply rect_mesh_grid_translates. split; assumption. Qed.
Lemma x_dataset_grid_translates (d : RP) (ds : @imaging ROps) : fst (mps (i_data ds)) <> 0 -> snd (mps (i_data ds)) <> 0 ->
  from_mask (translate d (i_data ds)) = shift d (dataset_grid ds).
Proof. intros A B. apply (dataset_grid_translates d ds). split; assumption. Qed.
