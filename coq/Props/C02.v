From Coq Require Import ZArith Reals List Bool.
From PAV Require Import Base.NumOps Gen.Gen_geometry Model.C02 Model.C02x Proofs.C02.
Theorem C02_placeholder : True. Proof. exact placeholder. Qed.
Print Assumptions C02_placeholder.
