"""C01 -- slim and native forms are exact, order-preserving inverses under any mask."""
import itertools
import numpy as np
from harness.common import cz, cnat, cbool, clist, ctup, import_aa

ID = "C01"
GEN = []
PROPS = "Props/C01.v"
COQ_CHECK = ("Model.C01", "check")
COQ_FALLBACK = None
COQ_IMPORTS = ""
SHARD = 250
RULE = ("every boolean mask (2^(H*W), all-masked excluded at class level) of every shape in the exhaustive sub-space, values "
        "1+y*W+x (any reordering / misplaced zero is visible) and signed random integers; util functions and the public classes "
        "Array2D / Grid2D / VectorYX2D / Array1D / Grid1D with input form x store_native, Mask2D.derive_indexes.*; random masks up "
        "to 12x12. Non-trivial = mask has both masked and unmasked pixels; distinct = distinct JSON input.")
EXHAUSTIVE = {
    "quick": "util level: all masks of all shapes with H*W <= 10; class level: all masks with >=1 unmasked pixel, H*W <= 8, "
             "4 (input form, store_native) modes rotating over Array2D/Grid2D/VectorYX2D; 1-D: all masks of length <= 8",
    "thorough": "util level: H*W <= 14; class level: H*W <= 12; 1-D: length <= 12",
}
TRUSTED = ["hand-written Gallina model coq/Model/C01.v of array_2d_util / grid_2d_util / array_1d_util / mask_2d_util / mask_1d_util "
           "conversion loops, tied to /repo by this correspondence run (comparison evaluated inside Coq by vm_compute)",
           "numpy element assignment / np.zeros / np.stack semantics (lists of lists in the model)",
           "values are modelled polymorphically: the code performs no arithmetic on them except `*= invert(mask)` (modelled as "
           "replacement by zero; differs from IEEE only for inf/NaN inputs at masked positions: nan*0 = nan)"]
ASSUMPTIONS = ["finite real values (no inf/NaN at masked positions of native inputs)",
               "complex / over-sampled variants are not modelled"]

def shapes_upto(n):
    return [(h, w) for h in range(1, n + 1) for w in range(1, n + 1) if h * w <= n]

def all_masks(h, w):
    for bits in itertools.product([False, True], repeat=h * w):
        yield [list(bits[y * w:(y + 1) * w]) for y in range(h)]

def vals(h, w, k):
    if k == 0: return [[1 + y * w + x for x in range(w)] for y in range(h)]
    return [[(-1) ** (x + y) * (3 + 2 * x + 7 * y + k) for x in range(w)] for y in range(h)]

def gen_inputs(tier, rng):
    big = tier == "thorough"
    nu, nc, n1 = (14, 12, 12) if big else (10, 8, 8)
    i = 0
    for (h, w) in shapes_upto(nu):
        for m in all_masks(h, w):
            i += 1
            yield {"op": "util", "m": m, "k": i % 2}
    kinds = ["array", "grid", "vector"]
    for (h, w) in shapes_upto(nc):
        for m in all_masks(h, w):
            if all(all(r) for r in m): continue
            i += 1
            yield {"op": kinds[i % 3], "m": m, "ni": bool(i & 1), "sn": bool(i & 2), "k": (i >> 2) % 2}
            if big or i % 5 == 0:
                yield {"op": "array", "m": m, "ni": not bool(i & 1), "sn": not bool(i & 2), "k": 1}
    for n in range(1, n1 + 1):
        for bits in itertools.product([False, True], repeat=n):
            if all(bits): continue
            i += 1
            yield {"op": "array1d" if i % 3 else "grid1d", "r": list(bits), "ni": bool(i & 1), "sn": bool(i & 2)}
            yield {"op": "array1d", "r": list(bits), "ni": not bool(i & 1), "sn": bool(i & 4)}
    for _ in range(2000 if big else 150):
        h, w = rng.randint(3, 12), rng.randint(3, 12)
        p = rng.choice([0.1, 0.3, 0.5, 0.8])
        m = [[rng.random() < p for _ in range(w)] for _ in range(h)]
        if all(all(r) for r in m): m[rng.randrange(h)][rng.randrange(w)] = False
        yield {"op": "util", "m": m, "k": 1}
        yield {"op": rng.choice(kinds), "m": m, "ni": rng.random() < 0.5, "sn": rng.random() < 0.5, "k": rng.randint(0, 1)}

def cmask(m): return clist([clist([cbool(b) for b in r]) for r in m])
def cgrid(g): return clist([clist([cz(v) for v in r]) for r in g])
def cvec(v): return clist([cz(x) for x in v])
def ints(a): return [int(round(float(x))) for x in np.asarray(a).ravel()]
def ints2(a): return [[int(round(float(x))) for x in r] for r in np.asarray(a)]

def exact(a):
    a = np.asarray(a, dtype=float)
    if not np.all(a == np.round(a)): raise AssertionError("non-integer value in implementation output")

def run_case(inp):
    aa = import_aa()
    from autoarray.structures.arrays import array_2d_util
    from autoarray.mask import mask_2d_util, mask_1d_util
    op = inp["op"]
    if op in ("array1d", "grid1d"):
        r = inp["r"]; n = len(r)
        native = [5 + 3 * x for x in range(n)]
        slim = [v for v, b in zip(native, r) if not b]
        slim_in = [v + 100 for v in slim]
        mask = aa.Mask1D(mask=np.array(r), pixel_scales=1.0)
        values = np.array(native if inp["ni"] else slim_in, dtype=float)
        cls = aa.Array1D if op == "array1d" else aa.Grid1D
        obj = cls(values=values.copy(), mask=mask, store_native=inp["sn"])
        os_, on_ = obj.slim, obj.native
        exact(os_); exact(on_)
        out = [ints(os_), ints(on_)]
        nfs = mask_1d_util.native_index_for_slim_index_1d_from(mask_1d=np.array(r))
        coq = (f"KArray1 {clist([cbool(b) for b in r])} {cbool(inp['ni'])} {cbool(inp['sn'])} {cvec(native)} {cvec(slim_in)} "
               f"{cvec(out[0])} {cvec(out[1])}")
        # the second, cheap case rides along as its own case through `extra`
        return {"coq": "(" + coq + ")", "out": out, "kind": op, "nontrivial": any(r),
                "extra_coq": ["(KNativeForSlim1 " + clist([cbool(b) for b in r]) + " " + clist([cnat(x) for x in ints(nfs)]) + ")"]}
    m = inp["m"]; h, w = len(m), len(m[0]); k = inp.get("k", 0)
    ma = np.array(m, dtype=bool)
    nontrivial = bool(ma.any() and not ma.all())
    native = vals(h, w, k)
    slim = [native[y][x] + 1000 for y in range(h) for x in range(w) if not m[y][x]]
    if op == "util":
        s1 = array_2d_util.array_2d_slim_from(array_2d_native=np.array(native, dtype=float), mask_2d=ma)
        n1 = array_2d_util.array_2d_native_from(array_2d_slim=np.array(slim, dtype=float), mask_2d=ma)
        idx = mask_2d_util.native_index_for_slim_index_2d_from(mask_2d=ma)
        um = mask_2d_util.mask_slim_indexes_from(mask_2d=ma, return_masked_indexes=False)
        mk = mask_2d_util.mask_slim_indexes_from(mask_2d=ma, return_masked_indexes=True)
        out = [ints(s1), ints2(n1), [[int(a), int(b)] for a, b in np.asarray(idx).reshape(-1, 2)], ints(um), ints(mk)]
        cm = cmask(m)
        cases = [f"(KSlimFrom {cm} {cgrid(native)} {cvec(out[0])})",
                 f"(KNativeFrom {cm} {cvec(slim)} {cgrid(out[1])})",
                 "(KNativeForSlim " + cm + " " + clist([ctup([cnat(a), cnat(b)]) for a, b in out[2]]) + ")",
                 "(KMaskIdx " + cm + " false " + clist([cnat(x) for x in out[3]]) + ")",
                 "(KMaskIdx " + cm + " true " + clist([cnat(x) for x in out[4]]) + ")"]
        return {"coq": cases[0], "extra_coq": cases[1:], "out": out, "kind": "util", "nontrivial": nontrivial}
    mask = aa.Mask2D(mask=ma, pixel_scales=1.0)
    ni, sn = inp["ni"], inp["sn"]
    if op == "array":
        values = np.array(native if ni else slim, dtype=float)
        obj = aa.Array2D(values=values.copy(), mask=mask, store_native=sn)
        os_, on_ = np.array(obj.slim), np.array(obj.native)
        exact(os_); exact(on_)
        # index views of the mask must agree with the util functions
        di = mask.derive_indexes
        dn = np.asarray(di.native_for_slim).reshape(-1, 2)
        out = [ints(os_), ints2(on_), [[int(a), int(b)] for a, b in dn], ints(di.unmasked_slim), ints(di.masked_slim)]
        cm = cmask(m)
        coq = f"(KArray {cm} {cbool(ni)} {cbool(sn)} {cgrid(native)} {cvec(slim)} {cvec(out[0])} {cgrid(out[1])})"
        extra = ["(KNativeForSlim " + cm + " " + clist([ctup([cnat(a), cnat(b)]) for a, b in out[2]]) + ")",
                 "(KMaskIdx " + cm + " false " + clist([cnat(x) for x in out[3]]) + ")",
                 "(KMaskIdx " + cm + " true " + clist([cnat(x) for x in out[4]]) + ")"]
        return {"coq": coq, "extra_coq": extra, "out": out, "kind": "array", "nontrivial": nontrivial}
    # grid / vector: two planes (y-plane = native values, x-plane = negated + 7)
    ny = native; nx = [[7 - v for v in r] for r in native]
    sy = slim; sx = [7 - v for v in slim]
    if ni: values = np.stack([np.array(ny, dtype=float), np.array(nx, dtype=float)], axis=-1)
    else: values = np.stack([np.array(sy, dtype=float), np.array(sx, dtype=float)], axis=-1).reshape(-1, 2)
    if op == "grid":
        obj = aa.Grid2D(values=values.copy(), mask=mask, store_native=sn)
    else:
        g = aa.Grid2D.from_mask(mask=mask)
        obj = aa.VectorYX2D(values=values.copy(), grid=g.native if ni else g, mask=mask, store_native=sn)
    os_, on_ = np.array(obj.slim), np.array(obj.native)
    exact(os_); exact(on_)
    os_ = os_.reshape(-1, 2)
    out = [ints(os_[:, 0]), ints(os_[:, 1]), ints2(on_[:, :, 0]), ints2(on_[:, :, 1])]
    coq = (f"(KGrid {cmask(m)} {cbool(ni)} {cbool(sn)} {cgrid(ny)} {cgrid(nx)} {cvec(sy)} {cvec(sx)} "
           f"{cvec(out[0])} {cvec(out[1])} {cgrid(out[2])} {cgrid(out[3])})")
    return {"coq": coq, "out": out, "kind": op, "nontrivial": nontrivial}
