"""C04 -- data vector and curvature matrix equal the normal equations in both formalisms (mapping / w-tilde)."""
import random, hashlib
import numpy as np
from fractions import Fraction
from harness.common import cz, cq, cnat, cbool, clist, ctup, import_aa, frac

ID = "C04"
GEN = []
PROPS = "Props/C04.v"
COQ_CHECK = ("Model.C04", "check")
COQ_FALLBACK = None
COQ_IMPORTS = "From PAV Require Import Base.NumOps."
SHARD = 12
RULE = ("(1) inversions: imaging datasets on random masks (densities 0.15-0.9, single pixel, ring with hole, full block, full line along the "
        "kernel's long axis, corners + centre, a pixel pair at an extreme offset of the kernel overlap with the later pixel to the left or "
        "right, checkerboard, diagonal + anti-diagonal) of <= 20 unmasked pixels in frames up to 10x10 whose kernel footprint stays inside "
        "the frame, with unit / anisotropic pixel scales (2 x 1/2, 1/2 x 2, 1/4) and shifted origins at the CLASS layer; PSFs of shape "
        "{1x1,1x3,3x1,3x3,3x5,5x3,1x5,5x1,5x5,1x7,7x1}: signed, non-negative, sparse, point-symmetric, positive core with negative wings, "
        "pure off-centre shifts (use_normalized_psf=False: every double operation exact); integer data of either sign; noise in "
        "{1/2,1,2,4}; 1..3 linear objects in random order mixing real MapperRectangular / MapperDelaunay objects (sub_size 1, 2, per-pixel "
        "{1,2,4}; affine + bilinear source-plane distortions; with / without regularization) and function lists (random sparse matrices, "
        "optional operated override), function lists before and after a mapper, several unregularized objects; every third case carries "
        "an EXTREME: data x 2^-30 / 2^30 / all zero, noise x 2^-20 / 2^20 / spread over 2^-8..2^8, psf x 2^-20 / 2^20, equal noise + "
        "symmetric kernel + full block (exact ties), one basis column x 2^-20 / x 2^20 / zero / negative throughout; comparisons inside "
        "Coq are exact, or (Delaunay weights, default 1e-3 diagonal term, power-of-two extremes) within 1e-9 RELATIVE TO A BOUND ON THE "
        "TERMS OF EACH ENTRY (column scale x column scale x sum 1/sigma^2 ...), so a tiny column is judged at its own scale. Both "
        "use_w_tilde settings on the same inputs through aa.Inversion; ONE instance per formalism whose cached properties are read in a "
        "random order with repeats (operated_mapping_matrix, data_vector, curvature_matrix, curvature_reg_matrix, reconstruction; "
        "curvature_matrix again after curvature_reg_matrix), every read judged by the cell model and by the specification (KSeq), then "
        "mapped_reconstructed_data of the same instance for an injected integer reconstruction; 30% of the instances use the default "
        "positive-only solver; the two formalisms compared with each other (D, F, mapped data, solved reconstruction where F+H is well "
        "conditioned); the caller's arrays / settings fingerprinted around every inversion. (2) sessions: a history in one process on "
        "SHARED objects -- one Imaging, one settings object per formalism, one list of linear objects -- with three of: other objects of "
        "the same kinds and shapes then the first list again; DatasetInterface(data = data - model (derived by arithmetic), noise_map, "
        "convolver, w_tilde = imaging.w_tilde); Preloads(w_tilde = the w_tilde of an Imaging with OTHER data, use_w_tilde=True), "
        "Preloads(use_w_tilde=False), the same Preloads object again after an in-place edit of the data; in-place edit of the data; in-place "
        "edit of a basis function; another dataset (other psf / noise / data, same first noise value) on the same mask with the same linear "
        "objects, then the first dataset again; DatasetInterface with the noise map scaled by arithmetic and the stale w_tilde "
        "(InversionException expected from the w-tilde class, normal equations of the scaled noise from the mapping class); a dataset "
        "derived by a second apply_mask; a dataset derived by apply_over_sampling; every inversion judged (KInvW) on the values read from "
        "the dataset actually passed in at that moment; further steps: the parts of the dataset as DERIVED structures (copy, deepcopy, * 1.0, + 0.0, "
        "-(-a), .native.slim, .slim of a natively stored array) through a DatasetInterface; calls WITHOUT settings / preloads (the shared "
        "default objects of the signatures) through the factory and through both classes on the first dataset, a second one, the first again. "
        "(4) kinds: the same VALUES as other KINDS of input at the class layer -- data / noise map / psf integer-typed, float32, nested "
        "lists, Fortran-ordered, strided views; basis functions and operated overrides integer-typed / float32 / Fortran / views -- along "
        "other CONSTRUCTOR PATHS (Imaging from already-masked arrays, apply_mask after another mask, DatasetInterface), with trivial "
        "SUBCLASSES of Imaging, Array2D, Kernel2D, the mappers, the function list, SettingsInversion, Preloads, DatasetInterface, a psf whose "
        "pixel scales differ from the data's, the interferometer-only settings switched on, frames as small as the kernel permits (one "
        "admissible row / column), through aa.Inversion (keywords / positional / with an empty Preloads), factory.inversion_imaging_from "
        "and both classes constructed directly; judged exactly on the descriptor's values; per formalism the per-object dictionaries for an "
        "injected reconstruction of odd eighths (mapped_reconstructed_data_dict[obj_i] = the model with r restricted to object i, keys "
        "in object order, mapped_reconstructed_data / _image = their sum, reconstruction_dict, data_subtracted_dict). (5) preld: the "
        "branches that take a quantity from the Preloads object (operated_mapping_matrix; curvature_matrix; the two function-list "
        "dictionaries; mapper_operated_mapping_matrix_dict + data_vector_mapper + curvature_matrix_mapper_diag with the same mappers and "
        "OTHER function lists), filled from a first inversion as the library does: the result is still the normal equations of the "
        "objects passed in, curvature_reg_matrix never reaches the preloaded arrays, a second instance with the same Preloads object "
        "returns the same. Around EVERY case the shared default argument objects of the anchored signatures are fingerprinted. (3) every anchored util function called directly on synthetic inputs (random sparse "
        "encodings with filler entries, random upper-triangular preloads, asymmetric matrices for the mirror, duplicate indices for the "
        "diagonal term); every array argument handed over as a random kind (integer-typed where integral -- every other round all "
        "matrices integral and integer-typed --, int32 indices, Fortran-ordered, strided view), READ-ONLY and fingerprinted. Non-trivial = at least 2 unmasked pixels and a kernel with more than one non-zero entry (inversion and kinds cases) / any "
        "session, preload or util case; distinct = distinct JSON input.")
EXHAUSTIVE = {}
TRUSTED = ["hand-written Gallina model coq/Model/C04.v (scatter loops, sequential symmetrisation / mirror / block assignments, running-index "
           "walk of the preload, param ranges by running count, the w_tilde object handed over separately with check_noise_map, the factory's "
           "choice, heap cells for the cached curvature_matrix / curvature_reg_matrix arrays) on top of the convolver model coq/Model/C03.v; tied "
           "to /repo by this correspondence run (comparison evaluated inside Coq by vm_compute: exact for rectangular mappers / function lists "
           "with dyadic diagonal term; otherwise within 1e-9 of a rigorous bound on the sum of the absolute values of the terms of each entry -- "
           "column scale x column scale x sum 1/sigma^2, + |eps| on a flagged diagonal entry, + |H| for curvature_reg_matrix (one extra rounding "
           "2^-53 allowed there because the regularization matrix is not dyadic))",
           "numpy: np.dot = sum of products, slice / block assignment, hstack, np.concatenate, np.add / += on arrays, .native zero-fills masked "
           "pixels (0/0 = NaN exactly at masked pixels in w_tilde_data_imaging_from)",
           "a mapper enters as its mapping_matrix together with its unique-mapping encoding (that the encoding represents the matrix is "
           "C06's theorem; here it is re-checked numerically on every generated mapper); regularization_matrix enters the read sequences as an "
           "input (C07 / C08)",
           "the reconstruction itself (np.linalg.solve / fnnls) is C05's; here it is an input of mapped_reconstructed_data, and both formalisms "
           "are proved to hand the same matrix and vector to it"]
ASSUMPTIONS = ["real arithmetic (no rounding): theorems over R; correspondence exact or within 1e-9 relative to the scale of each entry",
               "kernel footprint of every unmasked pixel inside the frame (the property's quantifier); positive noise on unmasked pixels",
               "a w_tilde object handed over separately comes from an Imaging with the same mask, psf and noise map (a stale object that passes "
               "the first-value test of check_noise_map is the caller's error: no claim); linear objects pairwise distinct",
               "Preloads: w_tilde / use_w_tilde in the sessions; the linear-algebra fields (operated_mapping_matrix, curvature_matrix, the "
               "function-list dictionaries, the mapper-only triple) only with values taken from a first inversion on the same dataset with "
               "the same mappers (what Preloads.set_* establish: when to preload is C15's); the w-tilde class writes the function lists' "
               "blocks into the preloaded data_vector_mapper array (not fingerprinted: its mapper blocks are what is judged)",
               "data / noise map stored natively (store_native=True) are refused by both classes (ValueError): outside the domain"]

PSF_SHAPES = [(1, 1), (1, 3), (3, 1), (3, 3), (3, 3), (3, 5), (5, 3), (1, 5), (5, 1), (5, 5), (1, 7), (7, 1)]
NOISE = [Fraction(1, 2), Fraction(1), Fraction(2), Fraction(4)]
STATS = {}

def tally(k): STATS[k] = STATS.get(k, 0) + 1
def extra_evidence(): return {"distribution": dict(sorted(STATS.items()))}

# ----------------------------------------------------------------------------- generators
def S(x): return str(Fraction(x))
def rand_mask(rng, H, W, kh, kw, style, maxpix):
    m = [[True] * W for _ in range(H)]
    y0, y1, x0, x1 = kh // 2, H - kh // 2, kw // 2, W - kw // 2
    cells = [(y, x) for y in range(y0, y1) for x in range(x0, x1)]
    if not cells: return None
    if style == "single":
        y, x = rng.choice(cells); m[y][x] = False
    elif style == "ring":
        for (y, x) in cells:
            if y in (y0, y1 - 1) or x in (x0, x1 - 1): m[y][x] = False
    elif style == "full":
        for (y, x) in cells: m[y][x] = False
    elif style == "line":
        # a full row / column of the admissible cells along the kernel's long axis: pixel pairs at every separation up to and
        # beyond 2 * (k // 2) along that axis (the limit of the overlap), plus a second line two cells away when there is room
        horiz = kw > kh or (kw == kh and rng.random() < 0.5)
        if horiz:
            y = rng.randrange(y0, y1)
            for x in range(x0, x1): m[y][x] = False
            if y + 2 < y1 and rng.random() < 0.5:
                for x in range(x0, x1, 2): m[y + 2][x] = False
        else:
            x = rng.randrange(x0, x1)
            for y in range(y0, y1): m[y][x] = False
            if x + 2 < x1 and rng.random() < 0.5:
                for y in range(y0, y1, 2): m[y][x + 2] = False
    elif style == "pair":
        # two pixels at an extreme offset of the kernel overlap (|dy| = 2*(kh//2) or |dx| = 2*(kw//2), either sign of dx, so that the
        # later pixel in slim order can lie to the LEFT of the earlier one), plus a few random ones
        for _ in range(20):
            y, x = rng.choice(cells)
            dy = rng.choice([0, 2 * (kh // 2), 2 * (kh // 2), rng.randint(0, 2 * (kh // 2))])
            dx = rng.choice([-2 * (kw // 2), 2 * (kw // 2), -rng.randint(0, 2 * (kw // 2)), -(kw // 2) - 1 if kw > 1 else 0])
            if (y + dy, x + dx) in cells and (dy, dx) != (0, 0):
                m[y][x] = False; m[y + dy][x + dx] = False
                break
        else:
            y, x = rng.choice(cells); m[y][x] = False
        for (y, x) in cells:
            if rng.random() < 0.1: m[y][x] = False
    elif style == "checker":
        # every other admissible cell: no two unmasked pixels are neighbours, all overlaps go through masked pixels
        par = rng.randrange(2)
        for (y, x) in cells:
            if (y + x) % 2 == par: m[y][x] = False
        if all(all(r) for r in m):
            y, x = rng.choice(cells); m[y][x] = False
    elif style == "diag":
        # a diagonal and an anti-diagonal run: the later pixel of a pair lies to the right of the earlier one on one, to the left on the other
        for k in range(min(y1 - y0, x1 - x0)):
            m[y0 + k][x0 + k] = False
            if rng.random() < 0.7: m[y0 + k][x1 - 1 - k] = False
    elif style == "corners":
        for (y, x) in ((y0, x0), (y0, x1 - 1), (y1 - 1, x0), (y1 - 1, x1 - 1), ((y0 + y1 - 1) // 2, (x0 + x1 - 1) // 2)): m[y][x] = False
    else:
        p = rng.choice([0.15, 0.3, 0.5, 0.7, 0.9])
        for (y, x) in cells:
            if rng.random() < p: m[y][x] = False
        if all(all(r) for r in m):
            y, x = rng.choice(cells); m[y][x] = False
    un = [(y, x) for y in range(H) for x in range(W) if not m[y][x]]
    while len(un) > maxpix:
        y, x = un.pop(rng.randrange(len(un))); m[y][x] = True
    return m

def rand_kernel(rng, kh, kw, mode=None):
    mode = mode or rng.choice(["signed", "signed", "nonneg", "sparse", "symmetric", "negwings", "shift"])
    while True:
        if mode == "nonneg": K = [[rng.randint(0, 3) for _ in range(kw)] for _ in range(kh)]
        elif mode == "sparse": K = [[rng.choice([0, 0, 1, -1, 2]) for _ in range(kw)] for _ in range(kh)]
        elif mode == "symmetric":      # point-symmetric and mirror-symmetric: ties between the two triangles of the overlap matrix
            q = [[rng.randint(-2, 3) for _ in range(kw // 2 + 1)] for _ in range(kh // 2 + 1)]
            K = [[q[min(y, kh - 1 - y)][min(x, kw - 1 - x)] for x in range(kw)] for y in range(kh)]
        elif mode == "shift":          # one or two off-centre entries: a pure shift, maximally asymmetric overlaps
            K = [[0] * kw for _ in range(kh)]
            for _ in range(rng.choice([1, 1, 2])): K[rng.randrange(kh)][rng.randrange(kw)] = rng.choice([1, 2, -1, 3])
        elif mode == "negwings":       # positive core, negative wings: every cross term between neighbours can be negative
            K = [[(rng.randint(2, 4) if (y, x) == (kh // 2, kw // 2) else -rng.randint(0, 2)) for x in range(kw)] for y in range(kh)]
        else: K = [[rng.randint(-3, 3) for _ in range(kw)] for _ in range(kh)]
        if any(v for r in K for v in r): return K

GEOMS = [None, None, None, {"ps": ["2", "1/2"], "origin": ["3/4", "-5/4"]}, {"ps": ["1/4", "1/4"], "origin": ["0", "0"]},
         {"ps": ["1/2", "2"], "origin": ["-1/2", "3"]}]
MASK_STYLES = ["random", "random", "random", "single", "ring", "full", "line", "corners", "pair", "pair", "checker", "diag"]
def rand_dataset(rng, maxpix, ext=None, geom=None, tight=None, noise_choices=None):
    """tight: None | 'h' | 'w' -- the frame is as small as the kernel permits along that axis (ONE admissible row / column: a
    size-1 dimension of the region where pixels may be unmasked).  ext: None | 'data_tiny' | 'data_huge' | 'noise_tiny' | 'noise_huge' | 'noise_spread' | 'psf_tiny' | 'psf_huge' | 'zero_data' |
    'flat' (equal noise, symmetric kernel, full block: exact ties).  Every factor is a power of two."""
    kh, kw = rng.choice(PSF_SHAPES)
    H = rng.randint(kh + 1, min(10, kh + 5)); W = rng.randint(kw + 1, min(10, kw + 5))
    if tight == "h": H = kh
    if tight == "w": W = kw
    m = rand_mask(rng, H, W, kh, kw, "full" if ext == "flat" else rng.choice(MASK_STYLES), maxpix)
    K = rand_kernel(rng, kh, kw, "symmetric" if ext == "flat" else None)
    fd = {"data_tiny": Fraction(1, 2 ** 30), "data_huge": Fraction(2 ** 30), "zero_data": Fraction(0)}.get(ext, Fraction(1))
    fs = {"noise_tiny": Fraction(1, 2 ** 20), "noise_huge": Fraction(2 ** 20)}.get(ext, Fraction(1))
    fk = {"psf_tiny": Fraction(1, 2 ** 20), "psf_huge": Fraction(2 ** 20)}.get(ext, Fraction(1))
    data = [[S(rng.randint(-9, 9) * fd) for _ in range(W)] for _ in range(H)]
    noise = [[S(rng.choice(noise_choices or NOISE) * fs) for _ in range(W)] for _ in range(H)]
    if ext == "noise_spread": noise = [[S(Fraction(2) ** rng.choice([-8, -1, 0, 3, 8])) for _ in range(W)] for _ in range(H)]
    if ext == "flat": noise = [[S(Fraction(2)) for _ in range(W)] for _ in range(H)]
    ds = {"m": m, "K": [[S(v * fk) for v in r] for r in K], "data": data, "noise": noise}
    if geom: ds.update(geom)
    return ds

def rand_vals(rng, sparse):
    if sparse and rng.random() < 0.5: return Fraction(0)
    if rng.random() < 0.3: return Fraction(rng.randint(-12, 12), 4)
    return Fraction(rng.randint(-5, 5))

def rand_obj(rng, n, kind=None, colext=None):
    kind = kind or rng.choice(["rect", "rect", "delaunay", "func", "func"])
    if kind == "func":
        P = rng.randint(1, 3); sp = rng.random() < 0.5
        o = {"kind": "func", "P": P, "M": [[S(rand_vals(rng, sp)) for _ in range(P)] for _ in range(n)],
             "reg": rng.random() < 0.15, "ov": None}
        if rng.random() < 0.2: o["ov"] = [[S(rand_vals(rng, sp)) for _ in range(P)] for _ in range(n)]
        if colext:
            # one column of the basis (and of the override) scaled by 2^-20 / 2^20 / set to zero / made negative throughout
            j = rng.randrange(P); f = {"tiny": Fraction(1, 2 ** 20), "huge": Fraction(2 ** 20), "zero": Fraction(0), "neg": None}[colext]
            for key in ("M", "ov"):
                if o[key] is not None:
                    for r in o[key]:
                        r[j] = S(-abs(Fraction(r[j])) - 1) if f is None else S(Fraction(r[j]) * f)
        return o
    sub = rng.choice([1, 1, 2, 2, "mixed"])
    dist = [S(Fraction(rng.randint(-8, 8), 4)) for _ in range(4)] + [S(Fraction(rng.randint(-4, 4), 8)) for _ in range(2)]
    if rng.random() < 0.3: dist = ["1", "0", "0", "1", "0", "0"]
    o = {"kind": kind, "sub": sub, "dist": dist, "reg": rng.random() < 0.6, "subseed": rng.randrange(10 ** 6)}
    if kind == "rect": o["shape"] = [rng.randint(1, 3), rng.randint(1, 3)]
    else: o["npts"] = rng.randint(4, 7)
    return o

def synth_enc(rng, n, P, width=None, exact=True):
    """a random sparse unique-mapping encoding: filler (-1, junk weight) beyond pix_lengths, repeated pixels allowed"""
    width = width or rng.randint(1, 4)
    du, dw, pl = [], [], []
    for _ in range(n):
        L = rng.randint(0, width)
        row_i = [rng.randrange(P) for _ in range(L)] + [-1] * (width - L)
        row_w = [S(Fraction(rng.randint(-8, 8), 4)) for _ in range(L)] + [S(rng.choice([0, 0, 1])) for _ in range(width - L)]
        du.append(row_i); dw.append(row_w); pl.append(L)
    return {"du": du, "dw": dw, "pl": pl, "P": P}

def synth_preload(rng, n):
    """random upper-triangular sparse rows (index >= row, values of either sign, zeros allowed)"""
    pre, idx, lens = [], [], []
    for i in range(n):
        js = sorted(rng.sample(range(i, n), rng.randint(0, min(3, n - i))))
        for j in js:
            pre.append(S(Fraction(rng.randint(-8, 8), 2))); idx.append(j)
        lens.append(len(js))
    return {"pre": pre, "idx": idx, "lens": lens}

EXTS_DS = ["psf_tiny", "data_tiny", "noise_huge", "noise_tiny", "psf_huge", "data_huge", "noise_spread", "zero_data", "flat", "psf_tiny"]
EXTS_COL = ["tiny", "huge", "zero", "neg"]
SESS_STEPS = ["objs2", "iface", "preload", "edit_data", "edit_func", "ds2", "iface_noise0", "remask", "oversampling", "defaults", "derived"]

def n_unmasked(ds): return sum(1 for r in ds["m"] for b in r if not b)

def twin_obj(rng, o, n):
    """an object of the same kind and shapes as [o] with other values (a cache keyed by kind / shape / position confuses them)"""
    t = rand_obj(rng, n, o["kind"])
    if o["kind"] == "func":
        P = o["P"]; sp = rng.random() < 0.5
        t.update(P=P, M=[[S(rand_vals(rng, sp)) for _ in range(P)] for _ in range(n)], reg=o["reg"],
                 ov=None if o["ov"] is None else [[S(rand_vals(rng, sp)) for _ in range(P)] for _ in range(n)])
    else:
        t.update(sub=o["sub"], reg=o["reg"])
        if o["kind"] == "rect": t["shape"] = o["shape"]
        else: t["npts"] = o["npts"]
    return t

def gen_inputs(tier, rng):
    thorough = tier == "thorough"
    n_inv = 250 if thorough else 30
    n_sess = 45 if thorough else 9
    n_util = 40 if thorough else 6
    maxpix = 20 if thorough else 14
    n_kind = 36 if thorough else 12
    n_preld = 18 if thorough else 4
    for i in range(n_inv):
        # every third case carries one extreme: a dataset-level one (power-of-two factors, zero data, exact ties) or a column-level
        # one (a basis column scaled by 2^-20 / 2^20 / zero / negative throughout); geometry: anisotropic pixel scales, shifted origin
        ext = colext = None
        if i % 3 == 1: ext = EXTS_DS[(i // 3) % len(EXTS_DS)]
        if i % 3 == 2 and (i // 3) % 2 == 0: colext = EXTS_COL[(i // 6) % len(EXTS_COL)]
        geom = rng.choice(GEOMS)
        ds = rand_dataset(rng, maxpix if i % 4 else 9, ext, geom)
        if ds["m"] is None: continue
        n = n_unmasked(ds)
        nobj = rng.choice([1, 1, 2, 2, 3])
        if not thorough and n > 9:
            # quick tier: Delaunay weights are 53-bit rationals, the exact evaluation inside Coq of a case with many pixels AND a Delaunay
            # mapper AND three objects costs ~20 s; such cases stay in the thorough tier, here the big masks get rectangular mappers only
            heavy_ok = False
        else: heavy_ok = True
        objs = [rand_obj(rng, n) for _ in range(nobj)]
        if i % 7 == 0: objs = [rand_obj(rng, n, "func") for _ in range(nobj)]          # factory: all function lists
        if i % 7 == 1: objs = [rand_obj(rng, n, rng.choice(["rect", "delaunay"])) for _ in range(max(2, nobj))]   # several mappers
        if i % 7 == 2: objs = [rand_obj(rng, n, "func"), rand_obj(rng, n, "rect"), rand_obj(rng, n, "func")][:max(2, nobj)]
        if i % 7 == 3: objs = [rand_obj(rng, n, rng.choice(["rect", "delaunay"])), rand_obj(rng, n, "func"), rand_obj(rng, n, "rect")]   # a function list BETWEEN two mappers
        if colext:      # a function list with the extreme column, before AND after a mapper (negative cross blocks on both sides)
            objs = [rand_obj(rng, n, "func", colext), rand_obj(rng, n, rng.choice(["rect", "rect", "delaunay"])), rand_obj(rng, n, "func", colext)][:rng.choice([2, 3])]
            if rng.random() < 0.5: objs.reverse()
            for o in objs: o["reg"] = o["reg"] and rng.random() < 0.5      # several unregularized objects
        if ext and all(o["kind"] == "func" for o in objs):
            # an extreme dataset always meets a mapper (the w-tilde tables are only used then), at a random position
            objs[rng.randrange(len(objs))] = rand_obj(rng, n, rng.choice(["rect", "rect", "delaunay"]))
        if not heavy_ok:
            objs = [(rand_obj(rng, n, "rect", None) if o["kind"] == "delaunay" else o) for o in objs]
        eps = rng.choice([None, "1/1024", "1/2", "1/1024"])
        if ext in ("noise_huge", "psf_tiny"): eps = rng.choice([None, "1/1073741824"])
        yield {"op": "inv", "ds": ds, "objs": objs, "eps": eps, "rseed": rng.randrange(10 ** 6), "ext": ext or colext, "k": i}
    for i in range(n_sess):
        # a history in ONE process on shared objects: see run_sess
        while True:
            ds = rand_dataset(rng, 8, None, rng.choice(GEOMS))
            if ds["m"] is not None and n_unmasked(ds) >= 2: break
        n = n_unmasked(ds); kh, kw = len(ds["K"]), len(ds["K"][0]); H, W = len(ds["m"]), len(ds["m"][0])
        kinds = [["rect"], ["func", "rect"], ["rect", "func"], ["rect", "rect"], ["func", "rect", "func"]][i % 5]
        objs = [rand_obj(rng, n, k) for k in kinds]
        for o in objs:
            if o["kind"] == "func" and rng.random() < 0.7: o["ov"] = None
        objs2 = [twin_obj(rng, o, n) for o in objs]
        ds2 = {"m": ds["m"], "K": [[S(v) for v in r] for r in rand_kernel(rng, kh, kw)],
               "data": [[S(rng.randint(-9, 9)) for _ in range(W)] for _ in range(H)],
               # same first noise value as ds (the only thing check_noise_map looks at), other values elsewhere
               "noise": [[S(rng.choice(NOISE)) for _ in range(W)] for _ in range(H)]}
        for k in ("ps", "origin"):
            if k in ds: ds2[k] = ds[k]
        first = next((y, x) for y in range(H) for x in range(W) if not ds["m"][y][x])
        ds2["noise"][first[0]][first[1]] = ds["noise"][first[0]][first[1]]
        steps = [SESS_STEPS[(3 * i + j) % len(SESS_STEPS)] for j in range(3)]
        yield {"op": "sess", "ds": ds, "ds2": ds2, "objs": objs, "objs2": objs2, "steps": steps,
               "d2": [rng.randint(-9, 9) for _ in range(n)], "d3": [[S(rng.randint(-9, 9)) for _ in range(W)] for _ in range(H)],
               "eps": rng.choice(["1/1024", "1/2"]), "rseed": rng.randrange(10 ** 6)}
    # input kinds / constructor paths / subclasses / entry points (run_kinds): rotations, so that every value of every axis occurs in
    # the quick tier, the axes being out of phase with each other
    KOBJ = [["rect", "func"], ["func", "rect", "func"], ["rect", "func", "rect"], ["rect", "rect"], ["func"], ["rect"], ["func", "func", "rect"]]
    CONSTRUCT = ["apply_mask", "masked_arrays", "interface", "apply_mask_twice", "normalized", "from_fits"]
    ENTRY = ["Inversion", "imaging_from", "class", "positional", "preloads"]
    for i in range(n_kind):
        v = {"data_kind": ARRAY_KINDS[i % 6], "noise_kind": ARRAY_KINDS[(i + 2) % 6], "psf_kind": ARRAY_KINDS[(i + 4) % 6],
             "construct": CONSTRUCT[(i + i // 6) % 6], "entry": ENTRY[i % 5], "sub_struct": i % 2 == 1, "sub_dataset": i % 3 == 1,
             "sub_settings": i % 3 == 2, "psf_ps": [None, ["3", "1/3"], None, ["1/8", "5"]][(i // 2) % 4], "extra_settings": i % 4 == 3}
        while True:
            ds = rand_dataset(rng, 8, None, rng.choice(GEOMS), tight=[None, "h", "w"][i % 3],
                              noise_choices=[Fraction(1), Fraction(2), Fraction(4)] if v["noise_kind"] == "int" else None)
            if ds["m"] is not None and (n_unmasked(ds) >= 2 or i % 5 == 4): break
        if v["construct"] in ("normalized", "from_fits"):
            # the library's DEFAULT use_normalized_psf=True (Imaging.from_fits has no other): a non-negative kernel, divided by its sum
            ds["K"] = [[S(x) for x in r] for r in rand_kernel(rng, len(ds["K"]), len(ds["K"][0]), "nonneg")]
        n = n_unmasked(ds)
        objs = [rand_obj(rng, n, k) for k in KOBJ[i % len(KOBJ)]]
        for j, o in enumerate(objs):
            o["subclass"] = (i + j) % 2 == 0
            if o["kind"] == "func":
                o["mkind"] = FUNC_KINDS[(i + j) % len(FUNC_KINDS)]
                if o["mkind"] in ("int", "float32") and o["ov"] is None and rng.random() < 0.6:
                    # an operated_mapping_matrix_override of that kind: it reaches the assembly as it is (no convolution in between)
                    o["ov"] = [[S(rand_vals(rng, False)) for _ in range(o["P"])] for _ in range(n)]
                if o["mkind"] == "int":      # integral basis functions (rand_vals gives multiples of 1/4)
                    for key in ("M", "ov"):
                        if o[key] is not None: o[key] = [[S(Fraction(x) * 4) for x in r] for r in o[key]]
            if i % 2: o["reg"] = o["reg"] and rng.random() < 0.5
        yield {"op": "kinds", "ds": ds, "objs": objs, "v": v, "eps": rng.choice(["1/1024", "1/2"]), "rseed": rng.randrange(10 ** 6)}
    # the preload branches (run_preld)
    POBJ = [["rect", "func"], ["func", "rect", "func"], ["rect"], ["rect", "func", "rect"], ["rect", "rect"], ["func", "rect"]]
    for i in range(n_preld):
        while True:
            ds = rand_dataset(rng, 8, None, rng.choice(GEOMS))
            if ds["m"] is not None and n_unmasked(ds) >= 2: break
        n = n_unmasked(ds)
        objs = [rand_obj(rng, n, k) for k in POBJ[i % len(POBJ)]]
        for o in objs:
            if o["kind"] == "func" and rng.random() < 0.7: o["ov"] = None
            if i % 2: o["reg"] = o["reg"] and rng.random() < 0.5
        has_func = any(o["kind"] == "func" for o in objs)
        if len(objs) == 1: objs[0]["reg"] = True       # a single regularized object: curvature_reg_matrix adds H in place
        if has_func: combos = [["func_dicts", "mapper_diag"], ["func_dicts", "F"], ["func_dicts", "mapper_diag"], ["B", "mapper_diag"]][i % 4]
        else: combos = [["mapper_diag", "F"], ["B", "mapper_diag"], ["F", "mapper_diag"]][i % 3]
        yield {"op": "preld", "ds": ds, "objs": objs, "objs2": [twin_obj(rng, o, n) for o in objs], "combos": combos,
               "eps": rng.choice(["1/1024", "1/2"]), "rseed": rng.randrange(10 ** 6)}
    for i in range(n_util):
        for op in ("dv_blurred", "curv_mapping", "add_diag", "mirror", "wt", "curv_preload", "off_preload", "dv_wtd",
                   "off_mapper_func", "dlfm", "mapped_unique", "mapped_matrix", "dense_w"):
            yield {"op": op, "seed": rng.randrange(10 ** 9), "k": i}

# ----------------------------------------------------------------------------- Coq printing
def cmask(m): return clist([clist([cbool(b) for b in r]) for r in m])
def cqv(v): return clist([cq(x) for x in v])
def cqm(M): return clist([cqv(r) for r in M])
def cnl(v): return clist([cnat(x) for x in v])
def czm(M): return clist([clist([cz(x) for x in r]) for r in M])
def cenc(e): return f"{czm(e['du'])} {cqm([[Fraction(x) for x in r] for r in e['dw']])} {cnl(e['pl'])}"
def fm(a): return [[frac(x) for x in r] for r in np.asarray(a)]
def fv(a): return [frac(x) for x in np.asarray(a)]
def fl(M): return np.array([[float(Fraction(x)) for x in r] for r in M], dtype=float)
def flv(v): return np.array([float(Fraction(x)) for x in v], dtype=float)

# ----------------------------------------------------------------------------- building the implementation objects
def geom_of(ds):
    ps = tuple(float(Fraction(x)) for x in ds.get("ps", ["1", "1"])); org = tuple(float(Fraction(x)) for x in ds.get("origin", ["0", "0"]))
    return ps, org

def build_imaging(aa, ds, data=None):
    ps, org = geom_of(ds)
    data = aa.Array2D.no_mask(values=fl(ds["data"] if data is None else data), pixel_scales=ps, origin=org)
    noise = aa.Array2D.no_mask(values=fl(ds["noise"]), pixel_scales=ps, origin=org)
    psf = aa.Kernel2D.no_mask(values=fl(ds["K"]), pixel_scales=ps)
    return aa.Imaging(data=data, noise_map=noise, psf=psf, use_normalized_psf=False)

def build_mask(aa, ds, m=None):
    ps, org = geom_of(ds)
    return aa.Mask2D(mask=np.array(ds["m"] if m is None else m, dtype=bool), pixel_scales=ps, origin=org)

def build_dataset(aa, ds, data=None):
    mask = build_mask(aa, ds)
    return build_imaging(aa, ds, data).apply_mask(mask=mask), mask

def build_obj(aa, mask, o, n):
    """returns (linear object, exact?)"""
    reg = aa.reg.Constant(coefficient=1.0) if o["reg"] else None
    if o["kind"] == "func":
        grid = aa.Grid2D.from_mask(mask=mask)
        cls = subclasses(aa)["func"] if o.get("subclass") else aa.m.MockLinearObjFuncList
        mk = o.get("mkind", "float")
        return cls(parameters=o["P"], grid=grid, mapping_matrix=as_kind(fl(o["M"]), mk), regularization=reg,
                   operated_mapping_matrix_override=None if o["ov"] is None else as_kind(fl(o["ov"]), mk)), True
    rng = random.Random(o["subseed"])
    sub = o["sub"]
    if sub == "mixed": sub = np.array([rng.choice([1, 2, 4]) for _ in range(n)])
    over = aa.OverSamplerUniform(mask=mask, sub_size=sub)
    g = np.array(over.over_sampled_grid)
    a, b, c, d, e, f = [float(Fraction(x)) for x in o["dist"]]
    y, x = g[:, 0], g[:, 1]
    g2 = np.stack([a * y + b * x + e * x * y, c * y + d * x + f * y * y], axis=1)
    if np.ptp(g2[:, 0]) == 0 or np.ptp(g2[:, 1]) == 0: g2 = g
    sgrid = aa.Grid2DIrregular(values=g2)
    if o["kind"] == "rect":
        mesh = aa.Mesh2DRectangular.overlay_grid(grid=sgrid, shape_native=tuple(o["shape"]))
        mg = aa.MapperGrids(mask=mask, source_plane_data_grid=sgrid, source_plane_mesh_grid=mesh)
        cls = subclasses(aa)["rect"] if o.get("subclass") else aa.MapperRectangular
        return cls(mapper_grids=mg, over_sampler=over, border_relocator=None, regularization=reg), True
    y0, y1, x0, x1 = g2[:, 0].min(), g2[:, 0].max(), g2[:, 1].min(), g2[:, 1].max()
    pts = [[y0 - 0.5, x0 - 0.5], [y0 - 0.5, x1 + 0.5], [y1 + 0.5, x0 - 0.5], [y1 + 0.5, x1 + 0.5]][:rng.choice([0, 4])]
    while len(pts) < o["npts"]:
        pts.append([rng.uniform(y0 - 0.3, y1 + 0.3), rng.uniform(x0 - 0.3, x1 + 0.3)])
    mesh = aa.Mesh2DDelaunay(values=aa.Grid2DIrregular(values=pts))
    mg = aa.MapperGrids(mask=mask, source_plane_data_grid=sgrid, source_plane_mesh_grid=mesh)
    cls = subclasses(aa)["delaunay"] if o.get("subclass") else aa.MapperDelaunay
    return cls(mapper_grids=mg, over_sampler=over, border_relocator=None, regularization=reg), False

def cobj(aa, lo, o):
    """the Coq view of a linear object, read from the LIVE object (what the inversion is handed), not from its descriptor"""
    if o["kind"] == "func":
        ovv = lo.operated_mapping_matrix_override
        ov = "None" if ovv is None else f"(Some {cqm(fm(ovv))})"
        return f"(QFunc {cqm(fm(lo.mapping_matrix))} {ov} {cnat(lo.params)} {cbool(lo.regularization is not None)})"
    um = lo.unique_mappings
    du = [[int(v) for v in r] for r in np.asarray(um.data_to_pix_unique)]
    return (f"(QMapper {czm(du)} {cqm(fm(um.data_weights))} {cnl([int(v) for v in um.pix_lengths])} "
            f"{cqm(fm(lo.mapping_matrix))} {cnat(lo.params)} {cbool(lo.regularization is not None)})")

def enc_represents(lo):
    um = lo.unique_mappings; M = np.asarray(lo.mapping_matrix); E = np.zeros_like(M)
    for d in range(M.shape[0]):
        for k in range(int(um.pix_lengths[d])):
            E[d, int(um.data_to_pix_unique[d, k])] += um.data_weights[d, k]
    return bool(np.allclose(E, M, rtol=0, atol=1e-12))

def close(a, b, rtol=1e-8):
    """relative to the largest magnitude present (no absolute floor: tiny data must not hide a difference)"""
    a = np.asarray(a, dtype=float); b = np.asarray(b, dtype=float)
    if a.shape != b.shape: return False
    scale = max(float(np.max(np.abs(b))) if b.size else 0.0, float(np.max(np.abs(a))) if a.size else 0.0)
    return bool(np.all(np.abs(a - b) <= rtol * scale))

def settings_for(aa, use, eps_in, pos=False):
    kw = dict(use_w_tilde=use, use_positive_only_solver=pos)
    if eps_in is not None: kw["no_regularization_add_to_curvature_diag_value"] = float(Fraction(eps_in))
    return aa.SettingsInversion(**kw)

def digest(x):
    if x is None: return None
    if isinstance(x, (bool, int, float, str)): return repr(x)
    try:
        a = np.ascontiguousarray(np.asarray(x))
        if a.dtype != object: return hashlib.sha1(a.tobytes() + str(a.shape).encode() + str(a.dtype).encode()).hexdigest()
    except Exception: pass
    return "id:%d" % id(x)

def fingerprint(aa, dataset, los, settings, preloads=None, wts=()):
    """everything the caller handed over (letter d): arrays of the dataset, of the w_tilde objects, of the linear objects, the fields
    of the settings / preloads objects"""
    fp = {"data": digest(dataset.data), "noise_map": digest(dataset.noise_map), "kernel": digest(dataset.convolver.kernel),
          "mask": digest(dataset.data.mask)}
    for i, w in enumerate(wts):
        if w is not None:
            fp.update({f"w{i}.curvature_preload": digest(w.curvature_preload), f"w{i}.indexes": digest(w.indexes),
                       f"w{i}.lengths": digest(w.lengths), f"w{i}.noise_map_value": digest(float(w.noise_map_value))})
    for i, lo in enumerate(los):
        fp[f"obj{i}.mapping_matrix"] = digest(lo.mapping_matrix)
        fp[f"obj{i}.override"] = digest(lo.operated_mapping_matrix_override)
        if hasattr(lo, "unique_mappings") and not isinstance(lo, aa.m.MockLinearObjFuncList):
            um = lo.unique_mappings
            fp.update({f"obj{i}.data_to_pix_unique": digest(um.data_to_pix_unique), f"obj{i}.data_weights": digest(um.data_weights),
                       f"obj{i}.pix_lengths": digest(um.pix_lengths)})
    for k, v in sorted(vars(settings).items()): fp["settings." + k] = digest(v)
    if preloads is not None:
        for k, v in sorted(vars(preloads).items()):
            if k != "w_tilde": fp["preloads." + k] = digest(v)
            else: fp["preloads.w_tilde"] = "id:%d" % id(v)       # (its arrays are among [wts])
    return fp

def fp_diff(a, b): return sorted(k for k in a if a[k] != b.get(k))


# ----------------------------------------------------------------------------- input kinds, subclasses, shared default objects (f, g)
def as_kind(a, kind):
    """the same VALUES handed over as another kind of input: integer-typed / float32 (only where every value is exactly representable,
    else unchanged), nested Python lists, Fortran-ordered, a strided view into a larger array, a read-only array"""
    a = np.asarray(a, dtype=float)
    if kind == "int" and np.all(a == np.round(a)): return a.astype(int)
    if kind == "float32" and np.array_equal(a.astype(np.float32).astype(float), a): return a.astype(np.float32)
    if kind == "list": return a.tolist()
    if kind == "fortran": return np.asfortranarray(a)
    if kind == "view":
        big = np.full(tuple(2 * k + 1 for k in a.shape), 7.5)
        v = big[tuple(slice(1, 2 * k + 1, 2) for k in a.shape)]; v[...] = a
        return v
    return a.copy()
ARRAY_KINDS = ["float", "int", "list", "float32", "fortran", "view"]
FUNC_KINDS = ["float", "int", "float32", "fortran", "view"]

_SUB = {}
def subclasses(aa):
    """trivial subclasses of the accepted classes (dispatch on type(x) instead of isinstance, a registry keyed by class)"""
    if not _SUB:
        class SubImaging(aa.Imaging): pass
        class SubArray2D(aa.Array2D): pass
        class SubKernel2D(aa.Kernel2D): pass
        class SubMapperRectangular(aa.MapperRectangular): pass
        class SubMapperDelaunay(aa.MapperDelaunay): pass
        class SubFuncList(aa.m.MockLinearObjFuncList): pass
        class SubSettings(aa.SettingsInversion): pass
        class SubPreloads(aa.Preloads): pass
        class SubInterface(aa.DatasetInterface): pass
        _SUB.update(Imaging=SubImaging, Array2D=SubArray2D, Kernel2D=SubKernel2D, rect=SubMapperRectangular, delaunay=SubMapperDelaunay,
                    func=SubFuncList, Settings=SubSettings, Preloads=SubPreloads, Interface=SubInterface)
    return _SUB

def deep_digest(x, depth=0):
    if isinstance(x, np.ndarray) or hasattr(x, "__array__"): return digest(x)
    if isinstance(x, dict): return {str(k if isinstance(k, (str, int)) else i): deep_digest(v, depth + 1) for i, (k, v) in enumerate(x.items())}
    if isinstance(x, (list, tuple)): return [deep_digest(v, depth + 1) for v in x]
    if hasattr(x, "__dict__") and depth < 3: return {k: deep_digest(v, depth + 1) for k, v in sorted(vars(x).items())}
    return digest(x)

def default_objects(aa):
    """the objects created ONCE in the signatures of the anchored functions (settings=SettingsInversion(), preloads=Preloads(),
    over_sampling=OverSamplingDataset()): shared by every call of the process that leaves the argument out"""
    from autoarray.inversion.inversion import factory, inversion_util as iu
    from autoarray.inversion.inversion.abstract import AbstractInversion
    from autoarray.inversion.inversion.imaging.abstract import AbstractInversionImaging
    from autoarray.dataset.abstract.dataset import AbstractDataset
    fns = [factory.inversion_from, factory.inversion_imaging_from, AbstractInversion.__init__, AbstractInversionImaging.__init__,
           aa.InversionImagingMapping.__init__, aa.InversionImagingWTilde.__init__, iu.curvature_matrix_via_mapping_matrix_from,
           iu.reconstruction_positive_only_from, aa.Imaging.__init__, aa.Imaging.apply_over_sampling, aa.Imaging.from_fits.__func__,
           AbstractDataset.__init__]
    out = {}
    for f in fns:
        for k, v in enumerate(getattr(f, "__defaults__", None) or ()):
            if hasattr(v, "__dict__") and not isinstance(v, type): out[f"{f.__qualname__}#{k}"] = v
    return out

def defaults_fp(aa):
    return {k: repr(deep_digest(v)) + "@%d" % id(v) for k, v in default_objects(aa).items()}

QNAMES = {"B": "operated_mapping_matrix", "D": "data_vector", "F": "curvature_matrix", "FR": "curvature_reg_matrix"}
def rand_reads(rrng):
    """operated_mapping_matrix, data_vector, curvature_matrix each at least once, curvature_reg_matrix / reconstruction in between,
    repeats; often curvature_matrix again AFTER curvature_reg_matrix"""
    qs = ["B", "D", "F"] + [rrng.choice(["B", "D", "F", "F", "FR", "FR", "Rec"]) for _ in range(rrng.randint(1, 4))]
    rrng.shuffle(qs)
    if rrng.random() < 0.6: qs += [rrng.choice(["FR", "Rec"]), "F"] + (["FR"] if rrng.random() < 0.5 else []) + (["D"] if rrng.random() < 0.3 else [])
    return qs

def do_reads(inv, qs):
    outs = []
    for q in qs:
        if q == "Rec":
            try: inv.reconstruction
            except Exception: pass         # singular / degenerate systems are C05's: data_vector and curvature_reg_matrix are read before
            outs.append(None)
        else: outs.append(np.array(getattr(inv, QNAMES[q])))     # a COPY taken at the time of the read
    return outs

def crouts(qs, outs):
    ts = []
    for q, o in zip(qs, outs):
        if q == "Rec": ts.append("(@OutNone QOps)")
        elif q == "D": ts.append(f"(@OutV QOps {cqv(fv(o))})")
        else: ts.append(f"(@OutM QOps {cqm(fm(o))})")
    return clist(ts)
def crqs(qs): return clist([{"B": "RB", "D": "RD", "F": "RF", "FR": "RFR", "Rec": "RRec"}[q] for q in qs])

EXACT_EXTS = (None, "zero_data", "flat", "zero", "neg")
def run_inv(aa, inp):
    ds = inp["ds"]; m = ds["m"]; K = [[Fraction(v) for v in r] for r in ds["K"]]
    dataset, mask = build_dataset(aa, ds)
    n = int(mask.pixels_in_mask)
    built = [build_obj(aa, mask, o, n) for o in inp["objs"]]
    los = [b[0] for b in built]
    eps_in = inp["eps"]; ext = inp.get("ext")
    exact = all(b[1] for b in built) and (eps_in is not None or all(o["reg"] for o in inp["objs"])) and ext in EXACT_EXTS
    tol = Fraction(0) if exact else Fraction(1, 10 ** 9)
    d = fv(dataset.data); s = fv(dataset.noise_map)
    cobjs = clist([cobj(aa, lo, o) for lo, o in zip(los, inp["objs"])])
    kinds = "+".join(o["kind"] for o in inp["objs"])
    tally("objs:" + kinds); tally(f"psf:{len(K)}x{len(K[0])}"); tally("signed_psf" if any(v < 0 for r in K for v in r) else "nonneg_psf")
    tally("exact" if exact else "tolerance"); tally("ext:" + str(ext)); tally("geom:" + ("unit" if "ps" not in ds else "x".join(ds["ps"])))
    has_mapper = any(o["kind"] != "func" for o in inp["objs"])
    # (h) rare states of the assembly, tallied (the evidence shows how often the generators reach them)
    for lo, o in zip(los, inp["objs"]):
        if o["kind"] != "func":
            Mm = np.asarray(lo.mapping_matrix)
            if np.any(np.all(Mm == 0, axis=0)): tally("state:mapper_pixel_without_data")
            if lo.params == 1: tally("state:mapper_with_one_pixel")
            if np.any(np.asarray(lo.unique_mappings.pix_lengths) == 1): tally("state:data_pixel_in_one_source_pixel")
    un = [(y, x) for y in range(len(m)) for x in range(len(m[0])) if not m[y][x]]
    in_range = sum(1 for a in range(n) for b in range(a, n) if abs(un[a][0] - un[b][0]) <= 2 * (len(K) // 2) and abs(un[a][1] - un[b][1]) <= 2 * (len(K[0]) // 2))
    if has_mapper:
        if int(np.sum(dataset.w_tilde.lengths)) < in_range: tally("state:preload_drops_zero_overlap_inside_range")
        if np.any(np.asarray(dataset.w_tilde.curvature_preload) < 0): tally("state:negative_overlap_in_preload")
        if np.any(np.asarray(dataset.w_tilde.lengths) == 0): tally("state:preload_row_empty")
    kinds_l = [o["kind"] != "func" for o in inp["objs"]]
    if len(kinds_l) == 3 and kinds_l[0] and not kinds_l[1] and kinds_l[2]: tally("state:function_list_between_two_mappers")
    if sum(kinds_l) == 3: tally("state:three_mappers")
    rrng = random.Random(inp["rseed"])
    terms, outs, detail = [], {}, {}
    py_ok = True
    for lo in los:
        if hasattr(lo, "unique_mappings") and not isinstance(lo, aa.m.MockLinearObjFuncList):
            if not enc_represents(lo): py_ok = False; detail["encoding"] = "unique mappings do not represent mapping_matrix"
    hdr = f"{cmask(m)} {cqm(K)}"
    res = {}
    qs = rand_reads(rrng)
    for use in (False, True):
        settings = settings_for(aa, use, eps_in)
        fp0 = fingerprint(aa, dataset, los, settings, wts=[dataset.w_tilde])
        # the regularization matrix, from a twin instance (the instance under observation is only touched by the reads below)
        H = np.array(aa.Inversion(dataset=dataset, linear_obj_list=los, settings=settings).regularization_matrix)
        # the observed instance sometimes runs with the library's default positive-only solver (its reconstruction reads
        # curvature_reg_matrix / data_vector along another path; the values of B, D, F do not depend on it)
        pos = rrng.random() < 0.3
        inv = aa.Inversion(dataset=dataset, linear_obj_list=los, settings=settings_for(aa, use, eps_in, pos) if pos else settings)
        if pos: tally("positive_only_solver")
        is_wt = isinstance(inv, aa.InversionImagingWTilde)
        tally("class_as_modelled" if is_wt == (use and has_mapper) else "class_differs_from_model")
        eps = frac(settings.no_regularization_add_to_curvature_diag_value)
        # ONE instance, its cached properties read in a random order with repeats (curvature_matrix again after
        # curvature_reg_matrix / reconstruction): every read is judged by the cell model and by the specification
        o_ = do_reads(inv, qs)
        first = {q: v for q, v in reversed(list(zip(qs, o_)))}
        B, D, F = first["B"], first["D"], first["F"]
        P = B.shape[1]
        terms.append(f"(KSeq {hdr} {cqv(d)} {cqv(s)} {cobjs} {cbool(is_wt)} {cq(eps)} {cq(tol)} {cqm(fm(H))} {crqs(qs)} {crouts(qs, o_)})")
        # mapped_reconstructed_data of the same instance for an injected integer reconstruction (cached_property slot)
        r = [Fraction(rrng.randint(-4, 4)) for _ in range(P)] if use is False else res[False]["r"]
        inv.__dict__["reconstruction"] = flv(r); inv.__dict__.pop("mapped_reconstructed_data", None)
        mapped = np.array(inv.mapped_reconstructed_data)
        terms.append(f"(KMapped {hdr} {cnat(n)} {cobjs} {cbool(is_wt)} {cq(tol)} {cqv(r)} {cqv(fv(mapped))})")
        # the solved reconstruction (C05's), only for the comparison of the two formalisms
        rec = None
        try:
            inv3 = aa.Inversion(dataset=dataset, linear_obj_list=los, settings=settings)
            cond = np.linalg.cond(np.array(inv3.curvature_reg_matrix))
            if np.isfinite(cond) and cond < 1e6:
                inv3 = aa.Inversion(dataset=dataset, linear_obj_list=los, settings=settings)
                rec = np.array(inv3.reconstruction); recmapped = np.array(inv3.mapped_reconstructed_data)
        except Exception as e:   # singular systems, degenerate solutions: C05
            rec = None
        ch = fp_diff(fp0, fingerprint(aa, dataset, los, settings, wts=[dataset.w_tilde]))
        if ch: py_ok = False; detail["inputs_modified"] = ch
        res[use] = dict(is_wt=is_wt, B=B, D=D, F=F, mapped=mapped, r=r, rec=rec, recmapped=None if rec is None else recmapped)
        outs[str(use)] = {"class": type(inv).__name__, "reads": qs, "D": D.tolist(), "F": F.tolist()}
    a, b = res[False], res[True]
    tally("class:" + ("wtilde" if b["is_wt"] else "mapping") + "(use_w_tilde=True)")
    if has_mapper and not b["is_wt"]:
        # whatever the factory chose, the w-tilde class itself is compared with the mapping formalism
        st = settings_for(aa, True, eps_in)
        iw = aa.InversionImagingWTilde(dataset=dataset, w_tilde=dataset.w_tilde, linear_obj_list=los, settings=st)
        b = dict(b, D=np.array(iw.data_vector), F=np.array(iw.curvature_matrix))
        terms.append(f"(KInv {hdr} {cqv(d)} {cqv(s)} {cobjs} true {cq(frac(st.no_regularization_add_to_curvature_diag_value))} {cq(tol)} "
                     f"{cqm(fm(iw.operated_mapping_matrix))} {cqv(fv(b['D']))} {cqm(fm(b['F']))})")
    if inp.get("k", 0) % 3 == 0:
        # the library's defaults: no settings / preloads argument, i.e. the SHARED default SettingsInversion() and Preloads() objects of
        # the factory's signature (anything remembered in them is carried from one dataset of this process to the next)
        invd = aa.Inversion(dataset=dataset, linear_obj_list=los)
        epsd = frac(invd.settings.no_regularization_add_to_curvature_diag_value)
        told = tol if all(o["reg"] for o in inp["objs"]) else Fraction(1, 10 ** 9)
        terms.append(f"(KInv {hdr} {cqv(d)} {cqv(s)} {cobjs} {cbool(isinstance(invd, aa.InversionImagingWTilde))} {cq(epsd)} {cq(told)} "
                     f"{cqm(fm(invd.operated_mapping_matrix))} {cqv(fv(invd.data_vector))} {cqm(fm(invd.curvature_matrix))})")
        tally("default_settings_and_preloads")
    if ext in EXACT_EXTS:      # (with scaled columns the Coq comparison, which is relative to each column's scale, is the judge)
        for key in ("B", "D", "F", "mapped"):
            if not close(a[key], b[key]): py_ok = False; detail["formalisms_differ"] = key
        for r_ in (a, b):
            if not close(r_["F"], r_["F"].T, 1e-12): py_ok = False; detail["asymmetric"] = True
    if a["rec"] is not None and b["rec"] is not None:
        tally("reconstruction_compared")
        if not close(a["rec"], b["rec"], 1e-6) or not close(a["recmapped"], b["recmapped"], 1e-6):
            py_ok = False; detail["formalisms_differ"] = "reconstruction"
    else: tally("reconstruction_skipped_ill_conditioned")
    nontrivial = n >= 2 and sum(1 for r in K for v in r if v != 0) > 1
    return dict(coq=terms[0], extra_coq=terms[1:], out=outs, py_ok=py_ok, nontrivial=nontrivial, kind="inv:" + kinds, detail=detail)

def run_sess(aa, inp):
    """a history in one process on SHARED objects (letters a-d): one Imaging, one settings object per formalism, one list of linear
    objects, used for several inversions between which the caller swaps the objects / the data / the w_tilde carrier, edits arrays in
    place or derives datasets; every inversion is judged by the model + specification on the values of the dataset ACTUALLY passed in
    (read from the objects at that moment); the caller's arrays and settings are fingerprinted around every inversion."""
    ds = inp["ds"]
    A, mask = build_dataset(aa, ds)
    n = int(mask.pixels_in_mask)
    objs = inp["objs"]
    los = [build_obj(aa, mask, o, n)[0] for o in objs]
    eps_in = inp["eps"]; rrng = random.Random(inp["rseed"])
    st = {use: settings_for(aa, use, eps_in) for use in (False, True)}
    terms, outs, detail = [], {}, {}
    py = {"ok": True}
    def observe(label, dataset, los_, descs, preloads=None, sw=None, wts=(), uses=(False, True), defaults=None):
        mq = [[bool(b) for b in r] for r in np.array(dataset.data.mask)]
        Kq = fm(np.array(dataset.convolver.kernel.native))
        d = fv(dataset.data); s = fv(dataset.noise_map); sw_ = s if sw is None else sw
        for use in uses:
            cobjs = clist([cobj(aa, lo, o) for lo, o in zip(los_, descs)])
            fp0 = fingerprint(aa, dataset, los_, st[use], preloads, wts)
            kw = {} if preloads is None else {"preloads": preloads}
            try:
                if defaults == "factory":
                    # no settings / preloads argument: the SHARED default objects of the factory's signature
                    inv = aa.Inversion(dataset=dataset, linear_obj_list=los_)
                elif defaults == "class":
                    # the classes themselves without settings / preloads (InversionImagingWTilde: preloads=Preloads() in the signature)
                    inv = (aa.InversionImagingWTilde(dataset=dataset, w_tilde=dataset.w_tilde, linear_obj_list=los_) if use
                           else aa.InversionImagingMapping(dataset=dataset, linear_obj_list=los_))
                else:
                    inv = aa.Inversion(dataset=dataset, linear_obj_list=los_, settings=st[use], **kw)
                is_wt = isinstance(inv, aa.InversionImagingWTilde)
                B, D, F = np.array(inv.operated_mapping_matrix), np.array(inv.data_vector), np.array(inv.curvature_matrix)
                out = f"(Some ({cqm(fm(B))}, {cqv(fv(D))}, {cqm(fm(F))}))"
                outs[f"{label}:{use}"] = {"class": type(inv).__name__, "D": D.tolist(), "F": F.tolist()}
            except aa.exc.InversionException as e:
                is_wt = True; out = "None"; outs[f"{label}:{use}"] = "InversionException"
            eps = frac((aa.SettingsInversion() if defaults else st[use]).no_regularization_add_to_curvature_diag_value)
            tol_ = Fraction(1, 10 ** 9) if defaults and not all(o["reg"] for o in descs) else Fraction(0)
            terms.append(f"(KInvW {cmask(mq)} {cqm(Kq)} {cqv(d)} {cqv(s)} {cqv(sw_)} {cobjs} {cbool(is_wt)} {cq(eps)} {cq(tol_)} {out})")
            ch = fp_diff(fp0, fingerprint(aa, dataset, los_, st[use], preloads, wts))
            if ch: py["ok"] = False; detail["inputs_modified:" + label] = ch
            tally("sess:" + label)
    wA = A.w_tilde
    observe("base", A, los, objs, wts=[wA])
    for step in inp["steps"]:
        if step == "objs2":
            # the same dataset and settings with other objects of the same kinds and shapes, then the first list again
            los2 = [build_obj(aa, mask, o, n)[0] for o in inp["objs2"]]
            observe("objs2", A, los2, inp["objs2"], wts=[wA])
            observe("objs_again", A, los, objs, wts=[wA], uses=(True,))
        elif step == "iface":
            # model-subtracted data handed over through a DatasetInterface that carries the Imaging's convolver and w_tilde
            sub = aa.Array2D(values=np.array(inp["d2"], dtype=float), mask=mask)
            DI = aa.DatasetInterface(data=A.data - sub, noise_map=A.noise_map, convolver=A.convolver, w_tilde=A.w_tilde, grids=A.grids)
            observe("iface", DI, los, objs, wts=[wA])
            observe("after_iface", A, los, objs, wts=[wA], uses=(True,))
        elif step == "preload":
            # Preloads(w_tilde=...) made by an Imaging with the same mask / noise map / psf and OTHER data
            A3, _ = build_dataset(aa, ds, data=inp["d3"])
            pl = aa.Preloads(w_tilde=A3.w_tilde, use_w_tilde=True)
            observe("preload", A, los, objs, preloads=pl, wts=[wA, A3.w_tilde])
            observe("preload_off", A, los, objs, preloads=aa.Preloads(use_w_tilde=False), wts=[wA], uses=(True,))
            # the SAME Preloads object again after the data were edited in place (nothing remembered in it may be used for the data)
            j = rrng.randrange(n); A.data[j] = float(A.data[j]) + 6.0
            observe("preload_again", A, los, objs, preloads=pl, wts=[wA, A3.w_tilde], uses=(True,))
        elif step == "edit_data":
            # the caller edits the data in place between two inversions on the same dataset object
            j = rrng.randrange(n); A.data[j] = float(A.data[j]) + rrng.choice([-7.0, 5.0, 11.0])
            observe("edit_data", A, los, objs, wts=[wA])
        elif step == "edit_func":
            # the caller edits a basis function (plain attribute of the function list) in place between two inversions
            fs = [lo for lo, o in zip(los, objs) if o["kind"] == "func"]
            if fs:
                lo = rrng.choice(fs); tgt = lo.mapping_matrix if lo.operated_mapping_matrix_override is None else lo.operated_mapping_matrix_override
                tgt[rrng.randrange(tgt.shape[0]), rrng.randrange(tgt.shape[1])] += 3.0
            else:
                j = rrng.randrange(n); A.data[j] = float(A.data[j]) - 4.0
            observe("edit_func", A, los, objs, wts=[wA])
        elif step == "ds2":
            # the same linear objects and settings with another dataset on the same mask (other psf, noise map, data)
            B2, _ = build_dataset(aa, inp["ds2"])
            observe("ds2", B2, los, objs, wts=[B2.w_tilde, wA])
            observe("after_ds2", A, los, objs, wts=[wA], uses=(True,))
        elif step == "iface_noise0":
            # a scaled noise map (derived by arithmetic) with the Imaging's w_tilde: check_noise_map must refuse the w-tilde class;
            # the mapping formalism gives the normal equations of the scaled noise map
            DI = aa.DatasetInterface(data=A.data, noise_map=A.noise_map * 2.0, convolver=A.convolver, w_tilde=A.w_tilde, grids=A.grids)
            observe("iface_noise0", DI, los, objs, sw=fv(A.noise_map), wts=[wA])
        elif step == "remask":
            # a dataset DERIVED by a second apply_mask (one pixel fewer) after convolver / w_tilde of the first were used
            un = [(y, x) for y in range(len(ds["m"])) for x in range(len(ds["m"][0])) if not ds["m"][y][x]]
            j = rrng.randrange(n)
            m2 = [list(r) for r in ds["m"]]; m2[un[j][0]][un[j][1]] = True
            mask2 = build_mask(aa, ds, m2)
            A2 = A.apply_mask(mask=mask2)
            descs = []
            for o in objs:
                o2 = dict(o)
                if o["kind"] == "func":
                    o2["M"] = [r for k, r in enumerate(o["M"]) if k != j]
                    o2["ov"] = None if o["ov"] is None else [r for k, r in enumerate(o["ov"]) if k != j]
                descs.append(o2)
            los_r = [build_obj(aa, mask2, o, n - 1)[0] for o in descs]
            observe("remask", A2, los_r, descs, wts=[A2.w_tilde, wA])
        elif step == "derived":
            # (b) the parts of the dataset handed over as DERIVED structures with the same values: copies, deep copies, results of
            # arithmetic, the slim view of a natively stored array, the slim view of the native view
            import copy as _copy
            routes = {"copy": _copy.copy, "deepcopy": _copy.deepcopy, "times_one": lambda a: a * 1.0, "plus_zero": lambda a: a + 0.0,
                      "native_slim": lambda a: a.native.slim,
                      "slim_of_stored_native": lambda a: aa.Array2D(values=np.array(a.native), mask=a.mask, store_native=True).slim,
                      "minus_minus": lambda a: -(-a)}
            names = sorted(routes); r1, r2 = rrng.choice(names), rrng.choice(names)
            tally("derived:" + r1); tally("derived:" + r2)
            DI = aa.DatasetInterface(data=routes[r1](A.data), noise_map=routes[r2](A.noise_map), convolver=A.convolver, w_tilde=A.w_tilde, grids=A.grids)
            observe("derived", DI, los, objs, wts=[wA])
            observe("after_derived", A, los, objs, wts=[wA], uses=(True,))
        elif step == "defaults":
            # calls that leave settings / preloads out share ONE SettingsInversion() / Preloads() object per signature for the whole
            # process: first dataset, then another dataset on the same mask (other psf / noise / data), then the first again, through
            # the factory and through the two classes; nothing of one call may be remembered for the next
            B2, _ = build_dataset(aa, inp["ds2"])
            has_mapper = any(o["kind"] != "func" for o in objs)
            observe("defaults", A, los, objs, wts=[wA], uses=(True,), defaults="factory")
            observe("defaults_ds2", B2, los, objs, wts=[B2.w_tilde, wA], uses=(True,), defaults="factory")
            observe("defaults_class", A, los, objs, wts=[wA], uses=(False, True) if has_mapper else (False,), defaults="class")
            if has_mapper: observe("defaults_class_ds2", B2, los, objs, wts=[B2.w_tilde, wA], uses=(True,), defaults="class")
            # Imaging.apply_over_sampling() without argument: the shared default OverSamplingDataset() of its signature
            A6 = A.apply_over_sampling()
            observe("defaults_over_sampling", A6, los, objs, wts=[A6.w_tilde, wA], uses=(True,), defaults="factory")
            observe("defaults_again", A, los, objs, wts=[wA], uses=(True,), defaults="factory")
        elif step == "oversampling":
            A4 = A.apply_over_sampling(over_sampling=aa.OverSamplingDataset(uniform=aa.OverSamplingUniform(sub_size=2),
                                                                           pixelization=aa.OverSamplingUniform(sub_size=2)))
            observe("oversampling", A4, los, objs, wts=[A4.w_tilde, wA])
        else: raise ValueError(step)
    kinds = "+".join(o["kind"] for o in objs)
    return dict(coq=terms[0], extra_coq=terms[1:], out=outs, py_ok=py["ok"], nontrivial=True,
                kind="sess:" + kinds + ":" + ",".join(inp["steps"]), detail=detail)


# ----------------------------------------------------------------------------- input kinds / constructor paths / subclasses / entry points
def slim_of(ds, key): return [Fraction(ds[key][y][x]) for y in range(len(ds["m"])) for x in range(len(ds["m"][0])) if not ds["m"][y][x]]

def build_dataset_k(aa, ds, v):
    """the dataset of descriptor [ds] along the constructor path and with the input kinds of the variant [v]"""
    sub = subclasses(aa)
    ps, org = geom_of(ds)
    kps = tuple(float(Fraction(x)) for x in v["psf_ps"]) if v.get("psf_ps") else ps
    D = as_kind(fl(ds["data"]), v["data_kind"]); N = as_kind(fl(ds["noise"]), v["noise_kind"]); Kk = as_kind(fl(ds["K"]), v["psf_kind"])
    psf = (sub["Kernel2D"] if v["sub_struct"] else aa.Kernel2D).no_mask(values=Kk, pixel_scales=kps)
    Icls = sub["Imaging"] if v["sub_dataset"] else aa.Imaging
    mask = build_mask(aa, ds)
    c = v["construct"]
    if c in ("masked_arrays", "interface"):
        # Imaging made from arrays that carry the mask already (no apply_mask); DatasetInterface carrying its parts
        Acls = sub["Array2D"] if v["sub_struct"] else aa.Array2D
        A = Icls(data=Acls(values=D, mask=mask), noise_map=Acls(values=N, mask=mask), psf=psf, use_normalized_psf=False)
        if c == "interface":
            DIcls = sub["Interface"] if v["sub_dataset"] else aa.DatasetInterface
            return DIcls(data=A.data, noise_map=A.noise_map, convolver=A.convolver, w_tilde=A.w_tilde, grids=A.grids), mask
        return A, mask
    if c == "from_fits":
        # the constructor classmethod: three FITS files written by output_to_fits, read back (psf normalized: no other choice there)
        import tempfile, shutil, os
        tmp = tempfile.mkdtemp(prefix="c04_fits_")
        try:
            A0 = aa.Imaging(data=aa.Array2D.no_mask(values=D, pixel_scales=ps, origin=org), noise_map=aa.Array2D.no_mask(values=N, pixel_scales=ps, origin=org),
                            psf=psf, use_normalized_psf=False)
            paths = {k: os.path.join(tmp, k + ".fits") for k in ("data", "noise_map", "psf")}
            A0.output_to_fits(data_path=paths["data"], psf_path=paths["psf"], noise_map_path=paths["noise_map"], overwrite=True)
            A = Icls.from_fits(pixel_scales=ps, data_path=paths["data"], noise_map_path=paths["noise_map"], psf_path=paths["psf"])
        finally: shutil.rmtree(tmp, ignore_errors=True)
        return A.apply_mask(mask=mask), mask
    nkw = {} if c == "normalized" else {"use_normalized_psf": False}
    A = Icls(data=aa.Array2D.no_mask(values=D, pixel_scales=ps, origin=org), noise_map=aa.Array2D.no_mask(values=N, pixel_scales=ps, origin=org),
             psf=psf, **nkw)
    if c == "apply_mask_twice":
        # first ANOTHER mask (every other admissible pixel: some pixels of the real mask are masked in it, others not; its convolver and
        # w_tilde used), then the real mask: the values must come from the unmasked dataset, not from the first masked one
        kh, kw = len(ds["K"]), len(ds["K"][0]); H, W = len(ds["m"]), len(ds["m"][0])
        m1 = [[not (kh // 2 <= y < H - kh // 2 and kw // 2 <= x < W - kw // 2 and (y + x) % 2 == 0) for x in range(W)] for y in range(H)]
        if all(all(r_) for r_ in m1): m1[kh // 2][kw // 2] = False
        A = A.apply_mask(mask=build_mask(aa, ds, m1)); A.convolver; A.w_tilde
    return A.apply_mask(mask=mask), mask

def run_kinds(aa, inp):
    """letters (f), (g) and the sibling entry points: the same VALUES handed over as other kinds of input (integer / float32 / list /
    Fortran-ordered / strided arrays for data, noise map, psf, basis functions), through other constructor paths (Imaging from masked
    arrays, a second apply_mask, DatasetInterface), with trivial SUBCLASSES of Imaging / Array2D / Kernel2D / the mappers / the function
    list / SettingsInversion / Preloads / DatasetInterface, a psf whose pixel scales differ from the data's, settings fields that only
    the interferometer classes read switched on, through aa.Inversion (keywords / positional), factory.inversion_imaging_from and the two
    classes constructed directly; judged on the DESCRIPTOR's values (what the caller wrote down), exactly.  Then, per formalism, the
    per-object dictionaries for an injected reconstruction: mapped_reconstructed_data_dict[obj_i] = B_i r_i (the model with r restricted
    to object i), keys in object order, mapped_reconstructed_data / mapped_reconstructed_image = their sum, reconstruction_dict = the
    slices of r, data_subtracted_dict[obj_i] = data - sum of the OTHER objects' mapped data."""
    from autoarray.inversion.inversion import factory
    ds = inp["ds"]; v = inp["v"]; m = ds["m"]; K = [[Fraction(x) for x in r] for r in ds["K"]]
    sub = subclasses(aa)
    dataset, mask = build_dataset_k(aa, ds, v)
    n = int(mask.pixels_in_mask)
    los = [build_obj(aa, mask, o, n)[0] for o in inp["objs"]]
    d = slim_of(ds, "data"); s = slim_of(ds, "noise")
    tol = Fraction(0)
    if v["construct"] in ("normalized", "from_fits"):
        # the kernel in force is the descriptor's divided by its sum (doubles): the live kernel, checked against that, enters the model
        Kl = np.array(dataset.psf.native); Kd = fl(ds["K"])
        if not np.allclose(Kl, Kd / Kd.sum(), rtol=1e-12, atol=0): raise AssertionError("psf in force is not the normalized kernel")
        K = fm(Kl); tol = Fraction(1, 10 ** 9)
    hdr = f"{cmask(m)} {cqm(K)}"
    cobjs = clist([cobj(aa, lo, o) for lo, o in zip(los, inp["objs"])])
    has_mapper = any(o["kind"] != "func" for o in inp["objs"])
    kinds = "+".join(o["kind"] for o in inp["objs"])
    for k in ("data_kind", "noise_kind", "psf_kind", "construct", "entry"): tally(f"kinds:{k}={v[k]}")
    for k in ("sub_struct", "sub_dataset", "sub_settings", "psf_ps", "extra_settings"):
        if v.get(k): tally(f"kinds:{k}")
    terms, outs, detail = [], {}, {}
    py_ok = True
    rrng = random.Random(inp["rseed"])
    Scls = sub["Settings"] if v["sub_settings"] else aa.SettingsInversion
    r = None
    for use in (False, True):
        kw = dict(use_w_tilde=use, use_positive_only_solver=False, no_regularization_add_to_curvature_diag_value=float(Fraction(inp["eps"])))
        if v.get("extra_settings"): kw.update(use_w_tilde_numpy=True, use_source_loop=True, use_linear_operators=True)
        st = Scls(**kw)
        fp0 = fingerprint(aa, dataset, los, st, wts=[dataset.w_tilde])
        e = v["entry"]
        if e == "imaging_from": inv = factory.inversion_imaging_from(dataset=dataset, linear_obj_list=los, settings=st)
        elif e == "class":
            inv = (aa.InversionImagingWTilde(dataset=dataset, w_tilde=dataset.w_tilde, linear_obj_list=los, settings=st) if use and has_mapper
                   else aa.InversionImagingMapping(dataset=dataset, linear_obj_list=los, settings=st))
        elif e == "positional": inv = aa.Inversion(dataset, los, st)
        elif e == "preloads": inv = aa.Inversion(dataset=dataset, linear_obj_list=los, settings=st, preloads=sub["Preloads"]())
        else: inv = aa.Inversion(dataset=dataset, linear_obj_list=los, settings=st)
        is_wt = isinstance(inv, aa.InversionImagingWTilde)
        tally("class_as_modelled" if is_wt == (use and has_mapper) else "class_differs_from_model")
        B, D, F = np.array(inv.operated_mapping_matrix), np.array(inv.data_vector), np.array(inv.curvature_matrix)
        eps = Fraction(inp["eps"])
        terms.append(f"(KInv {hdr} {cqv(d)} {cqv(s)} {cobjs} {cbool(is_wt)} {cq(eps)} {cq(tol)} {cqm(fm(B))} {cqv(fv(D))} {cqm(fm(F))})")
        # the per-object views of one injected reconstruction
        P = B.shape[1]
        if r is None: r = [Fraction(2 * rrng.randint(-9, 8) + 1, 8) for _ in range(P)]      # odd eighths: an integer-typed buffer truncates
        inv.__dict__["reconstruction"] = flv(r)
        dct = inv.mapped_reconstructed_data_dict
        if [id(k) for k in dct.keys()] != [id(lo) for lo in los]: py_ok = False; detail[f"dict_keys:{use}"] = "not the objects in order"
        rd = inv.reconstruction_dict
        parts, start = [], 0
        for i, lo in enumerate(los):
            ri = [x if start <= j < start + lo.params else Fraction(0) for j, x in enumerate(r)]
            part = np.array(dct[lo]); parts.append(part)
            terms.append(f"(KMapped {hdr} {cnat(n)} {cobjs} {cbool(is_wt)} {cq(tol)} {cqv(ri)} {cqv(fv(part))})")
            if not np.array_equal(np.array(rd[lo]), flv(r[start:start + lo.params])): py_ok = False; detail[f"reconstruction_dict:{use}"] = i
            start += lo.params
        total = np.array(inv.mapped_reconstructed_data)
        if not close(total, sum(parts), 1e-12): py_ok = False; detail[f"mapped_sum:{use}"] = "mapped_reconstructed_data is not the sum of the dict"
        if not close(np.array(inv.mapped_reconstructed_image), sum(parts), 1e-12): py_ok = False; detail[f"mapped_image:{use}"] = "differs"
        dsub = inv.data_subtracted_dict
        for i, lo in enumerate(los):
            want = flv(d) - sum([p_ for j, p_ in enumerate(parts) if j != i], np.zeros(n))
            if not close(np.array(dsub[lo]), want, 1e-12): py_ok = False; detail[f"data_subtracted:{use}"] = i
        ch = fp_diff(fp0, fingerprint(aa, dataset, los, st, wts=[dataset.w_tilde]))
        if ch: py_ok = False; detail[f"inputs_modified:{use}"] = ch
        outs[str(use)] = {"class": type(inv).__name__, "D": D.tolist(), "F": F.tolist()}
    nontrivial = n >= 2 and sum(1 for r_ in K for x in r_ if x != 0) > 1
    return dict(coq=terms[0], extra_coq=terms[1:], out=outs, py_ok=py_ok, nontrivial=nontrivial, kind="kinds:" + kinds, detail=detail)

# ----------------------------------------------------------------------------- the preload branches of the two classes
PRELD_COMBOS = ["B", "F", "func_dicts", "mapper_diag"]
def preload_arrays(pl):
    out = {}
    for k, v in sorted(vars(pl).items()):
        if v is None or k in ("w_tilde", "use_w_tilde"): continue
        if isinstance(v, dict):
            for i, a in enumerate(v.values()): out[f"preloads.{k}[{i}]"] = digest(a)
        else: out["preloads." + k] = digest(v)
    return out

def run_preld(aa, inp):
    """the branches of the two classes that take a quantity from the Preloads object instead of computing it (anchored
    w_tilde.py / mapping.py / abstract.py), used as the library uses them: the quantities come from a first inversion (inversion_0) on the
    same dataset, the second inversion has the same linear objects -- or, for the mapper-only preloads (curvature_matrix_mapper_diag,
    data_vector_mapper, mapper_operated_mapping_matrix_dict), the same mappers and OTHER function lists.  The result must still be
    the normal equations of the objects passed in (KInv, exact); curvature_reg_matrix (added in place into the instance's array) must
    not reach the preloaded arrays; a second instance with the SAME Preloads object returns the same values."""
    ds = inp["ds"]; m = ds["m"]; K = [[Fraction(x) for x in r] for r in ds["K"]]
    A, mask = build_dataset(aa, ds); n = int(mask.pixels_in_mask)
    objs = inp["objs"]; los = [build_obj(aa, mask, o, n)[0] for o in objs]
    objs2 = [o if o["kind"] != "func" else o2 for o, o2 in zip(objs, inp["objs2"])]
    los2 = [lo if o["kind"] != "func" else build_obj(aa, mask, o2, n)[0] for lo, o, o2 in zip(los, objs, inp["objs2"])]
    d = fv(A.data); s = fv(A.noise_map); hdr = f"{cmask(m)} {cqm(K)}"
    eps = Fraction(inp["eps"])
    has_func = any(o["kind"] == "func" for o in objs)
    terms, outs, detail = [], {}, {}
    py_ok = True
    for use in (False, True):
        st = settings_for(aa, use, inp["eps"])
        inv0 = aa.Inversion(dataset=A, linear_obj_list=los, settings=st)
        for combo in inp["combos"]:
            los_x, descs_x = los, objs
            if combo == "B": kw = dict(operated_mapping_matrix=inv0.operated_mapping_matrix)
            elif combo == "F": kw = dict(curvature_matrix=np.array(inv0.curvature_matrix))
            elif combo == "func_dicts":
                if not has_func: continue
                kw = dict(linear_func_operated_mapping_matrix_dict=inv0.linear_func_operated_mapping_matrix_dict,
                          data_linear_func_matrix_dict=inv0.data_linear_func_matrix_dict)
            else:
                kw = dict(mapper_operated_mapping_matrix_dict=inv0.mapper_operated_mapping_matrix_dict,
                          data_vector_mapper=inv0._data_vector_mapper, curvature_matrix_mapper_diag=inv0._curvature_matrix_mapper_diag)
                los_x, descs_x = los2, objs2
            pl = aa.Preloads(**kw)
            tally(f"preld:{combo}:{'wtilde' if use else 'mapping'}")
            cobjs = clist([cobj(aa, lo, o) for lo, o in zip(los_x, descs_x)])
            def fp():
                f_ = fingerprint(aa, A, los_x, st, pl, wts=[A.w_tilde]); f_.update(preload_arrays(pl))
                # (the w-tilde class writes the function lists' blocks into the preloaded data_vector_mapper: the mapper blocks must stay)
                f_.pop("preloads.data_vector_mapper", None)
                return f_
            fp0 = fp()
            inv = aa.Inversion(dataset=A, linear_obj_list=los_x, settings=st, preloads=pl)
            is_wt = isinstance(inv, aa.InversionImagingWTilde)
            B, D, F = np.array(inv.operated_mapping_matrix), np.array(inv.data_vector), np.array(inv.curvature_matrix)
            terms.append(f"(KInv {hdr} {cqv(d)} {cqv(s)} {cobjs} {cbool(is_wt)} {cq(eps)} {cq(0)} {cqm(fm(B))} {cqv(fv(D))} {cqm(fm(F))})")
            inv.curvature_reg_matrix
            try: inv.reconstruction
            except Exception: pass
            invb = aa.Inversion(dataset=A, linear_obj_list=los_x, settings=st, preloads=pl)
            invb.curvature_reg_matrix
            if not (np.array_equal(np.array(invb.data_vector), D) and np.array_equal(np.array(invb.curvature_matrix), F)
                    and np.array_equal(np.array(invb.operated_mapping_matrix), B)):
                py_ok = False; detail[f"second_use_of_preloads:{combo}:{use}"] = "differs from the first"
            ch = fp_diff(fp0, fp())
            if ch: py_ok = False; detail[f"inputs_modified:{combo}:{use}"] = ch
            outs[f"{combo}:{use}"] = {"class": type(inv).__name__, "D": D.tolist(), "F": F.tolist()}
    kinds = "+".join(o["kind"] for o in objs)
    return dict(coq=terms[0], extra_coq=terms[1:], out=outs, py_ok=py_ok, nontrivial=True, kind="preld:" + kinds + ":" + ",".join(inp["combos"]), detail=detail)

# ----------------------------------------------------------------------------- cases
def run_case(inp):
    aa = import_aa()
    op = inp["op"]
    # (g) the shared default argument objects of the anchored signatures, fingerprinted around every case
    fp0 = defaults_fp(aa)
    if op == "inv": r = run_inv(aa, inp)
    elif op == "sess": r = run_sess(aa, inp)
    elif op == "kinds": r = run_kinds(aa, inp)
    elif op == "preld": r = run_preld(aa, inp)
    else: r = run_util(aa, inp)
    ch = fp_diff(fp0, defaults_fp(aa))
    if ch:
        r["py_ok"] = False; r["detail"] = dict(r.get("detail") or {}, default_objects_modified=ch)
    return r

def small_dataset(rng):
    while True:
        ds = rand_dataset(rng, 9)
        if ds["m"] is not None: return ds

UTIL_INPLACE = {("curvature_matrix_with_added_to_diag_from", "curvature_matrix")}    # documented in-place update of the argument
class KindedModule:
    """proxy of a util module (letters d, f): every array argument of every call is handed over as a randomly chosen KIND with the same
    values -- float64 copy, integer-typed where every value is integral (a result buffer that inherits the argument's dtype
    truncates), int32 indices, Fortran-ordered, a strided view into a larger array -- READ-ONLY (a function that writes into its
    argument raises) and fingerprinted before and after the call"""
    def __init__(self, mod, rng, flags, prefer_int=False): self._mod, self._rng, self._flags, self._int = mod, rng, flags, prefer_int
    def _vary(self, fname, k, a):
        if not isinstance(a, np.ndarray) or (fname, k) in UTIL_INPLACE: return a
        if a.dtype.kind == "f": b = as_kind(a, "int" if self._int else self._rng.choice(["float", "int", "fortran", "view"]))
        elif a.dtype.kind in "iu":
            kind = self._rng.choice(["same", "int32", "view"])
            if kind == "int32": b = a.astype(np.int32)
            elif kind == "view":
                big = np.full(tuple(2 * n_ + 1 for n_ in a.shape), -3, dtype=a.dtype)
                b = big[tuple(slice(1, 2 * n_ + 1, 2) for n_ in a.shape)]; b[...] = a
            else: b = a.copy()
        else: return a
        tally("util_arg_kind:" + ("int" if b.dtype.kind in "iu" and a.dtype.kind == "f" else "other"))
        b.setflags(write=False)
        return b
    def __getattr__(self, name):
        fn = getattr(self._mod, name)
        if not callable(fn): return fn
        def call(**kw):
            kw2 = {k: self._vary(name, k, a) for k, a in kw.items()}
            before = {k: digest(a) for k, a in kw2.items() if isinstance(a, np.ndarray) and (name, k) not in UTIL_INPLACE}
            out = fn(**kw2)
            ch = [k for k, h_ in before.items() if digest(kw2[k]) != h_]
            if ch: self._flags.append(f"{name} modified its argument(s) {ch}")
            return out
        return call

def run_util(aa, inp):
    flags = []
    r = run_util_(aa, inp, flags)
    if flags: r["py_ok"] = False; r["detail"] = {"arguments": flags}
    return r

def run_util_(aa, inp, flags):
    from autoarray.inversion.inversion import inversion_util as iu
    from autoarray.inversion.inversion.imaging import inversion_imaging_util as iiu
    krng = random.Random(inp["seed"] + 977)
    # every other round: integral matrices handed over integer-typed wherever possible (the informative kind), else random kinds
    prefer_int = inp.get("k", 1) % 2 == 0
    iu = KindedModule(iu, krng, flags, prefer_int); iiu = KindedModule(iiu, krng, flags, prefer_int)
    op = inp["op"]; rng = random.Random(inp["seed"])
    base = dict(py_ok=None, nontrivial=True, kind="util:" + op)
    tally("util:" + op)
    Z0 = Fraction(0)
    def rmat(n, p, sparse=True):
        M = [[rand_vals(rng, sparse) for _ in range(p)] for _ in range(n)]
        # integral throughout in every other round (and now and then otherwise), so that the integer-typed kind of the argument (KindedModule) is often possible
        if prefer_int or krng.random() < 0.2: M = [[Fraction(round(x)) for x in r] for r in M]
        return M
    def rnoise(n): return [rng.choice(NOISE) for _ in range(n)]
    def enc_arrays(e):
        return (np.array(e["du"], dtype=int).reshape(len(e["du"]), -1), fl(e["dw"]).reshape(len(e["dw"]), -1), np.array(e["pl"], dtype=int))
    if op == "dv_blurred":
        n, P = rng.randint(1, 6), rng.randint(1, 4)
        B = rmat(n, P); d = [Fraction(rng.randint(-9, 9)) for _ in range(n)]; s = rnoise(n)
        out = iiu.data_vector_via_blurred_mapping_matrix_from(blurred_mapping_matrix=fl(B), image=flv(d), noise_map=flv(s))
        return dict(base, coq=f"(KDvBlurred {cqm(B)} {cqv(d)} {cqv(s)} {cq(0)} {cqv(fv(out))})", out=np.asarray(out).tolist())
    if op == "curv_mapping":
        n, P = rng.randint(1, 6), rng.randint(1, 4)
        B = rmat(n, P); s = rnoise(n); add = rng.random() < 0.7
        idx = sorted(rng.sample(range(P), rng.randint(0, P))); eps = Fraction(1, rng.choice([2, 1024]))
        out = iu.curvature_matrix_via_mapping_matrix_from(mapping_matrix=fl(B), noise_map=flv(s), add_to_curvature_diag=add,
                  no_regularization_index_list=idx, settings=aa.SettingsInversion(no_regularization_add_to_curvature_diag_value=float(eps)))
        return dict(base, coq=f"(KCurvMapping {cqm(B)} {cqv(s)} {cbool(add)} {cnl(idx)} {cq(eps)} {cq(0)} {cqm(fm(out))})", out=np.asarray(out).tolist())
    if op == "add_diag":
        P = rng.randint(1, 5); F = rmat(P, P); v = Fraction(rng.randint(-8, 8), 4)
        idx = [rng.randrange(P) for _ in range(rng.randint(1, P + 1))]
        out = iu.curvature_matrix_with_added_to_diag_from(curvature_matrix=fl(F), value=float(v), no_regularization_index_list=idx)
        return dict(base, coq=f"(KAddDiag {cqm(F)} {cq(v)} {cnl(idx)} {cqm(fm(out))})", out=np.asarray(out).tolist())
    if op == "mirror":
        # matrices as the w-tilde assembly produces them: a symmetric matrix of which, pair by pair, one side may be blanked
        # (on such inputs the result does not depend on the order of the conditional writes)
        P = rng.randint(1, 5); C = rmat(P, P)
        for i in range(P):
            for j in range(i):
                C[i][j] = C[j][i]
                u = rng.random()
                if u < 0.3: C[i][j] = Z0
                elif u < 0.6: C[j][i] = Z0
        out = iu.curvature_matrix_mirrored_from(curvature_matrix=fl(C))
        return dict(base, coq=f"(KMirror {cqm(C)} {cqm(fm(out))})", out=np.asarray(out).tolist())
    if op == "wt":
        ds = small_dataset(rng); dataset, mask = build_dataset(aa, ds)
        m, K = ds["m"], ds["K"]; d = fv(dataset.data); s = fv(dataset.noise_map)
        nfs = mask.derive_indexes.native_for_slim
        img_n = np.array(dataset.data.native); noi_n = np.array(dataset.noise_map.native); k_n = np.array(dataset.psf.native)
        wd = iiu.w_tilde_data_imaging_from(image_native=img_n, noise_map_native=noi_n, kernel_native=k_n, native_index_for_slim_index=nfs)
        W = iiu.w_tilde_curvature_imaging_from(noise_map_native=noi_n, kernel_native=k_n, native_index_for_slim_index=nfs)
        pre, idx, lens = iiu.w_tilde_curvature_preload_imaging_from(noise_map_native=noi_n, kernel_native=k_n, native_index_for_slim_index=nfs)
        wt = dataset.w_tilde
        ok = (np.array_equal(wt.curvature_preload, pre) and np.array_equal(wt.indexes, idx.astype(int)) and np.array_equal(wt.lengths, lens.astype(int)))
        hdr = f"{cmask(m)} {cqm(K)}"
        t1 = f"(KWtData {hdr} {cqv(d)} {cqv(s)} {cqv(fv(wd))})"
        t2 = f"(KWtDense {hdr} {cqv(s)} {cqm(fm(W))})"
        t3 = f"(KPreload {hdr} {cqv(s)} {cqv(fv(pre))} {cnl([int(v) for v in idx])} {cnl([int(v) for v in lens])})"
        return dict(base, coq=t1, extra_coq=[t2, t3], py_ok=ok, out={"w_tilde_data": np.asarray(wd).tolist(), "lengths": [int(v) for v in lens]})
    if op in ("curv_preload", "off_preload", "dense_w"):
        n = rng.randint(1, 6)
        if op == "dense_w":
            P = rng.randint(1, 3); W = rmat(n, n); M = rmat(n, P)
            out = iu.curvature_matrix_via_w_tilde_from(w_tilde=fl(W), mapping_matrix=fl(M))
            return dict(base, coq=f"(KCurvDenseW {cqm(W)} {cqm(M)} {cq(0)} {cqm(fm(out))})", out=np.asarray(out).tolist())
        pr = synth_preload(rng, n)
        pre = flv(pr["pre"]); idx = np.array(pr["idx"], dtype=int); lens = np.array(pr["lens"], dtype=int)
        cpre = f"{cqv([Fraction(x) for x in pr['pre']])} {cnl(pr['idx'])} {cnl(pr['lens'])}"
        e0 = synth_enc(rng, n, rng.randint(1, 4))
        du0, dw0, pl0 = enc_arrays(e0)
        if op == "curv_preload":
            out = iiu.curvature_matrix_via_w_tilde_curvature_preload_imaging_from(curvature_preload=pre, curvature_indexes=idx,
                      curvature_lengths=lens, data_to_pix_unique=du0, data_weights=dw0, pix_lengths=pl0, pix_pixels=e0["P"])
            return dict(base, coq=f"(KCurvPreload {cpre} {cenc(e0)} {cnat(e0['P'])} {cq(0)} {cqm(fm(out))})", out=np.asarray(out).tolist())
        e1 = synth_enc(rng, n, rng.randint(1, 4)); du1, dw1, pl1 = enc_arrays(e1)
        out = iiu.curvature_matrix_off_diags_via_w_tilde_curvature_preload_imaging_from(curvature_preload=pre, curvature_indexes=idx,
                  curvature_lengths=lens, data_to_pix_unique_0=du0, data_weights_0=dw0, pix_lengths_0=pl0, pix_pixels_0=e0["P"],
                  data_to_pix_unique_1=du1, data_weights_1=dw1, pix_lengths_1=pl1, pix_pixels_1=e1["P"])
        return dict(base, coq=f"(KOffPreload {cpre} {cenc(e0)} {cnat(e0['P'])} {cenc(e1)} {cnat(e1['P'])} {cq(0)} {cqm(fm(out))})", out=np.asarray(out).tolist())
    if op == "dv_wtd":
        n = rng.randint(1, 6); e = synth_enc(rng, n, rng.randint(1, 4)); du, dw, pl = enc_arrays(e)
        wd = [Fraction(rng.randint(-9, 9), 2) for _ in range(n)]
        out = iiu.data_vector_via_w_tilde_data_imaging_from(w_tilde_data=flv(wd), data_to_pix_unique=du, data_weights=dw, pix_lengths=pl, pix_pixels=e["P"])
        return dict(base, coq=f"(KDvWtd {cqv(wd)} {cenc(e)} {cnat(e['P'])} {cq(0)} {cqv(fv(out))})", out=np.asarray(out).tolist())
    if op in ("off_mapper_func", "dlfm"):
        ds = small_dataset(rng); dataset, mask = build_dataset(aa, ds)
        n = int(mask.pixels_in_mask); c = dataset.convolver
        e = synth_enc(rng, n, rng.randint(1, 4)); du, dw, pl = enc_arrays(e)
        L = rng.randint(1, 3); cw = rmat(n, L)
        hdr = f"{cmask(ds['m'])} {cqm(ds['K'])}"
        if op == "off_mapper_func":
            out = iiu.curvature_matrix_off_diags_via_mapper_and_linear_func_curvature_vector_from(data_to_pix_unique=du, data_weights=dw,
                      pix_lengths=pl, pix_pixels=e["P"], curvature_weights=fl(cw), image_frame_1d_lengths=c.image_frame_1d_lengths,
                      image_frame_1d_indexes=c.image_frame_1d_indexes, image_frame_1d_kernels=c.image_frame_1d_kernels)
            return dict(base, coq=f"(KOffMapperFunc {hdr} {cenc(e)} {cnat(e['P'])} {cqm(cw)} {cq(0)} {cqm(fm(out))})", out=np.asarray(out).tolist())
        dl = iiu.data_linear_func_matrix_from(curvature_weights_matrix=fl(cw), image_frame_1d_lengths=c.image_frame_1d_lengths,
                 image_frame_1d_indexes=c.image_frame_1d_indexes, image_frame_1d_kernels=c.image_frame_1d_kernels)
        out = iiu.curvature_matrix_off_diags_via_data_linear_func_matrix_from(data_linear_func_matrix=dl, data_to_pix_unique=du,
                  data_weights=dw, pix_lengths=pl, pix_pixels=e["P"])
        return dict(base, coq=f"(KDlfm {hdr} {cqm(cw)} {cenc(e)} {cnat(e['P'])} {cq(0)} {cqm(fm(dl))} {cqm(fm(out))})", out=np.asarray(out).tolist())
    if op == "mapped_unique":
        n = rng.randint(1, 6); e = synth_enc(rng, n, rng.randint(1, 4)); du, dw, pl = enc_arrays(e)
        r = [Fraction(rng.randint(-6, 6), 2) for _ in range(e["P"])]
        out = iu.mapped_reconstructed_data_via_image_to_pix_unique_from(data_to_pix_unique=du, data_weights=dw, pix_lengths=pl, reconstruction=flv(r))
        return dict(base, coq=f"(KMappedUnique {cenc(e)} {cqv(r)} {cq(0)} {cqv(fv(out))})", out=np.asarray(out).tolist())
    if op == "mapped_matrix":
        n, P = rng.randint(1, 6), rng.randint(1, 4); B = rmat(n, P); r = [Fraction(rng.randint(-6, 6), 2) for _ in range(P)]
        out = iu.mapped_reconstructed_data_via_mapping_matrix_from(mapping_matrix=fl(B), reconstruction=flv(r))
        return dict(base, coq=f"(KMappedMatrix {cqm(B)} {cqv(r)} {cq(0)} {cqv(fv(out))})", out=np.asarray(out).tolist())
    raise ValueError(op)
