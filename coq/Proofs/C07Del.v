(* C07 -- Delaunay meshes: Mesh2DDelaunay.neighbors, given scipy's contract for Delaunay.vertex_neighbor_vertices
   (slice k of (indptr, indices) lists, once each, the vertices sharing a simplex with k), is the edge relation of the
   triangulation: one row per vertex, in range, symmetric ([nb_ok]); the padded array decodes back to these rows. *)
From Coq Require Import ZArith List Bool Lia Arith Permutation Reals Lra.
From PAV Require Import Base.Res Base.Check Base.NumOps Base.Sum Model.C07 Proofs.C07 Proofs.C07Rect.
Import ListNotations.

Lemma memb_In i l : memb i l = true <-> In i l.
Proof.
  unfold memb. rewrite existsb_exists. split.
  - intros [x [Hx E]]. apply Nat.eqb_eq in E. subst. exact Hx.
  - intros H. exists i. split; [exact H|apply Nat.eqb_refl].
Qed.
Lemma nodupn_NoDup l : nodupn l = true -> NoDup l.
Proof.
  induction l as [|a l IH]; intros H; [constructor|]. cbn [nodupn] in H. apply andb_true_iff in H. destruct H as [H1 H2].
  constructor; [|apply IH; exact H2]. intros Hin. apply memb_In in Hin. rewrite Hin in H1. discriminate.
Qed.
Lemma adjb_sym S i j : adjb S i j = adjb S j i.
Proof.
  unfold adjb. rewrite (Nat.eqb_sym i j). f_equal. induction S as [|s S IH]; [reflexivity|]. cbn [existsb]. rewrite IH.
  f_equal. apply andb_comm.
Qed.
Lemma adjb_range n S i j : forallb (forallb (fun v => (v <? n)%nat)) S = true -> adjb S i j = true -> (i < n)%nat /\ (j < n)%nat.
Proof.
  intros HS H. unfold adjb in H. apply andb_true_iff in H. destruct H as [_ H]. apply existsb_exists in H.
  destruct H as [s [Hs H]]. apply andb_true_iff in H. destruct H as [Hi Hj]. apply memb_In in Hi, Hj.
  rewrite forallb_forall in HS. specialize (HS s Hs). rewrite forallb_forall in HS.
  split; apply Nat.ltb_lt; apply HS; assumption.
Qed.

Definition del_row (indptr indices : list nat) (k : nat) : list nat :=
  vslice indices (nth k indptr 0%nat) (nth (S k) indptr 0%nat).

(* what the contract says, row by row *)
Lemma vnv_rows n S indptr indices : vnv_ok n S indptr indices = true ->
  forallb (forallb (fun v => (v <? n)%nat)) S = true /\
  forall k, (k < n)%nat -> NoDup (del_row indptr indices k)
                         /\ (forall j, In j (del_row indptr indices k) <-> adjb S k j = true).
Proof.
  unfold vnv_ok. intros H.
  apply andb_true_iff in H; destruct H as [H HRows]. apply andb_true_iff in H; destruct H as [H HS'].
  split; [exact HS'|]. intros k Hk.
  rewrite forallb_forall in HRows. assert (Hin : In k (seq 0 n)) by (apply in_seq; lia). specialize (HRows k Hin). cbv beta zeta in HRows.
  apply andb_true_iff in HRows; destruct HRows as [HRows H3]. apply andb_true_iff in HRows; destruct HRows as [H1 H2].
  fold (del_row indptr indices k) in H1, H2, H3.
  split; [apply nodupn_NoDup; exact H1|]. intros j. split.
  - intros Hj. rewrite forallb_forall in H2. apply H2. exact Hj.
  - intros Hj. destruct (adjb_range n S k j HS' Hj) as [_ Hjn]. rewrite forallb_forall in H3.
    assert (Hjs : In j (seq 0 n)) by (apply in_seq; lia). specialize (H3 j Hjs). rewrite Hj in H3. cbn [implb] in H3.
    apply memb_In. exact H3.
Qed.

Lemma del_rows_eq n indptr indices : del_rows n indptr indices = map (del_row indptr indices) (seq 0 n).
Proof. reflexivity. Qed.

Theorem T_delaunay_neighbors n S indptr indices : vnv_ok n S indptr indices = true ->
  let nb := del_rows n indptr indices in
  length nb = n /\ nb_ok nb = true
  /\ (forall i j, (i < n)%nat -> (In j (nth i nb []) <-> adjb S i j = true))
  /\ Forall (@NoDup nat) nb.
Proof.
  intros H nb. destruct (vnv_rows n S indptr indices H) as [HS HR].
  assert (L : length nb = n) by (unfold nb; rewrite del_rows_eq, map_length, seq_length; reflexivity).
  assert (EI : forall i k, In (i, k) (edges nb) <-> (i < n)%nat /\ adjb S i k = true).
  { intros i k. rewrite in_edges. unfold nb. rewrite del_rows_eq. split.
    - intros [row [Hir Hk]]. apply in_indexed_map_seq in Hir. destruct Hir as [Hi ->]. split; [exact Hi|]. apply (HR i Hi). exact Hk.
    - intros [Hi Hk]. exists (del_row indptr indices i). split; [apply in_indexed_map_seq; auto|]. apply (HR i Hi). exact Hk. }
  split; [exact L|]. split; [|split].
  - unfold nb_ok. apply andb_true_iff. split.
    + rewrite L. unfold nb_in_range. apply forallb_forall. intros row Hr. apply forallb_forall. intros k Hk. apply Nat.ltb_lt.
      unfold nb in Hr. rewrite del_rows_eq in Hr. apply in_map_iff in Hr. destruct Hr as [p [<- Hp]]. apply in_seq in Hp.
      assert (Hp' : (p < n)%nat) by lia. apply (HR p Hp') in Hk. apply (adjb_range n S p k HS Hk).
    + apply symmetric_of_nodup.
      * unfold edges. apply nodup_edges_gen; [apply indexed_fst_nodup|]. intros [i row] Hir. unfold nb in Hir. rewrite del_rows_eq in Hir.
        apply in_indexed_map_seq in Hir. destruct Hir as [Hi ->]. cbn [snd]. apply (HR i Hi).
      * intros i k Hin. apply EI in Hin. destruct Hin as [Hi Hk]. apply EI. rewrite adjb_sym. split; [|exact Hk].
        apply (adjb_range n S i k HS Hk).
  - intros i j Hi. unfold nb. rewrite del_rows_eq. rewrite (nth_indep _ [] (del_row indptr indices 0%nat)) by (rewrite map_length, seq_length; exact Hi).
    rewrite map_nth, seq_nth by exact Hi. cbn [Nat.add]. apply (HR i Hi).
  - apply Forall_forall. intros row Hr. unfold nb in Hr. rewrite del_rows_eq in Hr. apply in_map_iff in Hr. destruct Hr as [p [<- Hp]].
    apply in_seq in Hp. apply (HR p). lia.
Qed.

(* ---------------- the padded array: row k is the slice followed by -1's up to the largest size; the first sizes[k] entries give the slice back *)
Lemma nondecreasing_nth l : nondecreasing l = true -> forall k, (S k < length l)%nat -> (nth k l 0 <= nth (S k) l 0)%nat.
Proof.
  induction l as [|a [|b t] IH]; intros H k Hk; cbn [length] in Hk; try lia.
  cbn [nondecreasing] in H. apply andb_true_iff in H. destruct H as [Hab Ht]. apply Nat.leb_le in Hab.
  destruct k as [|k]; [exact Hab|]. cbn [nth]. apply (IH Ht k). cbn [length]. lia.
Qed.
Lemma nondecreasing_le_last l : nondecreasing l = true -> forall k, (k < length l)%nat -> (nth k l 0 <= last l 0)%nat.
Proof.
  induction l as [|a [|b t] IH]; intros H k Hk; cbn [length] in Hk; try lia.
  - destruct k; [cbn; lia|lia].
  - cbn [nondecreasing] in H. apply andb_true_iff in H. destruct H as [Hab Ht]. apply Nat.leb_le in Hab.
    change (last (a :: b :: t) 0%nat) with (last (b :: t) 0%nat).
    destruct k as [|k].
    + cbn [nth]. specialize (IH Ht 0%nat). cbn [nth length] in IH. lia.
    + cbn [nth]. apply (IH Ht k). cbn [length]. lia.
Qed.
Lemma del_sizes_nth indptr k : (S k < length indptr)%nat -> nth k (del_sizes indptr) 0%nat = (nth (S k) indptr 0 - nth k indptr 0)%nat.
Proof.
  unfold del_sizes. revert k. induction indptr as [|a [|b t] IH]; intros k Hk; cbn [length] in Hk; try lia.
  cbn [tl combine map]. destruct k as [|k]; [reflexivity|]. cbn [nth]. apply (IH k). cbn [length]. lia.
Qed.
Lemma del_sizes_length indptr : length (del_sizes indptr) = (length indptr - 1)%nat.
Proof.
  unfold del_sizes. rewrite map_length, combine_length. destruct indptr; cbn [tl length]; lia.
Qed.
Lemma vslice_length indices a b : (b <= length indices)%nat -> (a <= b)%nat -> length (vslice indices a b) = (b - a)%nat.
Proof. intros Hb Hab. unfold vslice. rewrite firstn_length, skipn_length. lia. Qed.

Lemma used_rows_pad w (rows : list (list nat)) :
  used_rows (map (fun r => map Z.of_nat r ++ repeat (-1)%Z (w - length r)) rows) (map (@length nat) rows) = rows.
Proof.
  unfold used_rows. induction rows as [|r rows IH]; [reflexivity|]. cbn [map combine fst snd]. f_equal; [|exact IH].
  rewrite <- (map_length Z.of_nat r) at 1. rewrite firstn_app, Nat.sub_diag, firstn_O, app_nil_r, firstn_all.
  rewrite map_map. rewrite <- (map_id r) at 2. apply map_ext. intros a. apply Nat2Z.id.
Qed.
Lemma max_list_ge l v : In v l -> (v <= fold_right Nat.max 0%nat l)%nat.
Proof. induction l as [|a l IH]; intros Hv; [destruct Hv|]. cbn [fold_right]. destruct Hv as [->|Hv]; [lia|]. specialize (IH Hv). lia. Qed.

Theorem T_delaunay_decode n S indptr indices : vnv_ok n S indptr indices = true ->
  let m := del_neighbors n indptr indices in
  used_rows (fst m) (snd m) = del_rows n indptr indices /\ length (snd m) = n
  /\ Forall (fun r => length r = fold_right Nat.max 0%nat (snd m)) (fst m).
Proof.
  intros H m. pose proof H as H0. unfold vnv_ok in H0.
  apply andb_true_iff in H0; destruct H0 as [H0 _]. apply andb_true_iff in H0; destruct H0 as [H0 _].
  apply andb_true_iff in H0; destruct H0 as [H0 HLast]. apply andb_true_iff in H0; destruct H0 as [H0 HMono].
  apply Nat.eqb_eq in H0. apply Nat.leb_le in HLast.
  assert (Lsz : length (del_sizes indptr) = n) by (rewrite del_sizes_length; lia).
  assert (Lrow : forall k, (k < n)%nat -> length (del_row indptr indices k) = nth k (del_sizes indptr) 0%nat).
  { intros k Hk. unfold del_row. rewrite del_sizes_nth by lia. apply vslice_length.
    - pose proof (nondecreasing_le_last indptr HMono (Datatypes.S k)) as HH. lia.
    - apply nondecreasing_nth; [exact HMono|lia]. }
  set (w := fold_right Nat.max 0%nat (del_sizes indptr)).
  assert (Hw : forall k, (k < n)%nat -> (nth k (del_sizes indptr) 0 <= w)%nat).
  { intros k Hk. unfold w. apply max_list_ge. apply nth_In. lia. }
  assert (Esz : del_sizes indptr = map (@length nat) (del_rows n indptr indices)).
  { apply (nth_ext _ _ 0%nat 0%nat).
    - rewrite Lsz, map_length, del_rows_eq, map_length, seq_length. reflexivity.
    - intros k Hk. rewrite Lsz in Hk. rewrite <- (Lrow k Hk).
      change (nth k (map (@length nat) (del_rows n indptr indices)) 0%nat) with (nth k (map (@length nat) (del_rows n indptr indices)) (length (@nil nat))).
      rewrite map_nth. f_equal.
      rewrite del_rows_eq. rewrite (nth_indep _ [] (del_row indptr indices 0%nat)) by (rewrite map_length, seq_length; exact Hk).
      rewrite map_nth, seq_nth by exact Hk. reflexivity. }
  unfold m, del_neighbors. cbn [fst snd]. fold w. split; [|split; [exact Lsz|]].
  - rewrite Esz. apply used_rows_pad.
  - apply Forall_forall. intros r Hr. apply in_map_iff in Hr. destruct Hr as [row [<- Hrow]].
    rewrite del_rows_eq in Hrow. apply in_map_iff in Hrow. destruct Hrow as [k [<- Hk]]. apply in_seq in Hk.
    rewrite app_length, map_length, repeat_length. assert (Hkn : (k < n)%nat) by lia. specialize (Hw k Hkn). rewrite <- (Lrow k Hkn) in Hw. lia.
Qed.

(* ---------------- consequence: the neighbour-difference schemes on EVERY Delaunay mesh (under scipy's contract) ---------------- *)
Local Open Scope R_scope.
Lemma T_delaunay_constant n S indptr indices (eps c : R) : vnv_ok n S indptr indices = true ->
  let nb := del_rows n indptr indices in
  (forall a b, (a < n)%nat -> (b < n)%nat -> @mget ROps (@constant_matrix ROps eps c nb) a b = @mget ROps (@constant_matrix ROps eps c nb) b a)
  /\ (forall x : list R, length x = n -> @quad ROps (@constant_matrix ROps eps c nb) x = @qf_constant ROps eps c nb x)
  /\ (0 < eps -> forall x : list R, length x = n -> (exists i, nth i x 0 <> 0) -> 0 < @quad ROps (@constant_matrix ROps eps c nb) x).
Proof.
  intros H nb. destruct (T_delaunay_neighbors n S indptr indices H) as [L [Hok _]]. fold nb in L, Hok.
  split; [|split].
  - intros a b Ha Hb. apply T_constant_sym; [exact Hok|rewrite L; exact Ha|rewrite L; exact Hb].
  - intros x Hx. apply T_constant_qf; [exact Hok|rewrite L; exact Hx].
  - intros He x Hx Hnz. apply T_constant_pd; [exact He|exact Hok|rewrite L; exact Hx|exact Hnz].
Qed.
Lemma T_delaunay_weighted n S indptr indices (eps : R) (w : list R) : vnv_ok n S indptr indices = true -> length w = n ->
  let nb := del_rows n indptr indices in
  (forall a b, (a < n)%nat -> (b < n)%nat -> @mget ROps (@weighted_matrix ROps eps w nb) a b = @mget ROps (@weighted_matrix ROps eps w nb) b a)
  /\ (forall x : list R, length x = n -> @quad ROps (@weighted_matrix ROps eps w nb) x = @qf_weighted ROps eps w nb x)
  /\ (0 < eps -> forall x : list R, length x = n -> (exists i, nth i x 0 <> 0) -> 0 < @quad ROps (@weighted_matrix ROps eps w nb) x).
Proof.
  intros H Lw nb. destruct (T_delaunay_neighbors n S indptr indices H) as [L [Hok _]]. fold nb in L, Hok.
  assert (Hw : wnb_ok w nb = true) by (unfold wnb_ok; rewrite L, Lw, Nat.eqb_refl; exact Hok).
  split; [|split].
  - intros a b Ha Hb. apply T_weighted_sym; [exact Hw|tr; rewrite Lw; exact Ha|tr; rewrite Lw; exact Hb].
  - intros x Hx. apply T_weighted_qf; [exact Hw|tr; rewrite Lw; exact Hx].
  - intros He x Hx Hnz. apply T_weighted_pd; [exact He|exact Hw|tr; rewrite Lw; exact Hx|exact Hnz].
Qed.
