#!/usr/bin/env python3
"""py2v: a deliberately narrow, FAIL-CLOSED translator from straight-line Python (ast) to Gallina.

Scope (anything else aborts with exit status 2, naming the offending node):
  * module-level `def`s and methods / @property of listed classes whose bodies consist of
    assignments (name or tuple-of-names targets), if/elif/else, return, `raise exc.X(...)`,
    one `try: ... except UnboundLocalError:` form, and `super().__init__(region=E)` in __init__;
  * expressions: int constants, names, tuples, constant-index subscripts of tuples,
    + - * unary -, comparisons, and/or/not, `X is None`, `X is not None`, `None in [names]`,
    tuple == constant tuple, calls to other translated functions / constructors / methods /
    properties, the array views a[::-1, :], a[:, ::-1] and .copy().
Semantics kept:
  * every `if` duplicates the rest of the block into both branches, so on each path it is
    statically known which locals are bound: a read of an unbound local is translated to the
    enclosing `except UnboundLocalError` handler, or to `Raise UnboundLocalError`;
  * `and`/`or` short-circuit (an unbound read on the right is only reached when Python would
    reach it);
  * a function whose translation can raise returns `res T` (Base/Res.v); otherwise plain `T`;
  * Python `None` joins with `T` to `option T`, pointwise inside tuples.
Parameter types are NOT inferred: they are declared in the SPEC tables below (a wrong
declaration makes the generated file ill-typed or fails the correspondence run).
"""
import ast, sys, os, textwrap

class Fail(Exception):
    pass

def fail(node, msg):
    ln = getattr(node, "lineno", "?")
    raise Fail(f"py2v: unsupported at line {ln}: {msg}: {ast.dump(node)[:200] if isinstance(node, ast.AST) else node}")

# ---------------------------------------------------------------- types
class Ty:
    def __eq__(self, o): return repr(self) == repr(o)
    def __hash__(self): return hash(repr(self))
class TInt(Ty):
    def __repr__(self): return "Z"
class TBool(Ty):
    def __repr__(self): return "bool"
class TNone(Ty):
    def __repr__(self): return "NONE"
class TArr2(Ty):
    def __repr__(self): return "(list (list A))"
class TOpt(Ty):
    def __init__(self, t): self.t = t
    def __repr__(self): return f"(option {self.t!r})"
class TTup(Ty):
    def __init__(self, ts): self.ts = list(ts)
    def __repr__(self): return "(" + " * ".join(repr(t) for t in self.ts) + ")"
Int, Bool, NoneT, Arr2 = TInt(), TBool(), TNone(), TArr2()
Tup2 = TTup([Int, Int]); Tup4 = TTup([Int, Int, Int, Int])

def join(a, b, node=None):
    if a is None: return b
    if b is None: return a
    if a == b: return a
    if isinstance(a, TNone): return b if isinstance(b, TOpt) else TOpt(b)
    if isinstance(b, TNone): return a if isinstance(a, TOpt) else TOpt(a)
    if isinstance(a, TOpt) and isinstance(b, TOpt): return TOpt(join(a.t, b.t, node))
    if isinstance(a, TOpt): return TOpt(join(a.t, b, node))
    if isinstance(b, TOpt): return TOpt(join(a, b.t, node))
    if isinstance(a, TTup) and isinstance(b, TTup) and len(a.ts) == len(b.ts):
        return TTup([join(x, y, node) for x, y in zip(a.ts, b.ts)])
    fail(node, f"cannot join types {a!r} and {b!r}")

class E:
    """a translated pure expression: Coq text, type, and (for tuple literals) the items"""
    def __init__(self, s, ty, items=None): self.s, self.ty, self.items = s, ty, items

def proj(e, i):
    if e.items is not None: return e.items[i]
    n = len(e.ty.ts); s = e.s
    # nested pairs: (((a,b),c),d)
    for _ in range(n - 1 - max(i, 1) if i > 0 else n - 1): s = f"(fst {s})"
    if i > 0: s = f"(snd {s})"
    return E(s, e.ty.ts[i])

def coerce(e, to, node=None):
    if e.ty == to: return e
    if isinstance(to, TOpt):
        if isinstance(e.ty, TNone): return E("None", to)
        if isinstance(e.ty, TOpt): fail(node, f"cannot coerce {e.ty!r} to {to!r}")
        return E(f"(Some {coerce(e, to.t, node).s})", to)
    if isinstance(to, TTup) and isinstance(e.ty, TTup) and len(to.ts) == len(e.ty.ts):
        items = [coerce(proj(e, i), to.ts[i], node) for i in range(len(to.ts))]
        return E("(" + ", ".join(x.s for x in items) + ")", to, items)
    fail(node, f"cannot coerce {e.ty!r} to {to!r}")

class Unbound(Exception):
    def __init__(self, name): self.name = name

# ---------------------------------------------------------------- function signatures
class Sig:
    def __init__(self, coqname, params, defaults, ret, partial, poly):
        self.coqname, self.params, self.defaults, self.ret, self.partial, self.poly = coqname, params, defaults, ret, partial, poly

class Translator:
    def __init__(self):
        self.sigs = {}        # python-level key -> Sig ; keys: "fname", "Class.method", "Class.__init__"
        self.props = set()    # "Class.prop" keys that are @property
        self.classes = {}     # class name -> object type (what `self` is modelled as)
        self.out = []
        self.fresh = 0

    def gensym(self, base="v"):
        self.fresh += 1
        return f"{base}__{self.fresh}"

    # ------------------------------------------------------------ expressions
    def tr_expr(self, e, env, binds, cx):
        """returns E; may append to binds; raises Unbound"""
        if isinstance(e, ast.Constant):
            if e.value is None: return E("None", NoneT)
            if isinstance(e.value, bool): return E("true" if e.value else "false", Bool)
            if isinstance(e.value, int): return E(f"({e.value})" if e.value < 0 else str(e.value), Int)
            fail(e, "constant")
        if isinstance(e, ast.Name):
            if e.id not in env or env[e.id] is None: raise Unbound(e.id)
            return env[e.id]
        if isinstance(e, ast.Tuple):
            items = [self.tr_expr(x, env, binds, cx) for x in e.elts]
            return E("(" + ", ".join(x.s for x in items) + ")", TTup([x.ty for x in items]), items)
        if isinstance(e, ast.UnaryOp) and isinstance(e.op, ast.USub):
            a = self.tr_expr(e.operand, env, binds, cx)
            if a.ty != Int: fail(e, "unary minus on non-int")
            return E(f"(- {a.s})", Int)
        if isinstance(e, ast.BinOp):
            a = self.tr_expr(e.left, env, binds, cx); b = self.tr_expr(e.right, env, binds, cx)
            ops = {ast.Add: "+", ast.Sub: "-", ast.Mult: "*"}
            if type(e.op) not in ops or a.ty != Int or b.ty != Int: fail(e, "binop")
            return E(f"({a.s} {ops[type(e.op)]} {b.s})", Int)
        if isinstance(e, ast.Subscript):
            return self.tr_subscript(e, env, binds, cx)
        if isinstance(e, ast.Attribute):
            return self.tr_attribute(e, env, binds, cx)
        if isinstance(e, ast.Call):
            return self.tr_call(e, env, binds, cx)
        if isinstance(e, (ast.Compare, ast.BoolOp)) or (isinstance(e, ast.UnaryOp) and isinstance(e.op, ast.Not)):
            return self.tr_boolexpr(e, env, binds, cx)
        fail(e, "expression")

    def unwrap(self, v, binds, node):
        """v : option t used where t is needed (Python: TypeError on None)"""
        if not isinstance(v.ty, TOpt): return v
        n = self.gensym("u")
        binds.append(("unwrap", n, v.s))
        return E(n, v.ty.t)

    def tr_subscript(self, e, env, binds, cx):
        sl = e.slice
        if isinstance(sl, ast.Tuple) and len(sl.elts) == 2 and all(isinstance(x, ast.Slice) for x in sl.elts):
            a = self.tr_expr(e.value, env, binds, cx)
            if a.ty != Arr2: fail(e, "2-d slice of non-array")
            def kind(s):
                if s.lower is None and s.upper is None and s.step is None: return "all"
                if s.lower is None and s.upper is None and isinstance(s.step, ast.UnaryOp) and isinstance(s.step.op, ast.USub) \
                   and isinstance(s.step.operand, ast.Constant) and s.step.operand.value == 1: return "rev"
                fail(e, "slice form")
            k0, k1 = kind(sl.elts[0]), kind(sl.elts[1])
            s = a.s
            if k0 == "rev": s = f"(rev {s})"
            if k1 == "rev": s = f"(map (@rev _) {s})"
            return E(s, Arr2)
        if isinstance(sl, ast.Constant) and isinstance(sl.value, int) and sl.value >= 0:
            if isinstance(e.value, ast.Name) and e.value.id == "self":
                a = env["self"]
            else:
                a = self.tr_expr(e.value, env, binds, cx)
            a = self.unwrap(a, binds, e)
            if not isinstance(a.ty, TTup) or sl.value >= len(a.ty.ts): fail(e, "subscript of non-tuple")
            return proj(a, sl.value)
        fail(e, "subscript")

    def tr_attribute(self, e, env, binds, cx):
        if isinstance(e.value, ast.Name) and e.value.id == "self" and cx.get("cls"):
            key = f"{cx['cls']}.{e.attr}"
            if key in self.props:
                return self.emit_call(self.sigs[key], [env["self"]], binds, e)
            fail(e, f"attribute self.{e.attr} is not a translated property")
        fail(e, "attribute")

    def emit_call(self, sig, args, binds, node):
        args = [coerce(self.unwrap(a, binds, node) if isinstance(a.ty, TOpt) and not isinstance(t, TOpt) else a, t, node)
                for a, (_, t) in zip(args, sig.params)]
        term = "(" + sig.coqname + "".join(" " + a.s for a in args) + ")"
        if sig.partial:
            n = self.gensym("r")
            binds.append(("call", n, term))
            return E(n, sig.ret)
        return E(term, sig.ret)

    def tr_call(self, e, env, binds, cx):
        f = e.func
        # x.copy()
        if isinstance(f, ast.Attribute) and f.attr == "copy" and not e.args and not e.keywords:
            a = self.tr_expr(f.value, env, binds, cx)
            if a.ty != Arr2: fail(e, ".copy() of non-array")
            return a
        key = None; selfarg = []
        if isinstance(f, ast.Name):
            key = f.id if f.id in self.sigs else (f"{f.id}.__init__" if f"{f.id}.__init__" in self.sigs else None)
        elif isinstance(f, ast.Attribute) and isinstance(f.value, ast.Name):
            if f.value.id == "self" and cx.get("cls"):
                key = f"{cx['cls']}.{f.attr}"; selfarg = [env["self"]]
            elif f.value.id in ("aa", "layout_util", "geometry_util") :
                key = f.attr if f.attr in self.sigs else (f"{f.attr}.__init__" if f"{f.attr}.__init__" in self.sigs else None)
        if key is None or key not in self.sigs: fail(e, "call to untranslated function")
        sig = self.sigs[key]
        names = [p for p, _ in sig.params][len(selfarg):]
        given = {}
        for i, a in enumerate(e.args):
            if i >= len(names): fail(e, "too many args")
            given[names[i]] = a
        for kw in e.keywords:
            if kw.arg not in names or kw.arg in given: fail(e, "keyword")
            given[kw.arg] = kw.value
        args = list(selfarg)
        for n in names:   # NB: evaluated in parameter order; all argument expressions here are pure
            if n in given: args.append(self.tr_expr(given[n], env, binds, cx))
            elif n in sig.defaults: args.append(sig.defaults[n])
            else: fail(e, f"missing argument {n}")
        return self.emit_call(sig, args, binds, e)

    def cmp_atoms(self, op, a, b, node):
        if a.ty == Int and b.ty == Int:
            m = {ast.Eq: "=?", ast.Lt: "<?", ast.LtE: "<=?", ast.Gt: ">?", ast.GtE: ">=?"}
            if type(op) in m: return f"({a.s} {m[type(op)]} {b.s})"
            if isinstance(op, ast.NotEq): return f"(negb ({a.s} =? {b.s}))"
        if isinstance(a.ty, TTup) and a.ty == b.ty and all(t == Int for t in a.ty.ts) and isinstance(op, ast.Eq):
            return "(" + " && ".join(f"({proj(a, i).s} =? {proj(b, i).s})" for i in range(len(a.ty.ts))) + ")"
        fail(node, f"comparison {a.ty!r} vs {b.ty!r}")

    def tr_boolexpr(self, e, env, binds, cx):
        """pure boolean expression (no refinement); raises Unbound if it reads an unbound local"""
        if isinstance(e, ast.BoolOp):
            parts = [self.tr_boolexpr(v, env, binds, cx) for v in e.values]
            op = " || " if isinstance(e.op, ast.Or) else " && "
            return E("(" + op.join(p.s for p in parts) + ")", Bool)
        if isinstance(e, ast.UnaryOp) and isinstance(e.op, ast.Not):
            return E(f"(negb {self.tr_boolexpr(e.operand, env, binds, cx).s})", Bool)
        if isinstance(e, ast.Compare):
            if len(e.ops) != 1: fail(e, "chained comparison")
            op, l, r = e.ops[0], e.left, e.comparators[0]
            if isinstance(op, (ast.Is, ast.IsNot)) or isinstance(op, ast.In): fail(e, "is/in outside an if-test")
            a = self.tr_expr(l, env, binds, cx); b = self.tr_expr(r, env, binds, cx)
            return E(self.cmp_atoms(op, a, b, e), Bool)
        v = self.tr_expr(e, env, binds, cx)
        if v.ty != Bool: fail(e, "non-boolean test")
        return v

    # ------------------------------------------------------------ control
    def wrap(self, binds, body, cx):
        for b in reversed(binds):
            if b[0] == "call":
                body = f"match {b[2]} with Raise e__ => Raise e__ | Ok {b[1]} =>\n{body}\nend"
                cx["raises"] = True
            else:
                body = f"match {b[2]} with None => {self.do_raise('TypeError', cx)} | Some {b[1]} =>\n{body}\nend"
        return body

    def do_raise(self, exn, cx):
        for h in reversed(cx["handlers"]):
            if h[0] == exn: return h[1]()
        cx["raises"] = True
        return f"Raise {exn}"

    def simple_none_test(self, e):
        """X is None / X is not None / None in [names] -> (names, positive?)"""
        if isinstance(e, ast.Compare) and len(e.ops) == 1:
            op, l, r = e.ops[0], e.left, e.comparators[0]
            if isinstance(op, (ast.Is, ast.IsNot)) and isinstance(l, ast.Name) and isinstance(r, ast.Constant) and r.value is None:
                return [l.id], isinstance(op, ast.Is)
            if isinstance(op, ast.In) and isinstance(l, ast.Constant) and l.value is None and isinstance(r, ast.List) \
               and all(isinstance(x, ast.Name) for x in r.elts):
                return [x.id for x in r.elts], True
        return None

    def tr_cond(self, e, env, cx, kt, kf):
        """kt/kf : env -> coq term.  Short-circuit, refinement and unbound reads handled here."""
        nt = self.simple_none_test(e)
        if nt is not None:
            names, positive = nt
            if not positive: kt, kf = kf, kt      # now: kt if some name is None, kf (refined) otherwise
            def go(i, env):
                if i == len(names): return kf(env)
                n = names[i]
                if n not in env or env[n] is None: return self.do_raise("UnboundLocalError", cx)
                v = env[n]
                if isinstance(v.ty, TNone): return kt(env)
                if not isinstance(v.ty, TOpt): return go(i + 1, env)
                nn = self.gensym(n)
                env2 = dict(env); env2[n] = E(nn, v.ty.t)
                return f"match {v.s} with None => {kt(env)} | Some {nn} =>\n{go(i + 1, env2)}\nend"
            return go(0, env)
        # try as one pure boolean
        binds = []
        try:
            c = self.tr_boolexpr(e, env, binds, cx)
            return self.wrap(binds, f"if {c.s}\nthen {kt(env)}\nelse {kf(env)}", cx)
        except Unbound:
            pass
        # branching translation (an unbound local is read somewhere inside)
        if isinstance(e, ast.BoolOp):
            vals = e.values
            def chain(i, env):
                if i == len(vals) - 1: return self.tr_cond(vals[i], env, cx, kt, kf)
                if isinstance(e.op, ast.Or):
                    return self.tr_cond(vals[i], env, cx, kt, lambda env2: chain(i + 1, env2))
                return self.tr_cond(vals[i], env, cx, lambda env2: chain(i + 1, env2), kf)
            return chain(0, env)
        if isinstance(e, ast.UnaryOp) and isinstance(e.op, ast.Not):
            return self.tr_cond(e.operand, env, cx, kf, kt)
        binds = []
        try:
            self.tr_boolexpr(e, env, binds, cx)
        except Unbound:
            return self.wrap(binds, self.do_raise("UnboundLocalError", cx), cx)
        fail(e, "condition")

    def tr_block(self, stmts, env, cx, k):
        if not stmts: return k(env)
        s, rest = stmts[0], stmts[1:]
        cont = lambda env2: self.tr_block(rest, env2, cx, k)
        if isinstance(s, ast.Expr) and isinstance(s.value, ast.Constant) and isinstance(s.value.value, str):
            return cont(env)  # docstring
        if isinstance(s, ast.Return):
            binds = []
            try:
                v = self.tr_expr(s.value, env, binds, cx) if s.value is not None else E("None", NoneT)
            except Unbound:
                return self.wrap(binds, self.do_raise("UnboundLocalError", cx), cx)
            return self.wrap(binds, cx["ret"](v, s), cx)
        if isinstance(s, ast.Raise):
            x = s.exc
            if isinstance(x, ast.Call): x = x.func
            if isinstance(x, ast.Attribute) and isinstance(x.value, ast.Name) and x.value.id == "exc":
                return self.do_raise(x.attr, cx)
            fail(s, "raise")
        if isinstance(s, ast.If):
            return self.tr_cond(s.test, env, cx,
                                lambda e2: self.tr_block(s.body, e2, cx, cont),
                                lambda e2: self.tr_block(s.orelse, e2, cx, cont))
        if isinstance(s, ast.Try):
            if len(s.handlers) != 1 or s.orelse or s.finalbody: fail(s, "try form")
            h = s.handlers[0]
            if not (isinstance(h.type, ast.Name) and h.type.id == "UnboundLocalError" and h.name is None): fail(s, "except form")
            env_at_try = dict(env)
            handler = lambda: self.tr_block(h.body, env_at_try, cx, cont)
            cx["handlers"].append(("UnboundLocalError", handler))
            cx["in_try"] = cx.get("in_try", 0) + 1
            def after(env2):
                # leaving the try body normally: handler no longer active
                saved = cx["handlers"]; cx["handlers"] = saved[:-1]
                try: return cont(env2)
                finally: cx["handlers"] = saved
            body = self.tr_block(s.body, env, cx, after)
            cx["handlers"].pop(); cx["in_try"] -= 1
            return body
        if isinstance(s, ast.Expr) and cx.get("is_init") and isinstance(s.value, ast.Call):
            c = s.value
            if isinstance(c.func, ast.Attribute) and c.func.attr == "__init__" and isinstance(c.func.value, ast.Call) \
               and isinstance(c.func.value.func, ast.Name) and c.func.value.func.id == "super" \
               and not c.args and len(c.keywords) == 1 and c.keywords[0].arg == "region":
                binds = []
                v = self.tr_expr(c.keywords[0].value, env, binds, cx)
                env2 = dict(env); env2["self"] = v
                return self.wrap(binds, cont(env2), cx)
            fail(s, "expression statement in __init__")
        if isinstance(s, ast.Assign) and len(s.targets) == 1:
            t = s.targets[0]
            binds = []
            if cx.get("in_try") and self.has_call(s.value): fail(s, "call inside try body")
            try:
                v = self.tr_expr(s.value, env, binds, cx)
            except Unbound:
                return self.wrap(binds, self.do_raise("UnboundLocalError", cx), cx)
            env2 = dict(env)
            if isinstance(t, ast.Name):
                if v.items is None and not v.s.isidentifier():
                    n = self.gensym(t.id)
                    env2[t.id] = E(n, v.ty)
                    return self.wrap(binds, f"let {n} := {v.s} in\n{cont(env2)}", cx)
                env2[t.id] = v
                return self.wrap(binds, cont(env2), cx)
            if isinstance(t, ast.Tuple) and all(isinstance(x, ast.Name) for x in t.elts):
                if not isinstance(v.ty, TTup) or len(v.ty.ts) != len(t.elts): fail(s, "tuple unpacking")
                pre = ""
                if v.items is None and not v.s.isidentifier():
                    n = self.gensym("t"); pre = f"let {n} := {v.s} in\n"; v = E(n, v.ty)
                for i, x in enumerate(t.elts): env2[x.id] = proj(v, i)
                return self.wrap(binds, pre + cont(env2), cx)
        fail(s, "statement")

    def has_call(self, e):
        return any(isinstance(n, ast.Call) and not (isinstance(n.func, ast.Attribute) and n.func.attr == "copy")
                   for n in ast.walk(e))

    # ------------------------------------------------------------ functions
    def tr_function(self, fn, key, coqname, ptypes, cls=None, is_init=False, is_prop=False):
        params = []
        poly = False
        a = fn.args
        if a.vararg or a.kwarg or a.kwonlyargs or a.posonlyargs: fail(fn, "parameter form")
        names = [x.arg for x in a.args]
        env = {}
        for n in names:
            if n == "self":
                if is_init: continue
                ty = self.classes[cls]
            else:
                if n not in ptypes: fail(fn, f"no declared type for parameter {n}")
                ty = ptypes[n]
            if ty == Arr2: poly = True
            params.append((n, ty)); env[n] = E(n, ty)
        # defaults
        defaults = {}
        dn = names[len(names) - len(a.defaults):]
        for n, d in zip(dn, a.defaults):
            v = self.tr_expr(d, {}, [], {"handlers": []})
            defaults[n] = coerce(v, dict(params)[n], d)
        # pass 1: return type
        seen = []
        def mk_cx(retf):
            return {"handlers": [], "cls": cls, "is_init": is_init, "ret": retf, "raises": False}
        if is_init:
            ret_ty = self.classes[cls]
            def fall(env2):
                if "self" not in env2: fail(fn, "__init__ without super().__init__(region=...)")
                return env2["self"]
        else:
            cx = mk_cx(lambda v, node: (seen.append(v.ty), "_")[1])
            self.tr_block(fn.body, dict(env), cx, lambda env2: (seen.append(NoneT), "_")[1])
            ret_ty = None
            for t in seen: ret_ty = join(ret_ty, t, fn)
            if isinstance(ret_ty, TNone): fail(fn, "function only returns None")
        # pass 2: does it raise?
        def run(partial):
            wrapv = (lambda s: f"Ok {s}") if partial else (lambda s: s)
            cx = mk_cx(lambda v, node: wrapv(coerce(v, ret_ty, node).s))
            if is_init:
                cx["ret"] = lambda v, node: fail(node, "return in __init__")
                body = self.tr_block(fn.body, dict(env), cx, lambda env2: wrapv(fall(env2).s))
            else:
                body = self.tr_block(fn.body, dict(env), cx, lambda env2: wrapv(coerce(E("None", NoneT), ret_ty, fn).s))
            return body, cx["raises"]
        save = self.fresh
        body, raises = run(True)
        if not raises:
            self.fresh = save
            body, _ = run(False)
        rty = f"res {ret_ty!r}" if raises else repr(ret_ty)
        ps = "".join(f" ({n} : {t!r})" for n, t in params)
        polys = " {A : Type}" if poly else ""
        self.out.append(f"(* {key} : line {fn.lineno} *)\nDefinition {coqname}{polys}{ps} : {rty} :=\n{indent(body)}.\n")
        for n, d in defaults.items():
            self.out.append(f"Definition {coqname}__default_{n} : {dict(params)[n]!r} := {d.s}.\n")
        self.sigs[key] = Sig(coqname, params, defaults, ret_ty, raises, poly)
        if is_prop: self.props.add(key)

def indent(s):
    out, depth = [], 1
    for line in s.split("\n"):
        st = line.strip()
        if st.startswith("end"): depth -= 1
        out.append("  " * max(depth, 1) + st)
        if st.startswith("match ") and not st.endswith("end"): depth += 1
    return "\n".join(out)

# ---------------------------------------------------------------- pinned glue
def pinned(tree_node, expected_src, what):
    """the (untranslated) glue we rely on must be literally what we think it is"""
    def nodoc(n):
        n = ast.parse(ast.unparse(n)).body[0]
        if n.body and isinstance(n.body[0], ast.Expr) and isinstance(n.body[0].value, ast.Constant) \
           and isinstance(n.body[0].value.value, str):
            n.body = n.body[1:]
        return ast.dump(n)
    got = nodoc(tree_node)
    exp = nodoc(ast.parse(textwrap.dedent(expected_src)).body[0])
    if got != exp:
        raise Fail(f"py2v: pinned glue changed: {what}")

HEADER = """(* GENERATED by /verif/py2v/py2v.py from {src} -- do not edit; regenerated on every run *)
From Coq Require Import ZArith List Bool.
From PAV Require Import Base.Res.
Import ListNotations.
Local Open Scope Z_scope.
"""

def find_def(body, name):
    for n in body:
        if isinstance(n, (ast.FunctionDef, ast.ClassDef)) and n.name == name: return n
    raise Fail(f"py2v: definition {name} not found")

def is_property(fn):
    return any(isinstance(d, ast.Name) and d.id == "property" for d in fn.decorator_list)

def gen_layout(repo, outdir):
    tr = Translator()
    # ---- region.py
    src = os.path.join(repo, "autoarray/layout/region.py")
    tree = ast.parse(open(src).read())
    absr = find_def(tree.body, "AbstractRegion")
    pinned(find_def(absr.body, "__init__"), '''
        def __init__(self, region):
            """
            Abstract base class for a region, which defines coordinates of a region on 1D or 2D data.

            Parameters
            ----------
            region
                The coordinates on the data of the region defined using pixel coordinates.
            """
            self.region = region
        ''', "AbstractRegion.__init__")
    getitem = '''
        def __getitem__(self, item):
            return self.region[item]
        '''
    pinned(find_def(absr.body, "__getitem__"), getitem, "AbstractRegion.__getitem__")
    r2 = find_def(tree.body, "Region2D"); r1 = find_def(tree.body, "Region1D")
    pinned(find_def(r2.body, "__getitem__"), getitem, "Region2D.__getitem__")
    for c in (r1, r2):
        if [ast.dump(b) for b in c.bases] != [ast.dump(ast.Name(id="AbstractRegion", ctx=ast.Load()))]:
            raise Fail("py2v: pinned glue changed: bases of " + c.name)
    tr.classes = {"Region1D": Tup2, "Region2D": Tup4}
    P2 = {"pixels": TOpt(Tup2), "pixels_from_end": TOpt(Int)}
    plan1 = [("__init__", {"region": Tup2}), ("x0", {}), ("x1", {}), ("total_pixels", {}),
             ("front_region_from", P2), ("trailing_region_from", {"pixels": Tup2})]
    plan2 = [("__init__", {"region": Tup4}), ("y0", {}), ("y1", {}), ("x0", {}), ("x1", {}),
             ("total_rows", {}), ("total_columns", {}), ("shape", {}),
             ("serial_x_front_range_from", {"pixels": Tup2}),
             ("parallel_front_region_from", P2),
             ("parallel_trailing_region_from", {"pixels": Tup2}),
             ("parallel_full_region_from", {"shape_2d": Tup2}),
             ("serial_front_region_from", P2),
             ("serial_trailing_region_from", {"pixels": Tup2}),
             ("serial_towards_roe_full_region_from", {"shape_2d": Tup2, "pixels": Tup2})]
    for cname, cnode, plan in (("Region1D", r1, plan1), ("Region2D", r2, plan2)):
        for m, pt in plan:
            fn = find_def(cnode.body, m)
            tr.tr_function(fn, f"{cname}.{m}", f"{cname}_{'init' if m == '__init__' else m}", pt, cls=cname,
                           is_init=(m == "__init__"), is_prop=is_property(fn))
    # ---- layout_util.py
    src2 = os.path.join(repo, "autoarray/layout/layout_util.py")
    tree2 = ast.parse(open(src2).read())
    plan = [("x0x1_after_extraction", {"x0o": Int, "x1o": Int, "x0e": Int, "x1e": Int}),
            ("region_after_extraction", {"original_region": TOpt(Tup4), "extraction_region": Tup4}),
            ("rotate_region_via_roe_corner_from", {"region": TOpt(Tup4), "shape_native": Tup2, "roe_corner": Tup2}),
            ("rotate_array_via_roe_corner_from", {"array": Arr2, "roe_corner": Tup2})]
    for f, pt in plan:
        tr.tr_function(find_def(tree2.body, f), f, f, pt)
    text = HEADER.format(src="autoarray/layout/region.py, autoarray/layout/layout_util.py") + "\n" + "\n".join(tr.out)
    write_if_changed(os.path.join(outdir, "Gen_layout.v"), text)

def write_if_changed(path, text):
    if os.path.exists(path) and open(path).read() == text: return
    with open(path, "w") as f: f.write(text)

TARGETS = {"layout": gen_layout}

def load_plugins():
    """py2v/gen_<name>.py may define TARGETS = {name: fn(repo, outdir)}; a plugin raises py2v.Fail (or exits non-zero) when it
    meets source it does not understand (fail-closed), exactly like the built-in targets."""
    import importlib.util, glob
    here = os.path.dirname(os.path.abspath(__file__))
    sys.modules.setdefault("py2v", sys.modules[__name__])
    for p in sorted(glob.glob(os.path.join(here, "gen_*.py"))):
        spec = importlib.util.spec_from_file_location(os.path.basename(p)[:-3], p)
        m = importlib.util.module_from_spec(spec); spec.loader.exec_module(m)
        TARGETS.update(getattr(m, "TARGETS", {}))

def main():
    import argparse
    ap = argparse.ArgumentParser()
    ap.add_argument("--repo", default="/repo")
    ap.add_argument("--out", default=os.path.join(os.path.dirname(os.path.abspath(__file__)), "..", "coq", "Gen"))
    ap.add_argument("targets", nargs="*")
    ap.add_argument("--list", action="store_true")
    a = ap.parse_args()
    load_plugins()
    if a.list:
        print(" ".join(sorted(TARGETS))); return
    try:
        for t in a.targets: TARGETS[t](a.repo, a.out)
    except Fail as f:
        print(str(f)); sys.exit(2)
    except SyntaxError as f:
        print("py2v: source does not parse:", f); sys.exit(2)

if __name__ == "__main__":
    main()
