From Coq Require Import ZArith List Bool.
From PAV Require Import Base.Res Model.C10 Proofs.C10.
