(* C16 -- lemmas about the model of the FITS write / read chain (Model/C16.v). *)
From Coq Require Import ZArith QArith Reals Lra List Bool Lia Arith.
From PAV Require Import Base.NumOps Base.Check Model.C16.
Import ListNotations.

(* ================================================================== paths *)
Lemma path_eqb_refl p : path_eqb p p = true.
Proof. induction p as [|x p IH]; cbn; [reflexivity|]. now rewrite Nat.eqb_refl, IH. Qed.
Lemma path_eqb_eq p q : path_eqb p q = true <-> p = q.
Proof.
  split; [|intros ->; apply path_eqb_refl].
  revert q; induction p as [|x p IH]; intros [|y q] H; cbn in H; try discriminate; [reflexivity|].
  apply andb_prop in H. destruct H as [H1 H2]. apply Nat.eqb_eq in H1. apply IH in H2. now subst.
Qed.
Lemma path_eqb_neq p q : path_eqb p q = false <-> p <> q.
Proof.
  split.
  - intros H E. apply path_eqb_eq in E. congruence.
  - intros H. destruct (path_eqb p q) eqn:E; [|reflexivity]. apply path_eqb_eq in E. contradiction.
Qed.
Lemma path_eqb_sym p q : path_eqb p q = path_eqb q p.
Proof.
  destruct (path_eqb p q) eqn:E.
  - apply path_eqb_eq in E. subst. symmetry. apply path_eqb_refl.
  - symmetry. apply path_eqb_neq. apply path_eqb_neq in E. congruence.
Qed.

Lemma prefixes_length d q : In q (prefixes d) -> (1 <= length q <= length d)%nat.
Proof.
  revert q; induction d as [|x d IH]; intros q H; cbn in H; [contradiction|].
  destruct H as [<-|H]; cbn; [lia|].
  apply in_map_iff in H. destruct H as [q' [<- H]]. apply IH in H. cbn. lia.
Qed.
Lemma prefixes_self d : d <> [] -> In d (prefixes d).
Proof.
  induction d as [|x d IH]; intros H; [congruence|]. cbn.
  destruct d as [|y d]; [now left|]. right. apply in_map. apply IH. discriminate.
Qed.
Lemma dirname_length p : p <> [] -> S (length (dirname p)) = length p.
Proof.
  unfold dirname. induction p as [|x p IH]; intros H; [congruence|].
  destruct p as [|y p]; [reflexivity|]. cbn [removelast length] in *. rewrite IH; [reflexivity|discriminate].
Qed.
Lemma not_in_prefixes_dirname p : p <> [] -> ~ In p (prefixes (dirname p)).
Proof. intros H Hin. apply prefixes_length in Hin. apply dirname_length in H. lia. Qed.

(* ================================================================== file system *)
Section FSProofs.
  Context {C : Type}.
  Implicit Types (fs : fsys C) (p q d : path) (c : C).

  Lemma is_dir_true fs d : is_dir fs d = true <-> In d (dirs fs).
  Proof.
    unfold is_dir. rewrite existsb_exists. split.
    - intros [x [Hx E]]. apply path_eqb_eq in E. now subst.
    - intros H. exists d. split; [assumption|apply path_eqb_refl].
  Qed.

  Lemma lookup_app_none (fl : list (path * C)) p c : lookup fl p = None -> lookup (fl ++ [(p, c)]) p = Some c.
  Proof.
    induction fl as [|[q c'] fl IH]; cbn; intros H.
    - now rewrite path_eqb_refl.
    - destruct (path_eqb p q); [discriminate|]. now apply IH.
  Qed.
  Lemma lookup_app_other (fl : list (path * C)) p q c : q <> p -> lookup (fl ++ [(p, c)]) q = lookup fl q.
  Proof.
    intros Hne. induction fl as [|[r c'] fl IH]; cbn.
    - apply path_eqb_neq in Hne. now rewrite Hne.
    - destruct (path_eqb q r); [reflexivity|assumption].
  Qed.
  Lemma lookup_filter_same (fl : list (path * C)) p :
    lookup (filter (fun e => negb (path_eqb p (fst e))) fl) p = None.
  Proof.
    induction fl as [|[q c'] fl IH]; cbn; [reflexivity|].
    destruct (path_eqb p q) eqn:E; cbn; [assumption|]. now rewrite E.
  Qed.
  Lemma lookup_filter_other (fl : list (path * C)) p q : q <> p ->
    lookup (filter (fun e => negb (path_eqb p (fst e))) fl) q = lookup fl q.
  Proof.
    intros Hne. induction fl as [|[r c'] fl IH]; cbn; [reflexivity|].
    destruct (path_eqb p r) eqn:E; cbn.
    - apply path_eqb_eq in E. subst r. apply path_eqb_neq in Hne. now rewrite Hne.
    - destruct (path_eqb q r); [reflexivity|assumption].
  Qed.
  Lemma lookup_in (fl : list (path * C)) p c : lookup fl p = Some c -> In (p, c) fl.
  Proof.
    induction fl as [|[q c'] fl IH]; cbn; intros H; [discriminate|].
    destruct (path_eqb p q) eqn:E.
    - apply path_eqb_eq in E. injection H as ->. subst q. now left.
    - right. now apply IH.
  Qed.
  Lemma filter_absent (fl : list (path * C)) p :
    lookup fl p = None -> filter (fun e => negb (path_eqb p (fst e))) fl = fl.
  Proof.
    induction fl as [|[q c'] fl IH]; cbn; intros H; [reflexivity|].
    destruct (path_eqb p q); [discriminate|]. cbn. now rewrite IH.
  Qed.

  (* the specification side, read off directly *)
  Definition fresh_or_overwrite fs p (ow : bool) : bool := ow || negb (is_file fs p).

  Lemma write_spec_refuses fs p c : is_file fs p = true -> write_spec fs p false c = (fs, Some FileExists).
  Proof. intros H. unfold write_spec. now rewrite H. Qed.
  Lemma write_spec_accepts fs p ow c : fresh_or_overwrite fs p ow = true ->
    write_spec fs p ow c =
      (mkfs (dirs fs ++ filter (fun q => negb (is_dir fs q)) (prefixes (dirname p)))
            (filter (fun e => negb (path_eqb p (fst e))) (files fs) ++ [(p, c)]), None).
  Proof.
    unfold fresh_or_overwrite, write_spec. intros H.
    destruct (is_file fs p), ow; cbn in *; try reflexivity; discriminate.
  Qed.

  (* ---- the code's sequence (split, exists, makedirs, remove, writeto) meets the specification ---- *)
  Lemma wf_dir_prefixes fs d : fs_wf fs = true -> is_dir fs d = true ->
    filter (fun q => negb (is_dir fs q)) (prefixes d) = [].
  Proof.
    intros Hwf Hd. unfold fs_wf in Hwf. apply andb_prop in Hwf. destruct Hwf as [Hwf _].
    rewrite forallb_forall in Hwf. apply is_dir_true in Hd. specialize (Hwf _ Hd).
    revert Hwf. generalize (prefixes d). intros l. induction l as [|q l IH]; cbn; intros H; [reflexivity|].
    apply andb_prop in H. destruct H as [H1 H2]. rewrite H1. cbn. now apply IH.
  Qed.
  Lemma wf_file_dir fs p : fs_wf fs = true -> is_file fs p = true -> dirname p <> [] -> is_dir fs (dirname p) = true.
  Proof.
    intros Hwf Hf Hne. unfold fs_wf in Hwf. apply andb_prop in Hwf. destruct Hwf as [_ Hwf].
    rewrite forallb_forall in Hwf. unfold is_file in Hf.
    assert (Hin : exists c, In (p, c) (files fs)).
    { destruct (lookup (files fs) p) as [c|] eqn:E; [|discriminate]. exists c. now apply lookup_in. }
    destruct Hin as [c Hin]. specialize (Hwf _ Hin). cbn [fst] in Hwf.
    rewrite forallb_forall in Hwf. apply Hwf. now apply prefixes_self.
  Qed.

  Lemma is_dir_app fs l d : is_dir (mkfs (dirs fs ++ l) (files fs)) d = is_dir fs d || existsb (path_eqb d) l.
  Proof. unfold is_dir. cbn. apply existsb_app. Qed.

  Theorem to_fits_meets_spec fs p ow c :
    fs_wf fs = true -> target_ok fs p = true -> to_fits fs p ow c = write_spec fs p ow c.
  Proof.
    intros Hwf Hok. unfold target_ok in Hok.
    apply andb_prop in Hok. destruct Hok as [Hok Hnf]. apply andb_prop in Hok. destruct Hok as [Hne Hnd].
    apply negb_true_iff in Hnd, Hnf.
    assert (Hp : p <> []) by (destruct p; [discriminate|discriminate]).
    remember (dirname p) as d eqn:Hdn.
    (* the directory part is not a file *)
    assert (Hdf : d <> [] -> is_file fs d = false).
    { intros Hd0. destruct (is_file fs d) eqn:E; [|reflexivity].
      assert (existsb (is_file fs) (prefixes d) = true); [|congruence].
      apply existsb_exists. exists d. split; [now apply prefixes_self|assumption]. }
    (* p itself is not among the created directories *)
    assert (Hpn : existsb (path_eqb p) (filter (fun q => negb (is_dir fs q)) (prefixes d)) = false).
    { destruct (existsb (path_eqb p) _) eqn:E; [|reflexivity]. apply existsb_exists in E. destruct E as [x [Hx E]].
      apply path_eqb_eq in E. subst x. apply filter_In in Hx. destruct Hx as [Hx _].
      exfalso. rewrite Hdn in Hx. now apply (not_in_prefixes_dirname p). }
    unfold to_fits. cbv zeta. rewrite <- Hdn.
    (* state after the optional makedirs *)
    assert (Hmk : exists l,
       (if negb (is_nil d) && negb (os_exists fs d) then os_makedirs fs d else FOk fs) = FOk (mkfs (dirs fs ++ l) (files fs))
       /\ l = filter (fun q => negb (is_dir fs q)) (prefixes d)
       /\ (is_file fs p = true -> mkfs (dirs fs ++ l) (files fs) = fs -> True)
       /\ (d <> [] -> is_dir (mkfs (dirs fs ++ l) (files fs)) d = true)).
    { exists (filter (fun q => negb (is_dir fs q)) (prefixes d)).
      destruct d as [|x d'] eqn:Ed.
      - cbn. split; [|auto]. destruct fs; cbn. now rewrite app_nil_r.
      - assert (Hd : x :: d' <> []) by discriminate.
        cbn [is_nil negb andb]. unfold os_exists at 1. rewrite (Hdf Hd), orb_false_r.
        destruct (is_dir fs (x :: d')) eqn:Edir; cbn [negb].
        + rewrite (wf_dir_prefixes _ _ Hwf Edir). split; [|split; [reflexivity|split; [auto|]]].
          * destruct fs; cbn. now rewrite app_nil_r.
          * intros _. rewrite is_dir_app, Edir. reflexivity.
        + unfold os_makedirs, os_exists. rewrite Edir, (Hdf Hd). cbn [orb].
          split; [reflexivity|split; [reflexivity|split; [auto|]]].
          intros _. rewrite is_dir_app. apply orb_true_iff. right. apply existsb_exists.
          exists (x :: d'). split; [|apply path_eqb_refl]. apply filter_In. split; [now apply prefixes_self|].
          now rewrite Edir. }
    destruct Hmk as [l [Hmk [Hl [_ Hdd]]]]. rewrite Hmk. clear Hmk.
    set (fs1 := mkfs (dirs fs ++ l) (files fs)) in *.
    assert (Hex1 : os_exists fs1 p = is_file fs p).
    { unfold os_exists. destruct p as [|x p']; [congruence|]. unfold fs1. rewrite is_dir_app, Hnd, Hl, Hpn. reflexivity. }
    assert (Hdirok : forall fl : list (path * C), (match d with [] => true | _ => is_dir (mkfs (dirs fs1) fl) d end) = true).
    { intros fl. destruct d as [|x d'] eqn:Ed; [reflexivity|]. rewrite <- Ed in *.
      assert (Hd : d <> []) by (rewrite Ed; discriminate). apply Hdd in Hd. exact Hd. }
    assert (Hdir_fl : forall fl : list (path * C), is_dir (mkfs (dirs fs1) fl) p = false).
    { intros fl. unfold is_dir; cbn [dirs]. unfold fs1; cbn [dirs]. rewrite existsb_app.
      fold (is_dir fs p). rewrite Hnd, Hl, Hpn. reflexivity. }
    rewrite Hex1.
    destruct (is_file fs p) eqn:Ef.
    - (* the target exists *)
      destruct ow; cbn [andb].
      + (* overwrite: remove, then write *)
        rewrite write_spec_accepts by reflexivity.
        unfold writeto, os_remove. rewrite <- Hdn.
        assert (Hex2 : os_exists (mkfs (dirs fs1) (filter (fun e => negb (path_eqb p (fst e))) (files fs1))) p = false).
        { unfold os_exists. destruct p as [|x p']; [congruence|]. rewrite Hdir_fl. unfold is_file; cbn [files].
          now rewrite lookup_filter_same. }
        rewrite Hex2. specialize (Hdirok (filter (fun e => negb (path_eqb p (fst e))) (files fs1))).
        destruct d; [|rewrite Hdirok]; cbn [dirs files]; unfold fs1; cbn [dirs files]; rewrite Hl; reflexivity.
      + (* no overwrite: refused, nothing changed *)
        rewrite write_spec_refuses by assumption.
        unfold writeto. rewrite Hex1.
        (* the directory of an existing file exists, so nothing was created *)
        assert (Hl0 : l = []).
        { rewrite Hl. destruct d as [|x d'] eqn:Ed; [reflexivity|]. rewrite <- Ed in *.
          apply wf_dir_prefixes; [assumption|]. rewrite Hdn. apply wf_file_dir; [assumption|assumption|]. rewrite <- Hdn, Ed. discriminate. }
        unfold fs1. rewrite Hl0, app_nil_r. destruct fs; reflexivity.
    - (* fresh target *)
      assert (Hlk : lookup (files fs) p = None).
      { unfold is_file in Ef. destruct (lookup (files fs) p); [discriminate|reflexivity]. }
      rewrite andb_false_r.
      rewrite write_spec_accepts by (unfold fresh_or_overwrite; rewrite Ef; apply orb_true_r).
      unfold writeto. rewrite Hex1. rewrite <- Hdn.
      specialize (Hdirok (files fs1)).
      assert (Hfs1 : mkfs (dirs fs1) (files fs1) = fs1) by reflexivity. rewrite Hfs1 in Hdirok.
      rewrite (filter_absent _ _ Hlk).
      destruct d; [|rewrite Hdirok]; unfold fs1; cbn [dirs files]; rewrite Hl; reflexivity.
  Qed.
End FSProofs.
