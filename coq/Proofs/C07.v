(* C07 -- lemmas about the model of the regularization matrices (coq/Model/C07.v).  All at ROps. *)
From Coq Require Import ZArith List Bool Reals Lra Lia Permutation Arith.
From PAV Require Import Base.Res Base.Check Base.NumOps Base.Sum Model.C07.
Import ListNotations.
Local Open Scope R_scope.

Notation Rmat := (list (list R)).
Notation Rentry := (nat * nat * R)%type.
(* [T ROps] and [R] are convertible but syntactically different atoms for lia *)
Ltac tr := change (T ROps) with R in *.
Notation maddR := (@madd ROps).
Notation mscatterR := (@mscatter ROps).
Notation buildR := (@build ROps).

(* ------------------------------------------------------------------ shapes *)
Definition wfm (n : nat) (M : Rmat) : Prop := length M = n /\ Forall (fun r => length r = n) M.

Lemma madd_length (M : Rmat) i j v : length (maddR M i j v) = length M.
Proof. revert i; induction M as [|r M IH]; intros [|i]; simpl; auto. Qed.
Lemma madd_wfm n (M : Rmat) i j v : wfm n M -> wfm n (maddR M i j v).
Proof.
  intros [HL HF]. split; [rewrite madd_length; exact HL|]. clear HL.
  revert i; induction HF as [|r M Hr HF IH]; intros [|i]; simpl; try constructor; auto.
  rewrite (@upd_add_length ROps). exact Hr.
Qed.
Lemma mscatter_wfm n (es : list Rentry) : forall M, wfm n M -> wfm n (mscatterR es M).
Proof. unfold mscatter. induction es as [|e es IH]; intros M H; simpl; auto. apply IH, madd_wfm, H. Qed.
Lemma mzeros_wfm n : wfm n (@mzeros ROps n n).
Proof.
  unfold mzeros, zeros. split; [apply repeat_length|].
  apply Forall_forall. intros r Hr. apply repeat_spec in Hr. subst. apply repeat_length.
Qed.
Lemma build_wfm n (es : list Rentry) : wfm n (buildR n es).
Proof. apply mscatter_wfm, mzeros_wfm. Qed.

(* ------------------------------------------------------------------ sums *)
Lemma sumR_map_sub {A} (f g : A -> R) l : sumR (map (fun x => f x - g x) l) = sumR (map f l) - sumR (map g l).
Proof. induction l; cbn; lra. Qed.
Lemma sumR_flat_map {A B} (f : A -> list B) (g : B -> R) l :
  sumR (map g (flat_map f l)) = sumR (map (fun a => sumR (map g (f a))) l).
Proof. induction l; cbn; auto. rewrite map_app, sumR_app, IHl. reflexivity. Qed.
Lemma sumR_filter_ind {A} (p : A -> bool) (f : A -> R) l :
  sumR (map f (filter p l)) = sumR (map (fun x => if p x then f x else 0) l).
Proof. induction l; cbn; auto. destruct (p a); cbn; lra. Qed.
Lemma sumR_map_nonneg {A} (f : A -> R) l : (forall x, 0 <= f x) -> 0 <= sumR (map f l).
Proof. intros H. induction l; cbn; [lra|]. specialize (H a). lra. Qed.
Lemma sum_nth_seq (F : R -> R) (x : list R) s :
  sumR (map (fun i => F (nth (i - s) x 0)) (seq s (length x))) = sumR (map F x).
Proof.
  revert s. induction x as [|a x IH]; intros s; cbn; auto.
  replace (s - s)%nat with 0%nat by lia. f_equal.
  rewrite <- (IH (S s)). apply sumR_map_ext. intros i Hi. apply in_seq in Hi.
  replace (i - s)%nat with (S (i - S s)) by lia. reflexivity.
Qed.
Lemma sum_nth_seq0 (F : R -> R) (x : list R) n : length x = n ->
  sumR (map (fun i => F (nth i x 0)) (seq 0 n)) = sumR (map F x).
Proof.
  intros <-. rewrite <- (sum_nth_seq F x 0). apply sumR_map_ext. intros i _. rewrite Nat.sub_0_r. reflexivity.
Qed.

(* ------------------------------------------------------------------ bilinear form of a scatter *)
Definition Rdot (a b : list R) : R := sumR (map (fun p => fst p * snd p) (combine a b)).
Definition Rbil (x : list R) (M : Rmat) (y : list R) : R := sumR (map (fun xr => fst xr * Rdot (snd xr) y) (combine x M)).
Lemma dot_R a b : @dot ROps a b = Rdot a b.
Proof. unfold dot, Rdot. rewrite sumT_sumR. reflexivity. Qed.
Lemma bil_R x M y : @bil ROps x M y = Rbil x M y.
Proof.
  unfold bil, Rbil. rewrite sumT_sumR. apply sumR_map_ext. intros [a r] _. cbn [fst snd]. rewrite dot_R. reflexivity.
Qed.

Lemma Rdot_upd_add (r : list R) j v y : (j < length r)%nat ->
  Rdot (@upd_add ROps r j v) y = Rdot r y + v * nth j y 0.
Proof.
  unfold Rdot. revert j y. induction r as [|a r IH]; intros j y Hj; simpl in Hj; [lia|].
  destruct j as [|j], y as [|b y]; cbn [upd_add combine map sumR fst snd nth].
  all: try (cbn; lra).
  rewrite IH by lia. lra.
Qed.
Lemma Rbil_madd x (M : Rmat) y i j v : (i < length M)%nat -> (j < length (nth i M []))%nat ->
  Rbil x (maddR M i j v) y = Rbil x M y + nth i x 0 * v * nth j y 0.
Proof.
  unfold Rbil. revert i x. induction M as [|r M IH]; intros i x Hi Hj; simpl in Hi; [lia|].
  destruct i as [|i], x as [|a x]; cbn [madd combine map sumR fst snd nth].
  - ring.
  - cbn [nth] in Hj. rewrite Rdot_upd_add by exact Hj. ring.
  - ring.
  - cbn [nth] in Hj. rewrite IH; [ring | tr; lia | exact Hj].
Qed.

Definition inr (n : nat) (e : Rentry) : Prop := (fst (fst e) < n)%nat /\ (snd (fst e) < n)%nat.
(* the sum  sum_e f(i_e) * v_e * g(j_e)  over an update list *)
Definition ES (es : list Rentry) (f g : nat -> R) : R :=
  sumR (map (fun e => f (fst (fst e)) * snd e * g (snd (fst e))) es).

Lemma wfm_row n (M : Rmat) i : wfm n M -> (i < n)%nat -> length (nth i M []) = n.
Proof.
  intros [HL HF] Hi. rewrite Forall_forall in HF. apply HF. apply nth_In. lia.
Qed.
Lemma Rbil_mscatter n x y (es : list Rentry) : Forall (inr n) es -> forall M, wfm n M ->
  Rbil x (mscatterR es M) y = Rbil x M y + ES es (fun i => nth i x 0) (fun j => nth j y 0).
Proof.
  unfold mscatter, ES. induction 1 as [|[[i j] v] es [Hi Hj] HF IH]; intros M HM; cbn [fold_left map sumR fst snd]; [lra|].
  cbn [fst snd] in Hi, Hj.
  rewrite IH by (apply madd_wfm, HM).
  rewrite Rbil_madd.
  - lra.
  - destruct HM as [HL _]. lia.
  - rewrite (wfm_row n) by auto. exact Hj.
Qed.
Lemma Rdot_zeros m y : Rdot (@zeros ROps m) y = 0.
Proof.
  unfold Rdot, zeros, zero. cbn. revert y. induction m; intros [|b y]; cbn; auto. rewrite IHm. lra.
Qed.
Lemma Rbil_mzeros n m x y : Rbil x (@mzeros ROps n m) y = 0.
Proof.
  unfold Rbil, mzeros. revert x. induction n; intros [|a x]; cbn [repeat combine map sumR fst snd]; auto.
  rewrite IHn, Rdot_zeros. lra.
Qed.
Lemma Rbil_build n x y (es : list Rentry) : Forall (inr n) es ->
  Rbil x (buildR n es) y = ES es (fun i => nth i x 0) (fun j => nth j y 0).
Proof. intros H. unfold build. rewrite (Rbil_mscatter n) by (auto using mzeros_wfm). rewrite Rbil_mzeros. lra. Qed.

(* entries through unit vectors *)
Definition ind (a i : nat) : R := if Nat.eqb i a then 1 else 0.
Lemma nth_map_seq {A} (f : nat -> A) d n : forall s i,
  nth i (map f (seq s n)) d = if (i <? n)%nat then f (s + i)%nat else d.
Proof.
  induction n as [|n IH]; intros s i; cbn [seq map].
  - destruct i; reflexivity.
  - destruct i as [|i]; cbn [nth].
    + rewrite Nat.add_0_r. reflexivity.
    + rewrite IH. replace (S s + i)%nat with (s + S i)%nat by lia. reflexivity.
Qed.
Lemma nth_unit n a i : nth i (@unit ROps n a) 0 = if (i <? n)%nat then ind a i else 0.
Proof. unfold unit, ind. rewrite nth_map_seq. cbn. reflexivity. Qed.
Lemma Rdot_unit_gen (r : list R) s b :
  Rdot r (map (fun i => if Nat.eqb i b then @one ROps else @zero ROps) (seq s (length r))) = if (s <=? b)%nat then nth (b - s) r 0 else 0.
Proof.
  unfold Rdot. revert s. induction r as [|a r IH]; intros s; cbn [length seq map combine sumR fst snd].
  - destruct (s <=? b)%nat; [destruct (b - s)%nat|]; reflexivity.
  - rewrite IH. destruct (Nat.eqb s b) eqn:E.
    + apply Nat.eqb_eq in E. subst. replace (b - b)%nat with 0%nat by lia.
      destruct (S b <=? b)%nat eqn:E1; [apply Nat.leb_le in E1; lia|].
      rewrite Nat.leb_refl. cbn. lra.
    + apply Nat.eqb_neq in E. destruct (s <=? b)%nat eqn:E1.
      * apply Nat.leb_le in E1. destruct (S s <=? b)%nat eqn:E2; [|apply Nat.leb_gt in E2; lia].
        replace (b - s)%nat with (S (b - S s)) by lia. cbn. lra.
      * apply Nat.leb_gt in E1. destruct (S s <=? b)%nat eqn:E2; [apply Nat.leb_le in E2; lia|]. cbn. lra.
Qed.
Lemma Rdot_unit (r : list R) b : Rdot r (@unit ROps (length r) b) = nth b r 0.
Proof. unfold unit. rewrite Rdot_unit_gen. cbn. rewrite Nat.sub_0_r. reflexivity. Qed.
Lemma Rbil_unit_l n (M : Rmat) a y : length M = n ->
  Rbil (@unit ROps n a) M y = Rdot (nth a M []) y.
Proof.
  intros <-. unfold Rbil, unit.
  assert (G : forall s, sumR (map (fun xr : R * list R => fst xr * Rdot (snd xr) y)
                (combine (map (fun i => if Nat.eqb i a then @one ROps else @zero ROps) (seq s (length M))) M))
              = if (s <=? a)%nat then Rdot (nth (a - s) M []) y else 0).
  { induction M as [|r M IH]; intros s; cbn [length seq map combine sumR fst snd].
    - destruct (s <=? a)%nat; [destruct (a - s)%nat|]; unfold Rdot; reflexivity.
    - rewrite IH. destruct (Nat.eqb s a) eqn:E.
      + apply Nat.eqb_eq in E. subst. replace (a - a)%nat with 0%nat by lia.
        destruct (S a <=? a)%nat eqn:E1; [apply Nat.leb_le in E1; lia|]. rewrite Nat.leb_refl. unfold one, zero; cbn [nth ofZ ROps]; lra.
      + apply Nat.eqb_neq in E. destruct (s <=? a)%nat eqn:E1.
        * apply Nat.leb_le in E1. destruct (S s <=? a)%nat eqn:E2; [|apply Nat.leb_gt in E2; lia].
          replace (a - s)%nat with (S (a - S s)) by lia. unfold one, zero; cbn [nth ofZ ROps]; lra.
        * apply Nat.leb_gt in E1. destruct (S s <=? a)%nat eqn:E2; [apply Nat.leb_le in E2; lia|]. unfold one, zero; cbn [nth ofZ ROps]; lra. }
  rewrite G. cbn. rewrite Nat.sub_0_r. reflexivity.
Qed.
Lemma mget_Rbil n (M : Rmat) a b : wfm n M -> (a < n)%nat ->
  @mget ROps M a b = Rbil (@unit ROps n a) M (@unit ROps n b).
Proof.
  intros HM Ha. rewrite (Rbil_unit_l n) by apply HM.
  rewrite <- (wfm_row n M a HM Ha) at 1. rewrite Rdot_unit. reflexivity.
Qed.
Lemma mget_build n (es : list Rentry) a b : Forall (inr n) es -> (a < n)%nat -> (b < n)%nat ->
  @mget ROps (buildR n es) a b = ES es (ind a) (ind b).
Proof.
  intros HF Ha Hb. rewrite (mget_Rbil n) by (auto using build_wfm). rewrite Rbil_build by exact HF.
  unfold ES. rewrite Forall_forall in HF. apply sumR_map_ext. intros [[i j] v] He. destruct (HF _ He) as [Hi Hj]. cbn [fst snd] in *.
  rewrite !nth_unit. apply Nat.ltb_lt in Hi, Hj. rewrite Hi, Hj. reflexivity.
Qed.
(* a matrix built from an update list whose entry sum is symmetric in (f, g) is symmetric *)
Lemma build_symmetric n (es : list Rentry) : Forall (inr n) es -> (forall f g, ES es f g = ES es g f) ->
  forall a b, (a < n)%nat -> (b < n)%nat -> @mget ROps (buildR n es) a b = @mget ROps (buildR n es) b a.
Proof. intros HF HS a b Ha Hb. rewrite !mget_build by auto. apply HS. Qed.
Definition xh (x : list R) (i : nat) : R := nth i x 0.
Lemma quad_build n (es : list Rentry) x : Forall (inr n) es -> @quad ROps (buildR n es) x = ES es (xh x) (xh x).
Proof. intros HF. unfold quad. rewrite bil_R. apply Rbil_build, HF. Qed.

(* ------------------------------------------------------------------ symmetric neighbour relations *)
Definition swap (p : nat * nat) : nat * nat := (snd p, fst p).
Definition symE (E : list (nat * nat)) : Prop := Permutation E (map swap E).
Lemma swap_swap p : swap (swap p) = p.
Proof. destruct p; reflexivity. Qed.

Lemma symE_sum (g : nat * nat -> R) E : symE E -> sumR (map g E) = sumR (map (fun p => g (swap p)) E).
Proof. intros H. rewrite (sumR_perm _ _ (Permutation_map g H)), map_map. reflexivity. Qed.

Lemma symE_upairs (h : nat * nat -> R) E : symE E -> (forall p, h (swap p) = h p) -> (forall a, h (a, a) = 0) ->
  sumR (map h E) = 2 * sumR (map h (filter (fun p => (fst p <? snd p)%nat) E)).
Proof.
  intros HS Hh H0.
  set (A := fun p : nat * nat => if (fst p <? snd p)%nat then h p else 0).
  set (B := fun p : nat * nat => if (snd p <? fst p)%nat then h p else 0).
  assert (E1 : sumR (map h E) = sumR (map A E) + sumR (map B E)).
  { rewrite <- sumR_map_add. apply sumR_map_ext. intros [i k] _. unfold A, B. cbn [fst snd].
    destruct (Nat.ltb_spec i k) as [X|X], (Nat.ltb_spec k i) as [Y|Y]; try lra; try lia.
    assert (i = k) by lia. subst. rewrite H0. lra. }
  assert (E2 : sumR (map B E) = sumR (map A E)).
  { rewrite (symE_sum B E HS). apply sumR_map_ext. intros [i k] _. unfold A, B, swap. cbn [fst snd].
    destruct (i <? k)%nat; auto. apply (Hh (i, k)). }
  rewrite sumR_filter_ind. fold A. lra.
Qed.

Definition pair_dec : forall x y : nat * nat, {x = y} + {x <> y}.
Proof. decide equality; apply Nat.eq_dec. Defined.
Lemma count_pair_occ p l : count_pair p l = count_occ pair_dec l p.
Proof.
  unfold count_pair. induction l as [|q l IH]; cbn [filter count_occ length]; auto.
  destruct (pair_dec q p) as [->|N].
  - rewrite !Nat.eqb_refl. cbn. rewrite IH. reflexivity.
  - destruct ((fst p =? fst q)%nat && (snd p =? snd q)%nat) eqn:E; [|exact IH].
    apply andb_true_iff in E. destruct E as [E1 E2]. apply Nat.eqb_eq in E1, E2. destruct p, q; cbn in *; subst. contradiction.
Qed.
Lemma count_occ_swap l p : count_occ pair_dec (map swap l) p = count_occ pair_dec l (swap p).
Proof.
  rewrite <- (swap_swap p) at 1. symmetry. apply count_occ_map.
  intros x y H. rewrite <- (swap_swap x), <- (swap_swap y), H. reflexivity.
Qed.
Lemma nb_symmetric_symE nb : nb_symmetric nb = true -> symE (edges nb).
Proof.
  unfold nb_symmetric, symE. set (E := edges nb). intros H. rewrite forallb_forall in H.
  apply (Permutation_count_occ pair_dec). intros p. rewrite count_occ_swap.
  assert (HE : forall q, In q E -> count_occ pair_dec E q = count_occ pair_dec E (swap q)).
  { intros q Hq. specialize (H q Hq). apply Nat.eqb_eq in H. rewrite !count_pair_occ in H. exact H. }
  destruct (in_dec pair_dec p E) as [Hp|Hp]; [apply HE, Hp|].
  destruct (in_dec pair_dec (swap p) E) as [Hq|Hq].
  - specialize (HE _ Hq). rewrite swap_swap in HE. symmetry. exact HE.
  - apply (count_occ_not_In pair_dec) in Hp, Hq. rewrite Hp, Hq. reflexivity.
Qed.

(* ------------------------------------------------------------------ sums over update lists / indexed lists *)
Lemma ES_app es1 es2 f g : ES (es1 ++ es2) f g = ES es1 f g + ES es2 f g.
Proof. unfold ES. rewrite map_app, sumR_app. reflexivity. Qed.
Lemma ES_cons e es f g : ES (e :: es) f g = f (fst (fst e)) * snd e * g (snd (fst e)) + ES es f g.
Proof. reflexivity. Qed.
Lemma ES_flat_map {A} (F : A -> list Rentry) l f g : ES (flat_map F l) f g = sumR (map (fun a => ES (F a) f g) l).
Proof. unfold ES. apply sumR_flat_map. Qed.

Lemma map_fst_combine_seq {A} (l : list A) s : map fst (combine (seq s (length l)) l) = seq s (length l).
Proof. revert s. induction l; intros s; cbn; auto. rewrite IHl. reflexivity. Qed.
Lemma sum_indexed_fst {A} (F : nat -> R) (l : list A) :
  sumR (map (fun ir => F (fst ir)) (indexed l)) = sumR (map F (seq 0 (length l))).
Proof. unfold indexed. rewrite <- (map_map fst F), map_fst_combine_seq. reflexivity. Qed.
Lemma sum_edges (G : nat * nat -> R) nb :
  sumR (map G (edges nb)) = sumR (map (fun ir => sumR (map (fun k => G (fst ir, k)) (snd ir))) (indexed nb)).
Proof. unfold edges. rewrite sumR_flat_map. apply sumR_map_ext. intros [i row] _. cbn [fst snd]. rewrite map_map. reflexivity. Qed.

Lemma in_indexed {A} (l : list A) i a : In (i, a) (indexed l) -> (i < length l)%nat /\ In a l.
Proof.
  unfold indexed. intros H. split.
  - apply in_combine_l in H. apply in_seq in H. lia.
  - apply in_combine_r in H. exact H.
Qed.

Definition nb_inr (n : nat) (nb : list (list nat)) : Prop := Forall (Forall (fun k => (k < n)%nat)) nb.
Lemma nb_in_range_inr nb n : nb_in_range n nb = true -> nb_inr n nb.
Proof.
  unfold nb_in_range, nb_inr. intros H. rewrite forallb_forall in H. apply Forall_forall. intros r Hr.
  specialize (H r Hr). rewrite forallb_forall in H. apply Forall_forall. intros k Hk. apply Nat.ltb_lt, H, Hk.
Qed.

(* ------------------------------------------------------------------ constant scheme *)
Lemma ES_const_row c2 i row f g :
  ES (@const_row ROps c2 i row) f g = sumR (map (fun k => c2 * (f i * g i - f i * g k)) row).
Proof.
  unfold const_row. rewrite ES_flat_map. apply sumR_map_ext. intros k _. unfold ES. cbn. lra.
Qed.
Lemma const_row_inr n c2 i row : (i < n)%nat -> Forall (fun k => (k < n)%nat) row -> Forall (inr n) (@const_row ROps c2 i row).
Proof.
  intros Hi HF. unfold const_row. apply Forall_forall. intros e He. apply in_flat_map in He. destruct He as [k [Hk He]].
  rewrite Forall_forall in HF. specialize (HF k Hk). cbn in He. destruct He as [<-|[<-|[]]]; split; cbn; auto.
Qed.
Lemma constant_entries_inr eps c nb : nb_inr (length nb) nb -> Forall (inr (length nb)) (@constant_entries ROps eps c nb).
Proof.
  intros H. unfold constant_entries. apply Forall_forall. intros e He. apply in_flat_map in He. destruct He as [[i row] [Hir He]].
  apply in_indexed in Hir. destruct Hir as [Hi Hrow]. unfold nb_inr in H. rewrite Forall_forall in H. specialize (H row Hrow).
  cbn [fst snd] in He. destruct He as [<-|He]; [split; cbn; auto|].
  pose proof (const_row_inr (length nb) (@sq ROps c) i row Hi H) as HF. rewrite Forall_forall in HF. apply HF, He.
Qed.
Lemma ES_constant eps c nb f g :
  ES (@constant_entries ROps eps c nb) f g =
  eps * sumR (map (fun i => f i * g i) (seq 0 (length nb))) + c * c * sumR (map (fun p => f (fst p) * g (fst p) - f (fst p) * g (snd p)) (edges nb)).
Proof.
  unfold constant_entries. rewrite ES_flat_map.
  rewrite <- (sum_indexed_fst (fun i => f i * g i) nb), sum_edges, <- !sumR_map_scal, <- sumR_map_add.
  apply sumR_map_ext. intros [i row] _. cbn [fst snd]. rewrite ES_cons, ES_const_row. cbn [fst snd].
  rewrite <- sumR_map_scal. unfold sq. cbn [mul ROps].
  assert (X : sumR (map (fun k => c * c * (f i * g i - f i * g k)) row) = sumR (map (fun x => c * c * (f i * g i - f i * g x)) row)) by reflexivity.
  lra.
Qed.

Lemma edges_sym_fg nb (f g : nat -> R) : symE (edges nb) ->
  sumR (map (fun p => f (fst p) * g (snd p)) (edges nb)) = sumR (map (fun p => g (fst p) * f (snd p)) (edges nb)).
Proof.
  intros H. rewrite (symE_sum _ _ H). apply sumR_map_ext. intros [i k] _. cbn. lra.
Qed.
Lemma ES_constant_sym eps c nb : symE (edges nb) -> forall f g,
  ES (@constant_entries ROps eps c nb) f g = ES (@constant_entries ROps eps c nb) g f.
Proof.
  intros H f g. rewrite !ES_constant. rewrite !sumR_map_sub, (edges_sym_fg nb f g H).
  f_equal; [f_equal; apply sumR_map_ext; intros; lra|].
  f_equal. f_equal; apply sumR_map_ext; intros; lra.
Qed.

Definition d2 (x : list R) (p : nat * nat) : R := (xh x (fst p) - xh x (snd p)) * (xh x (fst p) - xh x (snd p)).
(* sum over directed edges of x_i^2 - x_i x_k  =  sum over undirected pairs of (x_i - x_k)^2 *)
Lemma edges_quadratic nb x : symE (edges nb) ->
  sumR (map (fun p => xh x (fst p) * xh x (fst p) - xh x (fst p) * xh x (snd p)) (edges nb)) = sumR (map (d2 x) (upairs nb)).
Proof.
  intros H. set (g := fun p : nat * nat => xh x (fst p) * xh x (fst p) - xh x (fst p) * xh x (snd p)).
  assert (E1 : 2 * sumR (map g (edges nb)) = sumR (map (d2 x) (edges nb))).
  { transitivity (sumR (map g (edges nb)) + sumR (map (fun p => g (swap p)) (edges nb))).
    - rewrite <- (symE_sum g _ H). lra.
    - rewrite <- sumR_map_add. apply sumR_map_ext. intros [i k] _. unfold g, d2, swap. cbn [fst snd]. lra. }
  assert (E2 : sumR (map (d2 x) (edges nb)) = 2 * sumR (map (d2 x) (upairs nb))).
  { unfold upairs. apply symE_upairs; auto.
    - intros [i k]. unfold d2, swap. cbn [fst snd]. lra.
    - intros a. unfold d2. cbn [fst snd]. lra. }
  lra.
Qed.
Lemma norm2_R x : @norm2 ROps x = sumR (map (fun v => v * v) x).
Proof. unfold norm2. rewrite sumT_sumR. reflexivity. Qed.
Lemma norm2_seq x n : length x = n -> sumR (map (fun i => xh x i * xh x i) (seq 0 n)) = @norm2 ROps x.
Proof. intros H. rewrite norm2_R. apply (sum_nth_seq0 (fun v => v * v) x n H). Qed.
Lemma diff2_R x p : @diff2 ROps x p = d2 x p.
Proof. reflexivity. Qed.

Lemma constant_quadratic eps c nb x : nb_inr (length nb) nb -> symE (edges nb) -> length x = length nb ->
  @quad ROps (@constant_matrix ROps eps c nb) x = @qf_constant ROps eps c nb x.
Proof.
  intros HR HS HL. unfold constant_matrix. rewrite quad_build by (apply constant_entries_inr, HR).
  rewrite ES_constant. rewrite (norm2_seq x _ HL), (edges_quadratic nb x HS).
  unfold qf_constant. rewrite sumT_sumR. unfold sq. cbn [add mul ROps].
  change (@diff2 ROps x) with (d2 x). tr. lra.
Qed.
Lemma constant_symmetric eps c nb : nb_inr (length nb) nb -> symE (edges nb) -> forall a b,
  (a < length nb)%nat -> (b < length nb)%nat ->
  @mget ROps (@constant_matrix ROps eps c nb) a b = @mget ROps (@constant_matrix ROps eps c nb) b a.
Proof.
  intros HR HS. apply build_symmetric; [apply constant_entries_inr, HR | apply ES_constant_sym, HS].
Qed.
Lemma norm2_nonneg x : 0 <= @norm2 ROps x.
Proof. rewrite norm2_R. apply sumR_map_nonneg. intros v. nra. Qed.
Lemma norm2_pos x : (exists i, nth i x 0 <> 0) -> 0 < @norm2 ROps x.
Proof.
  rewrite norm2_R. intros [i Hi]. revert i Hi. induction x as [|a x IH]; intros i Hi.
  - destruct i; cbn in Hi; lra.
  - cbn [map sumR]. assert (0 <= sumR (map (fun v => v * v) x)) by (apply sumR_map_nonneg; intros; nra).
    destruct i as [|i]; cbn [nth] in Hi.
    + assert (0 < a * a) by nra. lra.
    + specialize (IH i Hi). nra.
Qed.
Lemma qf_constant_lower eps c nb x : eps * @norm2 ROps x <= @qf_constant ROps eps c nb x.
Proof.
  unfold qf_constant. rewrite sumT_sumR. unfold sq. cbn [add mul ROps].
  assert (H1 : 0 <= sumR (map (d2 x) (upairs nb))) by (apply sumR_map_nonneg; intros p; unfold d2; apply Rle_0_sqr).
  change (@diff2 ROps x) with (d2 x). tr.
  assert (H2 : 0 <= c * c) by apply Rle_0_sqr.
  pose proof (Rmult_le_pos _ _ H2 H1). lra.
Qed.

(* ------------------------------------------------------------------ constant + zeroth, zeroth *)
Lemma constant_zeroth_entries_inr eps c cz nb : nb_inr (length nb) nb ->
  Forall (inr (length nb)) (@constant_zeroth_entries ROps eps c cz nb).
Proof.
  intros H. unfold constant_zeroth_entries. apply Forall_forall. intros e He. apply in_flat_map in He. destruct He as [[i row] [Hir He]].
  apply in_indexed in Hir. destruct Hir as [Hi Hrow]. unfold nb_inr in H. rewrite Forall_forall in H. specialize (H row Hrow).
  cbn [fst snd] in He. destruct He as [<-|[<-|He]]; [split; cbn; auto|split; cbn; auto|].
  pose proof (const_row_inr (length nb) (@sq ROps c) i row Hi H) as HF. rewrite Forall_forall in HF. apply HF, He.
Qed.
Lemma ES_constant_zeroth eps c cz nb f g :
  ES (@constant_zeroth_entries ROps eps c cz nb) f g =
  ES (@constant_entries ROps eps c nb) f g + cz * cz * sumR (map (fun i => f i * g i) (seq 0 (length nb))).
Proof.
  unfold constant_zeroth_entries, constant_entries. rewrite !ES_flat_map.
  rewrite <- (sum_indexed_fst (fun i => f i * g i) nb), <- sumR_map_scal, <- sumR_map_add.
  apply sumR_map_ext. intros [i row] _. cbn [fst snd]. rewrite !ES_cons. cbn [fst snd]. unfold sq. cbn [mul ROps]. lra.
Qed.
Lemma constant_zeroth_quadratic eps c cz nb x : nb_inr (length nb) nb -> symE (edges nb) -> length x = length nb ->
  @quad ROps (@constant_zeroth_matrix ROps eps c cz nb) x = @qf_constant_zeroth ROps eps c cz nb x.
Proof.
  intros HR HS HL. unfold constant_zeroth_matrix. rewrite quad_build by (apply constant_zeroth_entries_inr, HR).
  rewrite ES_constant_zeroth, (norm2_seq x _ HL).
  rewrite <- (quad_build (length nb)) by (apply constant_entries_inr, HR).
  fold (@constant_matrix ROps eps c nb). rewrite constant_quadratic by auto.
  unfold qf_constant_zeroth, sq. cbn [add mul ROps]. tr. lra.
Qed.
Lemma constant_zeroth_symmetric eps c cz nb : nb_inr (length nb) nb -> symE (edges nb) -> forall a b,
  (a < length nb)%nat -> (b < length nb)%nat ->
  @mget ROps (@constant_zeroth_matrix ROps eps c cz nb) a b = @mget ROps (@constant_zeroth_matrix ROps eps c cz nb) b a.
Proof.
  intros HR HS. apply build_symmetric; [apply constant_zeroth_entries_inr, HR|].
  intros f g. rewrite !ES_constant_zeroth, (ES_constant_sym eps c nb HS f g). f_equal. f_equal. apply sumR_map_ext. intros; lra.
Qed.
Lemma qf_constant_zeroth_lower eps c cz nb x : eps * @norm2 ROps x <= @qf_constant_zeroth ROps eps c cz nb x.
Proof.
  unfold qf_constant_zeroth, sq. cbn [add mul ROps]. pose proof (qf_constant_lower eps c nb x). pose proof (norm2_nonneg x).
  assert (0 <= cz * cz) by apply Rle_0_sqr. pose proof (Rmult_le_pos (cz * cz) (@norm2 ROps x)). tr. lra.
Qed.

Lemma zeroth_entries_inr c n : Forall (inr n) (@zeroth_entries ROps c n).
Proof.
  unfold zeroth_entries. apply Forall_forall. intros e He. apply in_map_iff in He. destruct He as [i [<- Hi]].
  apply in_seq in Hi. split; cbn; lia.
Qed.
Lemma ES_zeroth c n f g : ES (@zeroth_entries ROps c n) f g = c * c * sumR (map (fun i => f i * g i) (seq 0 n)).
Proof.
  unfold zeroth_entries, ES. rewrite map_map, <- sumR_map_scal. apply sumR_map_ext. intros i _. cbn. lra.
Qed.
Lemma zeroth_quadratic c n x : length x = n -> @quad ROps (@zeroth_matrix ROps c n) x = @qf_zeroth ROps c x.
Proof.
  intros HL. unfold zeroth_matrix. rewrite quad_build by apply zeroth_entries_inr. rewrite ES_zeroth, (norm2_seq x n HL).
  reflexivity.
Qed.
Lemma zeroth_symmetric c n a b : (a < n)%nat -> (b < n)%nat ->
  @mget ROps (@zeroth_matrix ROps c n) a b = @mget ROps (@zeroth_matrix ROps c n) b a.
Proof.
  apply build_symmetric; [apply zeroth_entries_inr|]. intros f g. rewrite !ES_zeroth. f_equal. apply sumR_map_ext. intros; lra.
Qed.

(* ------------------------------------------------------------------ brightness zeroth *)
Lemma bz_entries_inr w : Forall (inr (length w)) (@bz_entries ROps w).
Proof.
  unfold bz_entries. apply Forall_forall. intros e He. apply in_map_iff in He. destruct He as [[i wi] [<- Hi]].
  apply in_indexed in Hi. destruct Hi as [Hi _]. split; cbn; tr; lia.
Qed.
Lemma sum_indexed_combine (F : R -> R -> R) (w x : list R) s : length x = length w ->
  sumR (map (fun iw => F (snd iw) (nth (fst iw - s) x 0)) (combine (seq s (length w)) w)) = sumR (map (fun wx => F (fst wx) (snd wx)) (combine w x)).
Proof.
  revert x s. induction w as [|a w IH]; intros [|b x] s HL; cbn in HL; try lia; cbn [length seq combine map sumR fst snd]; auto.
  replace (s - s)%nat with 0%nat by lia. cbn [nth]. f_equal.
  rewrite <- (IH x (S s)) by lia. apply sumR_map_ext. intros [i wi] Hi. apply in_combine_l in Hi. apply in_seq in Hi. cbn [fst snd].
  replace (i - s)%nat with (S (i - S s)) by lia. reflexivity.
Qed.
Lemma bz_quadratic w x : length x = length w -> @quad ROps (@bz_matrix ROps w) x = @qf_bz ROps w x.
Proof.
  intros HL. unfold bz_matrix. rewrite quad_build by apply bz_entries_inr.
  unfold qf_bz. rewrite sumT_sumR. unfold bz_entries, ES. rewrite map_map. cbn [fst snd].
  transitivity (sumR (map (fun wx : R * R => (fun a b => a * a * (b * b)) (fst wx) (snd wx)) (combine w x))).
  - cbv beta. tr. rewrite <- (sum_indexed_combine (fun a b => a * a * (b * b)) w x 0 HL). unfold indexed.
    apply sumR_map_ext. intros [i wi] _. cbn [fst snd]. rewrite Nat.sub_0_r. unfold sq, xh. cbn [mul ROps]. lra.
  - apply sumR_map_ext. intros [a b] _. unfold sq. cbn [fst snd mul ROps]. lra.
Qed.
Lemma bz_symmetric w a b : (a < length w)%nat -> (b < length w)%nat ->
  @mget ROps (@bz_matrix ROps w) a b = @mget ROps (@bz_matrix ROps w) b a.
Proof.
  apply build_symmetric; [apply bz_entries_inr|]. intros f g. unfold bz_entries, ES. rewrite !map_map.
  apply sumR_map_ext. intros; cbn; lra.
Qed.
Lemma qf_bz_nonneg w x : 0 <= @qf_bz ROps w x.
Proof.
  unfold qf_bz. rewrite sumT_sumR. apply sumR_map_nonneg. intros [a b]. unfold sq. cbn [fst snd mul ROps].
  apply Rmult_le_pos; apply Rle_0_sqr.
Qed.

(* ------------------------------------------------------------------ weighted (adaptive) scheme *)
Lemma nthT_map_sq (w : list R) k : @nthT ROps (map (@sq ROps) w) k = xh w k * xh w k.
Proof.
  unfold nthT, xh, zero. cbn [ofZ ROps]. replace (IZR 0) with (@sq ROps 0) at 1 by (unfold sq; cbn; lra).
  rewrite map_nth. reflexivity.
Qed.
Lemma ES_weighted_row rw i row f g :
  ES (@weighted_row ROps rw i row) f g =
  sumR (map (fun k => @nthT ROps rw k * (f i * g i + f k * g k - f i * g k - f k * g i)) row).
Proof.
  unfold weighted_row. rewrite ES_flat_map. apply sumR_map_ext. intros k _. unfold ES. cbn. lra.
Qed.
Lemma weighted_row_inr n rw i row : (i < n)%nat -> Forall (fun k => (k < n)%nat) row -> Forall (inr n) (@weighted_row ROps rw i row).
Proof.
  intros Hi HF. unfold weighted_row. apply Forall_forall. intros e He. apply in_flat_map in He. destruct He as [k [Hk He]].
  rewrite Forall_forall in HF. specialize (HF k Hk). cbn in He. destruct He as [<-|[<-|[<-|[<-|[]]]]]; split; cbn; auto.
Qed.
Lemma weighted_entries_inr eps w nb : length nb = length w -> nb_inr (length w) nb ->
  Forall (inr (length w)) (@weighted_entries ROps eps w nb).
Proof.
  intros HL H. unfold weighted_entries. rewrite <- HL. fold (indexed nb). rewrite <- HL in H.
  apply Forall_forall. intros e He. apply in_flat_map in He. destruct He as [[i row] [Hir He]].
  apply in_indexed in Hir. destruct Hir as [Hi Hrow]. unfold nb_inr in H. rewrite Forall_forall in H. specialize (H row Hrow).
  cbn [fst snd] in He. destruct He as [<-|He]; [split; cbn; auto|].
  pose proof (weighted_row_inr (length nb) (map (@sq ROps) w) i row Hi H) as HF. rewrite Forall_forall in HF. apply HF, He.
Qed.
Lemma ES_weighted eps w nb f g : length nb = length w ->
  ES (@weighted_entries ROps eps w nb) f g =
  eps * sumR (map (fun i => f i * g i) (seq 0 (length nb)))
  + sumR (map (fun p => xh w (snd p) * xh w (snd p) *
                        (f (fst p) * g (fst p) + f (snd p) * g (snd p) - f (fst p) * g (snd p) - f (snd p) * g (fst p))) (edges nb)).
Proof.
  intros HL. unfold weighted_entries. rewrite <- HL. fold (indexed nb). rewrite ES_flat_map.
  rewrite <- (sum_indexed_fst (fun i => f i * g i) nb), sum_edges, <- sumR_map_scal, <- sumR_map_add.
  apply sumR_map_ext. intros [i row] _. cbn [fst snd]. rewrite ES_cons, ES_weighted_row. cbn [fst snd].
  f_equal; [lra|]. apply sumR_map_ext. intros k _. rewrite nthT_map_sq. reflexivity.
Qed.
Lemma weighted_symmetric eps w nb : length nb = length w -> nb_inr (length w) nb -> forall a b,
  (a < length w)%nat -> (b < length w)%nat ->
  @mget ROps (@weighted_matrix ROps eps w nb) a b = @mget ROps (@weighted_matrix ROps eps w nb) b a.
Proof.
  intros HL HR. apply build_symmetric; [apply weighted_entries_inr; auto|].
  intros f g. rewrite !ES_weighted by exact HL. f_equal; [f_equal|]; apply sumR_map_ext; intros; lra.
Qed.
(* directed form: needs no symmetry of the neighbour lists *)
Lemma weighted_quadratic_directed eps w nb x : length nb = length w -> nb_inr (length w) nb -> length x = length w ->
  @quad ROps (@weighted_matrix ROps eps w nb) x =
  eps * @norm2 ROps x + sumR (map (fun p => xh w (snd p) * xh w (snd p) * d2 x p) (edges nb)).
Proof.
  intros HL HR HX. unfold weighted_matrix. rewrite quad_build by (apply weighted_entries_inr; auto).
  rewrite ES_weighted by exact HL. rewrite (norm2_seq x (length nb)) by (tr; lia).
  f_equal. apply sumR_map_ext. intros [i k] _. unfold d2. cbn [fst snd]. lra.
Qed.
Lemma weighted_lower eps w nb x : length nb = length w -> nb_inr (length w) nb -> length x = length w ->
  eps * @norm2 ROps x <= @quad ROps (@weighted_matrix ROps eps w nb) x.
Proof.
  intros HL HR HX. rewrite weighted_quadratic_directed by auto.
  assert (0 <= sumR (map (fun p => xh w (snd p) * xh w (snd p) * d2 x p) (edges nb))).
  { apply sumR_map_nonneg. intros p. apply Rmult_le_pos; [apply Rle_0_sqr | unfold d2; apply Rle_0_sqr]. }
  lra.
Qed.
Lemma weighted_quadratic eps w nb x : length nb = length w -> nb_inr (length w) nb -> symE (edges nb) -> length x = length w ->
  @quad ROps (@weighted_matrix ROps eps w nb) x = @qf_weighted ROps eps w nb x.
Proof.
  intros HL HR HS HX. rewrite weighted_quadratic_directed by auto.
  unfold qf_weighted. rewrite sumT_sumR. cbn [add mul ROps].
  set (g := fun p : nat * nat => xh w (snd p) * xh w (snd p) * d2 x p).
  set (h := fun p : nat * nat => (xh w (fst p) * xh w (fst p) + xh w (snd p) * xh w (snd p)) * d2 x p).
  assert (E1 : 2 * sumR (map g (edges nb)) = sumR (map h (edges nb))).
  { transitivity (sumR (map g (edges nb)) + sumR (map (fun p => g (swap p)) (edges nb))).
    - rewrite <- (symE_sum g _ HS). lra.
    - rewrite <- sumR_map_add. apply sumR_map_ext. intros [i k] _. unfold g, h, d2, swap. cbn [fst snd]. lra. }
  assert (E2 : sumR (map h (edges nb)) = 2 * sumR (map h (upairs nb))).
  { unfold upairs. apply symE_upairs; auto.
    - intros [i k]. unfold h, d2, swap. cbn [fst snd]. lra.
    - intros a. unfold h, d2. cbn [fst snd]. lra. }
  assert (E3 : sumR (map h (upairs nb)) =
               sumR (map (fun p => (@nthT ROps (map (@sq ROps) w) (fst p) + @nthT ROps (map (@sq ROps) w) (snd p)) * @diff2 ROps x p) (upairs nb))).
  { apply sumR_map_ext. intros p _. rewrite !nthT_map_sq. reflexivity. }
  tr. lra.
Qed.
Lemma qf_weighted_lower eps w nb x : eps * @norm2 ROps x <= @qf_weighted ROps eps w nb x.
Proof.
  unfold qf_weighted. rewrite sumT_sumR. cbn [add mul ROps].
  assert (0 <= sumR (map (fun p => (@nthT ROps (map (@sq ROps) w) (fst p) + @nthT ROps (map (@sq ROps) w) (snd p)) * @diff2 ROps x p) (upairs nb))).
  { apply sumR_map_nonneg. intros p. apply Rmult_le_pos.
    - rewrite !nthT_map_sq. pose proof (Rle_0_sqr (xh w (fst p))). pose proof (Rle_0_sqr (xh w (snd p))). unfold Rsqr in *. lra.
    - change (@diff2 ROps x p) with (d2 x p). unfold d2. apply Rle_0_sqr. }
  tr. lra.
Qed.

(* ------------------------------------------------------------------ statements with the boolean hypotheses *)
Definition square_n (n : nat) (H : Rmat) : Prop := length H = n /\ Forall (fun r => length r = n) H.
Definition symmetric_n (n : nat) (H : Rmat) : Prop := forall a b, (a < n)%nat -> (b < n)%nat -> @mget ROps H a b = @mget ROps H b a.
Definition nonzero (x : list R) : Prop := exists i, nth i x 0 <> 0.

Lemma nb_ok_split nb : nb_ok nb = true -> nb_inr (length nb) nb /\ symE (edges nb).
Proof.
  unfold nb_ok. intros H. apply andb_true_iff in H. destruct H as [H1 H2].
  split; [apply nb_in_range_inr, H1 | apply nb_symmetric_symE, H2].
Qed.

Lemma qf_constant_meaning eps c nb x :
  @qf_constant ROps eps c nb x =
  c * c * sumR (map (fun p => (nth (fst p) x 0 - nth (snd p) x 0) * (nth (fst p) x 0 - nth (snd p) x 0)) (upairs nb))
  + eps * sumR (map (fun v => v * v) x).
Proof. unfold qf_constant. rewrite sumT_sumR, norm2_R. reflexivity. Qed.
Lemma qf_weighted_meaning eps w nb x :
  @qf_weighted ROps eps w nb x =
  sumR (map (fun p => (nth (fst p) w 0 * nth (fst p) w 0 + nth (snd p) w 0 * nth (snd p) w 0)
                      * ((nth (fst p) x 0 - nth (snd p) x 0) * (nth (fst p) x 0 - nth (snd p) x 0))) (upairs nb))
  + eps * sumR (map (fun v => v * v) x).
Proof.
  unfold qf_weighted. rewrite sumT_sumR, norm2_R. cbn [add mul ROps]. f_equal.
  apply sumR_map_ext. intros p _. rewrite !nthT_map_sq. reflexivity.
Qed.

Lemma T_constant_size eps c nb : square_n (length nb) (@constant_matrix ROps eps c nb).
Proof. apply build_wfm. Qed.
Lemma T_constant_qf eps c nb x : nb_ok nb = true -> length x = length nb ->
  @quad ROps (@constant_matrix ROps eps c nb) x = @qf_constant ROps eps c nb x.
Proof. intros H HL. apply nb_ok_split in H. destruct H. apply constant_quadratic; auto. Qed.
Lemma T_constant_sym eps c nb : nb_ok nb = true -> symmetric_n (length nb) (@constant_matrix ROps eps c nb).
Proof. intros H. apply nb_ok_split in H. destruct H. unfold symmetric_n. apply constant_symmetric; auto. Qed.
Lemma T_constant_pd eps c nb x : 0 < eps -> nb_ok nb = true -> length x = length nb -> nonzero x ->
  0 < @quad ROps (@constant_matrix ROps eps c nb) x.
Proof.
  intros He H HL Hx. rewrite T_constant_qf by auto. pose proof (qf_constant_lower eps c nb x). pose proof (norm2_pos x Hx).
  pose proof (Rmult_lt_0_compat _ _ He H1). lra.
Qed.

Lemma T_constant_zeroth_size eps c cz nb : square_n (length nb) (@constant_zeroth_matrix ROps eps c cz nb).
Proof. apply build_wfm. Qed.
Lemma T_constant_zeroth_qf eps c cz nb x : nb_ok nb = true -> length x = length nb ->
  @quad ROps (@constant_zeroth_matrix ROps eps c cz nb) x = @qf_constant_zeroth ROps eps c cz nb x.
Proof. intros H HL. apply nb_ok_split in H. destruct H. apply constant_zeroth_quadratic; auto. Qed.
Lemma T_constant_zeroth_sym eps c cz nb : nb_ok nb = true -> symmetric_n (length nb) (@constant_zeroth_matrix ROps eps c cz nb).
Proof. intros H. apply nb_ok_split in H. destruct H. unfold symmetric_n. apply constant_zeroth_symmetric; auto. Qed.
Lemma T_constant_zeroth_pd eps c cz nb x : 0 < eps -> nb_ok nb = true -> length x = length nb -> nonzero x ->
  0 < @quad ROps (@constant_zeroth_matrix ROps eps c cz nb) x.
Proof.
  intros He H HL Hx. rewrite T_constant_zeroth_qf by auto. pose proof (qf_constant_zeroth_lower eps c cz nb x). pose proof (norm2_pos x Hx).
  pose proof (Rmult_lt_0_compat _ _ He H1). lra.
Qed.

Lemma T_zeroth_size c n : square_n n (@zeroth_matrix ROps c n).
Proof. apply build_wfm. Qed.
Lemma T_zeroth_sym c n : symmetric_n n (@zeroth_matrix ROps c n).
Proof. unfold symmetric_n. intros. apply zeroth_symmetric; auto. Qed.
Lemma T_zeroth_qf c n x : length x = n -> @quad ROps (@zeroth_matrix ROps c n) x = c * c * sumR (map (fun v => v * v) x).
Proof. intros HL. rewrite zeroth_quadratic by auto. unfold qf_zeroth. rewrite norm2_R. reflexivity. Qed.
Lemma T_zeroth_pd c n x : c <> 0 -> length x = n -> nonzero x -> 0 < @quad ROps (@zeroth_matrix ROps c n) x.
Proof.
  intros Hc HL Hx. rewrite T_zeroth_qf by auto. rewrite <- norm2_R. pose proof (norm2_pos x Hx).
  assert (0 < c * c) by nra. apply Rmult_lt_0_compat; auto.
Qed.

Lemma T_bz_size w : square_n (length w) (@bz_matrix ROps w).
Proof. apply build_wfm. Qed.
Lemma T_bz_sym w : symmetric_n (length w) (@bz_matrix ROps w).
Proof. unfold symmetric_n. intros. apply bz_symmetric; auto. Qed.
Lemma T_bz_psd w x : length x = length w -> 0 <= @quad ROps (@bz_matrix ROps w) x.
Proof. intros HL. rewrite bz_quadratic by auto. apply qf_bz_nonneg. Qed.
Lemma T_bz_qf w x : length x = length w ->
  @quad ROps (@bz_matrix ROps w) x = sumR (map (fun wx => fst wx * fst wx * (snd wx * snd wx)) (combine w x)).
Proof. intros HL. rewrite bz_quadratic by auto. unfold qf_bz. rewrite sumT_sumR. reflexivity. Qed.

Lemma wnb_ok_split (w : list R) nb : wnb_ok w nb = true -> length nb = length w /\ nb_inr (length w) nb /\ symE (edges nb).
Proof.
  unfold wnb_ok. intros H. apply andb_true_iff in H. destruct H as [H1 H2]. apply Nat.eqb_eq in H1.
  apply nb_ok_split in H2. destruct H2 as [H2 H3]. rewrite H1 in H2. auto.
Qed.
Lemma T_weighted_size eps w nb : square_n (length w) (@weighted_matrix ROps eps w nb).
Proof. apply build_wfm. Qed.
Lemma T_weighted_qf eps w nb x : wnb_ok w nb = true -> length x = length w ->
  @quad ROps (@weighted_matrix ROps eps w nb) x = @qf_weighted ROps eps w nb x.
Proof. intros H HL. apply wnb_ok_split in H. destruct H as [H1 [H2 H3]]. apply weighted_quadratic; auto. Qed.
Lemma T_weighted_sym eps w nb : wnb_ok w nb = true -> symmetric_n (length w) (@weighted_matrix ROps eps w nb).
Proof. intros H. apply wnb_ok_split in H. destruct H as [H1 [H2 H3]]. unfold symmetric_n. apply weighted_symmetric; auto. Qed.
Lemma T_weighted_pd eps w nb x : 0 < eps -> wnb_ok w nb = true -> length x = length w -> nonzero x ->
  0 < @quad ROps (@weighted_matrix ROps eps w nb) x.
Proof.
  intros He H HL Hx. apply wnb_ok_split in H. destruct H as [H1 [H2 H3]].
  pose proof (weighted_lower eps w nb x H1 H2 HL). pose proof (norm2_pos x Hx). pose proof (Rmult_lt_0_compat _ _ He H0). lra.
Qed.
(* the weights the adaptive scheme reports are squares, hence non-negative, one per signal *)
Lemma T_adaptive_weights inner outer s :
  length (@adaptive_weights ROps inner outer s) = length s /\ Forall (fun w => 0 <= w) (@adaptive_weights ROps inner outer s).
Proof.
  unfold adaptive_weights. split; [apply map_length|]. apply Forall_forall. intros w Hw. apply in_map_iff in Hw.
  destruct Hw as [v [<- _]]. unfold sq. cbn [mul add sub ROps]. apply Rle_0_sqr.
Qed.

(* ------------------------------------------------------------------ block-diagonal assembly *)
Notation block_diagR := (@block_diag ROps).
Lemma wfm_width n (M : Rmat) : wfm n M -> @width ROps M = n.
Proof.
  intros [HL HF]. unfold width. destruct M as [|r M]; cbn in *; [lia|]. inversion HF; subst; auto.
Qed.
Lemma nthT_zeros m b : @nthT ROps (@zeros ROps m) b = 0.
Proof. unfold nthT. apply nth_zeros_R. Qed.
Lemma block_diag_cons (B : Rmat) t :
  block_diagR (B :: t) = map (fun r => r ++ @zeros ROps (@width ROps (block_diagR t))) B
                         ++ map (fun r => @zeros ROps (@width ROps B) ++ r) (block_diagR t).
Proof. reflexivity. Qed.
Fixpoint total (Bs : list Rmat) : nat := match Bs with [] => 0%nat | B :: t => (length B + total t)%nat end.
Definition blocks_square (Bs : list Rmat) : Prop := Forall (fun B => wfm (length B) B) Bs.

Lemma block_diag_wfm Bs : blocks_square Bs -> wfm (total Bs) (block_diagR Bs).
Proof.
  induction 1 as [|B t HB HT IH]; [split; [reflexivity|constructor]|].
  rewrite block_diag_cons. rewrite (wfm_width _ _ IH), (wfm_width _ _ HB).
  destruct HB as [_ HB], IH as [IL IF]. cbn [total]. split.
  - rewrite app_length, !map_length. tr. lia.
  - apply Forall_app. split; apply Forall_forall; intros r Hr; apply in_map_iff in Hr; destruct Hr as [r0 [<- Hr0]];
      rewrite app_length; unfold zeros; rewrite repeat_length.
    + rewrite Forall_forall in HB. pose proof (HB _ Hr0) as E. tr. rewrite E. reflexivity.
    + rewrite Forall_forall in IF. pose proof (IF _ Hr0) as E. tr. rewrite E. reflexivity.
Qed.

Lemma mget_overflow (M : Rmat) a b : (length M <= a)%nat -> @mget ROps M a b = 0.
Proof. intros H. unfold mget. rewrite nth_overflow by exact H. unfold nthT. destruct b; reflexivity. Qed.

Lemma block_entry_ok Bs : blocks_square Bs -> forall a b, @mget ROps (block_diagR Bs) a b = @block_entry ROps Bs a b.
Proof.
  induction 1 as [|B t HB HT IH]; intros a b.
  - cbn. unfold mget, nthT. destruct a, b; reflexivity.
  - pose proof (block_diag_wfm t HT) as HW.
    rewrite block_diag_cons, (wfm_width _ _ HW), (wfm_width _ _ HB). cbn [block_entry]. tr.
    set (n := length B). set (N := total t).
    destruct (Nat.ltb_spec a n) as [Ha|Ha]; cbn [andb orb].
    + (* row of the first block *)
      unfold mget at 1. rewrite app_nth1 by (rewrite map_length; exact Ha).
      rewrite (nth_indep _ [] ((fun r => r ++ @zeros ROps N) [])) by (rewrite map_length; exact Ha).
      rewrite (map_nth (fun r => r ++ @zeros ROps N)).
      assert (HLr : length (nth a B []) = n) by (apply (wfm_row n); auto).
      destruct (Nat.ltb_spec b n) as [Hb|Hb].
      * unfold nthT. rewrite app_nth1 by (tr; lia). reflexivity.
      * unfold nthT. rewrite app_nth2 by (tr; lia). apply nth_zeros_R.
    + unfold mget at 1. rewrite app_nth2 by (rewrite map_length; exact Ha). rewrite map_length. fold n.
      destruct (Nat.ltb_spec (a - n) N) as [Ha2|Ha2].
      * rewrite (nth_indep _ [] ((fun r => @zeros ROps n ++ r) [])) by (rewrite map_length; destruct HW as [HWl _]; tr; lia).
        rewrite (map_nth (fun r => @zeros ROps n ++ r)).
        assert (Hz : length (@zeros ROps n) = n) by (unfold zeros; apply repeat_length).
        destruct (Nat.ltb_spec b n) as [Hb|Hb].
        -- unfold nthT. rewrite app_nth1 by (tr; lia). apply nth_zeros_R.
        -- unfold nthT. rewrite app_nth2 by (tr; lia). rewrite Hz. rewrite <- IH. reflexivity.
      * rewrite nth_overflow by (rewrite map_length; destruct HW as [HWl _]; tr; lia).
        destruct (Nat.ltb_spec b n) as [Hb|Hb]; [unfold nthT; destruct b; reflexivity|].
        rewrite <- IH, mget_overflow by (destruct HW as [HWl _]; tr; lia). unfold nthT. destruct b; reflexivity.
Qed.

(* an object without regularization contributes an all-zero block *)
Lemma none_block_zero p a b : @mget ROps (@obj_matrix ROps (p, None)) a b = 0.
Proof.
  unfold obj_matrix. cbn [fst snd]. unfold mget, mzeros.
  destruct (Nat.ltb_spec a p) as [H|H].
  - rewrite (nth_indep _ [] (@zeros ROps p)) by (rewrite repeat_length; exact H). rewrite nth_repeat. apply nthT_zeros.
  - rewrite nth_overflow by (rewrite repeat_length; exact H). unfold nthT. destruct b; reflexivity.
Qed.
Lemma none_block_size p : square_n p (@obj_matrix ROps (p, None)).
Proof. apply mzeros_wfm. Qed.

(* quadratic form of the assembly = sum of the blocks' quadratic forms on the corresponding slices *)
Lemma Rdot_app_zeros (r : list R) N x : Rdot (r ++ @zeros ROps N) x = Rdot r (firstn (length r) x).
Proof.
  unfold Rdot. revert x. induction r as [|a r IH]; intros x; cbn [app length firstn].
  - fold (Rdot (@zeros ROps N) x). rewrite Rdot_zeros. reflexivity.
  - destruct x as [|b x]; cbn [combine map sumR fst snd]; auto. rewrite IH. reflexivity.
Qed.
Lemma Rdot_zeros_app n (r : list R) x : Rdot (@zeros ROps n ++ r) x = Rdot r (skipn n x).
Proof.
  unfold Rdot, zeros, zero. cbn [ofZ ROps]. revert x. induction n as [|n IH]; intros x; cbn [repeat app skipn]; auto.
  destruct x as [|b x]; cbn [combine map sumR fst snd].
  - destruct r; reflexivity.
  - rewrite IH. lra.
Qed.
Lemma combine_app_l {A B} (x : list A) (l1 l2 : list B) :
  combine x (l1 ++ l2) = combine (firstn (length l1) x) l1 ++ combine (skipn (length l1) x) l2.
Proof.
  revert x. induction l1 as [|a l1 IH]; intros x; cbn [app length firstn skipn combine]; auto.
  destruct x as [|b x]; cbn [combine app]; auto. rewrite IH. reflexivity.
Qed.
Lemma Rbil_block (B : Rmat) (acc : Rmat) n N x y : wfm n B -> wfm N acc ->
  Rbil x (map (fun r => r ++ @zeros ROps N) B ++ map (fun r => @zeros ROps n ++ r) acc) y
  = Rbil (firstn n x) B (firstn n y) + Rbil (skipn n x) acc (skipn n y).
Proof.
  intros [HBl HBf] [HAl HAf]. unfold Rbil. rewrite combine_app_l, map_app, sumR_app, map_length. tr. rewrite HBl. f_equal.
  - clear HBl. revert HBf. generalize (firstn n x) as x1. induction B as [|r B IH]; intros x1 HF; destruct x1 as [|a x1]; cbn [map combine sumR fst snd]; auto.
    apply Forall_cons_iff in HF. destruct HF as [Hr HF']. rewrite IH by exact HF'. rewrite Rdot_app_zeros. tr. rewrite Hr. reflexivity.
  - clear HAl HAf. generalize (skipn n x) as x2. induction acc as [|r acc IH]; intros x2; destruct x2 as [|a x2]; cbn [map combine sumR fst snd]; auto.
    rewrite IH, Rdot_zeros_app. reflexivity.
Qed.
Fixpoint block_quad (Bs : list Rmat) (x : list R) : R :=
  match Bs with
  | [] => 0
  | B :: t => @quad ROps B (firstn (length B) x) + block_quad t (skipn (length B) x)
  end.
Lemma block_diag_quad Bs : blocks_square Bs -> forall x, @quad ROps (block_diagR Bs) x = block_quad Bs x.
Proof.
  induction 1 as [|B t HB HT IH]; intros x.
  - unfold quad. rewrite bil_R. destruct x; reflexivity.
  - pose proof (block_diag_wfm t HT) as HW. cbn [block_quad]. rewrite <- IH.
    unfold quad. rewrite !bil_R. rewrite block_diag_cons, (wfm_width _ _ HW), (wfm_width _ _ HB).
    apply Rbil_block; auto.
Qed.
Definition blocks_sq (Bs : list Rmat) : Prop := Forall (fun B => Forall (fun r => length r = length B) B) Bs.
Lemma blocks_sq_square Bs : blocks_sq Bs -> blocks_square Bs.
Proof. unfold blocks_sq, blocks_square, wfm. apply Forall_impl. intros B H. split; auto. Qed.
Lemma T_block_entry Bs : blocks_sq Bs -> forall a b, @mget ROps (block_diagR Bs) a b = @block_entry ROps Bs a b.
Proof. intros H. apply block_entry_ok, blocks_sq_square, H. Qed.
Lemma T_block_quad Bs : blocks_sq Bs -> forall x, @quad ROps (block_diagR Bs) x = block_quad Bs x.
Proof. intros H. apply block_diag_quad, blocks_sq_square, H. Qed.
Lemma T_block_size Bs : blocks_sq Bs -> square_n (total Bs) (block_diagR Bs).
Proof. intros H. apply block_diag_wfm, blocks_sq_square, H. Qed.
