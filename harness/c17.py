"""C17 -- grid decorators return containers mirroring the input grid, entry k for point k."""
import os, math, atexit, shutil, tempfile
import numpy as np
from fractions import Fraction
from harness.common import cz, cq, cnat, cbool, clist, ctup, import_aa, frac, exn_name

ID = "C17"
GEN = []
PROPS = "Props/C17.v"
COQ_CHECK = ("Model.C17", "check")
COQ_FALLBACK = None
COQ_IMPORTS = "From PAV Require Import Base.NumOps."
SHARD = 120
RULE = ("profile objects are generated classes whose methods are decorated with aa.grid_dec.to_array / to_grid / to_vector_yx / "
        "project_grid / relocate_to_radial_minimum / transform (alone and stacked to_X(transform(relocate(f))), also with a nested "
        "second decorated method); the user function is drawn from a family that makes any pairing error visible (affine and quadratic "
        "pointwise maps with distinct coefficients, position-weighted, running sum, mirrored, wrong-length), returning values, (y,x) "
        "pairs or lists of them, and records the grid it received. Inputs: Grid2D.from_mask and Grid2D(values, mask) on random "
        "non-square masks (1x1 .. 6x6, densities 0.1-0.9, anisotropic dyadic pixel scales, origins k/4), Grid2DIrregular, Grid1D with "
        "masked entries, plain ndarrays; profile centres k/4 inside and outside the frame and placed so that each of the four "
        "directions (+y, -y, +x, -x) is the longest reach, also exact ties, mostly with anisotropic scales; angles at quarter turns and Pythagorean "
        "(3-4-5, 5-12-13, 8-15-17) directions, remove_projected_centre both ways, radial minima {absent, -1, 0, 1/4 .. 5} with "
        "coordinates on a 1/16 lattice around the centre including exactly at the centre (known finding) and exactly at radius = "
        "minimum. Non-trivial = at least 2 coordinates reach the function; distinct = distinct JSON input.")
EXHAUSTIVE = {}
TRUSTED = ["hand-written Gallina model coq/Model/C17.v, tied to /repo by this correspondence run: both the grid the user function "
           "received and the returned container are compared inside Coq (vm_compute) with tolerance 1e-9 (sqrt / trig are inexact)",
           "numpy arctan2 / sin / cos / radians (oracle: the model applies the angle-difference identity, proved in Proofs/C17.v)",
           "QOps square root: rational approximation to 2^-64 relative (execution device; decisions r < rmin are kept at a margin "
           ">= 4e-4 or exactly on the boundary with exactly representable square roots)",
           "autoconf configuration lookup: the harness pushes an overlay with grids.radial_minimum entries for its generated "
           "class names and general.grid.remove_projected_centre (both recorded in the case)"]
ASSUMPTIONS = ["real arithmetic (no rounding); finite inputs (no inf / NaN coordinates)",
               "a user function returning the kind of result the decorator is meant for (values for to_array / project_grid, pairs "
               "for to_grid / to_vector_yx); other combinations are outside the property's quantifier and not modelled",
               "over_sample (C09) is not part of this property"]

# --------------------------------------------------------------------------------------------- configuration overlay
RMINS = ["-1", "0", "1/4", "1/2", "1", "5/4", "3/2", "2", "5/2", "13/4", "5"]
def _cls_name(rmin):
    if rmin is None: return "PavProfileNoEntry"
    f = Fraction(rmin)
    return "PavProfile_" + ("m" if f < 0 else "") + f"{abs(f.numerator)}_{f.denominator}"
_CFG = {}
_BASE = []
def _cfg_dir(rpc):
    """rpc = True / False: overlay sets general.grid.remove_projected_centre; "default": the repository's own general.yaml decides"""
    if rpc not in _CFG:
        d = tempfile.mkdtemp(prefix="verif_c17_cfg_")
        atexit.register(shutil.rmtree, d, True)
        if rpc != "default":
            with open(os.path.join(d, "general.yaml"), "w") as f:
                f.write("grid:\n  remove_projected_centre: %s\n" % ("true" if rpc else "false"))
        with open(os.path.join(d, "grids.yaml"), "w") as f:
            f.write("radial_minimum:\n  radial_minimum:\n")
            for r in RMINS: f.write(f"    {_cls_name(r)}: {float(Fraction(r))!r}\n")
        _CFG[rpc] = d
    return _CFG[rpc]
def push_cfg(rpc):
    import logging
    logging.getLogger("autoarray").setLevel(logging.ERROR)      # anisotropic pixel scales log a warning per access
    from autoconf import conf
    from autoconf.conf import RecursiveConfig
    if not _BASE: _BASE.extend(conf.instance.configs)          # [cwd/config (absent), <repo>/autoarray/config]
    # exactly one overlay in front of the repository defaults (conf.instance.push would keep earlier overlays as fall-backs)
    conf.instance.configs = [RecursiveConfig(_cfg_dir(rpc if rpc == "default" else bool(rpc)))] + list(_BASE)

# --------------------------------------------------------------------------------------------- user functions
def F(x, d=None): return Fraction(x) if d is None else Fraction(x, d)
def to_nd(grid):
    return np.array(grid.array if hasattr(grid, "array") else grid, dtype=float)

def sapply(s, cs):
    k = s[0]; co = [float(Fraction(v)) for v in s[1:]]
    y, x = cs[:, 0], cs[:, 1]
    n = cs.shape[0]
    if k == "aff": return co[0] * y + co[1] * x + co[2]
    if k == "quad": return co[0] * (y * y) + co[1] * (x * x) + co[2] * (y * x)
    if k == "idx": return np.arange(1, n + 1) * (co[0] * y) + co[1] * x
    if k == "cum": return np.cumsum(co[0] * y + co[1] * x)
    if k == "mir": return (co[0] * y + co[1] * x)[::-1].copy()
    if k == "drop": return (co[0] * y + co[1] * x)[1:].copy()
    raise ValueError(k)
def uapply1(f, cs):
    if f[0] == "V": return sapply(f[1], cs)
    a, b = sapply(f[1], cs), sapply(f[2], cs)
    n = min(len(a), len(b))
    return np.stack([a[:n], b[:n]], axis=-1) if n else np.zeros((0, 2))
def uapply(u, cs):
    if u["list"]: return [uapply1(f, cs) for f in u["fs"]]
    return uapply1(u["fs"][0], cs)

SF = {"aff": "SAff", "quad": "SQuad", "idx": "SIdx", "cum": "SCum", "mir": "SMir", "drop": "SDrop"}
def c_sfun(s): return "(@" + SF[s[0]] + " QOps " + " ".join(cq(F(v)) for v in s[1:]) + ")"
def c_ufun1(f):
    return f"(@FV QOps {c_sfun(f[1])})" if f[0] == "V" else f"(@FP QOps {c_sfun(f[1])} {c_sfun(f[2])})"
def c_ufun(u):
    return f"(@FL QOps {clist([c_ufun1(f) for f in u['fs']])})" if u["list"] else f"(@F1 QOps {c_ufun1(u['fs'][0])})"

# --------------------------------------------------------------------------------------------- Coq printing of data
def c_pt(p): return ctup([cq(p[0]), cq(p[1])])
def c_pts(ps): return clist([c_pt(p) for p in ps])
def c_vals(v): return clist([cq(x) for x in v])
def c_bits2(b): return clist([clist([cbool(x) for x in r]) for r in b])
def c_mask2(m): return f"(@Build_mask2 QOps {c_bits2(m['bits'])} {c_pt(m['ps'])} {c_pt(m['org'])})"
def c_mask1(m): return f"(@Build_mask1 QOps {clist([cbool(x) for x in m['bits']])} {cq(m['ps'])} {cq(m['org'])})"
def c_opt(x, f): return "None" if x is None else f"(Some {f(x)})"
def fr2(p): return [F(p[0]), F(p[1])]
def frs(l): return [F(v) for v in l]
def frps(l): return [fr2(p) for p in l]

def c_gspec(g):
    k = g["k"]
    if k == "mask": return f"(SMask {c_mask2(pm2(g))})"
    if k == "2d": return f"(S2D {c_mask2(pm2(g))} {c_pts(frps(g['cs']))})"
    if k == "irr": return f"(SIrr {c_pts(frps(g['cs']))})"
    if k == "raw": return f"(SRaw {c_pts(frps(g['cs']))})"
    if k == "1d": return f"(S1D {c_mask1(pm1(g))} {c_vals(frs(g['xs']))})"
    raise ValueError(k)
def pm2(g): return {"bits": g["bits"], "ps": fr2(g["ps"]), "org": fr2(g["org"])}
def pm1(g): return {"bits": g["bits"], "ps": F(g["ps"]), "org": F(g["org"])}

def build_grid(aa, g):
    k = g["k"]
    if k in ("mask", "2d"):
        mask = aa.Mask2D(mask=np.array(g["bits"], dtype=bool), pixel_scales=tuple(float(F(v)) for v in g["ps"]),
                         origin=tuple(float(F(v)) for v in g["org"]))
        if k == "mask": return aa.Grid2D.from_mask(mask=mask)
        return aa.Grid2D(values=np.array([[float(F(a)), float(F(b))] for a, b in g["cs"]]).reshape(-1, 2), mask=mask)
    if k == "irr": return aa.Grid2DIrregular(values=[(float(F(a)), float(F(b))) for a, b in g["cs"]])
    if k == "raw": return np.array([[float(F(a)), float(F(b))] for a, b in g["cs"]]).reshape(-1, 2)
    if k == "1d":
        mask = aa.Mask1D(mask=np.array(g["bits"], dtype=bool), pixel_scales=float(F(g["ps"])), origin=(float(F(g["org"])),))
        return aa.Grid1D(values=np.array([float(F(v)) for v in g["xs"]]), mask=mask)
    raise ValueError(k)

# --------------------------------------------------------------------------------------------- encoding the implementation's output
def enc_mask2(m):
    return {"bits": [[bool(b) for b in r] for r in np.array(m)], "ps": [frac(v) for v in m.pixel_scales], "org": [frac(v) for v in m.origin]}
def enc_mask1(m):
    return {"bits": [bool(b) for b in np.array(m)], "ps": frac(m.pixel_scales[0]), "org": frac(m.origin[0])}
def enc_vals(a): return [frac(v) for v in np.array(a, dtype=float).ravel()]
def enc_pairs(a): return [[frac(r[0]), frac(r[1])] for r in np.array(a, dtype=float).reshape(-1, 2)]
def slim_nd(x):
    s = x.slim
    return np.array(s.array if hasattr(s, "array") else s, dtype=float)

def enc_container(r):
    t = type(r).__name__
    if t == "Array2D": return ("Array2D", enc_mask2(r.mask), enc_vals(slim_nd(r)))
    if t == "Grid2D": return ("Grid2D", enc_mask2(r.mask), enc_pairs(slim_nd(r)))
    if t == "VectorYX2D": return ("Vector2D", enc_mask2(r.mask), enc_pairs(slim_nd(r.grid)), enc_pairs(slim_nd(r)))
    if t == "ArrayIrregular": return ("ArrayIrr", enc_vals(to_nd(r)))
    if t == "Grid2DIrregular": return ("GridIrr", enc_pairs(to_nd(r)))
    if t == "VectorYX2DIrregular": return ("VectorIrr", enc_pairs(to_nd(r.grid)), enc_pairs(to_nd(r)))
    if t == "Array1D": return ("Array1D", enc_mask1(r.mask), enc_vals(slim_nd(r)))
    if t == "ndarray":
        if r.ndim == 1: return ("RawV", enc_vals(r))
        if r.ndim == 2 and r.shape[1] == 2: return ("RawP", enc_pairs(r))
    raise AssertionError("unexpected container " + t)
def c_container(c):
    t = c[0]
    if t == "Array2D": return f"(@Array2D QOps {c_mask2(c[1])} {c_vals(c[2])})"
    if t == "Grid2D": return f"(@Grid2D QOps {c_mask2(c[1])} {c_pts(c[2])})"
    if t == "Vector2D": return f"(@Vector2D QOps {c_mask2(c[1])} {c_pts(c[2])} {c_pts(c[3])})"
    if t == "ArrayIrr": return f"(@ArrayIrr QOps {c_vals(c[1])})"
    if t == "GridIrr": return f"(@GridIrr QOps {c_pts(c[1])})"
    if t == "VectorIrr": return f"(@VectorIrr QOps {c_pts(c[1])} {c_pts(c[2])})"
    if t == "Array1D": return f"(@Array1D QOps {c_mask1(c[1])} {c_vals(c[2])})"
    if t == "RawV": return f"(@RawOne QOps (@Vals QOps {c_vals(c[1])}))"
    if t == "RawP": return f"(@RawOne QOps (@Pairs QOps {c_pts(c[1])}))"
    raise ValueError(t)
def enc_output(r):
    if isinstance(r, list): return ("many", [enc_container(x) for x in r])
    return ("one", enc_container(r))
def c_rout(o):
    if o[0] == "raise": return f"(@Raise (@output QOps) {o[1]})"
    kind, v = o[1]
    if kind == "many": return f"(Ok (@OMany QOps {clist([c_container(c) for c in v])}))"
    return f"(Ok (@OOne QOps {c_container(v)}))"

# --------------------------------------------------------------------------------------------- profile classes
_CLS = {}
def profile_class(aa, rmin):
    """a class (named after its radial minimum, which is how the decorator finds the config entry) whose methods are decorated"""
    name = _cls_name(rmin)
    if name in _CLS: return _CLS[name]
    dec = aa.grid_dec
    from autoarray.geometry import geometry_util

    class Base:
        def __init__(self, u, rad=("euclid",)):
            self.u = u; self.rad = rad
            self.seen = None; self.seen_obj = None; self.calls = 0; self.tf_calls = 0
        def _f(self, grid):
            self.calls += 1
            self.seen_obj = grid
            self.seen = to_nd(grid).reshape(-1, 2)
            return uapply(self.u, self.seen)
        # the profile's own geometry methods (what PyAutoGalaxy's profiles supply)
        def radial_grid_from(self, grid):
            if self.rad[0] == "euclid":
                return np.sqrt(np.add(np.square(grid[:, 0]), np.square(grid[:, 1])))
            q = float(Fraction(self.rad[1]))
            return np.sqrt(np.add(np.square(grid[:, 0]), np.square(np.divide(grid[:, 1], q))))
        def transformed_to_reference_frame_grid_from(self, grid, **kwargs):
            self.tf_calls += 1
            arr = geometry_util.transform_grid_2d_to_reference_frame(grid_2d=to_nd(grid), centre=self.centre, angle=self.angle)
            return grid.with_new_array(arr) if hasattr(grid, "with_new_array") else arr
        # single decorators
        @dec.to_array
        def m_array(self, grid, *args, **kwargs): return self._f(grid)
        @dec.to_grid
        def m_grid(self, grid, *args, **kwargs): return self._f(grid)
        @dec.to_vector_yx
        def m_vector(self, grid, *args, **kwargs): return self._f(grid)
        @dec.project_grid
        def m_project(self, grid, *args, **kwargs): return self._f(grid)
        @dec.relocate_to_radial_minimum
        def m_relocate(self, grid, *args, **kwargs): return self._f(grid)
        # the usual stack
        @dec.transform
        @dec.relocate_to_radial_minimum
        def inner(self, grid, *args, **kwargs): return self._f(grid)
        @dec.to_array
        @dec.transform
        @dec.relocate_to_radial_minimum
        def s_array(self, grid, *args, **kwargs): return self._f(grid)
        @dec.to_grid
        @dec.transform
        @dec.relocate_to_radial_minimum
        def s_grid(self, grid, *args, **kwargs): return self._f(grid)
        @dec.to_vector_yx
        @dec.transform
        @dec.relocate_to_radial_minimum
        def s_vector(self, grid, *args, **kwargs): return self._f(grid)
        # ... whose body calls a second decorated method, handing its kwargs on (is_transformed travels with them)
        @dec.to_array
        @dec.transform
        @dec.relocate_to_radial_minimum
        def n_array(self, grid, *args, **kwargs): return self.inner(grid, **kwargs)
        @dec.to_grid
        @dec.transform
        @dec.relocate_to_radial_minimum
        def n_grid(self, grid, *args, **kwargs): return self.inner(grid, **kwargs)
        @dec.to_vector_yx
        @dec.transform
        @dec.relocate_to_radial_minimum
        def n_vector(self, grid, *args, **kwargs): return self.inner(grid, **kwargs)

    cls = type(name, (Base,), {})
    _CLS[name] = cls
    return cls

ANGLES = [("1", "0"), ("0", "1"), ("-1", "0"), ("0", "-1"), ("3/5", "4/5"), ("4/5", "-3/5"), ("-5/13", "12/13"),
          ("-8/17", "-15/17"), ("12/13", "5/13"), ("-4/5", "3/5")]
def angle_deg(a):
    c, s = float(F(a[0])), float(F(a[1]))
    q = {(1.0, 0.0): 0.0, (0.0, 1.0): 90.0, (-1.0, 0.0): 180.0, (0.0, -1.0): -90.0}
    return q.get((c, s), math.degrees(math.atan2(s, c)))

# --------------------------------------------------------------------------------------------- running one case
def call(fn, grid):
    try:
        return ("ok", fn(grid))
    except Exception as e:   # noqa
        return ("raise", exn_name(e), type(e).__name__)

def n_coords(g):
    if g["k"] in ("mask", "2d"): return sum(1 for r in g["bits"] for b in r if not b)
    if g["k"] == "1d": return sum(1 for b in g["bits"] if not b)
    return len(g["cs"])

def frame_pts(inp):
    """exact coordinates, in the profile frame, that the radial-minimum step looks at (Fractions)"""
    g = inp["grid"]
    if g["k"] == "mask":
        H, W = len(g["bits"]), len(g["bits"][0])
        psy, psx = fr2(g["ps"]); oy, ox = fr2(g["org"])
        cs = [[(F(H - 1) / 2 - y) * psy + oy, (x - F(W - 1) / 2) * psx + ox]
              for y in range(H) for x in range(W) if not g["bits"][y][x]]
    elif g["k"] == "1d": cs = [[F(0), F(v)] for v in g["xs"]]
    else: cs = frps(g["cs"])
    if inp["op"] == "stack":
        cy, cx = fr2(inp["centre"]); c, s = fr2(inp["angle"])
        cs = [[(y - cy) * c - (x - cx) * s, (x - cx) * c + (y - cy) * s] for y, x in cs]
    return cs
def rad2(inp, p):
    if inp["op"] == "relocate" and inp["rad"][0] == "ellip":
        return p[0] ** 2 + (p[1] / F(inp["rad"][1])) ** 2
    return p[0] ** 2 + p[1] ** 2

FINDING = "coordinate equals the profile centre"
SKIPPED = {"band": 0}

def classify(inp):
    """(finding key or None, in_band): computed from the INPUT only"""
    if inp["op"] not in ("relocate", "stack") or inp["rmin"] is None: return None, False
    rm = F(inp["rmin"])
    if rm <= 0: return None, False
    pts = frame_pts(inp)
    at_centre = any(p[0] == 0 and p[1] == 0 for p in pts)
    exact = inp["op"] == "relocate"          # no trig in front of the comparison: exact boundary cases are decidable
    band = any((rad2(inp, p) == rm * rm and not exact) or (0 < abs(rad2(inp, p) - rm * rm) < F(1, 1024)) for p in pts)
    return (FINDING if at_centre else None), band

def run_case(inp):
    aa = import_aa()
    op = inp["op"]
    g = inp["grid"]; u = inp["u"]
    finding, band = classify(inp)
    if band:
        SKIPPED["band"] += 1
        return {"coq": None, "out": "skipped: a radius within 1e-3 of the radial minimum", "py_ok": None, "kind": op + ":skipped", "nontrivial": False}
    rpc_in = inp.get("rpc", False)
    push_cfg(rpc_in)
    rpc = False if rpc_in == "default" else bool(rpc_in)      # the repository default (after fixes/C17_default_config...) is false
    grid = build_grid(aa, g)
    rmin = inp.get("rmin")
    cls = profile_class(aa, rmin if op in ("relocate", "stack") else "1")
    obj = cls(u, tuple(inp["rad"]) if op == "relocate" else ("euclid",))
    py_ok = True
    notes = []
    if op == "make":
        fn = {"array": obj.m_array, "grid": obj.m_grid, "vector": obj.m_vector}[inp["dec"]]
    elif op == "project":
        if inp["centre"] != "absent": obj.centre = None if inp["centre"] is None else tuple(float(F(v)) for v in inp["centre"])
        if inp["angle"] != "absent": obj.angle = None if inp["angle"] is None else angle_deg(inp["angle"])
        fn = obj.m_project
    elif op == "relocate":
        fn = obj.m_relocate
    elif op == "stack":
        obj.centre = tuple(float(F(v)) for v in inp["centre"]); obj.angle = angle_deg(inp["angle"])
        fn = getattr(obj, ("n_" if inp["nested"] else "s_") + inp["dec"])
    else:
        raise ValueError(op)
    r = call(fn, grid)
    seen = [] if obj.seen is None else enc_pairs(obj.seen)
    if r[0] == "ok":
        out = ("ok", enc_output(r[1]))
        # relations only Python can see: object identity of the mask, the container handed to the function, call counts
        res0 = r[1][0] if isinstance(r[1], list) and r[1] else r[1]
        if op in ("make", "stack") and g["k"] in ("mask", "2d") and hasattr(res0, "mask"):
            if res0.mask is not grid.mask: py_ok = False; notes.append("returned container is not on the input grid's mask object")
        if op in ("make",) and g["k"] == "1d" and inp["dec"] == "array" and hasattr(res0, "mask"):
            if res0.mask is not grid.mask: py_ok = False; notes.append("returned Array1D is not on the input grid's mask object")
        if op in ("relocate", "stack", "make") and g["k"] in ("mask", "2d", "irr") and obj.seen_obj is not None:
            if type(obj.seen_obj).__name__ != type(grid).__name__:
                py_ok = False; notes.append(f"function received a {type(obj.seen_obj).__name__} for a {type(grid).__name__} input")
            elif g["k"] != "irr" and obj.seen_obj.mask is not grid.mask:
                py_ok = False; notes.append("function received a grid on a different mask object")
        if op == "stack" and obj.tf_calls != 1: py_ok = False; notes.append(f"grid transformed {obj.tf_calls} times")
        if obj.calls != 1: py_ok = False; notes.append(f"user function called {obj.calls} times")
    else:
        out = ("raise", r[1])
        notes.append(r[2])
    sn = c_pts(seen)
    if op == "make":
        coq = f"(KMake {DEC[inp['dec']]} {c_gspec(g)} {c_ufun(u)} {sn} {c_rout(out)})"
    elif op == "project":
        c = None if inp["centre"] in (None, "absent") else fr2(inp["centre"])
        a = None if inp["angle"] in (None, "absent") else fr2(inp["angle"])
        coq = f"(KProject {c_opt(c, c_pt)} {c_opt(a, c_pt)} {cbool(rpc)} {c_gspec(g)} {c_ufun(u)} {sn} {c_rout(out)})"
    elif op == "relocate":
        rf = "REuclid" if inp["rad"][0] == "euclid" else f"(REllip {cq(F(inp['rad'][1]))})"
        coq = f"(KRelocate {c_opt(None if rmin is None else F(rmin), cq)} {rf} {c_gspec(g)} {c_ufun(u)} {sn} {c_rout(out)})"
    else:
        coq = (f"(KStack {DEC[inp['dec']]} {c_opt(None if rmin is None else F(rmin), cq)} {c_pt(fr2(inp['centre']))} "
               f"{c_pt(fr2(inp['angle']))} {cbool(inp['nested'])} {c_gspec(g)} {c_ufun(u)} {sn} {c_rout(out)})")
    extra = []
    if op == "project" and g["k"] in ("mask", "2d"):
        c0 = [F(0), F(0)] if inp["centre"] in (None, "absent") else fr2(inp["centre"])
        n = grid.grid_2d_radial_projected_shape_slim_from(centre=(float(c0[0]), float(c0[1])))
        extra.append(f"(KShape {c_mask2(pm2(g))} {c_pt(c0)} {cz(int(n))})")
    res = {"coq": coq, "extra_coq": extra, "out": {"seen": [[str(a), str(b)] for a, b in seen][:12], "result": summarize(out), "notes": notes},
           "py_ok": py_ok if r[0] == "ok" else None, "kind": op + ":" + g["k"] + (":" + inp["dec"] if "dec" in inp else ""),
           "nontrivial": len(seen) >= 2}
    if not py_ok: res["detail"] = "; ".join(notes)
    if finding: res["finding"] = finding
    return res

DEC = {"array": "ToArray", "grid": "ToGrid", "vector": "ToVector"}
def summarize(out):
    if out[0] == "raise": return "raise " + out[1]
    kind, v = out[1]
    def one(c):
        vals = c[-1]
        return c[0] + " " + str([(str(x) if not isinstance(x, list) else [str(t) for t in x]) for x in vals][:8])
    return [one(c) for c in v][:3] if kind == "many" else one(v)

def extra_evidence():
    return {"skipped_in_band": SKIPPED["band"],
            "band_rule": "relocate/stack cases with a coordinate whose squared radius is within 1/1024 of rmin^2 (or exactly on it after a "
                         "rotation) are skipped: the implementation's comparison r < rmin is taken on rounded square roots"}

# --------------------------------------------------------------------------------------------- generators
PS = ["1/4", "1/2", "1", "3/2", "2", "3"]
def S(x): return str(Fraction(x))
def rand_mask2(rng, maxn=6, iso=0.6):
    H, W = rng.randint(1, maxn), rng.randint(1, maxn)
    p = rng.choice([0.0, 0.1, 0.3, 0.5, 0.7, 0.9])
    bits = [[rng.random() < p for _ in range(W)] for _ in range(H)]
    if all(all(r) for r in bits): bits[rng.randrange(H)][rng.randrange(W)] = False
    psy = rng.choice(PS); psx = psy if rng.random() < iso else rng.choice(PS)
    # origin = pixel scale * k/4: origin / pixel_scale (computed by the code) stays exact in doubles also for scales 3 and 3/2
    org = [S(F(psy) * F(rng.randint(-6, 6), 4)), S(F(psx) * F(rng.randint(-6, 6), 4))] if rng.random() < 0.7 else ["0", "0"]
    return {"bits": bits, "ps": [psy, psx], "org": org}
def rand_pts(rng, n, span=8, den=16):
    return [[S(F(rng.randint(-span * den, span * den), den)), S(F(rng.randint(-span * den, span * den), den))] for _ in range(n)]
def rand_grid(rng, kinds=("mask", "2d", "irr", "1d", "raw"), pts=None, iso=0.6):
    k = rng.choice(kinds)
    if k in ("mask", "2d"):
        m = rand_mask2(rng, iso=iso)
        g = dict(m, k=k)
        if k == "2d":
            n = n_coords(g)
            g["cs"] = pts(rng, n) if pts else rand_pts(rng, n)
        return g
    if k in ("irr", "raw"):
        n = rng.randint(1, 9)
        return {"k": k, "cs": pts(rng, n) if pts else rand_pts(rng, n)}
    L = rng.randint(1, 7)
    p = rng.choice([0.0, 0.3, 0.6])
    bits = [rng.random() < p for _ in range(L)]
    if all(bits): bits[rng.randrange(L)] = False
    n = sum(1 for b in bits if not b)
    return {"k": "1d", "bits": bits, "ps": rng.choice(PS), "org": S(F(rng.randint(-4, 4), 4)),
            "xs": [S(F(rng.randint(-64, 64), 8)) for _ in range(n)]}

COEF = ["1", "-1", "2", "-2", "3", "1/2", "-3/2", "5", "-7", "16"]
def rand_sfun(rng, allow_drop=False):
    k = rng.choice(["aff", "aff", "quad", "idx", "cum", "mir"] + (["drop"] if allow_drop else []))
    a, b = rng.sample(COEF, 2)
    if k in ("aff", "quad"): return [k, a, b, rng.choice(COEF + ["0"])]
    return [k, a, b]
def rand_ufun(rng, want, allow_drop=False, allow_list=True):
    """want = 'V' (values) or 'P' (pairs)"""
    def one():
        return ["V", rand_sfun(rng, allow_drop)] if want == "V" else ["P", rand_sfun(rng, allow_drop), rand_sfun(rng, allow_drop)]
    if allow_list and rng.random() < 0.3:
        return {"list": True, "fs": [one() for _ in range(rng.randint(1, 3))]}
    return {"list": False, "fs": [one()]}
IDENT = {"list": False, "fs": [["P", ["aff", "1", "0", "0"], ["aff", "0", "1", "0"]]]}     # returns the grid itself

def near_pts(rmin_choices):
    """coordinates clustered around the origin / a centre, including exactly the centre and exactly radius = rmin"""
    ring = {"5/4": [("3/4", "1"), ("-1", "3/4")], "5/2": [("3/2", "2"), ("-2", "-3/2"), ("5/2", "0")], "5": [("3", "4"), ("-4", "3"), ("0", "-5")],
            "13/4": [("5/4", "3"), ("-3", "5/4")], "1": [("1", "0"), ("0", "-1")], "1/2": [("0", "1/2")], "2": [("-2", "0")],
            "1/4": [("1/4", "0")], "3/2": [("0", "3/2")]}
    def f(rng, n, c=(F(0), F(0)), rm=None):
        out = []
        for _ in range(n):
            t = rng.random()
            if t < 0.06: p = (F(0), F(0))
            elif t < 0.25 and rm in ring:
                q = rng.choice(ring[rm]); p = (F(q[0]), F(q[1]))
            elif t < 0.75: p = (F(rng.randint(-40, 40), 16), F(rng.randint(-40, 40), 16))
            else: p = (F(rng.randint(-100, 100), 16), F(rng.randint(-100, 100), 16))
            out.append([S(p[0] + c[0]), S(p[1] + c[1])])
        return out
    return f

def centre_towards(rng, g, d):
    """a profile centre for which the LONGEST axis-parallel distance to the frame edge points in direction d (each of the four
    branches of the max / == tests in grid_scaled_2d_slim_radial_projected_from), or the y and x reaches tie"""
    H, W = len(g["bits"]), len(g["bits"][0])
    psy, psx = fr2(g["ps"]); oy, ox = fr2(g["org"])
    hy, hx = psy * H / 2, psx * W / 2
    small = F(rng.randint(-2, 2), 4)
    if d in ("+y", "-y", "tie"):
        a = max(F(0), hx + abs(small) - hy) + (F(0) if d == "tie" else F(rng.randint(1, 8), 4))
        if d == "tie" and hx + abs(small) < hy: return [S(oy), S(ox + (hy - hx) * rng.choice([1, -1]))]
        return [S(oy + (a if d != "+y" else -a) if d != "tie" else oy + a * rng.choice([1, -1])), S(ox + small)]
    a = max(F(0), hy + abs(small) - hx) + F(rng.randint(1, 8), 4)
    return [S(oy + small), S(ox + (a if d == "-x" else -a))]

def gen_inputs(tier, rng):
    big = tier == "thorough"
    N = 8 if big else 1
    decs = ["array", "grid", "vector"]
    # ---- makers: every decorator x every grid kind, values / pairs / lists
    for i in range(200 * N):
        dec = decs[i % 3]
        g = rand_grid(rng)
        u = rand_ufun(rng, "V" if dec == "array" else "P", allow_drop=(i % 7 == 0))
        yield {"op": "make", "dec": dec, "grid": g, "u": u}
    # ---- project_grid
    for i in range(150 * N):
        g = rand_grid(rng, kinds=("mask", "mask", "2d", "irr", "1d", "1d", "raw"), iso=0.3)
        centre = rng.choice(["absent", None, "v", "v", "v", "v"])
        if centre == "v":
            centre = [S(F(rng.randint(-16, 16), 4)), S(F(rng.randint(-16, 16), 4))]
            if g["k"] in ("mask", "2d") and i % 3:
                centre = centre_towards(rng, g, rng.choice(["+y", "-y", "+x", "-x", "tie"]))
        angle = rng.choice(["absent", None, "v", "v", "v", "v"])
        if angle == "v": angle = list(rng.choice(ANGLES))
        if g["k"] == "irr": u = rand_ufun(rng, rng.choice("VP"), allow_list=(i % 9 == 0))
        else: u = rand_ufun(rng, "V", allow_list=False)
        yield {"op": "project", "grid": g, "u": u, "centre": centre, "angle": angle,
               "rpc": "default" if (i % 5 == 0 and g["k"] in ("mask", "2d")) else bool(i % 2)}
    # ---- relocate_to_radial_minimum alone
    npf = near_pts(RMINS)
    for i in range(160 * N):
        rmin = rng.choice(RMINS + RMINS + [None])
        def pts(r, n): return npf(r, n, rm=rmin)
        kinds = ("2d", "irr", "raw") if i % 5 else ("mask",)
        g = rand_grid(rng, kinds=kinds, pts=pts)
        rad = ["euclid"] if i % 4 else ["ellip", rng.choice(["2", "1/2"])]
        u = rand_ufun(rng, rng.choice("VP")) if i % 3 else IDENT
        yield {"op": "relocate", "grid": g, "u": u, "rmin": rmin, "rad": rad}
    # ---- the stack to_X(transform(relocate(f))), plain and nested
    for i in range(200 * N):
        dec = decs[i % 3]
        rmin = rng.choice(RMINS + RMINS + [None])
        centre = (F(rng.randint(-8, 8), 4), F(rng.randint(-8, 8), 4))
        def pts(r, n): return npf(r, n, c=centre, rm=None)
        if i % 4 == 0:
            g = rand_grid(rng, kinds=("mask",))      # the profile centre on / half-way between pixel centres near the middle of the frame
            centre = (F(g["org"][0]) + F(rng.randint(-2, 2), 2) * F(g["ps"][0]), F(g["org"][1]) + F(rng.randint(-2, 2), 2) * F(g["ps"][1]))
        else:
            g = rand_grid(rng, kinds=("2d", "irr", "raw", "1d"), pts=pts)
        if g["k"] == "1d" and dec == "vector": dec = "array"
        u = rand_ufun(rng, "V" if dec == "array" else "P")
        yield {"op": "stack", "dec": dec, "grid": g, "u": u, "rmin": rmin, "centre": [S(centre[0]), S(centre[1])],
               "angle": list(rng.choice(ANGLES)), "nested": bool(i % 2)}
