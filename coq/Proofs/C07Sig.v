(* C07 -- the pixel signals the adaptive schemes read (mapper_util.adaptive_pixel_signals_from) and the weights made from them.
   (1) the two accumulation loops (numpy's  a[idx] += v  with an index array, rows with distinct vertices) compute, per pixel, the
       sum of (data value x interpolation weight) over the data sub-pixels that map to it and the number of those sub-pixels:
       the model [pixel_signals] equals the specification [spec_signals];
   (2) after the division by the maximum every signal lies in [0, 1] and the brightest pixel has signal exactly 1, also after the
       power (every power function that maps [0,1] into itself and fixes 1; the integer powers do);
   (3) what the weight formula gives on such signals: w = (inner s + outer (1 - s))^2 lies between min(inner, outer)^2 and
       max(inner, outer)^2, equals inner^2 at the brightest pixel and outer^2 where the signal vanishes. *)
From Coq Require Import ZArith List Bool Reals Lra Lia Arith.
From PAV Require Import Base.Res Base.Check Base.NumOps Base.Sum Model.C07 Proofs.C07.
Import ListNotations.
Local Open Scope R_scope.

Notation prow := (list nat * list R)%type.

(* ---------------- numpy's fancy  a[idx] += v  on distinct indexes is a scatter-add ---------------- *)
Definition fstep (a : list R) (acc : list R) (iv : nat * R) : list R := upd_set acc (fst iv) (nth (fst iv) a 0 + snd iv).
Lemma fancy_add_fold (a : list R) ivs : @fancy_add ROps a ivs = fold_left (fstep a) ivs a.
Proof. reflexivity. Qed.
Lemma fstep_length a ivs : forall acc, length (fold_left (fstep a) ivs acc) = length acc.
Proof. induction ivs as [|iv ivs IH]; intros acc; cbn [fold_left]; [reflexivity|]. rewrite IH. unfold fstep. apply upd_set_length. Qed.
Lemma hits_nil_of_notin t (ivs : list (nat * R)) : ~ In t (map fst ivs) -> hits t ivs = [].
Proof.
  unfold hits. induction ivs as [|[i v] ivs IH]; intros H; cbn [filter map fst]; [reflexivity|].
  destruct (Nat.eqb i t) eqn:E; [apply Nat.eqb_eq in E; subst; exfalso; apply H; left; reflexivity|].
  apply IH. intros Hin. apply H. right. exact Hin.
Qed.
Lemma fancy_fold_nth (a : list R) ivs : forall acc t, length acc = length a ->
  Forall (fun iv : nat * R => (fst iv < length a)%nat) ivs -> NoDup (map fst ivs) ->
  nth t (fold_left (fstep a) ivs acc) 0 = if existsb (fun iv : nat * R => Nat.eqb (fst iv) t) ivs then nth t a 0 + sumR (hits t ivs) else nth t acc 0.
Proof.
  induction ivs as [|[i v] ivs IH]; intros acc t HL HF HN; cbn [fold_left existsb]; [reflexivity|].
  inversion HF as [|? ? Hi HF']; subst. cbn [fst] in Hi. cbn [map fst] in HN. apply NoDup_cons_iff in HN. destruct HN as [Hni HN].
  rewrite IH; [|unfold fstep; rewrite upd_set_length; exact HL|exact HF'|exact HN].
  cbn [fst]. destruct (Nat.eqb i t) eqn:E.
  - apply Nat.eqb_eq in E. subst t. cbn [orb].
    assert (X : existsb (fun iv : nat * R => Nat.eqb (fst iv) i) ivs = false).
    { apply not_true_is_false. intros Hex. apply existsb_exists in Hex. destruct Hex as [[j w] [Hin Hj]]. cbn [fst] in Hj.
      apply Nat.eqb_eq in Hj. subst j. apply Hni. apply in_map_iff. exists (i, w). auto. }
    rewrite X. unfold fstep. cbn [fst snd]. rewrite nth_upd_set by lia. rewrite Nat.eqb_refl.
    unfold hits. cbn [filter fst]. rewrite Nat.eqb_refl. cbn [map snd sumR]. fold (hits i ivs). rewrite (hits_nil_of_notin i ivs Hni). cbn [sumR]. lra.
  - cbn [orb]. destruct (existsb (fun iv : nat * R => Nat.eqb (fst iv) t) ivs) eqn:X.
    + unfold hits. cbn [filter fst]. rewrite E. reflexivity.
    + unfold fstep. cbn [fst snd]. rewrite nth_upd_set by lia. rewrite E. reflexivity.
Qed.
Lemma fancy_add_nth (a : list R) ivs t :
  Forall (fun iv : nat * R => (fst iv < length a)%nat) ivs -> NoDup (map fst ivs) ->
  nth t (@fancy_add ROps a ivs) 0 = nth t a 0 + sumR (hits t ivs).
Proof.
  intros HF HN. rewrite fancy_add_fold, fancy_fold_nth by auto.
  destruct (existsb (fun iv : nat * R => Nat.eqb (fst iv) t) ivs) eqn:X; [reflexivity|].
  rewrite hits_nil_of_notin; [cbn; lra|]. intros Hin. apply in_map_iff in Hin. destruct Hin as [[j w] [Ej Hin]]. cbn [fst] in Ej. subst j.
  assert (existsb (fun iv : nat * R => Nat.eqb (fst iv) t) ivs = true) by (apply existsb_exists; exists (t, w); split; [exact Hin|apply Nat.eqb_refl]).
  congruence.
Qed.
Lemma fancy_add_length (a : list R) ivs : length (@fancy_add ROps a ivs) = length a.
Proof. rewrite fancy_add_fold. apply fstep_length. Qed.

(* ---------------- the two loops ---------------- *)
Definition prow_ok (pixels : nat) (pr : prow) : Prop :=
  NoDup (fst pr) /\ Forall (fun i => (i < pixels)%nat) (fst pr) /\ length (snd pr) = length (fst pr).
Definition contribR (t : nat) (pr : prow) : R := sumR (hits t (combine (fst pr) (snd pr))).
Lemma sig_contrib_R t (pr : prow) : @sig_contrib ROps t pr = contribR t pr.
Proof. unfold sig_contrib, contribR, hits. rewrite sumT_sumR. reflexivity. Qed.
Lemma map_fst_combine {A B} (l : list A) (m : list B) : length m = length l -> map fst (combine l m) = l.
Proof. revert m. induction l as [|a l IH]; intros [|b m] H; cbn in *; try discriminate; [reflexivity|]. f_equal. apply IH. lia. Qed.
Lemma hits_ones t (idx : list nat) : NoDup idx ->
  sumR (hits t (map (fun i => (i, @one ROps)) idx)) = if @sig_hit ROps t (idx, []) then 1 else 0.
Proof.
  unfold hits, sig_hit. cbn [fst]. induction idx as [|i idx IH]; intros HN; cbn [map filter fst existsb]; [reflexivity|].
  apply NoDup_cons_iff in HN. destruct HN as [Hni HN]. rewrite (Nat.eqb_sym t i). destruct (Nat.eqb i t) eqn:E.
  - apply Nat.eqb_eq in E. subst t. cbn [map snd sumR orb]. rewrite IH by exact HN.
    assert (X : existsb (Nat.eqb i) idx = false).
    { apply not_true_is_false. intros Hex. apply existsb_exists in Hex. destruct Hex as [j [Hin Hj]]. apply Nat.eqb_eq in Hj. subst. contradiction. }
    rewrite X. unfold one. cbn. lra.
  - cbn [orb]. apply IH. exact HN.
Qed.
Lemma sig_hit_fst t (pr : prow) : @sig_hit ROps t pr = @sig_hit ROps t (fst pr, []).
Proof. reflexivity. Qed.

Lemma sig_step_nth pixels (st : list R * list R) (pr : prow) t : length (fst st) = pixels -> length (snd st) = pixels -> prow_ok pixels pr ->
  let st' := @sig_step ROps st pr in
  length (fst st') = pixels /\ length (snd st') = pixels
  /\ nth t (fst st') 0 = nth t (fst st) 0 + contribR t pr
  /\ nth t (snd st') 0 = nth t (snd st) 0 + (if @sig_hit ROps t pr then 1 else 0).
Proof.
  intros L1 L2 [HN [HR HL]] st'. unfold st', sig_step. cbn [fst snd]. tr.
  split; [rewrite fancy_add_length; exact L1|]. split; [rewrite fancy_add_length; exact L2|]. split.
  - rewrite fancy_add_nth; [reflexivity| |rewrite map_fst_combine by exact HL; exact HN].
    apply Forall_forall. intros [i v] Hin. cbn [fst]. apply in_combine_l in Hin. rewrite Forall_forall in HR. rewrite L1. apply HR. exact Hin.
  - rewrite fancy_add_nth.
    + rewrite hits_ones by exact HN. rewrite (sig_hit_fst t pr). reflexivity.
    + apply Forall_forall. intros [i v] Hin. cbn [fst]. apply in_map_iff in Hin. destruct Hin as [j [E Hj]]. inversion E; subst.
      rewrite Forall_forall in HR. rewrite L2. apply HR. exact Hj.
    + rewrite map_map. cbn [fst]. rewrite map_id. exact HN.
Qed.
Lemma sig_loop pixels (prs : list prow) : Forall (prow_ok pixels) prs -> forall (st : list R * list R) t,
  length (fst st) = pixels -> length (snd st) = pixels ->
  let st' := fold_left (@sig_step ROps) prs st in
  length (fst st') = pixels /\ length (snd st') = pixels
  /\ nth t (fst st') 0 = nth t (fst st) 0 + sumR (map (contribR t) prs)
  /\ nth t (snd st') 0 = nth t (snd st) 0 + INR (@sig_count ROps prs t).
Proof.
  induction 1 as [|pr prs Hpr HF IH]; intros st t L1 L2; cbn [fold_left map sumR].
  - unfold sig_count. cbn [filter length INR]. tr. repeat split; auto; lra.
  - destruct (sig_step_nth pixels st pr t L1 L2 Hpr) as [L1' [L2' [E1 E2]]].
    destruct (IH (@sig_step ROps st pr) t L1' L2') as [L1'' [L2'' [F1 F2]]].
    tr. split; [exact L1''|]. split; [exact L2''|]. split.
    + rewrite F1, E1. lra.
    + rewrite F2, E2. unfold sig_count. cbn [filter]. destruct (@sig_hit ROps t pr); cbn [length]; [rewrite S_INR|]; lra.
Qed.

(* ---------------- model = specification ---------------- *)
Lemma nth_map_lt {A B} (f : A -> B) (l : list A) t d d' : (t < length l)%nat -> nth t (map f l) d' = f (nth t l d).
Proof. revert t. induction l as [|a l IH]; intros [|t] H; cbn in *; try lia; [reflexivity|]. apply IH. lia. Qed.
Lemma ofNat_INR n : @ofNat ROps n = INR n.
Proof. unfold ofNat. cbn [ofZ ROps]. symmetry. apply INR_IZR_INZ. Qed.
Lemma fix_sizes_nth (cnt : list R) t n : nth t cnt 0 = INR n -> (t < length cnt)%nat ->
  @nth R t (@fix_sizes ROps cnt) 0 = if Nat.eqb n 0 then 1 else INR n.
Proof.
  intros E Ht. unfold fix_sizes. rewrite (nth_map_lt _ cnt t 0 0) by exact Ht. tr. rewrite E. cbn [eqb ROps]. unfold zero, one. cbn [ofZ ROps]. destruct n as [|n].
  - cbn [INR Nat.eqb]. destruct (Reqb 0 0) eqn:X; [reflexivity|]. apply Reqb_false in X. lra.
  - cbn [Nat.eqb]. destruct (Reqb (INR (S n)) 0) eqn:X; [|reflexivity]. apply Reqb_true in X. pose proof (pos_INR n). rewrite S_INR in X. lra.
Qed.
Lemma sig_mean_spec pixels (prs : list prow) : Forall (prow_ok pixels) prs ->
  @sig_mean ROps (fold_left (@sig_step ROps) prs (@zeros ROps pixels, @zeros ROps pixels)) = map (@raw_signal ROps prs) (seq 0 pixels).
Proof.
  intros HF.
  assert (Z : length (@zeros ROps pixels) = pixels) by (unfold zeros; apply repeat_length).
  pose proof (fun t => sig_loop pixels prs HF (@zeros ROps pixels, @zeros ROps pixels) t Z Z) as HLoop. cbn zeta in HLoop.
  set (st := fold_left (@sig_step ROps) prs (@zeros ROps pixels, @zeros ROps pixels)) in *.
  destruct (HLoop 0%nat) as [L1 [L2 _]].
  apply (nth_ext _ _ 0 0).
  - unfold sig_mean. rewrite !map_length, combine_length, seq_length. unfold fix_sizes. rewrite map_length. tr. lia.
  - intros t Ht. unfold sig_mean in Ht. rewrite map_length, combine_length in Ht. unfold fix_sizes in Ht. rewrite map_length in Ht.
    assert (Htp : (t < pixels)%nat) by (tr; lia).
    destruct (HLoop t) as [_ [_ [E1 E2]]]. cbn [fst snd] in E1, E2. rewrite nth_zeros_R in E1, E2. rewrite Rplus_0_l in E1, E2.
    unfold sig_mean.
    rewrite (nth_map_lt _ _ t (0, 0) 0) by (rewrite combine_length; unfold fix_sizes; rewrite map_length; tr; lia).
    rewrite combine_nth by (unfold fix_sizes; rewrite map_length; tr; lia). cbn [fst snd div ROps]. tr.
    rewrite E1, (fix_sizes_nth _ t (@sig_count ROps prs t) E2) by (tr; lia).
    rewrite (nth_map_lt _ _ t 0%nat 0) by (rewrite seq_length; exact Htp).
    rewrite seq_nth by exact Htp. cbn [Nat.add]. unfold raw_signal. cbn [div ROps]. rewrite sumT_sumR. rewrite (map_ext (@sig_contrib ROps t) (contribR t)) by (intros; apply sig_contrib_R).
    rewrite ofNat_INR. unfold one. cbn [ofZ ROps]. reflexivity.
Qed.
Theorem T_signals_model_spec (pw : R -> R) pixels (rows : list (@sig_row ROps)) (adapt : list R) (prs : list prow) :
  res_all (map (@sig_prep ROps pixels adapt) rows) = Ok prs -> Forall (prow_ok pixels) prs -> (0 < pixels)%nat ->
  @list_max ROps (map (@raw_signal ROps prs) (seq 0 pixels)) <> 0 ->
  @pixel_signals ROps pw pixels rows adapt = Ok (@spec_signals ROps pw pixels prs).
Proof.
  intros HP HF Hpos Hm. unfold pixel_signals. rewrite HP.
  destruct (Nat.eqb pixels 0) eqn:E; [apply Nat.eqb_eq in E; lia|].
  rewrite (sig_mean_spec pixels prs HF). cbn [eqb ROps]. unfold zero. cbn [ofZ ROps].
  destruct (Reqb (@list_max ROps (map (@raw_signal ROps prs) (seq 0 pixels))) 0) eqn:X; [apply Reqb_true in X; contradiction|].
  reflexivity.
Qed.

(* the rows [sig_prep] makes from raw rows with distinct in-range vertices are well formed *)
Definition raw_row_ok (pixels nslim : nat) (r : @sig_row ROps) : bool :=
  let '(row, size, wrow, slim) := r in
  (slim <? nslim)%nat &&
  (if (1 <? size)%nat then Nat.eqb size (length row) && Nat.eqb size (length wrow)
                           && forallb (fun z => (0 <=? z) && (z <? Z.of_nat pixels))%Z row && nodupb (map Z.to_nat row)
   else match row with z :: _ => ((0 <=? z) && (z <? Z.of_nat pixels))%Z | [] => false end).
Definition prow_of (adapt : list R) (r : @sig_row ROps) : prow :=
  let '(row, size, wrow, slim) := r in
  if (1 <? size)%nat then (map Z.to_nat row, map (Rmult (nth slim adapt 0)) wrow) else ([Z.to_nat (hd 0%Z row)], [nth slim adapt 0]).
Lemma sig_prep_ok pixels (adapt : list R) (r : @sig_row ROps) : raw_row_ok pixels (length adapt) r = true ->
  @sig_prep ROps pixels adapt r = Ok (prow_of adapt r) /\ prow_ok pixels (prow_of adapt r).
Proof.
  destruct r as [[[row size] wrow] slim]. unfold raw_row_ok, sig_prep, prow_of. cbv beta iota zeta. tr. intros H.
  apply andb_true_iff in H. destruct H as [Hs H]. apply Nat.ltb_lt in Hs.
  assert (Hs' : (length adapt <=? slim)%nat = false) by (apply Nat.leb_gt; exact Hs). rewrite Hs'.
  unfold nthT, zero. cbn [ofZ ROps mul].
  destruct (1 <? size)%nat eqn:E.
  - apply andb_true_iff in H. destruct H as [H HN]. apply andb_true_iff in H. destruct H as [H HR]. rewrite H. cbn [negb].
    apply andb_true_iff in H. destruct H as [E1 E2]. apply Nat.eqb_eq in E1, E2.
    assert (HA : all_some (map (pyidx pixels) row) = Some (map Z.to_nat row)).
    { apply all_some_map. intros z Hz. rewrite forallb_forall in HR. specialize (HR z Hz). apply andb_true_iff in HR. destruct HR as [H1 H2].
      apply Z.leb_le in H1. apply Z.ltb_lt in H2. apply pyidx_inr. lia. }
    rewrite HA. split; [reflexivity|]. unfold prow_ok. cbn [fst snd]. split; [apply nodupb_NoDup; exact HN|]. split.
    + apply Forall_forall. intros i Hi. apply in_map_iff in Hi. destruct Hi as [z [<- Hz]]. rewrite forallb_forall in HR. specialize (HR z Hz).
      apply andb_true_iff in HR. destruct HR as [H1 H2]. apply Z.leb_le in H1. apply Z.ltb_lt in H2. lia.
    + rewrite !map_length. lia.
  - destruct row as [|z row]; [discriminate|]. apply andb_true_iff in H. destruct H as [H1 H2]. apply Z.leb_le in H1. apply Z.ltb_lt in H2.
    rewrite pyidx_inr by lia. cbn [hd]. split; [reflexivity|]. unfold prow_ok. cbn [fst snd]. split; [repeat constructor; intros []|].
    split; [repeat constructor; lia|reflexivity].
Qed.
Lemma res_all_prep pixels (adapt : list R) rows : forallb (raw_row_ok pixels (length adapt)) rows = true ->
  res_all (map (@sig_prep ROps pixels adapt) rows) = Ok (map (prow_of adapt) rows) /\ Forall (prow_ok pixels) (map (prow_of adapt) rows).
Proof.
  induction rows as [|r rows IH]; intros H; cbn [map res_all forallb] in *; [split; [reflexivity|constructor]|].
  apply andb_true_iff in H. destruct H as [Hr H]. destruct (sig_prep_ok pixels adapt r Hr) as [E Hok]. destruct (IH H) as [E2 HF].
  rewrite E, E2. split; [reflexivity|constructor; assumption].
Qed.
(* for every table of rows with distinct in-range vertices: no exception, and the result is the specification's *)
Theorem T_pixel_signals (pw : R -> R) pixels (rows : list (@sig_row ROps)) (adapt : list R) :
  forallb (raw_row_ok pixels (length adapt)) rows = true -> (0 < pixels)%nat ->
  @list_max ROps (map (@raw_signal ROps (map (prow_of adapt) rows)) (seq 0 pixels)) <> 0 ->
  @pixel_signals ROps pw pixels rows adapt = Ok (@spec_signals ROps pw pixels (map (prow_of adapt) rows)).
Proof.
  intros H Hp Hm. destruct (res_all_prep pixels adapt rows H) as [E HF]. apply T_signals_model_spec; assumption.
Qed.

(* ---------------- normalisation: signals in [0, 1], the brightest exactly 1 ---------------- *)
Lemma maxT_R a b : @maxT ROps a b = Rmax a b.
Proof.
  unfold maxT. cbn [ltb ROps]. unfold Rmax. destruct (Rltb a b) eqn:E; rbool; destruct (Rle_dec a b); lra.
Qed.
Lemma fold_max_ge (l : list R) : forall a, a <= fold_left (@maxT ROps) l a /\ Forall (fun x => x <= fold_left (@maxT ROps) l a) l.
Proof.
  induction l as [|b l IH]; intros a; cbn [fold_left]; [split; [lra|constructor]|].
  destruct (IH (@maxT ROps a b)) as [H1 H2]. rewrite maxT_R in *. pose proof (Rmax_l a b). pose proof (Rmax_r a b).
  split; [lra|]. constructor; [lra|exact H2].
Qed.
Lemma fold_max_in (l : list R) : forall a, fold_left (@maxT ROps) l a = a \/ In (fold_left (@maxT ROps) l a) l.
Proof.
  induction l as [|b l IH]; intros a; cbn [fold_left]; [left; reflexivity|].
  destruct (IH (@maxT ROps a b)) as [H|H].
  - rewrite H, maxT_R. unfold Rmax. destruct (Rle_dec a b); [right; left; reflexivity|left; reflexivity].
  - right. right. exact H.
Qed.
Lemma list_max_ge (l : list R) : Forall (fun x => x <= @list_max ROps l) l.
Proof. destruct l as [|a l]; [constructor|]. unfold list_max. destruct (fold_max_ge l a) as [H1 H2]. constructor; assumption. Qed.
Lemma list_max_in (l : list R) : l <> [] -> In (@list_max ROps l) l.
Proof. destruct l as [|a l]; [congruence|]. intros _. unfold list_max. destruct (fold_max_in l a) as [H|H]; [left; symmetry; exact H|right; exact H]. Qed.

(* a power function on [0,1]: the integer powers are *)
Definition unit_power (pw : R -> R) : Prop := (forall x, 0 <= x <= 1 -> 0 <= pw x <= 1) /\ pw 1 = 1.
Lemma npow_unit n : unit_power (@npow ROps n).
Proof.
  split.
  - induction n as [|n IH]; intros x Hx; cbn [npow]; unfold one; cbn [ofZ mul ROps]; [lra|]. specialize (IH x Hx).
    assert (0 <= x * @npow ROps n x) by (apply Rmult_le_pos; lra).
    assert (x * @npow ROps n x <= 1 * 1) by (apply Rmult_le_compat; lra). lra.
  - induction n as [|n IH]; cbn [npow]; unfold one in *; cbn [ofZ mul ROps] in *; [reflexivity|]. rewrite IH. lra.
Qed.
Theorem T_signals_unit_interval (pw : R -> R) (raw : list R) : unit_power pw -> raw <> [] -> Forall (fun s => 0 <= s) raw ->
  0 < @list_max ROps raw ->
  let out := map (fun s => pw (div ROps s (@list_max ROps raw))) raw in
  Forall (fun s => 0 <= s <= 1) out /\ In 1 out.
Proof.
  intros [Hpw Hpw1] Hne Hnn Hm out. set (m := @list_max ROps raw) in *. cbn [div ROps] in out.
  assert (Hi : 0 < / m) by (apply Rinv_0_lt_compat; exact Hm).
  split.
  - unfold out. apply Forall_forall. intros y Hy. apply in_map_iff in Hy. destruct Hy as [s [<- Hs]]. apply Hpw.
    rewrite Forall_forall in Hnn. specialize (Hnn s Hs). pose proof (list_max_ge raw) as Hge. rewrite Forall_forall in Hge. specialize (Hge s Hs). fold m in Hge.
    unfold Rdiv. split; [apply Rmult_le_pos; lra|]. apply (Rmult_le_reg_r m); [exact Hm|]. rewrite Rmult_assoc, Rinv_l by lra. lra.
  - unfold out. apply in_map_iff. exists m. split; [|apply list_max_in; exact Hne]. unfold Rdiv. rewrite Rinv_r by lra. exact Hpw1.
Qed.

(* the raw signals are non-negative for a non-negative adapt image and non-negative interpolation weights *)
Definition prow_nonneg (pr : prow) : Prop := Forall (fun v => 0 <= v) (snd pr).
Lemma hits_nonneg t (ivs : list (nat * R)) : Forall (fun iv : nat * R => 0 <= snd iv) ivs -> 0 <= sumR (hits t ivs).
Proof.
  unfold hits. induction 1 as [|[i v] ivs Hv HF IH]; cbn [filter map sumR fst]; [lra|]. cbn [snd] in Hv.
  destruct (Nat.eqb i t); cbn [map sumR snd]; lra.
Qed.
Lemma raw_signal_nonneg (prs : list prow) t : Forall prow_nonneg prs -> 0 <= @raw_signal ROps prs t.
Proof.
  intros HF. unfold raw_signal. cbn [div ROps]. rewrite sumT_sumR. rewrite (map_ext (@sig_contrib ROps t) (contribR t)) by (intros; apply sig_contrib_R).
  assert (Hn : 0 <= sumR (map (contribR t) prs)).
  { apply sumR_nonneg. apply Forall_forall. intros y Hy. apply in_map_iff in Hy. destruct Hy as [pr [<- Hpr]]. unfold contribR.
    apply hits_nonneg. rewrite Forall_forall in HF. specialize (HF pr Hpr). unfold prow_nonneg in HF.
    apply Forall_forall. intros [i v] Hin. cbn [snd]. apply in_combine_r in Hin. rewrite Forall_forall in HF. apply HF. exact Hin. }
  assert (Hd : 0 < (if Nat.eqb (@sig_count ROps prs t) 0 then @one ROps else @ofNat ROps (@sig_count ROps prs t))).
  { destruct (Nat.eqb (@sig_count ROps prs t) 0) eqn:E; [unfold one; cbn [ofZ ROps]; lra|].
    rewrite ofNat_INR. apply lt_0_INR. apply Nat.eqb_neq in E. lia. }
  unfold Rdiv. apply Rmult_le_pos; [exact Hn|]. left. apply Rinv_0_lt_compat. exact Hd.
Qed.
(* the whole routine: signals in [0,1], the brightest 1 *)
Theorem T_spec_signals_unit (pw : R -> R) pixels (prs : list prow) : unit_power pw -> (0 < pixels)%nat -> Forall prow_nonneg prs ->
  0 < @list_max ROps (map (@raw_signal ROps prs) (seq 0 pixels)) ->
  length (@spec_signals ROps pw pixels prs) = pixels
  /\ Forall (fun s => 0 <= s <= 1) (@spec_signals ROps pw pixels prs) /\ In 1 (@spec_signals ROps pw pixels prs).
Proof.
  intros Hpw Hp HF Hm. unfold spec_signals. split; [rewrite !map_length, seq_length; reflexivity|].
  apply (T_signals_unit_interval pw (map (@raw_signal ROps prs) (seq 0 pixels)) Hpw).
  - destruct pixels; [lia|]. cbn [seq map]. discriminate.
  - apply Forall_forall. intros y Hy. apply in_map_iff in Hy. destruct Hy as [t [<- _]]. apply raw_signal_nonneg. exact HF.
  - exact Hm.
Qed.

(* ---------------- what the weight formula gives on signals in [0,1] ---------------- *)
Theorem T_adaptive_weight_bounds (inner outer s : R) : 0 <= inner -> 0 <= outer -> 0 <= s <= 1 ->
  let w := (inner * s + outer * (1 - s)) * (inner * s + outer * (1 - s)) in
  Rmin inner outer * Rmin inner outer <= w <= Rmax inner outer * Rmax inner outer.
Proof.
  intros Hi Ho Hs w. unfold w.
  set (v := inner * s + outer * (1 - s)).
  assert (Hlo : Rmin inner outer <= v).
  { unfold v, Rmin. destruct (Rle_dec inner outer).
    - assert (0 <= (outer - inner) * (1 - s)) by (apply Rmult_le_pos; lra). lra.
    - assert (0 <= (inner - outer) * s) by (apply Rmult_le_pos; lra). lra. }
  assert (Hhi : v <= Rmax inner outer).
  { unfold v, Rmax. destruct (Rle_dec inner outer).
    - assert (0 <= (outer - inner) * s) by (apply Rmult_le_pos; lra). lra.
    - assert (0 <= (inner - outer) * (1 - s)) by (apply Rmult_le_pos; lra). lra. }
  assert (Hm : 0 <= Rmin inner outer) by (unfold Rmin; destruct (Rle_dec inner outer); lra).
  split; apply Rmult_le_compat; lra.
Qed.
Lemma adaptive_weights_nth inner outer (s : list R) i : (i < length s)%nat ->
  nth i (@adaptive_weights ROps inner outer s) 0 = (inner * nth i s 0 + outer * (1 - nth i s 0)) * (inner * nth i s 0 + outer * (1 - nth i s 0)).
Proof.
  intros Hi. unfold adaptive_weights. rewrite (nth_map_lt _ s i 0 0) by exact Hi.
  unfold sq, one. cbn [add sub mul ofZ ROps]. reflexivity.
Qed.
Theorem T_adaptive_weights_on_signals (inner outer : R) (s : list R) : 0 <= inner -> 0 <= outer -> Forall (fun v => 0 <= v <= 1) s ->
  forall i, (i < length s)%nat ->
    Rmin inner outer * Rmin inner outer <= nth i (@adaptive_weights ROps inner outer s) 0 <= Rmax inner outer * Rmax inner outer
    /\ (nth i s 0 = 1 -> nth i (@adaptive_weights ROps inner outer s) 0 = inner * inner)
    /\ (nth i s 0 = 0 -> nth i (@adaptive_weights ROps inner outer s) 0 = outer * outer).
Proof.
  intros Hi Ho HF i Hlt. rewrite adaptive_weights_nth by exact Hlt.
  rewrite Forall_forall in HF. assert (Hs : 0 <= nth i s 0 <= 1) by (apply HF; apply nth_In; exact Hlt).
  split; [apply T_adaptive_weight_bounds; assumption|]. split; intros E; rewrite E; tr; ring.
Qed.
