"""C12 -- all geometry is covariant under translation of the coordinate origin.

Every row runs ONE public entry point of the implementation at origin o and at origin o + d (every coordinate-valued argument
translated by d as well), and then once more at each origin on the SAME objects.  It yields
  * Coq cases `KPair d obs_at_o obs_at_o_plus_d`: [agree] = model and origin-free closed form equal the implementation's output at
    both origins; [spec_ok] = THE PROPERTY evaluated on the two implementation outputs (coordinate-valued results differ by
    exactly d, index-valued results are identical) -- so a change that keeps the property but moves the geometry is reported
    as a broken correspondence (no failing input), not as a violation;
  * py_ok: the same metamorphic relation, exactly (Fractions), over everything observed including results that have no Coq
    case (values, neighbour tables, mapping matrices, extra grids of a dataset, the frame each construction route delivered),
    plus: the caller's inputs are intact after the calls, and a second evaluation on the same objects gives the same results.
Histories (see "provenance and histories" below): the structures reach the entry point by different routes in the two runs
(fresh / derived / copied / edited in place after reads / used before), configuration objects (OverSamplingUniform,
OverSamplingDataset, image_mesh.Overlay, SimulatorImaging, the PSF, image_mesh.Hilbert) are SHARED by the two runs.
All inputs are dyadic multiples of the pixel scale, so every double operation of the implementation is exact.
Hardening (phase 4): input KINDS (Python ints / floats, numpy float64 / float32 scalars, lists, float / integer ndarrays for pixel
scales, origins, points; typed mask arrays; float32 / integer / list grid and array values; user subclasses of Mask2D / Grid2D /
Array2D, Kernel2D as an Array2D) chosen independently for the two runs; every shared configuration object and every shared DEFAULT
argument object of the library is fingerprinted before / after; inexact (non-dyadic) overlay / rectangular-mesh cases are checked
with a tolerance instead of being dropped; far origins, larger frames; sibling entry points: constructor classmethods, methods that
rebuild a frame, the util layer on plain arrays, Kernel2D / VectorYX2D, mesh.Rectangular.mapper_grids_from, the 1-D variants.
"""
import random
import numpy as np
from fractions import Fraction as F
from harness.common import cz, cq, cnat, cbool, clist, ctup, copt, cres, import_aa, frac, exn_name

ID = "C12"
GEN = []
PROPS = "Props/C12.v"
COQ_CHECK = ("Model.C12", "check")
COQ_FALLBACK = ("Model.C12", "spec_ok")
COQ_IMPORTS = ""
SHARD = 150
EXHAUSTIVE = {}
RULE = ("masks of shape 1x1..7x8, 6% up to 21x20 (mostly non-square; styles: random density 0.15-0.9, single pixel, ring with hole, full, two "
        "components, outer-ring pixels, circular), pixel scales (py, px) in {1/4,1/2,1,3/2,2,3}^2 (often unequal), in 30% of the cases "
        "times 2^e with e in {-30,-27,10,20} per axis (tiny and huge magnitudes, 40% of them with a different e per axis), origin o = "
        "(py*a/4, px*b/4) and translation d = (py*e/4, px*f/4), a,b,e,f in -12..12, d != 0 (sometimes o = 0, sometimes one component "
        "of d = 0); every entry point of observe_at is run at o and o+d, then AGAIN on the same objects. The mask / grid / array handed "
        "to the entry point reaches it by a route chosen independently for the two runs: fresh, list input, resized_from, slice, "
        "mask of an Array2D / Grid2D (also after arithmetic, native storage), copy / deepcopy / pickle, in-place edits after every "
        "property was read, inverted, mask of a masked dataset, derive_mask.edge/border, already used; datasets fresh or derived; "
        "12% of the cases under general.structures.native_binned_only=True, radial projections also with "
        "general.grid.remove_projected_centre=True. Input kinds (float / int / numpy scalar / float32 / list / ndarray; typed mask arrays; "
        "user subclasses) independently per run; 10% of the origins / translations up to 1000 pixels away. Non-trivial = at least 2 unmasked pixels and o+d != 0; distinct = distinct JSON input.")
TRUSTED = ["hand-written Gallina model coq/Model/C12.v (util layer + origin plumbing of every call site), tied to /repo by this run: "
           "exact rational comparison inside Coq (vm_compute) at both origins, plus the metamorphic relation on the implementation",
           "blurring, resized and rescaled masks are functions of the boolean mask array only (their values are taken from the "
           "implementation and required to be identical at both origins; C10/C14 own their content); edge/border index lists are "
           "compared twice: as reported by the implementation and as computed by C10's model (coq/Model/C10.v)",
           "scipy.interpolate.griddata/interp1d (Hilbert image mesh), scipy.spatial.Delaunay (MapperDelaunay) and scikit-image's rescale "
           "(Mask2D.rescaled_from) are oracles: only the metamorphic relation is checked for what they compute",
           "doubles: all generated values are dyadic multiples of the pixel scales (any power-of-two magnitude) so every operation is "
           "exact (cases whose intermediate quotients are not dyadic are skipped and counted); tolerances, where unavoidable (sqrt, "
           "mean, cos/sin), are 1e-9 RELATIVE to the pixel scale of each axis"]
ASSUMPTIONS = ["real arithmetic (no rounding): theorems over R, correspondence on exactly representable inputs",
               "radial projection at a non-zero angle: the model takes the pair (cos theta, sin theta) that numpy computed (theta = "
               "arctan2(0, s) - radians(angle) is the same double for every projected point since s >= 0)",
               "Hilbert mesh and Delaunay mapper: metamorphic relation on the implementation only (tolerance 1e-7 / 1e-9); border "
               "relocation: model vs implementation and relation with tolerance 1e-9 (relative), decisions kept at an exact margin"]

PS = [F(1, 4), F(1, 2), F(1), F(3, 2), F(2), F(3)]
SKIPPED = {"inexact": 0}

# ------------------------------------------------------------------------------------------------ helpers
def fl(x): return float(x)
def fr(x): return frac(x)
def P(s): return (F(s[0]), F(s[1]))
def S(p): return [str(p[0]), str(p[1])]
def padd(p, d): return (p[0] + d[0], p[1] + d[1])
def dyadic(x, bits=40):
    """x is a dyadic rational whose odd part has at most [bits] bits (scale-free: 3 * 2**-31 and 5 * 2**20 qualify): such a
    value is a double, and a sum / product / quotient whose TRUE value qualifies is computed exactly in doubles"""
    x = F(x)
    den = x.denominator
    if den & (den - 1) != 0: return False
    n = abs(x.numerator)
    while n and n % 2 == 0: n //= 2
    return n < 2 ** bits
def fdiv_exact(a, b):
    """is the double quotient a/b exact?  (a, b exactly representable)"""
    return b != 0 and dyadic(F(a) / F(b))

def cpt(p): return ctup([cq(p[0]), cq(p[1])])
def cgrid(g): return clist([cpt(p) for p in g])
def cmask(m): return clist([clist([cbool(b) for b in r]) for r in m])
def cM(m, ps, o): return f"(mkM {cmask(m)} {cpt(ps)} {cpt(o)})"
def cgeom(g): return ctup([cz(g[0]), cz(g[1]), cpt(g[2]), cpt(g[3])])
def czz(p): return ctup([cz(p[0]), cz(p[1])])

def grid_out(a):
    a = np.asarray(a, dtype=float)
    if a.ndim == 1: a = a.reshape(-1, 2)
    return [(fr(y), fr(x)) for y, x in a]
def shifted(g, d): return [padd(p, d) for p in g]
def geom_of(mask): return (int(mask.shape_native[0]), int(mask.shape_native[1]), (fr(mask.pixel_scales[0]), fr(mask.pixel_scales[1])),
                           (fr(mask.origin[0]), fr(mask.origin[1])))
def geom_shift(g, d): return (g[0], g[1], g[2], padd(g[3], d))
def jg(g): return [[str(p[0]), str(p[1])] for p in g]

# ---- input KINDS: the same frame / point / values handed over as Python floats, Python ints, numpy scalars (float64, float32),
# lists, ndarrays (float or integer dtype).  All generated values are exactly representable in every kind used (float32 only when
# the value is a float32), so the expected results do not depend on the kind; the kind is chosen independently for the two runs.
FRAME_KINDS = ["float"] * 5 + ["int", "np64", "list", "nparr", "npint", "f32"]
def kval(v, kind):
    x = float(v)
    if kind in ("int", "npint"): return int(F(v)) if F(v).denominator == 1 and abs(F(v)) < 2 ** 53 else x
    if kind == "np64": return np.float64(x)
    if kind == "f32":
        with np.errstate(all="ignore"): y = np.float32(x)
        return y if np.isfinite(y) and F(float(y)) == F(v) else x
    return x
def kpair(p, kind):
    a, b = kval(p[0], kind), kval(p[1], kind)
    if kind == "list": return [a, b]
    if kind == "nparr": return np.array([a, b])
    if kind == "npint": return np.array([a, b])          # integer dtype when both components are integral
    return (a, b)
def fkw(ps, o):
    """pixel_scales / origin keyword arguments of the frame (ps, o) in the input kind of this run"""
    k = CTX.get("fkind", "float")
    return dict(pixel_scales=kpair(ps, k), origin=kpair(o, k))

def fresh_mask(aa, m, ps, o):
    return aa.Mask2D(mask=np.array(m, dtype=bool), **fkw(ps, o))

USER_CLASSES = {}
def user_class(aa, name):
    """trivial user-defined SUBCLASSES of the accepted classes (dispatch on type(x) instead of isinstance shows here)"""
    if name not in USER_CLASSES:
        base = getattr(aa, name)
        USER_CLASSES[name] = type("User" + name, (base,), {})
    return USER_CLASSES[name]

# ------------------------------------------------------------------------------------------------ provenance and histories
# Every entry point is observed on masks / grids / arrays that reach it through DIFFERENT routes (chosen independently for the
# run at origin o and the run at o + d): freshly constructed, derived from another structure, copied, un-pickled, edited in
# place after other results were read from the same object, or already used for other calls.  All routes yield a structure
# with the same boolean array, pixel scales and origin, so the expected results (Coq model, relation) do not depend on the
# route; the frame the route really delivered is itself recorded as a result ("geom") and must translate by d.
ROUTES = {}
CTX = {"prov": "fresh", "gprov": 0, "aprov": 0, "fkind": "float", "pkind": "float", "rng": None, "made": [], "geoms": [], "args": [], "memo": None}
MASK_PROVS = ["fresh", "fresh", "fresh", "list", "resized", "sliced", "array_mask", "grid_mask", "copy", "pickle", "edited",
              "edited_all_false", "inverted", "dataset_mask", "derived_edge", "used", "typed_array", "subclass", "origin_assigned"]

def mask_fp(mask):
    return ([[bool(b) for b in r] for r in np.array(mask)], (fr(mask.pixel_scales[0]), fr(mask.pixel_scales[1])),
            (fr(mask.origin[0]), fr(mask.origin[1])))

def read_everything(aa, mask):
    """read the (non-cached) geometry-valued properties of a mask object; the values are discarded"""
    try:
        mask.mask_centre; mask.zoom_centre; mask.zoom_offset_pixels; mask.zoom_offset_scaled; mask.zoom_region; mask.zoom_shape_native
        mask.zoom_mask_unmasked; mask.shape_native_masked_pixels
    except ValueError:
        pass                                # fully masked: np.amin of an empty array
    mask.geometry.extent; mask.geometry.central_scaled_coordinates; mask.pixels_in_mask
    mask.derive_grid.unmasked; mask.derive_grid.all_false; mask.derive_grid.edge; mask.derive_grid.border
    mask.derive_indexes.edge_slim; mask.derive_mask.edge; mask.derive_mask.all_false
    aa.Grid2D.from_mask(mask=mask)

def build_mask(aa, m, ps, o, prov, r):
    import copy, pickle
    H, W = len(m), len(m[0])
    kw = fkw(ps, o)
    if prov == "fresh": return fresh_mask(aa, m, ps, o)
    if prov == "list": return aa.Mask2D(mask=[list(map(bool, row)) for row in m], **kw)
    if prov == "typed_array":       # the boolean array handed over as an integer / float / uint8 / object array, or as nested int lists
        dt = r.choice([int, float, np.uint8, np.float32, object, "intlist"])
        return aa.Mask2D(mask=[[int(b) for b in row] for row in m] if dt == "intlist" else np.array(m, dtype=bool).astype(dt), **kw)
    if prov == "origin_assigned":
        # read -> in-place edit of the FRAME by the user -> re-read: the object is built at another origin, every geometry-valued
        # property is read from it, then its origin attribute is assigned
        o0 = (o[0] + ps[0] * F(r.randint(-8, 8), 4), o[1] - ps[1] * F(r.randint(1, 8), 4))
        mask = fresh_mask(aa, m, ps, o0)
        read_everything(aa, mask)
        mask.origin = kw["origin"]
        return mask
    if prov == "subclass":
        cls = user_class(aa, "Mask2D")
        return cls(mask=np.array(m, dtype=bool), **kw) if r.random() < 0.7 else cls(mask=np.array(m, dtype=bool), **kw).copy()
    if prov in ("resized", "sliced"):
        a, b = r.randint(0, 2), r.randint(0, 2)
        big = [[True] * (W + 2 * b) for _ in range(H + 2 * a)]
        for y in range(H):
            for x in range(W): big[y + a][x + b] = m[y][x]
        parent = aa.Mask2D(mask=np.array(big, dtype=bool), **kw)
        if r.random() < 0.5: read_everything(aa, parent)
        return parent.resized_from(new_shape=(H, W), pad_value=1) if prov == "resized" else parent[a:a + H, b:b + W]
    if prov == "array_mask":
        arr = aa.Array2D(values=np.arange(float(H * W)).reshape(H, W), mask=fresh_mask(aa, m, ps, o))
        return r.choice([lambda: arr.mask, lambda: (arr * 2.0).mask, lambda: arr.native.mask, lambda: arr.native.slim.mask,
                         lambda: (arr + arr).mask, lambda: abs(arr - 1.0).mask])()
    if prov == "grid_mask":
        fm = fresh_mask(aa, m, ps, o)
        g = aa.Grid2D.from_mask(mask=fm)
        return r.choice([lambda: g.mask, lambda: (g + 1.0).mask, lambda: g.native.mask, lambda: fm.derive_grid.unmasked.mask,
                         lambda: g.native.slim.mask, lambda: (2.0 * g).mask])()
    if prov == "copy":
        fm = fresh_mask(aa, m, ps, o)
        if r.random() < 0.5: read_everything(aa, fm)
        return r.choice([lambda: copy.copy(fm), lambda: copy.deepcopy(fm), lambda: fm.copy(),
                         lambda: fm.with_new_array(np.array(m, dtype=bool))])()
    if prov == "pickle": return pickle.loads(pickle.dumps(fresh_mask(aa, m, ps, o)))
    if prov in ("edited", "edited_all_false"):
        # read -> in-place edit by the user -> re-read: the object first holds ANOTHER boolean array, every geometry-valued
        # property is read from it, then it is edited cell by cell / row by row into m
        m0 = [[False] * W for _ in range(H)] if prov == "edited_all_false" else [[r.random() < 0.5 for _ in range(W)] for _ in range(H)]
        if prov == "edited_all_false": mask = aa.Mask2D.all_false(shape_native=(H, W), **kw)
        else: mask = fresh_mask(aa, m0, ps, o)
        read_everything(aa, mask)
        rows_first = r.random() < 0.3
        for y in range(H):
            if rows_first and r.random() < 0.5: mask[y, :] = np.array(m[y], dtype=bool)
            else:
                for x in range(W):
                    if m0[y][x] != m[y][x]: mask[y, x] = bool(m[y][x])
        return mask
    if prov == "inverted":
        inv = [[not b for b in row] for row in m]
        if r.random() < 0.5: return aa.Mask2D(mask=np.array(inv, dtype=bool), invert=True, **kw)
        return fresh_mask(aa, inv, ps, o).invert()
    if prov == "dataset_mask":
        data = aa.Array2D.no_mask(values=np.ones((H, W)), **kw)
        ds = aa.Imaging(data=data, noise_map=aa.Array2D.no_mask(values=np.ones((H, W)), **fkw(ps, o))).apply_mask(mask=fresh_mask(aa, m, ps, o))
        return r.choice([lambda: ds.mask, lambda: ds.data.mask, lambda: ds.noise_map.mask, lambda: ds.grids.uniform.mask])()
    if prov == "derived_edge":      # only when every unmasked pixel is an edge pixel (else the array differs: fresh is used)
        fm = fresh_mask(aa, m, ps, o)
        return fm.derive_mask.edge if r.random() < 0.5 else fm.derive_mask.border
    if prov == "used":
        fm = fresh_mask(aa, m, ps, o); read_everything(aa, fm); return fm
    raise ValueError(prov)

def mk_mask(aa, m, ps, o):
    """the mask (m, ps, o) for the entry point under test, through the route of this run; the frame that the route delivered is
    recorded as a result of the run; when the route does not deliver (m, ps, o) the fresh mask is used for the entry point"""
    key = (str(m), ps, o)
    if CTX["memo"] is not None and key in CTX["memo"]: return CTX["memo"][key]      # the SAME object is used again
    prov = CTX["prov"]
    r = random.Random(CTX["rng"].randrange(10 ** 9)) if CTX["rng"] is not None else random.Random(0)
    try:
        mask = build_mask(aa, m, ps, o, prov, r) if any(not b for row in m for b in row) or prov in ("fresh", "list", "copy", "pickle") \
            else fresh_mask(aa, m, ps, o)
    except Exception as e:
        CTX["geoms"].append(("inv", "route " + prov + " raised " + exn_name(e)))
        ROUTES[prov + ":raised"] = ROUTES.get(prov + ":raised", 0) + 1
        mask = fresh_mask(aa, m, ps, o)
    else:
        CTX["geoms"].append(("geom", geom_of(mask)) if np.array(mask).ndim == 2 else ("inv", "not 2D"))
    if mask_fp(mask) != ([[bool(b) for b in row] for row in m], ps, o):
        ROUTES[prov + ":fell-back"] = ROUTES.get(prov + ":fell-back", 0) + 1
        mask = fresh_mask(aa, m, ps, o)
    else: ROUTES[prov] = ROUTES.get(prov, 0) + 1
    CTX["made"].append((mask, ([[bool(b) for b in row] for row in m], ps, o)))
    if CTX["memo"] is not None: CTX["memo"][key] = mask
    return mask

def mk_grid(aa, mask):
    """Grid2D of the pixel centres of [mask], fresh or DERIVED (arithmetic, native storage and back, re-wrapped values)"""
    k = CTX["gprov"]
    key = ("grid", id(mask), k)
    if CTX["memo"] is not None and key in CTX["memo"]: return CTX["memo"][key]      # the SAME grid object is used again
    g = aa.Grid2D.from_mask(mask=mask)
    if k == 1: g = mask.derive_grid.unmasked
    elif k == 2: g = g.native.slim
    elif k == 3: g = aa.Grid2D(values=np.array(g.native), mask=mask)
    elif k == 4: g = (g + 1.0) - 1.0
    elif k == 5: g = g * 1.0
    elif k == 6: g = g.with_new_array(np.array(g).copy())
    elif k == 7: g = aa.Grid2D(values=np.array(g), mask=mask).native.slim
    elif k == 8 and all(F(float(np.float32(v))) == F(float(v)) for v in np.array(g).ravel()):      # float32-typed values (exactly the same numbers)
        g = aa.Grid2D(values=np.array(g.native, dtype=np.float32), mask=mask)
    elif k == 9: g = aa.Grid2D(values=[[float(p[0]), float(p[1])] for p in np.array(g)], mask=mask)      # nested Python lists
    elif k == 10: g = user_class(aa, "Grid2D")(values=np.array(g.native), mask=mask)                       # a user subclass
    elif k == 11 and all(float(v).is_integer() for v in np.array(g).ravel()):                           # integer-typed coordinates
        g = aa.Grid2D(values=np.array(g.native).astype(int), mask=mask)
    CTX["args"].append((g, np.array(g).copy(), mask_fp(g.mask)))
    if CTX["memo"] is not None: CTX["memo"][key] = g
    return g

def mk_array(aa, vals2d, mask):
    """Array2D of the 2D values on [mask], fresh or DERIVED"""
    a = aa.Array2D(values=np.array(vals2d, dtype=float), mask=mask)
    k = CTX["aprov"]
    if k == 1: a = a * 1.0
    elif k == 2: a = a.native
    elif k == 3: a = aa.Array2D(values=np.array(vals2d, dtype=float), mask=mask, store_native=True)
    elif k == 4: a = a.native.slim
    elif k == 5: a = aa.Array2D(values=np.array(a), mask=mask)
    elif k == 6: a = (a + 1.0) - 1.0
    elif k == 7: a = aa.Array2D(values=np.array(vals2d).astype(int), mask=mask)            # integer-typed values (all generated values are integers)
    elif k == 8: a = aa.Array2D(values=np.array(vals2d, dtype=np.float32), mask=mask)
    elif k == 9: a = aa.Array2D(values=[[float(v) for v in row] for row in np.array(vals2d)], mask=mask)
    elif k == 10: a = aa.Kernel2D(values=np.array(vals2d, dtype=float), mask=mask)         # a library subclass of Array2D
    elif k == 11: a = user_class(aa, "Array2D")(values=np.array(vals2d, dtype=float), mask=mask)
    CTX["args"].append((a, np.array(a).copy(), mask_fp(a.mask)))
    return a

def check_untouched():
    """(d) the caller's inputs after the calls: every mask / grid / array handed to an entry point still holds what it held"""
    for mask, fp in CTX["made"]:
        if mask_fp(mask) != fp: return f"a mask handed to the entry point was modified: {fp[1:]} -> {mask_fp(mask)[1:]} (or its array)"
    for obj, vals, fp in CTX["args"]:
        if not np.array_equal(np.array(obj), vals, equal_nan=True) or mask_fp(obj.mask) != fp:
            return "a grid / array handed to the entry point was modified"
    return None

# ------------------------------------------------------------------------------------------------ generators
def rand_mask(rng, H, W, style):
    m = [[True] * W for _ in range(H)]
    cells = [(y, x) for y in range(H) for x in range(W)]
    if style == "single":
        y, x = rng.choice(cells); m[y][x] = False
    elif style == "full":
        for (y, x) in cells: m[y][x] = False
    elif style == "ring":
        for (y, x) in cells:
            if (y in (0, H - 1) or x in (0, W - 1)): m[y][x] = False
        if H > 2 and W > 2 and rng.random() < 0.5:
            m = [[True] * W for _ in range(H)]
            for (y, x) in cells:
                if 1 <= y <= H - 2 and 1 <= x <= W - 2 and (y in (1, H - 2) or x in (1, W - 2)): m[y][x] = False
            if all(all(r) for r in m): m[H // 2][W // 2] = False
    elif style == "two":
        for _ in range(2):
            y, x = rng.choice(cells)
            for dy in (0, 1):
                for dx in (0, 1):
                    if y + dy < H and x + dx < W and rng.random() < 0.8: m[y + dy][x + dx] = False
            m[y][x] = False
    elif style == "interior":      # unmasked pixels away from the frame (kernels, blurring)
        for (y, x) in cells:
            if 1 <= y <= H - 2 and 1 <= x <= W - 2 and rng.random() < 0.6: m[y][x] = False
        if all(all(r) for r in m): m[H // 2][W // 2] = False
    else:
        p = rng.choice([0.15, 0.3, 0.5, 0.7, 0.9])
        for (y, x) in cells:
            if rng.random() < p: m[y][x] = False
        if all(all(r) for r in m):
            y, x = rng.choice(cells); m[y][x] = False
    return m

SCALE_EXPS = [-30, -27, 10, 20]        # pixel scales down to 2.3e-10 and up to 3.1e6 (value ranges: tiny and huge magnitudes)
def rand_frame(rng, zero_origin=False, scaled=True, same_exp=False):
    if rng.random() < 0.35:
        p = rng.choice(PS); ps = (p, p)
    else:
        ps = (rng.choice(PS), rng.choice(PS))
    if scaled and rng.random() < 0.3:
        ey = rng.choice(SCALE_EXPS); ex = ey if (same_exp or rng.random() < 0.6) else rng.choice(SCALE_EXPS)
        ps = (ps[0] * F(2) ** ey, ps[1] * F(2) ** ex)
    far = rng.choice([12, 12, 12, 12, 12, 12, 12, 12, 400, 4096])     # (h) origins / translations far outside the frame (up to 1000 pixels)
    o = (ps[0] * F(rng.randint(-far, far), 4), ps[1] * F(rng.randint(-far, far), 4))
    if zero_origin or rng.random() < 0.15: o = (F(0), F(0))
    while True:
        fd = rng.choice([12, 12, 12, far])
        d = (ps[0] * F(rng.randint(-fd, fd), 4), ps[1] * F(rng.randint(-fd, fd), 4))
        if rng.random() < 0.2: d = (d[0], F(0)) if rng.random() < 0.5 else (F(0), d[1])
        if d != (0, 0) and padd(o, d) != (0, 0): break
    return ps, o, d

STYLES = ["random", "random", "random", "single", "ring", "full", "two", "interior"]
GRID_OPS = ["from_mask", "dg_all_false", "dg_unmasked", "dg_edge", "dg_border", "blurring", "padded", "trimmed_array", "subtracted", "over", "sub_grid",
            "resized", "rescaled", "centre", "extent", "zoom_unmasked", "zoomed_around", "zoom_props", "radial", "overlay",
            "pixel_coords", "pixel_grids", "scaled_of_pixels", "rect_mapper",
            "ds_apply_mask", "ds_noise_scaling", "ds_over_sampling", "ds_trimmed", "ds_simulate", "ds_s2n",
            "ctor", "methods", "util", "one_d"]

def gen_inputs(tier, rng):
    n = 750 if tier == "thorough" else 36
    for i in range(n):
        for op in GRID_OPS:
            H, W = rng.randint(1, 7), rng.randint(1, 8)
            if rng.random() < 0.15: W = H
            if rng.random() < 0.06 and not op.startswith("ds_") and op not in ("rect_mapper", "rescaled"): H, W = rng.randint(9, 21), rng.randint(9, 20)      # (h) larger frames
            style = rng.choice(STYLES)
            # (the radial projection steps along x with the pixel scale of the longer axis: the two scales must be commensurable
            # for the sums to be exact in doubles, so both axes get the same power of two there)
            ps, o, d = rand_frame(rng, same_exp=(op == "radial"))
            if op == "methods" and rng.random() < 0.25: H, W, style = rng.randint(3, 7), rng.randint(3, 8), "interior"
            if op in ("blurring",): H, W, style = rng.randint(3, 7), rng.randint(3, 8), "interior"
            if op == "rect_mapper" and rng.random() < 0.8: ps = (ps[0], ps[0]); o = (o[0], ps[0] * F(rng.randint(-12, 12), 4)); d = (d[0], ps[0] * F(rng.randint(-12, 12), 4))
            if op == "ds_s2n": H = max(H, 2)     # a one-row 2-D data set takes the function's Array1D branch (and raises): outside C12
            m = rand_mask(rng, H, W, style)
            inp = {"op": op, "m": m, "ps": S(ps), "o": S(o), "d": S(d), "seed": rng.randrange(10 ** 9)}
            yield inp
    counts = {"hilbert_geometry": 3, "hilbert_mesh": 2, "delaunay_mapper": 4, "relocate": 16, "radial_angle": 10}
    for op in sorted(SPECIAL):
        for i in range(counts.get(op, 3) * (10 if tier == "thorough" else 1)):
            ps, o, d = rand_frame(rng, same_exp=True)
            yield {"op": op, "ps": S(ps), "o": S(o), "d": S(d), "seed": rng.randrange(10 ** 9)}

# ------------------------------------------------------------------------------------------------ one row
def one_run(aa, op, m, ps, o, dd, prm, route, seed, memo):
    CTX.update(prov=route[0], gprov=route[1], aprov=route[2], fkind=route[3], pkind=route[4], rng=random.Random(seed), made=[], geoms=[], args=[], memo=memo)
    res = OPS[op](aa, m, ps, o, dd, prm)
    if res is None: return None
    res["own_rel"] = list(res["rel"])
    res["rel"] = res["rel"] + CTX["geoms"]
    res["touched"] = check_untouched()
    return res

# non-default configuration combinations (pushed for the whole case, both origins; restored afterwards; recorded in the output)
NO_NATIVE_ONLY = {"over", "sub_grid", "pixel_grids", "rect_mapper", "ds_over_sampling"}    # unsupported by the library under native_binned_only
def config_for(inp):
    r = random.Random(inp["seed"] * 11 + 5)
    cfg = {}
    if inp["op"] not in NO_NATIVE_ONLY and r.random() < 0.12: cfg[("general", "structures", "native_binned_only")] = True
    if inp["op"] == "radial" and r.random() < 0.5: cfg[("general", "grid", "remove_projected_centre")] = True
    return cfg
class pushed_config:
    def __init__(self, cfg): self.cfg = cfg; self.old = {}
    def __enter__(self):
        from autoconf import conf
        for (a, b, c), v in self.cfg.items():
            self.old[(a, b, c)] = conf.instance[a][b][c]; conf.instance[a][b][c] = v
    def __exit__(self, *exc):
        from autoconf import conf
        for (a, b, c), v in self.old.items(): conf.instance[a][b][c] = v
        return False

def routes_for(inp):
    """how the structures reach the entry point in the run at o and in the run at o + d (independent choices)"""
    r = random.Random(inp["seed"] * 7 + 3)
    def one(): return (r.choice(MASK_PROVS), r.choice([0, 0, 0, 1, 2, 3, 4, 5, 6, 7, 8, 9, 10, 11]), r.choice([0, 0, 0, 1, 2, 3, 4, 5, 6, 7, 8, 9, 10, 11]),
                       r.choice(FRAME_KINDS), r.choice(POINT_KINDS))
    rts = [one(), one()] if r.random() < 0.8 else [("fresh", 0, 0, "float", "float"), ("fresh", 0, 0, "float", "float")]
    if inp["op"] in PROPERTY_OPS and r.random() < 0.4:
        # entry points that are plain properties of the mask: in ONE of the two runs the object held another array when the property
        # was first read, and was then edited in place (a stale value shows as a broken translation law)
        k = r.randrange(2)
        rts[k] = (r.choice(["edited", "edited_all_false"]),) + rts[k][1:]
        if rts[1 - k][0].startswith("edited"): rts[1 - k] = ("fresh",) + rts[1 - k][1:]
    return rts
POINT_KINDS = ["float"] * 4 + ["int", "np64", "list", "nparr", "npint", "f32"]
PROPERTY_OPS = {"centre", "extent", "zoom_unmasked", "zoomed_around", "zoom_props", "overlay", "dg_unmasked", "dg_all_false", "dg_edge", "dg_border"}

def run_case(inp):
    aa = import_aa()
    op = inp["op"]
    ps, o, d = P(inp["ps"]), P(inp["o"]), P(inp["d"])
    o2 = padd(o, d)
    rng = random.Random(inp["seed"])
    if op in SPECIAL:
        SHARED.clear()
        CTX.update(prov="fresh", gprov=0, aprov=0, fkind="float", pkind="float", rng=None, made=[], geoms=[], args=[], memo=None)
        return SPECIAL[op](aa, inp, ps, o, d, rng)
    m = inp["m"]
    nun = sum(1 for r in m for b in r if not b)
    prm = PARAMS[op](rng, m, ps) if op in PARAMS else {}
    prm["_d"] = d
    SHARED.clear()
    cfg = config_for(inp)
    with pushed_config(cfg):
        return run_pair(aa, inp, op, m, ps, o, o2, d, prm, nun, cfg)

def run_pair(aa, inp, op, m, ps, o, o2, d, prm, nun, cfg):
    ra, rb = routes_for(inp)
    memo_a, memo_b = {}, {}
    dfp = defaults_fp(aa)
    a = one_run(aa, op, m, ps, o, (F(0), F(0)), prm, ra, inp["seed"] + 1, memo_a)      # at origin o: coordinate arguments get + 0
    b = one_run(aa, op, m, ps, o2, d, prm, rb, inp["seed"] + 2, memo_b)                # at origin o + d: coordinate arguments get + d
    if a is None or b is None:
        SKIPPED["inexact"] += 1
        return {"coq": None, "py_ok": None, "kind": op + ":skipped-inexact", "nontrivial": False, "out": "skipped"}
    ok, why = relate(a["rel"], b["rel"], d)
    if ok and (a["touched"] or b["touched"]): ok, why = False, a["touched"] or b["touched"]
    if ok:
        # the SAME objects (masks, shared configuration objects) are evaluated a second time, after the run at the other origin
        a2 = one_run(aa, op, m, ps, o, (F(0), F(0)), prm, ra, inp["seed"] + 1, memo_a)
        b2 = one_run(aa, op, m, ps, o2, d, prm, rb, inp["seed"] + 2, memo_b)
        for x, x2, oo in ((a, a2, o), (b, b2, o2)):
            if x2 is None or x2["own_rel"] != x["own_rel"] or x2["coq"] != x["coq"]:
                ok, why = False, f"the entry point evaluated a second time on the same mask object (origin {S(oo)}) gave another result"
            elif x2["touched"]: ok, why = False, x2["touched"]
    if ok:
        ch = SHARED.changed() or defaults_changed(aa, dfp)
        if ch: ok, why = False, ch
    assert len(a["coq"]) == len(b["coq"])
    cases = [f"(KPair {cpt(d)} {x} {y})" for x, y in zip(a["coq"], b["coq"])]
    return {"coq": cases[0] if cases else None, "extra_coq": cases[1:], "py_ok": ok, "kind": op + (":inexact-tolerance" if a.get("tol") else ""),
            "nontrivial": nun >= 2, "out": {"at_o": a["show"], "at_o_plus_d": b["show"], "relation": why, "params": str(prm)[:300],
                                            "routes": str([ra, rb]), "config": str(cfg)},

            "detail": why}

def relate(ra, rb, d):
    """ra, rb: list of (tag, value); tags: 'grid' (list of points), 'point', 'extent', 'geom', 'inv' (anything, must be equal)"""
    if len(ra) != len(rb): return False, "different number of results"
    for (ta, va), (tb, vb) in zip(ra, rb):
        if ta != tb: return False, f"result kinds differ: {ta} vs {tb}"
        if ta == "inv":
            if va != vb: return False, f"index/count-valued result changed with the origin: {str(va)[:200]} -> {str(vb)[:200]}"
        elif ta == "grid":
            if va is None or vb is None:
                if va != vb: return False, "one origin raised"
            elif shifted(va, d) != vb:
                return False, f"grid not translated by d: first points {jg(va[:2])} -> {jg(vb[:2])} (lengths {len(va)}, {len(vb)})"
        elif ta == "point":
            if (va is None) != (vb is None) or (va is not None and padd(va, d) != vb): return False, f"point not translated by d: {va} -> {vb}"
        elif ta == "extent":
            if (va[0] + d[1], va[1] + d[1], va[2] + d[0], va[3] + d[0]) != vb: return False, f"extent not translated: {va} -> {vb}"
        elif ta == "grid~":       # inexact quotients (non-dyadic): translated by d within 1e-9 relative to the pixel scale / magnitude
            (tol, ga), (_, gb) = va, vb
            if len(ga) != len(gb) or any(abs(q[i] - (p[i] + d[i])) > F(1, 10 ** 9) * max(tol[i], abs(q[i])) for p, q in zip(ga, gb) for i in (0, 1)):
                return False, f"grid not translated by d (tolerance 1e-9): first points {jg(ga[:2])} -> {jg(gb[:2])} (lengths {len(ga)}, {len(gb)})"
        elif ta == "inv~":
            if len(va) != len(vb) or any(abs(x - y) > F(1, 10 ** 9) * max(abs(x), abs(y)) for x, y in zip(va, vb)):
                return False, f"scale-valued result changed with the origin: {[str(v) for v in va]} -> {[str(v) for v in vb]}"
        elif ta == "grid1":
            ax = va[0]
            if ax != vb[0] or [v + d[ax] for v in va[1]] != list(vb[1]): return False, f"1-D coordinates (axis {ax}) not translated by d[{ax}]: {[str(v) for v in va[1][:3]]} -> {[str(v) for v in vb[1][:3]]}"
        elif ta == "geom":
            if (va is None) != (vb is None) or (va is not None and geom_shift(va, d) != vb): return False, f"mask geometry not translated: {va} -> {vb}"
    return True, "ok"

# ------------------------------------------------------------------------------------------------ the entry points
def kgrid(gop, m, ps, o, out):
    return f"(KGrid {gop} {cM(m, ps, o)} " + (f"(Ok {cgrid(out)})" if not isinstance(out, str) else f"(Raise {out})") + ")"

def op_simple(gop, get):
    def f(aa, m, ps, o, dd, prm):
        mask = mk_mask(aa, m, ps, o)
        g = grid_out(get(aa, mask, prm))
        return {"coq": [kgrid(gop(prm), m, ps, o, g)], "rel": [("grid", g)], "show": jg(g[:4])}
    return f

def op_sel(which):
    def f(aa, m, ps, o, dd, prm):
        mask = mk_mask(aa, m, ps, o)
        idx = [int(i) for i in (mask.derive_indexes.edge_slim if which == "edge" else mask.derive_indexes.border_slim)]
        g = grid_out(mask.derive_grid.edge if which == "edge" else mask.derive_grid.border)
        # twice: against the index list the implementation reports (GSel) and against C10's model of that list (GEdge / GBorder)
        return {"coq": [kgrid(f"(GSel {clist([cnat(i) for i in idx])})", m, ps, o, g), kgrid("GEdge" if which == "edge" else "GBorder", m, ps, o, g)],
                "rel": [("grid", g), ("inv", idx)], "show": jg(g[:4])}
    return f

def op_blurring(aa, m, ps, o, dd, prm):
    mask = mk_mask(aa, m, ps, o)
    try:
        bm = mask.derive_mask.blurring_from(kernel_shape_native=prm["k"])
    except Exception as e:
        return {"coq": [], "rel": [("inv", exn_name(e))], "show": exn_name(e)}
    g = grid_out(aa.Grid2D.blurring_grid_from(mask=mask, kernel_shape_native=prm["k"]))
    bml = [[bool(b) for b in r] for r in np.array(bm)]
    return {"coq": [kgrid(f"(GDerived {cmask(bml)})", m, ps, o, g)], "rel": [("grid", g), ("inv", bml), ("geom", geom_of(bm))], "show": jg(g[:4])}

def op_resized(aa, m, ps, o, dd, prm):
    mask = mk_mask(aa, m, ps, o)
    rm = mask.resized_from(new_shape=prm["shape"])
    rml = [[bool(b) for b in r] for r in np.array(rm)]
    g = grid_out(rm.derive_grid.unmasked)
    return {"coq": [kgrid(f"(GDerived {cmask(rml)})", m, ps, o, g)], "rel": [("grid", g), ("inv", rml), ("geom", geom_of(rm))], "show": jg(g[:4])}

def op_rescaled(aa, m, ps, o, dd, prm):
    """Mask2D.rescaled_from (scikit-image's rescale is an oracle for the boolean array, which must not depend on the origin; the
    frame of the returned mask and its grid are modelled: derive_mask with that array)"""
    mask = mk_mask(aa, m, ps, o)
    rm = mask.rescaled_from(rescale_factor=prm["factor"])
    rml = [[bool(b) for b in r] for r in np.array(rm)]
    g = grid_out(rm.derive_grid.unmasked)
    return {"coq": [kgrid(f"(GDerived {cmask(rml)})", m, ps, o, g)], "rel": [("grid", g), ("inv", rml), ("geom", geom_of(rm))], "show": jg(g[:4])}

def op_padded(aa, m, ps, o, dd, prm):
    mask = mk_mask(aa, m, ps, o)
    pg = mk_grid(aa, mask).padded_grid_from(kernel_shape_native=prm["k"])
    g = grid_out(pg); ge = geom_of(pg.mask)
    return {"coq": [kgrid(f"(GPadded {cz(prm['k'][0])} {cz(prm['k'][1])})", m, ps, o, g),
                    f"(KGeom (MPadded {cz(prm['k'][0])} {cz(prm['k'][1])}) {cM(m, ps, o)} (Some {cgeom(ge)}))"],
            "rel": [("grid", g), ("geom", ge)], "show": jg(g[:4])}

def op_trimmed_array(aa, m, ps, o, dd, prm):
    """Mask2D.trimmed_array_from / unmasked_blurred_array_from on the padded frame of the mask"""
    mask = mk_mask(aa, m, ps, o)
    H, W = len(m), len(m[0])
    pm = aa.Grid2D.from_mask(mask=mask).padded_grid_from(kernel_shape_native=prm["k"]).mask
    PH, PW = int(pm.shape_native[0]), int(pm.shape_native[1])
    arr = mk_array(aa, np.arange(float(PH * PW)).reshape(PH, PW), pm)
    ish = prm["image_shape"] or (H, W)
    tr = pm.trimmed_array_from(padded_array=arr, image_shape=ish)
    ge = geom_of(tr.mask)
    rel = [("geom", ge), ("inv", [float(v) for v in np.array(tr.native).ravel()]), ("grid", grid_out(tr.mask.derive_grid.unmasked))]
    if ps[0] == ps[1]:
        psf = aa.Kernel2D.no_mask(values=np.ones(prm["k"]), pixel_scales=fl(ps[0]))
        ub = pm.unmasked_blurred_array_from(padded_array=arr, psf=psf, image_shape=ish)
        rel += [("geom", geom_of(ub.mask)), ("inv", [float(v) for v in np.array(ub.native).ravel()])]
    pml = [[False] * PW for _ in range(PH)]
    return {"coq": [f"(KGeom (MTrimmedArray {cz(ish[0])} {cz(ish[1])}) {cM(pml, ps, o)} (Some {cgeom(ge)}))"], "rel": rel, "show": str(ge)}

def op_subtracted(aa, m, ps, o, dd, prm):
    mask = mk_mask(aa, m, ps, o)
    off = prm["off"]
    sg = mk_grid(aa, mask).subtracted_from(offset=kpt(off))
    g = grid_out(sg); ge = geom_of(sg.mask)
    return {"coq": [kgrid(f"(GSubtracted {cpt(off)})", m, ps, o, g), f"(KGeom (MSubtracted {cpt(off)}) {cM(m, ps, o)} (Some {cgeom(ge)}))"],
            "rel": [("grid", g), ("geom", ge)], "show": jg(g[:4])}

class Shared(dict):
    """configuration objects shared by the run at origin o and the run at o + d of ONE case (reset per case); every object is
    fingerprinted when it is created and must hold the same attribute values after all calls (g)"""
    def __init__(self): super().__init__(); self.fps = {}
    def setdefault(self, key, obj):
        if key not in self: self[key] = obj; self.fps[key] = obj_fp(obj)
        return self[key]
    def clear(self): super().clear(); self.fps = {}
    def changed(self):
        for key, obj in self.items():
            now = obj_fp(obj)
            if not fp_kept(self.fps[key], now): return f"the shared configuration object '{key}' ({type(obj).__name__}) was modified by the calls"
        return None

def obj_fp(x, depth=0):
    """structural fingerprint of an argument / configuration / default object: attribute values, arrays by content"""
    if x is None or isinstance(x, (bool, int, float, str, complex, np.generic)): return repr(x)
    if isinstance(x, (tuple, list)): return (type(x).__name__,) + tuple(obj_fp(v, depth + 1) for v in x)
    if isinstance(x, dict): return ("dict",) + tuple(sorted((str(k), obj_fp(v, depth + 1)) for k, v in x.items()))
    if isinstance(x, np.ndarray): return ("nd", str(x.dtype), x.shape, x.tobytes())
    if isinstance(x, type) or callable(x) and not hasattr(x, "__dict__"): return repr(x)
    d = getattr(x, "__dict__", None)
    if d is None or depth > 4: return type(x).__name__
    return ("obj", type(x).__name__, tuple(sorted((k, obj_fp(v, depth + 1)) for k, v in d.items() if k != "run_time_dict")))     # (profiling slot, reset by every call)
def fp_kept(before, after):
    """every attribute present BEFORE still has its value (attributes added later, e.g. lazily cached values, are allowed at the
    top level only: what they hold shows in the results of the second evaluation)"""
    if isinstance(before, tuple) and before and before[0] == "obj" and isinstance(after, tuple) and after and after[0] == "obj":
        a = dict(after[2])
        return before[1] == after[1] and all(k in a and a[k] == v for k, v in before[2])
    return before == after

DEFAULTS = []
def default_objects(aa):
    """the shared DEFAULT argument objects of the library's public callables (OverSamplingDataset(), Preloads(), SettingsInversion() ...)"""
    if DEFAULTS: return DEFAULTS
    import inspect, pkgutil, importlib, autoarray
    def prim(v): return v is None or isinstance(v, (bool, int, float, str, type)) or (isinstance(v, tuple) and all(prim(x) for x in v))
    seen = set()
    for mi in pkgutil.walk_packages(autoarray.__path__, "autoarray."):
        if ".plot" in mi.name or "fixtures" in mi.name or "mock" in mi.name: continue
        try: mod = importlib.import_module(mi.name)
        except Exception: continue
        for name, obj in list(vars(mod).items()):
            fs = []
            if inspect.isfunction(obj): fs = [(name, obj)]
            elif inspect.isclass(obj) and obj.__module__ == mi.name:
                fs = [(name + "." + n, f) for n, f in vars(obj).items() if inspect.isfunction(f) or isinstance(f, (classmethod, staticmethod))]
            for n, f in fs:
                f = getattr(f, "__func__", f)
                try: sig = inspect.signature(f)
                except Exception: continue
                for prm_ in sig.parameters.values():
                    if prm_.default is not inspect._empty and not prim(prm_.default) and id(prm_.default) not in seen:
                        seen.add(id(prm_.default)); DEFAULTS.append((mi.name + ":" + n + ":" + prm_.name, prm_.default))
    return DEFAULTS
def defaults_fp(aa): return [obj_fp(v) for _, v in default_objects(aa)]
def defaults_changed(aa, before):
    for (name, v), b in zip(default_objects(aa), before):
        if obj_fp(v) != b: return f"the shared default argument object {name} was modified by the calls"
    return None

SHARED = Shared()
def op_over(entry):
    def f(aa, m, ps, o, dd, prm):
        mask = mk_mask(aa, m, ps, o)
        subs = prm["subs"]; rel = []
        if prm.get("radial"):
            # a NON-UNIFORM sub-size map computed from the geometry itself: OverSamplingUniform.from_radial_bins around the mask
            # centre (None) or around a translated centre; the map is count-valued and must not change with the origin
            grid = mk_grid(aa, mask)
            cl = None if prm["radial"] == "centre" else [(fl(prm["radial"][0] + o[0]), fl(prm["radial"][1] + o[1]))]
            osr = aa.OverSamplingUniform.from_radial_bins(grid=grid, sub_size_list=[4, 2, 1],
                                                          radial_list=[fl(min(ps) * F(5, 4)), fl(min(ps) * F(9, 4))], centre_list=cl)
            ss = osr.sub_size
            subs = [int(v) for v in np.array(ss)]
            c0 = (fl(o[0]), fl(o[1])) if cl is None else cl[0]
            rel += [("inv", subs), ("inv", [fr(v) for v in np.array(grid.squared_distances_to_coordinate_from(coordinate=c0))])]
        else:
            ss = subs[0] if prm["uniform"] else aa.Array2D(values=np.array(subs, dtype=int), mask=mask)
        if entry == "over":
            g = grid_out(aa.OverSamplerUniform(mask=mask, sub_size=ss).over_sampled_grid)
            if prm["uniform"] and not prm.get("radial"):
                # the same OverSamplingUniform object configures the grid at o and the grid at o + d: the over sampler each grid
                # reports must be the one of its own mask
                osu = SHARED.setdefault("osu", aa.OverSamplingUniform(sub_size=int(subs[0])))
                g2 = grid_out(aa.Grid2D.from_mask(mask=mask, over_sampling=osu).over_sampler.over_sampled_grid)
                g3 = grid_out(osu.over_sampler_from(mask=mask).over_sampled_grid)
                if g2 != g or g3 != g:
                    return {"coq": [kgrid(f"(GOver {clist([cz(s) for s in subs])})", m, ps, o, g2 if g2 != g else g3)],
                            "rel": [("grid", g2 if g2 != g else g3)], "show": "shared OverSamplingUniform: " + jg((g2 if g2 != g else g3)[:4])}
            coq = [kgrid(f"(GOver {clist([cz(s) for s in subs])})", m, ps, o, g)]
        else:
            if prm.get("radial"): ss = aa.Array2D(values=np.array(subs, dtype=int), mask=mask)     # (BorderRelocator wants an integer map)
            br = aa.BorderRelocator(mask=mask, sub_size=ss)
            g = grid_out(br.sub_grid)
            coq = [kgrid(f"(GOver {clist([cz(s) for s in subs])})", m, ps, o, g)]
            # the border views of the same relocator: sub_border_grid = sub_grid[sub_border_slim], border_grid = derive_grid.border
            sbi = [int(i) for i in br.sub_border_slim]; sbg = grid_out(br.sub_border_grid); bg = grid_out(br.border_grid)
            bi = [int(i) for i in mask.derive_indexes.border_slim]
            coq += [kgrid(f"(GOverSel {clist([cz(s) for s in subs])} {clist([cnat(i) for i in sbi])})", m, ps, o, sbg),
                    kgrid(f"(GSel {clist([cnat(i) for i in bi])})", m, ps, o, bg)]
            rel += [("inv", sbi), ("grid", sbg), ("grid", bg)]
        return {"coq": coq, "rel": [("grid", g)] + rel, "show": jg(g[:4])}
    return f

def op_centre(aa, m, ps, o, dd, prm):
    mask = mk_mask(aa, m, ps, o)
    c = mask.mask_centre; c = (fr(c[0]), fr(c[1]))
    # index- / count-valued results computed from the centre: the pixel that contains it, the masked-pixel shape, circularity
    cpix = tuple(int(v) for v in mask.geometry.pixel_coordinates_2d_from(scaled_coordinates_2d=mask.mask_centre))
    rel = [("point", c), ("inv", cpix), ("inv", [int(v) for v in mask.shape_native_masked_pixels])]
    coq = [f"(KPoint PMaskCentre {cM(m, ps, o)} (Some {cpt(c)}))", f"(KPixelCoords {cM(m, ps, o)} {cgrid([c])} {clist([czz(cpix)])})"]
    if ps[0] == ps[1]:
        rel.append(("inv", bool(mask.is_circular)))
        if mask.is_circular: rel.append(("inv", fr(fresh_mask(aa, m, ps, o).circular_radius)))
    arr = mk_array(aa, np.ones((len(m), len(m[0]))), mask)       # the same through a structure on the mask
    rel += [("point", (fr(arr.origin[0]), fr(arr.origin[1]))), ("extent", tuple(fr(v) for v in arr.geometry.extent)),
            ("grid", grid_out(arr.unmasked_grid))]
    return {"coq": coq, "rel": rel, "show": S(c)}

def op_extent(aa, m, ps, o, dd, prm):
    mask = mk_mask(aa, m, ps, o)
    e = tuple(fr(v) for v in mask.geometry.extent)
    smax = tuple(fr(v) for v in mask.geometry.scaled_maxima); smin = tuple(fr(v) for v in mask.geometry.scaled_minima)
    cs = tuple(fr(v) for v in mask.geometry.central_scaled_coordinates)
    return {"coq": [f"(KExtent {cM(m, ps, o)} {ctup([cq(v) for v in e])})"],
            "rel": [("extent", e), ("point", smax), ("point", smin)], "show": [str(v) for v in e]}

def op_zoom_unmasked(aa, m, ps, o, dd, prm):
    mask = mk_mask(aa, m, ps, o)
    zm = mask.zoom_mask_unmasked
    ge = geom_of(zm); g = grid_out(zm.derive_grid.all_false)
    return {"coq": [f"(KGeom MZoomUnmasked {cM(m, ps, o)} (Some {cgeom(ge)}))"], "rel": [("geom", ge), ("grid", g)], "show": str(ge)}

def op_zoomed_around(aa, m, ps, o, dd, prm):
    mask = mk_mask(aa, m, ps, o)
    H, W = len(m), len(m[0])
    arr = mk_array(aa, np.arange(float(H * W)).reshape(H, W), mask)
    z = arr.zoomed_around_mask(buffer=prm["buffer"])
    ge = geom_of(z.mask); vals = [float(v) for v in np.array(z.native).ravel()]
    ex = tuple(fr(v) for v in arr.extent_of_zoomed_array(buffer=prm["buffer"]))
    return {"coq": [f"(KGeom (MZoomedAround {cz(prm['buffer'])}) {cM(m, ps, o)} (Some {cgeom(ge)}))"],
            "rel": [("geom", ge), ("inv", vals), ("extent", ex)], "show": str(ge)}

def op_zoom_props(aa, m, ps, o, dd, prm):
    mask = mk_mask(aa, m, ps, o)
    zc = tuple(fr(v) for v in mask.zoom_centre); zp = tuple(fr(v) for v in mask.zoom_offset_pixels)
    zs = tuple(fr(v) for v in mask.zoom_offset_scaled); zr = [int(v) for v in mask.zoom_region]
    return {"coq": [f"(KPoint PZoomCentre {cM(m, ps, o)} (Some {cpt(zc)}))", f"(KPoint PZoomOffsetPixels {cM(m, ps, o)} (Some {cpt(zp)}))",
                    f"(KPoint PZoomOffsetScaled {cM(m, ps, o)} (Some {cpt(zs)}))"],
            "rel": [("inv", zc), ("inv", zp), ("inv", zs), ("inv", zr), ("inv", [int(v) for v in mask.zoom_shape_native])], "show": str((zc, zs, zr))}

def op_radial(aa, m, ps, o, dd, prm):
    mask = mk_mask(aa, m, ps, o)
    c = padd(padd(o, prm["c_rel"]), (0, 0))
    grid = mk_grid(aa, mask)
    g = grid_out(grid.grid_2d_radial_projected_from(centre=kpt(c), angle=0.0, shape_slim=prm["shape_slim"],
                                                    remove_projected_centre=prm["remove"]))
    n = int(grid.grid_2d_radial_projected_shape_slim_from(centre=kpt(c)))
    from autoconf import conf
    rm = bool(conf.instance["general"]["grid"]["remove_projected_centre"]) if prm["remove"] is None else prm["remove"]
    return {"coq": [kgrid(f"(GRadial {cpt(c)} {cz(prm['shape_slim'])} {cbool(rm)})", m, ps, o, g)],
            "rel": [("grid", g), ("inv", n)], "show": jg(g[:4])}

def overlay_exact(m, ps, o, sy, sx):
    """are all quotients of Overlay.image_plane_mesh_grid_from exact in doubles for this input?"""
    H, W = len(m), len(m[0])
    ys = [y for y in range(H) for x in range(W) if not m[y][x]]; xs = [x for y in range(H) for x in range(W) if not m[y][x]]
    for ax, (idx, n, p, oo, s, sign) in enumerate(((ys, H, ps[0], o[0], sy, -1), (xs, W, ps[1], o[1], sx, 1))):
        span = (max(idx) - min(idx) + 1) * p
        if not fdiv_exact(span, s): return False
        p2 = span / s
        cen = oo + sign * (F(max(idx) + min(idx), 2) - F(n - 1, 2)) * p
        if not dyadic(cen) or not fdiv_exact(cen, p2) or not fdiv_exact(oo, p): return False
        for k in range(s):      # overlay coordinates and their pixel quotients
            coord = cen + sign * (k - F(s - 1, 2)) * p2
            if not dyadic(coord) or not fdiv_exact(coord, p): return False
    return True

def overlay_margin(m, ps, sy, sx):
    """distance (in pixels) of the overlay centres from the nearest pixel boundary of the mask: the only discontinuous decision"""
    H, W = len(m), len(m[0]); worst = F(1)
    ys = [y for y in range(H) for x in range(W) if not m[y][x]]; xs = [x for y in range(H) for x in range(W) if not m[y][x]]
    for idx, n, s in ((ys, H, sy), (xs, W, sx)):
        span = F(max(idx) - min(idx) + 1); p2 = span / s
        cen = F(max(idx) + min(idx), 2)                      # in pixel units, from pixel 0
        for k in range(s):
            q = cen + (k - F(s - 1, 2)) * p2 + F(1, 2)       # float pixel position of the overlay centre
            worst = min(worst, abs(q - round(q)))
    return worst

def op_overlay(aa, m, ps, o, dd, prm):
    sy, sx = prm["shape"]
    oa = (o[0] - dd[0], o[1] - dd[1]); ob = padd(oa, prm["_d"])
    if not (overlay_exact(m, ps, oa, sy, sx) and overlay_exact(m, ps, ob, sy, sx)):
        # (h) the model comparison is not exact for this input: the PROPERTY is still evaluated on the implementation's output, with a
        # tolerance, provided the only discontinuous decision (which mask pixel holds an overlay centre) is taken at a margin
        if overlay_margin(m, ps, sy, sx) < F(1, 10 ** 6): return None
        mask = mk_mask(aa, m, ps, o)
        try: g = grid_out(SHARED.setdefault("overlay", aa.image_mesh.Overlay(shape=(sy, sx))).image_plane_mesh_grid_from(mask=mask))
        except IndexError: g = None
        return {"coq": [], "rel": [("grid~", (ps, g))] if g is not None else [("inv", "IndexError")], "show": "inexact: " + str(jg(g[:4]) if g else "IndexError"), "tol": True}
    mask = mk_mask(aa, m, ps, o)
    try:
        # ONE Overlay object serves the mask at o and the mask at o + d (and is evaluated again afterwards)
        g = grid_out(SHARED.setdefault("overlay", aa.image_mesh.Overlay(shape=(sy, sx))).image_plane_mesh_grid_from(mask=mask))
    except IndexError:
        g = "IndexError"
    return {"coq": [kgrid(f"(GOverlay {cz(sy)} {cz(sx)})", m, ps, o, g)], "rel": [("grid", None if isinstance(g, str) else g)],
            "show": g if isinstance(g, str) else jg(g[:4])}

def kpt(p):
    """a (y, x) point argument in the point kind of this run"""
    return kpair(p, CTX.get("pkind", "float"))
def point_grid(aa, pts):
    """the points as a Grid2D with its OWN frame (shape, pixel scales, origin unrelated to the mask's) and value kind"""
    r = CTX["rng"] or random.Random(0); k = CTX.get("pkind", "float"); n = len(pts)
    shape = r.choice([(1, n), (n, 1)] + ([(2, n // 2)] if n % 2 == 0 and n > 2 else []))
    vals = [(fl(p[0]), fl(p[1])) for p in pts]
    if k == "nparr": vals = np.array(vals)
    elif k == "f32" and all(F(float(np.float32(v))) == F(v) for p in pts for v in p): vals = np.array(vals, dtype=np.float32)
    elif k in ("int", "npint") and all(F(v).denominator == 1 for p in pts for v in p): vals = np.array(vals).astype(int)
    elif k == "list": vals = [[a, b] for a, b in vals]
    frame = r.choice([dict(pixel_scales=1.0), dict(pixel_scales=(0.5, 2.0), origin=(7.0, -3.0)), dict(pixel_scales=2.0, origin=(0.25, 0.0))])
    return aa.Grid2D.no_mask(values=vals, shape_native=shape, **frame)
def pts_for(rng, m, ps, n=6):
    """points relative to the origin, on the ps/8 lattice, inside and a little outside the frame"""
    H, W = len(m), len(m[0])
    return [(ps[0] * F(rng.randint(-4 * H - 6, 4 * H + 6), 8), ps[1] * F(rng.randint(-4 * W - 6, 4 * W + 6), 8)) for _ in range(n)]

def op_pixel_coords(aa, m, ps, o, dd, prm):
    mask = mk_mask(aa, m, ps, o)
    pts = [padd(p, o) for p in prm["pts"]]
    out = [tuple(int(v) for v in mask.geometry.pixel_coordinates_2d_from(scaled_coordinates_2d=kpt(p))) for p in pts]
    back = [tuple(fr(v) for v in mask.geometry.scaled_coordinates_2d_from(pixel_coordinates_2d=kpt(q))) for q in prm["pix"]]
    at_c = [tuple(fr(v) for v in mask.geometry.scaled_coordinate_2d_to_scaled_at_pixel_centre_from(scaled_coordinate_2d=kpt(p))) for p in pts]
    return {"coq": [f"(KPixelCoords {cM(m, ps, o)} {cgrid(pts)} {clist([czz(q) for q in out])})",
                    kgrid(f"(GScaledOfPixelCentres {cgrid(prm['pix'])})", m, ps, o, back)],
            "rel": [("inv", out), ("grid", back), ("grid", at_c)], "show": str(out)}

def op_pixel_grids(aa, m, ps, o, dd, prm):
    mask = mk_mask(aa, m, ps, o)
    pts = [padd(p, o) for p in prm["pts"]]
    g = point_grid(aa, pts)
    CTX["args"].append((g, np.array(g).copy(), mask_fp(g.mask)))
    geo = mask.geometry
    fpix = grid_out(geo.grid_pixels_2d_from(grid_scaled_2d=g))
    cen = [tuple(int(v) for v in r) for r in np.asarray(geo.grid_pixel_centres_2d_from(grid_scaled_2d=g))]
    idx = [int(v) for v in np.asarray(geo.grid_pixel_indexes_2d_from(grid_scaled_2d=g))]
    M = cM(m, ps, o)
    return {"coq": [f"(KPixelFloats {M} {cgrid(pts)} {cgrid(fpix)})", f"(KPixelCentres {M} {cgrid(pts)} {clist([czz(q) for q in cen])})",
                    f"(KPixelIndexes {M} {cgrid(pts)} {clist([cz(i) for i in idx])})"],
            "rel": [("inv", fpix), ("inv", cen), ("inv", idx)], "show": str(cen)}

def op_scaled_of_pixels(aa, m, ps, o, dd, prm):
    mask = mk_mask(aa, m, ps, o)
    g = point_grid(aa, prm["pix"])
    out = grid_out(mask.geometry.grid_scaled_2d_from(grid_pixels_2d=g))
    return {"coq": [kgrid(f"(GScaledOfPixels {cgrid(prm['pix'])})", m, ps, o, out)], "rel": [("grid", out)], "show": jg(out[:4])}

def op_rect_mapper(aa, m, ps, o, dd, prm):
    """MapperRectangular on the (translated) unmasked grid of the mask, mesh = Mesh2DRectangular.overlay_grid"""
    sy, sx = prm["shape"]; buf = prm["buffer"]
    via_mesh = prm.get("via_mesh")
    if via_mesh: sy, sx = prm["mesh_shape"]                          # (mesh.Rectangular wants at least 3 x 3; odd shapes: fewer exact ties)
    if via_mesh: buf = F(1, 10 ** 8)          # mesh.Rectangular.mesh_grid_from uses overlay_grid's default buffer
    mask = mk_mask(aa, m, ps, o)
    grid = mk_grid(aa, mask)
    gl = grid_out(grid)
    oa = (o[0] - dd[0], o[1] - dd[1]); ob = padd(oa, prm["_d"])
    exact = not via_mesh; margin = F(1)
    for ax, s in ((0, sy), (1, sx)):
        vs = [p[ax] for p in gl]
        lo, hi = min(vs), max(vs)
        p2 = (hi - lo + 2 * buf) / s
        for oo in (oa, ob):      # exactness must hold at both origins (the values at the other origin are these + or - d)
            sh = oo[ax] - o[ax]
            if not dyadic(p2) or not fdiv_exact((hi + lo) / 2 + sh, p2) or any(not fdiv_exact(v + sh, p2) for v in vs): exact = False
            if not (dyadic(hi + sh + buf, 48) and dyadic(lo + sh - buf, 48) and dyadic(hi + lo + 2 * sh, 48)): exact = False     # y_max + buffer, y_min - buffer, their sum
        if hi == lo: margin = F(0)       # a one-row / one-column grid: the mesh spans 2 * buffer only (cancellation): exact path only
        for v in vs:
            t = (v - lo + buf) / p2; margin = min(margin, abs(t - round(t)))
    if not exact and margin < F(1, 10 ** 9): return None        # a data point on a mesh-pixel boundary: the index table may flip by rounding
    if via_mesh:
        # the public route: mesh.Rectangular(...).mapper_grids_from with its shared default Preloads() (fingerprinted)
        mo = SHARED.setdefault("rect_mesh", aa.mesh.Rectangular(shape=(sy, sx)))
        mg = mo.mapper_grids_from(mask=mask, source_plane_data_grid=grid, border_relocator=None)
        mesh = mg.source_plane_mesh_grid
    else:
        mesh = aa.Mesh2DRectangular.overlay_grid(shape_native=(sy, sx), grid=grid, buffer=fl(buf))
        mg = aa.MapperGrids(mask=mask, source_plane_data_grid=grid, source_plane_mesh_grid=mesh)
    mapper = aa.Mapper(mapper_grids=mg, over_sampler=aa.OverSamplerUniform(mask=mask, sub_size=1), regularization=None)
    maps = [int(v) for v in np.asarray(mapper.pix_indexes_for_sub_slim_index).ravel()]
    sizes = [int(v) for v in np.asarray(mapper.pix_sizes_for_sub_slim_index).ravel()]
    wts = [float(v) for v in np.asarray(mapper.pix_weights_for_sub_slim_index).ravel()]
    mm = [[float(v) for v in r] for r in np.asarray(mapper.mapping_matrix)]
    mps_ = (fr(mesh.pixel_scales[0]), fr(mesh.pixel_scales[1])); morg = (fr(mesh.origin[0]), fr(mesh.origin[1]))
    meshg = grid_out(mesh)
    nb = [[int(v) for v in r] for r in np.asarray(mesh.neighbors)]
    if not exact:
        mps_t = tuple(abs(v) for v in mps_)
        return {"coq": [], "rel": [("inv", maps), ("inv", sizes), ("inv", wts), ("inv", mm), ("grid~", (mps_t, [morg])), ("grid~", (mps_t, meshg)), ("inv", nb), ("inv~", list(mps_))],
                "show": "inexact: " + str(maps), "tol": True}
    return {"coq": [f"(KRect {cz(sy)} {cz(sx)} {cgrid(gl)} {cq(buf)} {cpt(mps_)} {cpt(morg)} {cgrid(meshg)} {clist([cz(i) for i in maps])})"],
            "rel": [("inv", maps), ("inv", sizes), ("inv", wts), ("inv", mm), ("inv", mps_), ("point", morg), ("grid", meshg), ("inv", nb)],
            "show": str(maps)}

# ---- datasets
def mk_imaging(aa, m, ps, o, rng_vals, psf=None, pre=0):
    """the un-masked Imaging on the frame (H x W, ps, o); [pre] > 0: the dataset is not fresh but DERIVED by operations that keep
    that frame (its data arrays come out of arithmetic / native storage, or the dataset itself out of apply_mask with an all-False
    mask, apply_over_sampling, a 1x1 trim), after its cached grids were read, or after it served another mask first"""
    H, W = len(m), len(m[0])
    kw = fkw(ps, o)
    vals = np.array(rng_vals, dtype=float).reshape(H, W)
    if pre == 1:
        data = aa.Array2D.no_mask(values=vals / 2.0, **kw) * 2.0
        noise = aa.Array2D(values=np.full((H, W), 2.0), mask=aa.Mask2D.all_false(shape_native=(H, W), **kw)).native.slim
    else:
        data = aa.Array2D.no_mask(values=vals, **kw)
        noise = aa.Array2D.no_mask(values=np.full((H, W), 2.0), **kw)
    ds = aa.Imaging(data=data, noise_map=noise, psf=psf)
    CTX["args"].append((data, np.array(data).copy(), mask_fp(data.mask)))       # the caller's arrays: geometry must survive every call
    if pre == 2:
        ds.grids.uniform; ds.grids.pixelization
        ds = ds.apply_mask(mask=aa.Mask2D.all_false(shape_native=(H, W), **kw))
    elif pre == 3:
        ds = ds.apply_over_sampling(aa.OverSamplingDataset(uniform=aa.OverSamplingUniform(sub_size=2)))
    elif pre == 4:
        ds.grids.uniform
        ds = ds.trimmed_after_convolution_from(kernel_shape=(1, 1))
    elif pre == 5 and H * W > 1:      # the same dataset object first serves ANOTHER mask
        other = np.ones((H, W), dtype=bool); other[0, 0] = False
        ds.apply_mask(mask=aa.Mask2D(mask=other, **kw)).grids.uniform
    return ds

def ds_result(ds, op, data_in, noise_in, arg, with_over=None):
    """Coq cases + relation items for a returned Imaging"""
    gd, gn = geom_of(ds.data.mask), geom_of(ds.noise_map.mask)
    dm = [[bool(b) for b in r] for r in np.array(ds.data.mask)]
    g = grid_out(ds.grids.uniform)
    coq = [f"(KDataset {op} {data_in} {noise_in} {arg} ({cgeom(gd)}, {cgeom(gn)}))", kgrid("GFromMask", dm, gd[2], gd[3], g)]
    rel = [("geom", gd), ("geom", gn), ("grid", g), ("inv", dm), ("inv", [float(v) for v in np.array(ds.data.native).ravel()]),
           ("inv", [float(v) for v in np.array(ds.noise_map.native).ravel()])]
    gp = grid_out(ds.grids.pixelization); rel.append(("grid", gp))
    if ds.psf is not None:
        try: rel.append(("grid", grid_out(ds.grids.blurring)))
        except Exception as e: rel.append(("inv", exn_name(e)))
    return coq, rel, gd

def op_ds(which):
    def f(aa, m, ps, o, dd, prm):
        H, W = len(m), len(m[0])
        full = [[False] * W for _ in range(H)]
        psf = SHARED.setdefault("psf", aa.Kernel2D.no_mask(values=[[0.0, 1.0, 0.0], [1.0, 2.0, 1.0], [0.0, 1.0, 0.0]],
                                                           pixel_scales=(fl(ps[0]), fl(ps[1])))) if prm.get("psf") else None
        mask = mk_mask(aa, m, ps, o)
        D = cM(full, ps, o)
        if which == "simulate":
            image = aa.Array2D.no_mask(values=np.array(prm["vals"], dtype=float).reshape(H, W), **fkw(ps, o))
            if CTX["aprov"] in (1, 6): image = (image + 1.0) - 1.0
            elif CTX["aprov"] in (2, 3): image = image.native
            CTX["args"].append((image, np.array(image).copy(), mask_fp(image.mask)))
            sim = SHARED.setdefault("sim", aa.SimulatorImaging(
                exposure_time=1000.0, psf=aa.Kernel2D.no_mask(values=[[1.0]], pixel_scales=(fl(ps[0]), fl(ps[1]))),
                add_poisson_noise_to_data=prm["poisson"], include_poisson_noise_in_noise_map=prm["poisson"],
                noise_if_add_noise_false=1.0, noise_seed=1, normalize_psf=False))      # one simulator for both origins
            ds = sim.via_image_from(image=image)
            coq, rel, gd = ds_result(ds, f"(DSimulate {cbool(prm['poisson'])})", D, D, D)
        elif which == "s2n":
            ds0 = mk_imaging(aa, m, ps, o, prm["vals"], pre=CTX["aprov"] % 6)
            nm = aa.preprocess.noise_map_with_signal_to_noise_limit_from(data=ds0.data, noise_map=ds0.noise_map, signal_to_noise_limit=2.0)
            gd = geom_of(nm.mask)
            coq = [f"(KDataset DS2N {D} {D} {D} ({cgeom(gd)}, {cgeom(gd)}))"]
            rel = [("geom", gd), ("inv", [float(v) for v in np.array(nm.native).ravel()]), ("grid", grid_out(nm.mask.derive_grid.unmasked))]
        else:
            ds0 = mk_imaging(aa, m, ps, o, prm["vals"], psf, pre=CTX["aprov"] % 6)
            if which == "apply_mask":
                ds = ds0.apply_mask(mask=mask)
                pm = [[bool(b) for b in r] for r in np.array(ds.data.mask)]
                coq, rel, gd = ds_result(ds, f"(DApplyMask {cmask(pm)})", D, D, cM(m, ps, o))
            elif which == "noise_scaling":
                ds = ds0.apply_noise_scaling(mask=mask, noise_value=64.0) if prm["plain"] else \
                     ds0.apply_noise_scaling(mask=mask, signal_to_noise_value=2.0, should_zero_data=False)
                coq, rel, gd = ds_result(ds, "DNoiseScaling", D, D, cM(m, ps, o))
            elif which == "over_sampling":
                ds1 = ds0.apply_mask(mask=mask)
                osd = SHARED.setdefault("osd", aa.OverSamplingDataset(uniform=aa.OverSamplingUniform(sub_size=prm["sub"]),
                                                                      pixelization=aa.OverSamplingUniform(sub_size=2)))
                ds = ds1.apply_over_sampling(osd)
                coq, rel, gd = ds_result(ds, f"(DApplyMask {cmask(m)})", D, D, cM(m, ps, o))
                og = grid_out(ds.grids.uniform.over_sampler.over_sampled_grid)
                nun = sum(1 for r in m for b in r if not b)
                coq.append(kgrid(f"(GOver {clist([cz(prm['sub'])] * nun)})", m, ps, o, og)); rel.append(("grid", og))
                rel.append(("grid", grid_out(ds.grids.border_relocator.sub_grid)))
            elif which == "trimmed":
                ds1 = ds0.apply_mask(mask=mask) if prm["masked"] else ds0
                ds = ds1.trimmed_after_convolution_from(kernel_shape=prm["k"])
                rd = [[bool(b) for b in r] for r in np.array(ds.data.mask)]; rn = [[bool(b) for b in r] for r in np.array(ds.noise_map.mask)]
                A = cM(m, ps, o) if prm["masked"] else D
                coq, rel, gd = ds_result(ds, f"(DTrimmed {cmask(rd)} {cmask(rn)})", A, A, A)
        return {"coq": coq, "rel": rel, "show": str(gd)}
    return f

# ---- sibling entry points: constructor classmethods with an explicit origin, methods that rebuild a frame, the util layer on plain
# arrays, sibling classes (Kernel2D, VectorYX2D, Interferometer) and the 1-D variants
def exp_grid(H, W, ps, o):
    return [(o[0] + (F(H - 1, 2) - y) * ps[0], o[1] + (x - F(W - 1, 2)) * ps[1]) for y in range(H) for x in range(W)]
def mlist(mask): return [[bool(b) for b in r] for r in np.array(mask)]
def seq_kind(vals, kind):
    """a sequence of numbers in the value kind [kind] (all values exactly representable)"""
    vals = [float(v) for v in vals]
    if kind in ("int", "npint") and all(v.is_integer() for v in vals): return np.array(vals).astype(int) if kind == "npint" else [int(v) for v in vals]
    if kind == "f32" and all(F(float(np.float32(v))) == F(v) for v in vals): return np.array(vals, dtype=np.float32)
    if kind in ("list", "int"): return vals
    return np.array(vals)

CTOR_KINDS = ["grid_uniform", "grid_no_mask", "grid_from_yx_1d", "grid_from_yx_2d", "grid_bounding_box", "array_no_mask", "array_full",
              "array_ones", "array_zeros", "mask_all_false", "mask_from_pixel_coordinates", "kernel_no_mask", "kernel_ones", "kernel_full",
              "kernel_zeros", "vector_no_mask", "vector_full", "vector_ones", "vector_zeros"]
def multi(one):
    """several variants per case (the structures of the run are shared by them)"""
    def f(aa, m, ps, o, dd, prm):
        coq, rel, show = [], [], []
        for which in prm["which"]:
            r = one(aa, m, ps, o, dd, prm, which)
            coq += r["coq"]; rel += [("inv", which)] + r["rel"]; show.append(r["show"])
        return {"coq": coq, "rel": rel, "show": str(show)}
    return f

def ctor_one(aa, m, ps, o, dd, prm, which):
    H, W = len(m), len(m[0]); kw = fkw(ps, o); k = CTX["pkind"]
    full = [[False] * W for _ in range(H)]
    eg = exp_grid(H, W, ps, o); ys = [p[0] for p in eg]; xs = [p[1] for p in eg]
    vals = np.arange(1.0, H * W + 1.0).reshape(H, W)
    rel = []; gop = "GAllFalse"; mm = full
    if which == "grid_uniform":
        st = aa.Grid2D.uniform(shape_native=(H, W), **kw); g = grid_out(st); rel.append(("grid", grid_out(st.mask.derive_grid.all_false)))
    elif which == "grid_no_mask":
        nat = np.array([[fl(p[0]), fl(p[1])] for p in eg]).reshape(H, W, 2)
        st = aa.Grid2D.no_mask(values=nat.tolist() if k == "list" else nat, **kw) if prm["native"] else \
             aa.Grid2D.no_mask(values=nat.reshape(-1, 2), shape_native=(H, W), **kw)
        g = grid_out(st.mask.derive_grid.all_false); rel.append(("grid", grid_out(st)))
    elif which == "grid_from_yx_1d":
        st = aa.Grid2D.from_yx_1d(y=seq_kind(ys, k), x=seq_kind(xs, k), shape_native=(H, W), **kw)
        g = grid_out(st.mask.derive_grid.all_false); rel.append(("grid", grid_out(st)))
    elif which == "grid_from_yx_2d":
        y2 = np.array([fl(v) for v in ys]).reshape(H, W); x2 = np.array([fl(v) for v in xs]).reshape(H, W)
        st = aa.Grid2D.from_yx_2d(y=y2.tolist() if k == "list" else y2, x=x2.tolist() if k == "list" else x2, **kw)
        g = grid_out(st.mask.derive_grid.all_false); rel.append(("grid", grid_out(st)))
    elif which == "grid_bounding_box":
        buf = prm["buffer"] and H >= 2 and W >= 2
        hy, hx = ps[0] * F(H - 1 if buf else H, 2), ps[1] * F(W - 1 if buf else W, 2)
        bb = seq_kind([o[0] - hy, o[0] + hy, o[1] - hx, o[1] + hx], k if k != "f32" else "float")
        st = aa.Grid2D.bounding_box(bounding_box=bb, shape_native=(H, W), buffer_around_corners=bool(buf)); g = grid_out(st)
    elif which.startswith("array_"):
        st = {"array_no_mask": lambda: aa.Array2D.no_mask(values=vals.tolist() if k == "list" else vals, **kw) if prm["native"] else
                                       aa.Array2D.no_mask(values=vals.ravel(), shape_native=(H, W), **kw),
              "array_full": lambda: aa.Array2D.full(fill_value=2.0, shape_native=(H, W), **kw),
              "array_ones": lambda: aa.Array2D.ones(shape_native=(H, W), **kw),
              "array_zeros": lambda: aa.Array2D.zeros(shape_native=(H, W), **kw)}[which]()
        g = grid_out(st.unmasked_grid); rel += [("extent", tuple(fr(v) for v in st.geometry.extent)), ("point", (fr(st.origin[0]), fr(st.origin[1])))]
    elif which == "mask_all_false":
        st = aa.Mask2D.all_false(shape_native=(H, W), invert=False, **kw); g = grid_out(st.derive_grid.unmasked)
    elif which == "mask_from_pixel_coordinates":
        co = [[y, x] for y in range(H) for x in range(W) if not m[y][x]]
        st = aa.Mask2D.from_pixel_coordinates(shape_native=(H, W), pixel_coordinates=co if k != "nparr" else [list(np.array(c)) for c in co], **kw)
        g = grid_out(aa.Grid2D.from_mask(mask=st)); gop = "GFromMask"; mm = m; rel.append(("inv", mlist(st)))
    elif which.startswith("kernel_"):
        st = {"kernel_no_mask": lambda: aa.Kernel2D.no_mask(values=vals, **kw),
              "kernel_ones": lambda: aa.Kernel2D.ones(shape_native=(H, W), **kw),
              "kernel_full": lambda: aa.Kernel2D.full(fill_value=3.0, shape_native=(H, W), **kw),
              "kernel_zeros": lambda: aa.Kernel2D.zeros(shape_native=(H, W), **kw)}[which]()
        g = grid_out(st.unmasked_grid); rel.append(("extent", tuple(fr(v) for v in st.geometry.extent)))
    else:
        v2 = np.stack([vals, -vals], axis=-1)
        st = {"vector_no_mask": lambda: aa.VectorYX2D.no_mask(values=v2, **kw) if prm["native"] else
                                        aa.VectorYX2D.no_mask(values=v2.reshape(-1, 2), shape_native=(H, W), **kw),
              "vector_full": lambda: aa.VectorYX2D.full(fill_value=2.0, shape_native=(H, W), **kw),
              "vector_ones": lambda: aa.VectorYX2D.ones(shape_native=(H, W), **kw),
              "vector_zeros": lambda: aa.VectorYX2D.zeros(shape_native=(H, W), **kw)}[which]()
        g = grid_out(st.grid); rel += [("inv", [float(v) for v in np.array(st.magnitudes).ravel()]), ("geom", geom_of(st.y.mask))]
    msk = st if isinstance(st, aa.Mask2D) else st.mask
    ge = geom_of(msk)
    return {"coq": [kgrid(gop, mm, ps, o, g)], "rel": [("grid", g), ("geom", ge)] + rel, "show": which + " " + str(ge)}

METHOD_KINDS = ["arr_resized", "arr_padded", "arr_trimmed", "arr_apply_mask", "grid_deflection", "grid_removed", "grid_extent",
                "grid_blurring_kernel", "kernel_convolved", "derive_masks", "vector_on_mask"]
def methods_one(aa, m, ps, o, dd, prm, which):
    H, W = len(m), len(m[0])
    mask = mk_mask(aa, m, ps, o)
    coq = []; rel = []
    def derived(rm, tag=True):
        """a mask produced by the call: its boolean array must not change with the origin, its frame and grid must translate"""
        rml = mlist(rm); g = grid_out(rm.derive_grid.unmasked)
        coq.append(kgrid(f"(GDerived {cmask(rml)})", m, ps, o, g)); rel.extend([("grid", g), ("inv", rml), ("geom", geom_of(rm))])
    vals = np.arange(1.0, H * W + 1.0).reshape(H, W)
    if which in ("arr_resized", "arr_padded", "arr_trimmed"):
        arr = mk_array(aa, vals, mask)
        if which == "arr_resized": out = arr.resized_from(new_shape=prm["shape"], mask_pad_value=prm["pad"])
        elif which == "arr_padded": out = arr.padded_before_convolution_from(kernel_shape=prm["k"], mask_pad_value=prm["pad"])
        else: out = arr.trimmed_after_convolution_from(kernel_shape=(min(prm["k"][0], H if H % 2 else max(H - 1, 1)), min(prm["k"][1], W if W % 2 else max(W - 1, 1))))
        derived(out.mask); rel.append(("inv", [float(v) for v in np.array(out.native).ravel()]))
    elif which == "arr_apply_mask":
        full = aa.Mask2D.all_false(shape_native=(H, W), **fkw(ps, o))
        out = mk_array(aa, vals, full).apply_mask(mask=mask)
        derived(out.mask); rel.append(("inv", [float(v) for v in np.array(out.native).ravel()]))
    elif which == "grid_deflection":
        grid = mk_grid(aa, mask)
        defl = aa.Grid2D(values=np.array([[fl(ps[0] * F(a, 4)), fl(ps[1] * F(b, 4))] for a, b in prm["defl"][:len(grid)]]), mask=mask)
        out = grid.grid_2d_via_deflection_grid_from(deflection_grid=defl)
        derived(out.mask); rel.append(("grid", grid_out(out)))
    elif which == "grid_removed":
        grid = mk_grid(aa, mask)
        cs = [kpt(padd(c, o)) for c in prm["coords"]]
        out = grid.grid_with_coordinates_within_distance_removed_from(coordinates=cs if len(cs) > 1 or prm["aslist"] else (cs[0] if not isinstance(cs[0], list) else tuple(cs[0])), distance=fl(prm["dist"]))
        derived(out.mask); rel.append(("grid", grid_out(out)))
    elif which == "grid_extent":
        grid = mk_grid(aa, mask); b = prm["buf"]
        rel += [("point", tuple(fr(v) for v in grid.scaled_minima)), ("point", tuple(fr(v) for v in grid.scaled_maxima)),
                ("extent", tuple(fr(v) for v in grid.extent_with_buffer_from(buffer=fl(b)))),
                ("inv", tuple(fr(v) for v in grid.shape_native_scaled_interior)), ("point", tuple(fr(v) for v in grid.geometry.central_scaled_coordinates) if False else (fr(grid.origin[0]), fr(grid.origin[1])))]
        coq.append(kgrid("GFromMask", m, ps, o, grid_out(grid)))
    elif which == "grid_blurring_kernel":
        try: bm = mask.derive_mask.blurring_from(kernel_shape_native=prm["k3"])
        except Exception as e: return {"coq": [], "rel": [("inv", exn_name(e))], "show": exn_name(e)}
        g = grid_out(mk_grid(aa, mask).blurring_grid_via_kernel_shape_from(kernel_shape_native=prm["k3"]))
        coq.append(kgrid(f"(GDerived {cmask(mlist(bm))})", m, ps, o, g)); rel += [("grid", g), ("inv", mlist(bm))]
    elif which == "kernel_convolved":
        psf = SHARED.setdefault("kpsf", aa.Kernel2D.ones(shape_native=(3, 3), pixel_scales=(fl(ps[0]), fl(ps[1]))))
        arr = mk_array(aa, vals, mask)
        out = psf.convolved_array_from(array=arr)
        derived(out.mask); rel.append(("inv", [float(v) for v in np.array(out.native).ravel()]))
        full = aa.Mask2D.all_false(shape_native=(H, W), **fkw(ps, o))
        out2 = psf.convolved_array_with_mask_from(array=aa.Array2D(values=vals, mask=full).native, mask=mask)
        derived(out2.mask); rel.append(("inv", [float(v) for v in np.array(out2.native).ravel()]))
    elif which == "derive_masks":
        dm = mask.derive_mask
        for rm in (dm.all_false, dm.edge, dm.border, dm.edge_buffed): derived(rm)
    elif which == "vector_on_mask":
        nun = nun_of(m); grid = mk_grid(aa, mask)
        v = aa.VectorYX2D(values=np.array([[float(i), float(-i)] for i in range(nun)]), grid=grid, mask=mask)
        rel += [("grid", grid_out(v.grid)), ("geom", geom_of(v.mask)), ("geom", geom_of(v.native.mask)), ("geom", geom_of(v.magnitudes.mask)),
                ("grid", grid_out(aa.VectorYX2D.from_mask(values=np.array(v), mask=mask).grid))]
        coq.append(kgrid("GFromMask", m, ps, o, grid_out(v.grid)))
    return {"coq": coq, "rel": rel, "show": which}

def op_util(aa, m, ps, o, dd, prm):
    """the util layer called directly on plain lists / ndarrays of every kind (no structure objects)"""
    from autoarray.geometry import geometry_util as gu
    from autoarray.structures.grids import grid_2d_util as g2
    H, W = len(m), len(m[0]); kw = fkw(ps, o); k = CTX["pkind"]
    M = cM(m, ps, o); full = [[False] * W for _ in range(H)]
    pts = [padd(p, o) for p in prm["pts"]]
    def arr(points):
        a = np.array([[fl(p[0]), fl(p[1])] for p in points])
        if k == "f32" and all(F(float(np.float32(v))) == F(float(v)) for v in a.ravel()): return a.astype(np.float32)
        if k in ("int", "npint") and all(float(v).is_integer() for v in a.ravel()): return a.astype(int)
        return a
    shape = (H, W) if k != "list" else [H, W]
    okw = dict(shape_native=shape, pixel_scales=kw["pixel_scales"], origin=kw["origin"])
    pc = [tuple(int(v) for v in gu.pixel_coordinates_2d_from(scaled_coordinates_2d=kpt(p), shape_native=shape, pixel_scales=kw["pixel_scales"],
                                                             origins=kw["origin"])) for p in pts]
    back = [tuple(fr(v) for v in gu.scaled_coordinates_2d_from(pixel_coordinates_2d=kpt(q), shape_native=shape, pixel_scales=kw["pixel_scales"],
                                                               origins=kw["origin"])) for q in prm["pix"]]
    fpix = grid_out(gu.grid_pixels_2d_slim_from(grid_scaled_2d_slim=arr(pts), **okw))
    cen = [tuple(int(v) for v in r) for r in np.asarray(gu.grid_pixel_centres_2d_slim_from(grid_scaled_2d_slim=arr(pts), **okw))]
    idx = [int(v) for v in np.asarray(gu.grid_pixel_indexes_2d_slim_from(grid_scaled_2d_slim=arr(pts), **okw))]
    sc = grid_out(gu.grid_scaled_2d_slim_from(grid_pixels_2d_slim=arr(prm["pix"]), **okw))
    n = len(pts); nat = arr(pts).reshape((2, n // 2, 2) if n % 2 == 0 else (1, n, 2))
    cen_nat = [tuple(int(v) for v in r) for r in np.asarray(gu.grid_pixel_centres_2d_from(grid_scaled_2d=nat, **okw)).reshape(-1, 2)]
    mb = np.array(m, dtype=bool)
    gs = grid_out(g2.grid_2d_slim_via_mask_from(mask_2d=mb if k != "npint" else mb.astype(int), pixel_scales=kw["pixel_scales"], origin=kw["origin"]))
    gn = np.asarray(g2.grid_2d_via_mask_from(mask_2d=mb, pixel_scales=kw["pixel_scales"], origin=kw["origin"]))
    gn_un = grid_out(gn[~mb]); gn_masked = [float(v) for v in gn[mb].ravel()]
    ga = grid_out(g2.grid_2d_slim_via_shape_native_from(**okw))
    gan = grid_out(np.asarray(g2.grid_2d_via_shape_native_from(**okw)).reshape(-1, 2))
    coq = [f"(KPixelCoords {M} {cgrid(pts)} {clist([czz(q) for q in pc])})", kgrid(f"(GScaledOfPixelCentres {cgrid(prm['pix'])})", m, ps, o, back),
           f"(KPixelFloats {M} {cgrid(pts)} {cgrid(fpix)})", f"(KPixelCentres {M} {cgrid(pts)} {clist([czz(q) for q in cen])})",
           f"(KPixelIndexes {M} {cgrid(pts)} {clist([cz(i) for i in idx])})", kgrid(f"(GScaledOfPixels {cgrid(prm['pix'])})", m, ps, o, sc),
           f"(KPixelCentres {M} {cgrid(pts)} {clist([czz(q) for q in cen_nat])})",
           kgrid("GFromMask", m, ps, o, gs), kgrid("GFromMask", m, ps, o, gn_un), kgrid("GAllFalse", full, ps, o, ga), kgrid("GAllFalse", full, ps, o, gan)]
    rel = [("inv", pc), ("grid", back), ("inv", fpix), ("inv", cen), ("inv", idx), ("grid", sc), ("inv", cen_nat), ("grid", gs), ("grid", gn_un),
           ("inv", gn_masked), ("grid", ga), ("grid", gan)]
    return {"coq": coq, "rel": rel, "show": str(pc)}

def op_one_d(aa, m, ps, o, dd, prm):
    """the 1-D variants (Mask1D / Grid1D / Array1D / Geometry1D / geometry_util *_1d_*), once along each axis' scale and origin"""
    from autoarray.geometry import geometry_util as gu
    rel = []; shows = []; coq = []
    for axis in (0, 1):
        row = [bool(b) for b in (m[0] if axis == 1 else [r[0] for r in m])]
        if prm["alt"]: row = [bool(b) for b in prm["row"]]
        if all(row): row[0] = False
        n = len(row); p1, o1 = ps[axis], o[axis]; k = CTX["fkind"]
        kw = dict(pixel_scales=(kval(p1, k),) if k != "float" else float(p1), origin=(kval(o1, k),))
        mask = aa.Mask1D(mask=row if CTX["prov"] == "list" else np.array(row), **kw)
        if CTX["prov"] in ("copy", "pickle"):
            import copy; mask = copy.deepcopy(mask)
        g = [fr(v) for v in np.array(aa.Grid1D.from_mask(mask=mask))]
        ga = [fr(v) for v in np.array(mask.derive_grid.all_false)]; gu_ = [fr(v) for v in np.array(aa.Grid1D.from_mask(mask=mask).slim)]
        un = aa.Grid1D.uniform(shape_native=(n,), **kw); gun = [fr(v) for v in np.array(un)]
        a1 = aa.Array1D.no_mask(values=[float(i) for i in range(n)], **kw)
        a2 = aa.Array1D(values=np.arange(float(n)), mask=mask)
        ao = aa.Array1D.ones(shape_native=n, **kw)
        geo = mask.geometry
        ext = tuple(fr(v) for v in geo.extent); smax = fr(geo.scaled_maxima[0]); smin = fr(geo.scaled_minima[0])
        pts = [p + o1 for p in prm["pts"][axis]]
        pc = [int(gu.pixel_coordinates_1d_from(scaled_coordinates_1d=(kval(x, CTX["pkind"]),), shape_slim=(n,), pixel_scales=(float(p1),), origins=(float(o1),))[0]) for x in pts]
        sc = [fr(gu.scaled_coordinates_1d_from(pixel_coordinates_1d=(kval(q, CTX["pkind"]),), shape_slim=(n,), pixel_scales=(float(p1),), origins=(float(o1),))[0]) for q in prm["pix"]]
        rel += [("grid1", (axis, g)), ("grid1", (axis, ga)), ("grid1", (axis, gu_)), ("grid1", (axis, gun)), ("grid1", (axis, [fr(un.mask.origin[0])])),
                ("grid1", (axis, [fr(a1.mask.origin[0]), fr(a2.mask.origin[0]), fr(ao.mask.origin[0]), fr(a1.origin[0])])),
                                ("grid1", (axis, list(ext))), ("grid1", (axis, [smax, smin])), ("inv", pc), ("grid1", (axis, sc)),
                ("inv", [fr(v) for v in np.array(a2.native)])]
        coq.append(f"(K1D {cbool(axis == 1)} {clist([cbool(b) for b in row])} {cq(p1)} {cq(o1)} {clist([cq(v) for v in g])} {clist([cq(v) for v in ga])} "
                   f"{ctup([cq(ext[0]), cq(ext[1])])} {clist([cq(x) for x in pts])} {clist([cz(q) for q in pc])} {clist([cq(q) for q in prm['pix']])} {clist([cq(v) for v in sc])})")
        shows.append([str(v) for v in g[:3]])
    return {"coq": coq, "rel": rel, "show": str(shows)}

def op_ds_interferometer(aa, m, ps, o, dd, prm):
    """the interferometer sibling of the imaging dataset: the real-space mask carries the frame of every grid of the dataset"""
    mask = mk_mask(aa, m, ps, o)
    nv = 3
    vis = aa.Visibilities(visibilities=np.array([1.0 + 2.0j, -1.0 + 0.5j, 0.25 - 1.0j]))
    nm = aa.VisibilitiesNoiseMap(visibilities=np.full(nv, 1.0 + 1.0j))
    uv = np.array([[1.0, 2.0], [-3.0, 0.5], [0.25, -1.0]])
    ds = aa.Interferometer(data=vis, noise_map=nm, uv_wavelengths=uv, real_space_mask=mask, transformer_class=aa.TransformerDFT)
    if prm["over"]:
        osd = SHARED.setdefault("osd_i", aa.OverSamplingDataset(uniform=aa.OverSamplingUniform(sub_size=prm["sub"]), pixelization=aa.OverSamplingUniform(sub_size=2)))
        ds = ds.apply_over_sampling(over_sampling=osd)
    g = grid_out(ds.grids.uniform); gp = grid_out(ds.grids.pixelization)
    sub = prm["sub"] if prm["over"] else 1
    og = grid_out(ds.grids.uniform.over_sampler.over_sampled_grid)
    ge = geom_of(ds.real_space_mask); gt = geom_of(ds.transformer.real_space_mask) if hasattr(ds.transformer, "real_space_mask") else ge
    return {"coq": [kgrid("GFromMask", m, ps, o, g), kgrid("GFromMask", m, ps, o, gp), kgrid(f"(GOver {clist([cz(sub)] * nun_of(m))})", m, ps, o, og)],
            "rel": [("grid", g), ("grid", gp), ("grid", og), ("geom", ge), ("geom", gt), ("geom", geom_of(ds.grids.uniform.mask)),
                    ("grid", grid_out(ds.grids.border_relocator.sub_grid))], "show": jg(g[:3])}

OPS = {
    "from_mask": op_simple(lambda p: "GFromMask", lambda aa, mask, p: aa.Grid2D.from_mask(mask=mask)),
    "dg_all_false": op_simple(lambda p: "GAllFalse", lambda aa, mask, p: mask.derive_grid.all_false),
    "dg_unmasked": op_simple(lambda p: "GFromMask", lambda aa, mask, p: mask.derive_grid.unmasked),
    "dg_edge": op_sel("edge"), "dg_border": op_sel("border"),
    "blurring": op_blurring, "padded": op_padded, "trimmed_array": op_trimmed_array, "subtracted": op_subtracted, "over": op_over("over"), "sub_grid": op_over("sub_grid"), "resized": op_resized, "rescaled": op_rescaled,
    "centre": op_centre, "extent": op_extent, "zoom_unmasked": op_zoom_unmasked, "zoomed_around": op_zoomed_around,
    "zoom_props": op_zoom_props, "radial": op_radial, "overlay": op_overlay, "pixel_coords": op_pixel_coords,
    "pixel_grids": op_pixel_grids, "scaled_of_pixels": op_scaled_of_pixels, "rect_mapper": op_rect_mapper,
    "ds_apply_mask": op_ds("apply_mask"), "ds_noise_scaling": op_ds("noise_scaling"), "ds_over_sampling": op_ds("over_sampling"),
    "ds_trimmed": op_ds("trimmed"), "ds_simulate": op_ds("simulate"), "ds_s2n": op_ds("s2n"),
    "ctor": multi(ctor_one), "methods": multi(methods_one), "util": op_util, "one_d": op_one_d, "ds_interferometer": op_ds_interferometer,
}

def span_shape(rng, m, axis):
    """an overlay / mesh dimension s with s / (number of rows or columns spanned by the unmasked pixels) dyadic (exact doubles);
    one time in five any s in 1..8 (kept only if the exactness test passes)"""
    if rng.random() < 0.2: return rng.randint(1, 8)
    idx = [(y, x)[axis] for y in range(len(m)) for x in range(len(m[0])) if not m[y][x]]
    r = max(idx) - min(idx) + 1
    return rng.choice([s for s in range(1, 9) if dyadic(F(s, r)) and dyadic(F(r, s))] or [r])
def odd(rng, hi=5): return rng.choice([k for k in (1, 3, 5, 7) if k <= hi])
def vals(rng, m): return [rng.randint(1, 9) for _ in range(len(m) * len(m[0]))]
def nun_of(m): return sum(1 for r in m for b in r if not b)
def over_params(rng, m, ps):
    u = rng.random() < 0.4
    prm = {"uniform": u, "subs": [rng.choice([1, 2, 4])] * nun_of(m) if u else [rng.choice([1, 2, 4]) for _ in range(nun_of(m))]}
    if rng.random() < 0.3:
        prm["radial"] = "centre" if rng.random() < 0.4 else (ps[0] * F(rng.randint(-8, 8), 4), ps[1] * F(rng.randint(-8, 8), 4))
    return prm
PARAMS = {
    "blurring": lambda rng, m, ps: {"k": (3, 3) if rng.random() < 0.6 else (odd(rng, 3), odd(rng, 3))},
    "padded": lambda rng, m, ps: {"k": (odd(rng, 7), odd(rng, 7))},
    "subtracted": lambda rng, m, ps: {"off": (ps[0] * F(rng.randint(-8, 8), 4), ps[1] * F(rng.randint(-8, 8), 4)) if rng.random() < 0.9 else (F(0), F(0))},
    "trimmed_array": lambda rng, m, ps: {"k": (odd(rng, 7), odd(rng, 7)),
                                         "image_shape": None if rng.random() < 0.7 else (rng.randint(1, len(m)), rng.randint(1, len(m[0])))},
    "over": lambda rng, m, ps: over_params(rng, m, ps),
    "sub_grid": lambda rng, m, ps: over_params(rng, m, ps),
    "resized": lambda rng, m, ps: {"shape": (rng.randint(1, 9), rng.randint(1, 9))},
    "rescaled": lambda rng, m, ps: {"factor": rng.choice([2.0, 2.0, 0.5, 1.5, 3.0])},
    "zoomed_around": lambda rng, m, ps: {"buffer": rng.choice([0, 1, 1, 2])},
    "radial": lambda rng, m, ps: {"c_rel": (ps[0] * F(rng.randint(-8, 8), 4), ps[1] * F(rng.randint(-8, 8), 4)) if rng.random() < 0.8 else (F(0), F(0)),
                                  "shape_slim": rng.choice([0, 0, 0, 3, 5]), "remove": rng.choice([True, False, False, None, None])},
    "overlay": lambda rng, m, ps: {"shape": (span_shape(rng, m, 0), span_shape(rng, m, 1))},
    "pixel_coords": lambda rng, m, ps: {"pts": pts_for(rng, m, ps), "pix": [(F(rng.randint(-8, 40), 4), F(rng.randint(-8, 40), 4)) for _ in range(4)]},
    "pixel_grids": lambda rng, m, ps: {"pts": pts_for(rng, m, ps)},
    "scaled_of_pixels": lambda rng, m, ps: {"pix": [(F(rng.randint(-8, 40), 4), F(rng.randint(-8, 40), 4)) for _ in range(5)]},
    "rect_mapper": lambda rng, m, ps: {"shape": (span_shape(rng, m, 0), span_shape(rng, m, 1)), "via_mesh": rng.random() < 0.3, "mesh_shape": (rng.choice([3, 5, 7]), rng.choice([3, 4, 5, 7])),
                                       "buffer": min(ps) / 2 if rng.random() < 0.85 else F(1, rng.choice([2, 16, 1024]))},
    "ds_apply_mask": lambda rng, m, ps: {"vals": vals(rng, m), "psf": rng.random() < 0.3 and ps[0] == ps[1]},
    "ds_noise_scaling": lambda rng, m, ps: {"vals": vals(rng, m), "plain": rng.random() < 0.6},
    "ds_over_sampling": lambda rng, m, ps: {"vals": vals(rng, m), "sub": rng.choice([1, 2, 4])},
    "ds_trimmed": lambda rng, m, ps: {"vals": vals(rng, m), "k": (odd(rng, min(5, len(m))), odd(rng, min(5, len(m[0])))), "masked": rng.random() < 0.5},
    "ds_simulate": lambda rng, m, ps: {"vals": vals(rng, m), "poisson": rng.random() < 0.4},
    "ds_s2n": lambda rng, m, ps: {"vals": vals(rng, m)},
    "ctor": lambda rng, m, ps: {"which": rng.sample(CTOR_KINDS, 5), "native": rng.random() < 0.5, "buffer": rng.random() < 0.5},
    "methods": lambda rng, m, ps: {"which": rng.sample(METHOD_KINDS, 3), "shape": (rng.randint(1, 9), rng.randint(1, 9)), "pad": rng.choice([0.0, 0.0, 1.0]),
                                   "k": (odd(rng, 7), odd(rng, 7)), "k3": (3, 3) if rng.random() < 0.6 else (odd(rng, 3), odd(rng, 3)),
                                   "defl": [(rng.randint(-8, 8), rng.randint(-8, 8)) for _ in range(len(m) * len(m[0]))],
                                   "coords": [(ps[0] * F(rng.randint(-12, 12), 4), ps[1] * F(rng.randint(-12, 12), 4)) for _ in range(rng.randint(1, 3))],
                                   "aslist": rng.random() < 0.5, "dist": min(ps) * F(rng.choice([3, 5, 7, 11]), 8) * rng.choice([1, 1, 2]),
                                   "buf": min(ps) * F(rng.choice([1, 2, 4]), 4) if max(ps) <= 16 * min(ps) else F(0)},     # (one buffer for both axes: commensurable scales only)
    "util": lambda rng, m, ps: {"pts": pts_for(rng, m, ps), "pix": [(F(rng.randint(-8, 40), 4), F(rng.randint(-8, 40), 4)) for _ in range(4)]},
    "one_d": lambda rng, m, ps: {"alt": rng.random() < 0.5, "row": [rng.random() < 0.4 for _ in range(rng.randint(1, 9))],
                                 "pts": [[ps[ax] * F(rng.randint(-40, 40), 8) for _ in range(5)] for ax in (0, 1)],
                                 "pix": [F(rng.randint(-8, 40), 4) for _ in range(4)]},
    "ds_interferometer": lambda rng, m, ps: {"over": rng.random() < 0.5, "sub": rng.choice([1, 2, 4])},
}

TOL = 1e-9
def close_grids(ga, gb, d, tol=TOL, ps=(1, 1)):
    """gb = ga + d within tol RELATIVE to the scale of each column (pixel scale of the axis, or the coordinate's own magnitude):
    an absolute tolerance would hide a tiny column"""
    if ga.shape != gb.shape: return False
    scale = np.maximum(np.array([float(ps[0]), float(ps[1])]), np.abs(gb))
    return bool(np.all(np.abs(gb - (ga + np.array([float(d[0]), float(d[1])]))) <= tol * scale))

def circ_mask(aa, n, ps, o, radius):
    # NB Mask2D.circular places `centre` relative to the array centre whatever `origin` is (shape constructors are C02's):
    # centre=(0,0) puts the circle on the mask's own origin
    return aa.Mask2D.circular(shape_native=(n, n), pixel_scales=(fl(ps[0]), fl(ps[1])), radius=fl(radius),
                              origin=(fl(o[0]), fl(o[1])), centre=(0.0, 0.0))

def sp_hilbert_geometry(aa, inp, ps, o, d, rng):
    """hilbert.image_and_grid_from with a small power-of-two curve: the returned curve grid is compared exactly with the model;
    the interpolated image (affine adapt image: linear interpolation is exact whatever the triangulation) must not change"""
    from autoarray.inversion.pixelization.image_mesh import hilbert
    ps = (ps[0], ps[0]); o = (ps[0] * F(rng.randint(-12, 12), 4), ps[0] * F(rng.randint(-12, 12), 4))
    d = (ps[0] * F(rng.randint(-12, 12), 4), ps[0] * F(rng.randint(1, 12), 4))
    n = rng.choice([7, 9]); length = rng.choice([4, 8, 16]); radius = ps[0] * F(rng.choice([3, 4, 5]), 2)
    ca, cb, cc = rng.randint(1, 4), rng.randint(1, 4), rng.randint(20, 30)
    res = []
    for oo in (o, padd(o, d)):
        mask = circ_mask(aa, n, ps, oo, radius)
        # adapt image affine over the WHOLE frame: its linear interpolation does not depend on which diagonal qhull picks in a
        # square cell (a masked image, zero outside the circle, would make the oracle's tie-breaking visible)
        img = aa.Array2D.no_mask(values=np.array([[ca * y + cb * x + cc for x in range(n)] for y in range(n)], dtype=float),
                                 pixel_scales=mask.pixel_scales, origin=mask.origin)
        new_img, new_grid = hilbert.image_and_grid_from(image=img, mask=mask, mask_radius=fl(radius), pixel_scales=mask.pixel_scales,
                                                        hilbert_length=length)
        x1d, y1d = hilbert.grid_hilbert_order_from(length=length, mask_radius=fl(radius))
        curve = [(fr(y), fr(x)) for y, x in zip(y1d, x1d)]
        m = [[bool(b) for b in r] for r in np.array(mask)]
        res.append((kgrid(f"(GHilbertCurve {cgrid(curve)} {cq(radius)})", m, ps, oo, grid_out(new_grid)), np.asarray(new_img, dtype=float),
                    grid_out(new_grid), curve))
    (ka, ia, ga, cva), (kb, ib, gb, cvb) = res
    # masked pixels of the adapt image are zero, so interpolated values are compared only through the relation
    ok = shifted(ga, d) == gb and cva == cvb and ia.shape == ib.shape and bool(np.all(np.abs(ia - ib) <= 1e-9 * np.maximum(1.0, np.abs(ia))))
    return {"coq": f"(KPair {cpt(d)} {ka} {kb})", "py_ok": ok, "kind": "hilbert_geometry", "nontrivial": True,
            "out": {"n": n, "length": length, "radius": str(radius), "kept": len(ga), "first": jg(ga[:3]), "first_at_o_plus_d": jg(gb[:3]),
                    "max_image_change": float(np.max(np.abs(ia - ib))) if ia.shape == ib.shape and ia.size else None}}

def sp_hilbert_mesh(aa, inp, ps, o, d, rng):
    """image_mesh.Hilbert.image_plane_mesh_grid_from on a circular mask (scipy griddata / interp1d are oracles): relation only"""
    ps = (ps[0], ps[0]); o = (ps[0] * F(rng.randint(-12, 12), 4), ps[0] * F(rng.randint(-12, 12), 4))
    d = (ps[0] * F(rng.randint(-12, 12), 4), ps[0] * F(rng.randint(1, 12), 4))
    n = rng.choice([7, 9]); radius = ps[0] * F(rng.choice([4, 5]), 2)
    pixels = rng.choice([4, 7, 12]); power = rng.choice([0.0, 1.0]); floor = rng.choice([0.0, 0.25])
    ca, cb, cc = rng.randint(1, 4), rng.randint(1, 4), rng.randint(20, 30)
    out = []
    for oo in (o, padd(o, d)):
        mask = circ_mask(aa, n, ps, oo, radius)
        # adapt image affine over the WHOLE frame: its linear interpolation does not depend on which diagonal qhull picks in a
        # square cell (a masked image, zero outside the circle, would make the oracle's tie-breaking visible)
        img = aa.Array2D.no_mask(values=np.array([[ca * y + cb * x + cc for x in range(n)] for y in range(n)], dtype=float),
                                 pixel_scales=mask.pixel_scales, origin=mask.origin)
        hm = SHARED.setdefault("hilbert", aa.image_mesh.Hilbert(pixels=pixels, weight_power=power, weight_floor=floor))    # one object, both origins
        g = hm.image_plane_mesh_grid_from(mask=mask, adapt_data=img)
        out.append(np.asarray(g, dtype=float))
    ok = close_grids(out[0], out[1], d, 1e-7, ps)
    return {"coq": None, "py_ok": ok, "kind": "hilbert_mesh", "nontrivial": True,
            "out": {"n": n, "radius": str(radius), "pixels": pixels, "power": power, "at_o": out[0][:3].tolist(), "at_o_plus_d": out[1][:3].tolist()}}

def generic_points(rng, k, span):
    """k points on the odd/64 lattice, no three collinear, no four co-circular (exact test)"""
    while True:
        pts = [(F(2 * rng.randint(-32 * span, 32 * span) + 1, 64), F(2 * rng.randint(-32 * span, 32 * span) + 1, 64)) for _ in range(k)]
        if len(set(pts)) < k: continue
        def orient(a, b, c): return (b[0] - a[0]) * (c[1] - a[1]) - (b[1] - a[1]) * (c[0] - a[0])
        import itertools
        if any(orient(a, b, c) == 0 for a, b, c in itertools.combinations(pts, 3)): continue
        def incirc(a, b, c, e):
            rows_ = [[p[0] - e[0], p[1] - e[1], (p[0] - e[0]) ** 2 + (p[1] - e[1]) ** 2] for p in (a, b, c)]
            (a1, a2, a3), (b1, b2, b3), (c1, c2, c3) = rows_
            return a1 * (b2 * c3 - b3 * c2) - a2 * (b1 * c3 - b3 * c1) + a3 * (b1 * c2 - b2 * c1)
        if any(incirc(a, b, c, e) == 0 for a, b, c, e in itertools.combinations(pts, 4)): continue
        return pts, orient

def sp_delaunay_mapper(aa, inp, ps, o, d, rng):
    """MapperDelaunay tables and mapping matrix on translated grids (scipy.spatial.Delaunay is an oracle): relation only.
    Tables are compared as {mesh pixel: weight} per data point (simplex vertex order is qhull's business)."""
    ps = (F(1), F(1)); o = (F(rng.randint(-12, 12), 4), F(rng.randint(-12, 12), 4)); d = (F(rng.randint(-12, 12), 4), F(rng.randint(1, 12), 4))
    H, W = rng.randint(2, 4), rng.randint(2, 4)
    m = rand_mask(rng, H, W, rng.choice(["random", "full"]))
    while True:
        pts, orient = generic_points(rng, rng.randint(4, 7), 3)
        data = [(F(H - 1, 2) - y, x - F(W - 1, 2)) for y in range(H) for x in range(W) if not m[y][x]]
        import itertools
        if all(orient(a, b, q) != 0 for a, b in itertools.combinations(pts, 2) for q in data): break
    tabs = []
    for oo in (o, padd(o, d)):
        mask = mk_mask(aa, m, ps, oo)
        grid = aa.Grid2D.from_mask(mask=mask)
        mesh = aa.Mesh2DDelaunay(values=aa.Grid2DIrregular(values=[(fl(p[0] + oo[0]), fl(p[1] + oo[1])) for p in pts]))
        mg = aa.MapperGrids(mask=mask, source_plane_data_grid=grid, source_plane_mesh_grid=mesh)
        mapper = aa.Mapper(mapper_grids=mg, over_sampler=aa.OverSamplerUniform(mask=mask, sub_size=1), regularization=None)
        idx = np.asarray(mapper.pix_indexes_for_sub_slim_index); sz = np.asarray(mapper.pix_sizes_for_sub_slim_index)
        w = np.asarray(mapper.pix_weights_for_sub_slim_index)
        tab = [sorted((int(idx[i, j]), float(w[i, j])) for j in range(int(sz[i]))) for i in range(idx.shape[0])]
        tabs.append((tab, np.asarray(mapper.mapping_matrix, dtype=float)))
    (ta, ma), (tb, mb) = tabs
    ok = len(ta) == len(tb) and all(len(ra) == len(rb) and all(ia == ib and abs(wa - wb) <= TOL for (ia, wa), (ib, wb) in zip(ra, rb))
                                    for ra, rb in zip(ta, tb)) and ma.shape == mb.shape and bool(np.all(np.abs(ma - mb) <= TOL))
    return {"coq": None, "py_ok": ok, "kind": "delaunay_mapper", "nontrivial": True,
            "out": {"mask": m, "mesh": jg(pts), "table_at_o": str(ta)[:300], "table_at_o_plus_d": str(tb)[:300]}}

def ctol(ps): return cpt((ps[0] * F(1, 10 ** 9), ps[1] * F(1, 10 ** 9)))      # 1e-9 relative to the pixel scale of each axis

def sp_relocate(aa, inp, ps, o, d, rng):
    """BorderRelocator.relocated_grid_from(grid + d) = relocated_grid_from(grid) + d, and the same for relocated_mesh_grid_from
    (grid + d, mesh + d) (tolerance relative to the pixel scales; decisions kept at a margin)"""
    H, W = rng.randint(3, 6), rng.randint(3, 6)
    m = rand_mask(rng, H, W, rng.choice(["random", "full", "ring"]))
    sub = rng.choice([1, 2])
    use_mesh = rng.random() < 0.4
    out = []; skip = False; obs = []
    pert = None; mesh_rel = None
    for oo in (o, padd(o, d)):
        mask = fresh_mask(aa, m, ps, oo)
        # ONE relocator per origin, used twice (its sub_border_slim / sub_border_grid are cached on the object)
        br = aa.BorderRelocator(mask=mask, sub_size=sub)
        sg = np.asarray(br.sub_grid, dtype=float)
        if pert is None:
            pp = rng.choice([1.0, 1.0, 0.8, 0.5])      # fraction of deflected coordinates (undeflected symmetric points tie in argmin)
            pert = np.array([[float(ps[0] * F(2 * rng.randint(-40, 40) + 1, 32)) if rng.random() < pp else 0.0,
                              float(ps[1] * F(2 * rng.randint(-40, 40) + 1, 32)) if rng.random() < pp else 0.0] for _ in range(sg.shape[0])])
            mesh_rel = [(ps[0] * F(2 * rng.randint(-8 * H, 8 * H) + 1, 32), ps[1] * F(2 * rng.randint(-8 * W, 8 * W) + 1, 32))
                        for _ in range(rng.randint(1, 6))]
            # The only discontinuous decision is the argmin over border points (computed exactly: squared distances of dyadic
            # points); an exact tie between border points of different radius is skipped.  The two radius comparisons
            # (r > min border radius, move_factor < 1) are continuous at their boundary (move_factor = 1 is the identity), so a
            # flipped comparison changes the result by rounding error only, inside the tolerance.
            g = [(fr(a) + fr(pa), fr(b) + fr(pb)) for (a, b), (pa, pb) in zip(sg, pert)]
            bidx = [int(i) for i in br.sub_border_slim]
            if bidx:
                bg = [g[i] for i in bidx]
                bo = (sum(p[0] for p in bg) / len(bg), sum(p[1] for p in bg) / len(bg))
                r2 = lambda p: (p[0] - bo[0]) ** 2 + (p[1] - bo[1]) ** 2
                for p in (g if not use_mesh else [padd(q, o) for q in mesh_rel]):
                    dist = [(p[0] - q[0]) ** 2 + (p[1] - q[1]) ** 2 for q in bg]
                    if len({r2(q) for q, dd_ in zip(bg, dist) if dd_ == min(dist)}) > 1: skip = True
        gin = sg + pert
        grid_in = aa.Grid2DIrregular(values=gin.copy())
        if use_mesh:
            mesh_in = np.array([[fl(q[0] + oo[0]), fl(q[1] + oo[1])] for q in mesh_rel])
            res_ = np.asarray(br.relocated_mesh_grid_from(grid=grid_in, mesh_grid=aa.Grid2DIrregular(values=mesh_in)), dtype=float)
            res2 = np.asarray(br.relocated_mesh_grid_from(grid=grid_in, mesh_grid=aa.Grid2DIrregular(values=mesh_in)), dtype=float)
            cmesh = f"(Some {cgrid(grid_out(mesh_in))})"
        else:
            res_ = np.asarray(br.relocated_grid_from(grid=grid_in), dtype=float)
            res2 = np.asarray(br.relocated_grid_from(grid=grid_in), dtype=float)
            cmesh = "None"
        if not np.array_equal(res_, res2) or not np.array_equal(np.asarray(grid_in), gin): skip = "changed"     # same object, second call; argument intact
        out.append(res_)
        obs.append(f"(KReloc {clist([cnat(i) for i in br.sub_border_slim])} {cgrid(grid_out(gin))} {cmesh} {ctol(ps)} {cgrid(grid_out(res_))})")
    if skip is True:
        SKIPPED["inexact"] += 1
        return {"coq": None, "py_ok": None, "kind": "relocate:skipped-margin", "nontrivial": False, "out": "skipped"}
    ok = close_grids(out[0], out[1], d, 1e-9, ps) and skip != "changed"
    return {"coq": f"(KPair {cpt(d)} {obs[0]} {obs[1]})", "py_ok": ok, "kind": "relocate", "nontrivial": True,
            "out": {"mask": m, "sub": sub, "mesh": use_mesh, "at_o": out[0][:3].tolist(), "at_o_plus_d": out[1][:3].tolist(),
                    "relation": "a second call on the same relocator gave another result, or the grid argument was modified" if skip == "changed" else ""}}

def sp_radial_angle(aa, inp, ps, o, d, rng):
    """grid_2d_radial_projected_from at a non-zero angle (cos / sin / arctan2 in doubles): model (with the pair (cos theta, sin theta)
    numpy computed) and relation, tolerance relative to the pixel scales"""
    H, W = rng.randint(2, 6), rng.randint(2, 6)
    m = rand_mask(rng, H, W, "random")
    c_rel = (ps[0] * F(rng.randint(-6, 6), 4), ps[1] * F(rng.randint(-6, 6), 4))
    angle = rng.choice([30.0, 45.0, 90.0, 137.0, 200.0, 315.0, -60.0, 180.0, 0.0])
    ss = rng.choice([0, 0, 3]); rm = rng.choice([False, False, True, None])
    theta = np.arctan2(0.0, 1.0) - np.radians(angle)            # what transform_grid_2d_to_reference_frame computes for every point
    cssn = (fr(np.cos(theta)), fr(np.sin(theta)))
    from autoconf import conf
    rm_eff = bool(conf.instance["general"]["grid"]["remove_projected_centre"]) if rm is None else rm
    out = []; obs = []
    for oo in (o, padd(o, d)):
        mask = fresh_mask(aa, m, ps, oo)
        c = padd(oo, c_rel)
        g = np.asarray(aa.Grid2D.from_mask(mask=mask).grid_2d_radial_projected_from(centre=(fl(c[0]), fl(c[1])), angle=angle, shape_slim=ss,
                                                                                    remove_projected_centre=rm), dtype=float).reshape(-1, 2)
        out.append(g)
        obs.append(f"(KRadialA {cM(m, ps, oo)} {cpt(c)} {cpt(cssn)} {cz(ss)} {cbool(rm_eff)} {ctol(ps)} {cgrid(grid_out(g))})")
    ok = close_grids(out[0], out[1], d, 1e-9, ps)
    return {"coq": f"(KPair {cpt(d)} {obs[0]} {obs[1]})", "py_ok": ok, "kind": "radial_angle", "nontrivial": True,
            "out": {"angle": angle, "shape_slim": ss, "remove": str(rm), "at_o": out[0][:3].tolist(), "at_o_plus_d": out[1][:3].tolist()}}

SPECIAL = {"hilbert_geometry": sp_hilbert_geometry, "hilbert_mesh": sp_hilbert_mesh, "delaunay_mapper": sp_delaunay_mapper,
           "relocate": sp_relocate, "radial_angle": sp_radial_angle}

def extra_evidence():
    return {"skipped_inexact": SKIPPED["inexact"], "mask_routes": dict(sorted(ROUTES.items()))}
