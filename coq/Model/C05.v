(* C05 -- reconstruction = (non-negative) least-squares optimum.
   Executable model of
     autoarray/util/fnnls.py            fnnls_cholesky (incl. the repaired warm-start prologue), fix_constraint_cholesky
     autoarray/inversion/inversion/inversion_util.py
                                        reconstruction_positive_negative_from, reconstruction_positive_only_from,
                                        mapped_reconstructed_data_via_mapping_matrix_from
     autoarray/inversion/inversion/abstract.py
                                        param_range_list_from, mapper_edge_pixel_list, mapper_zero_pixel_list,
                                        reconstruction (removal / re-insertion of forced-zero parameters),
                                        source_quantity_dict_from, mapped_reconstructed_data
     autoarray/inversion/inversion/imaging/mapping.py   mapped_reconstructed_data_dict
   written once over [NumOps] (theorems at ROps, execution at QOps).

   What is NOT modelled but represented by its contract:
     * the linear solves (scipy.linalg.solve(assume_a="pos"), slg.cholesky + cho_solve on the factor U kept up to date by
       cholinsertlast / choldeleteindexes, numpy.linalg.solve) are all the exact solve of the system they stand for:
       here one routine, [solve] = Gaussian elimination, proved sound in Proofs/C05.v (so the theorems need no
       hypothesis about the solver: a [None] (singular system) is the LinAlgError branch);
     * numpy fancy assignment  s[idx] = x  is [assign] (position k of idx receives x[k]).
   No proofs in this file. *)
From Coq Require Import ZArith List Bool QArith Qabs.
From PAV Require Import Base.Res Base.Check Base.NumOps Base.Sum Model.C05Chol.
Import ListNotations.

Section Model.
  Context {F : NumOps}.
  Notation T := (T F).
  Definition vec := list T.
  Definition mat := list (list T).

  (* ------------------------------------------------------------------ numpy primitives *)
  Definition row (A : mat) (i : nat) : vec := nth i A [].
  Definition gather (v : vec) (idx : list nat) : vec := map (nthT v) idx.                 (* v[idx] *)
  Definition submat (A : mat) (idx : list nat) : mat := map (fun i => gather (row A i) idx) idx.   (* A[idx][:, idx] *)
  Definition sel {B} (P : list bool) (v : list B) : list B := map snd (filter fst (combine P v)).  (* v[P], P a bool mask *)
  Definition idx_of (P : list bool) : list nat := filter (fun i => nth i P false) (seq 0 (length P)).   (* np.arange(n)[P] *)
  Fixpoint find_pos (t : nat) (idx : list nat) : option nat :=
    match idx with
    | [] => None
    | i :: r => if Nat.eqb i t then Some 0%nat else option_map S (find_pos t r)
    end.
  (* s[idx] = x   (idx without repetitions) *)
  Definition assign (s : vec) (idx : list nat) (x : vec) : vec :=
    map (fun t => match find_pos t idx with Some k => nthT x k | None => nthT s t end) (seq 0 (length s)).
  Definition zero_off (P : list bool) (s : vec) : vec :=                                  (* s[~P] = 0.0 *)
    map (fun ps : bool * T => if fst ps then snd ps else zero) (combine P s).
  Definition min_list (l : vec) : option T := match l with [] => None | x :: t => Some (fold_left minT t x) end.
  Definition max_list (l : vec) : option T := match l with [] => None | x :: t => Some (fold_left maxT t x) end.
  (* np.argmax: index of the FIRST maximum *)
  Fixpoint argmax_from (l : vec) (i best : nat) (bv : T) : nat :=
    match l with
    | [] => best
    | x :: t => if ltb F bv x then argmax_from t (S i) i x else argmax_from t (S i) best bv
    end.
  Definition argmax (l : vec) : nat := match l with [] => 0%nat | x :: t => argmax_from t 1 0 x end.
  Definition residual (A : mat) (b d : vec) : vec :=                                       (* ZTx - ZTZ @ d *)
    map (fun rb : vec * T => sub F (snd rb) (dot (fst rb) d)) (combine A b).

  (* ------------------------------------------------------------------ the exact linear solve *)
  Definition lrow := (list T * T)%type.                      (* coefficients, right-hand side *)
  Fixpoint pick_pivot (rows : list lrow) : option (lrow * list lrow) :=
    match rows with
    | [] => None
    | r :: t => if eqb F (hd zero (fst r)) zero
                then match pick_pivot t with Some (p, rest) => Some (p, r :: rest) | None => None end
                else Some (r, t)
    end.
  Definition elim (p r : lrow) : lrow :=
    let f := div F (hd zero (fst r)) (hd zero (fst p)) in
    (map (fun ab : T * T => sub F (fst ab) (mul F f (snd ab))) (combine (tl (fst r)) (tl (fst p))),
     sub F (snd r) (mul F f (snd p))).
  Fixpoint gauss (n : nat) (rows : list lrow) : option vec :=
    match n with
    | 0%nat => Some []
    | S k => match pick_pivot rows with
             | None => None
             | Some (p, rest) =>
                 match gauss k (map (elim p) rest) with
                 | None => None
                 | Some x' => Some (div F (sub F (snd p) (dot (tl (fst p)) x')) (hd zero (fst p)) :: x')
                 end
             end
    end.
  Definition solve (A : mat) (b : vec) : option vec := gauss (length b) (combine A b).
  Definition solve_sub (A : mat) (b : vec) (idx : list nat) : option vec := solve (submat A idx) (gather b idx).

  (* ------------------------------------------------------------------ fnnls.py *)
  (* np.any(P) and np.min(s_chol[P]) <= tolerance *)
  Definition need_fix (P : list bool) (s : vec) (tau : T) : bool :=
    match min_list (sel P s) with None => false | Some m => leb F m tau end.
  (* (not np.all(P)) and np.max(w[~P]) > tolerance *)
  Definition keep_going (P : list bool) (w : vec) (tau : T) : bool :=
    match max_list (sel (map negb P) w) with None => false | Some m => ltb F tau m end.
  Definition bools_eqb := list_eqb Bool.eqb.

  (* zeros; if np.any(P): s_chol[P] = lstsq(ZTZ[P][:, P], ZTx[P]) *)
  Definition solve_on (A : mat) (b : vec) (P : list bool) : option vec :=
    if existsb (fun p => p) P then
      match solve_sub A b (idx_of P) with
      | Some x => Some (assign (zeros (length P)) (idx_of P) x)
      | None => None
      end
    else Some (zeros (length P)).
  (* warm-start prologue (repaired, db195c4): drop the non-positive entries and re-solve until strictly positive *)
  Fixpoint prune (fuel : nat) (A : mat) (b : vec) (tau : T) (P : list bool) (s : vec) : res (list bool * vec) :=
    if need_fix P s tau then
      match fuel with
      | 0%nat => Raise OtherException
      | S f =>
          let P' := map (fun ps : bool * T => fst ps && negb (leb F (snd ps) tau)) (combine P s) in   (* P[s_chol <= tol] = False *)
          match solve_on A b P' with
          | None => Raise OtherException
          | Some s' => prune f A b tau P' s'
          end
      end
    else Ok (P, s).

  Record state := mkst { sP : list bool; sPin : list nat; sS : vec; sD : vec }.

  (* fix_constraint_cholesky; the factor U is represented by the system it factors, ZTZ[P_inorder][:, P_inorder] *)
  Definition fix_constraint (A : mat) (b : vec) (tau : T) (st : state) : res state :=
    let q := map (fun ps : bool * T => fst ps && leb F (snd ps) tau) (combine (sP st) (sS st)) in
    (* step = d[q] - s_chol[q]; ratio = 0 where step == 0 (a parameter with d = s_chol cannot move; repaired in d0dd2eb: the quotient
       used to be 0/0 = nan there), d[q] / step elsewhere; alpha = np.min(ratio) *)
    match min_list (map (fun ds : T * T => let step := sub F (fst ds) (snd ds) in
                                           if eqb F step zero then zero else div F (fst ds) step)
                        (sel q (combine (sD st) (sS st)))) with
    | None => Raise OtherException                       (* np.min of an empty array: ValueError *)
    | Some alpha =>
        let d' := map (fun ds : T * T => add F (fst ds) (mul F alpha (sub F (snd ds) (fst ds)))) (combine (sD st) (sS st)) in
        let Pin' := filter (fun i => negb (leb F (nthT d' i) tau)) (sPin st) in        (* np.delete(P_inorder, where(d[P_inorder] <= tol)) *)
        let P' := map (fun pd : bool * T => fst pd && negb (leb F (snd pd) tau)) (combine (sP st) d') in   (* P[d <= tol] = False *)
        match Pin' with
        | [] => Ok (mkst P' Pin' (zero_off P' (sS st)) d')
        | _ => match solve_sub A b Pin' with
               | None => Raise OtherException
               | Some x => Ok (mkst P' Pin' (zero_off P' (assign (sS st) Pin' x)) d')
               end
        end
    end.

  (* inner while; loop_count2 is a counter of the whole call *)
  Fixpoint inner (fuel : nat) (A : mat) (b : vec) (tau : T) (st : state) (lc2 : Z) : res (state * Z) :=
    if need_fix (sP st) (sS st) tau then
      match fuel with
      | 0%nat => Raise OtherException
      | S f => match fix_constraint A b tau st with
               | Raise e => Raise e
               | Ok st' => if (lc2 + 1 >? 10000)%Z then Raise OtherException      (* raise RuntimeError *)
                           else inner f A b tau st' (lc2 + 1)%Z
               end
      end
    else Ok (st, lc2).

  Inductive exit_kind := ExitCond | ExitNoUpdate.

  Fixpoint outer (fuel : nat) (A : mat) (b : vec) (tau : T) (st : state) (w : vec) (lc lc2 no_update : Z)
    : res (vec * exit_kind * list bool) :=
    if keep_going (sP st) w tau then
      match fuel with
      | 0%nat => Raise OtherException
      | S f =>
          let current_P := sP st in
          let idmax := argmax (map (fun wp : T * bool => mul F (fst wp) (if snd wp then zero else one)) (combine w (sP st))) in   (* argmax(w * ~P) *)
          let Pin := sPin st ++ [idmax] in
          match solve_sub A b Pin with        (* slg.cholesky / cholinsertlast, then cho_solve *)
          | None => Raise OtherException
          | Some x =>
              let s1 := assign (sS st) Pin x in
              let P1 := upd_set (sP st) idmax true in
              match inner fuel A b tau (mkst P1 Pin s1 (sD st)) lc2 with
              | Raise e => Raise e
              | Ok (st2, lc2') =>
                  let d := sS st2 in                      (* d = s_chol.copy() *)
                  let w' := residual A b d in
                  if (lc + 1 >? 10000)%Z then Raise OtherException else
                  let nu := if bools_eqb current_P (sP st2) then (no_update + 1)%Z else 0%Z in
                  if (nu >=? 3)%Z then Ok (d, ExitNoUpdate, sP st2)
                  else outer f A b tau (mkst (sP st2) (sPin st2) (sS st2) d) w' (lc + 1)%Z lc2' nu
              end
          end
      end
    else Ok (sD st, ExitCond, sP st).

  Definition tolerance (eps : T) (n : nat) : T := mul F eps (ofNat n).

  (* fnnls_cholesky(ZTZ, ZTx, P_initial); [pinit] = None for an empty P_initial, else the mask P after P[P_initial] = True *)
  Definition fnnls (fuel : nat) (A : mat) (b : vec) (eps : T) (pinit : option (list bool))
    : res (vec * exit_kind * list bool) :=
    let n := length A in
    let tau := tolerance eps n in
    match pinit with
    | None => outer fuel A b tau (mkst (repeat false n) [] (zeros n) (zeros n)) (residual A b (zeros n)) 0 0 0
    | Some P0 =>
        match solve_on A b P0 with
        | None => Raise OtherException
        | Some s0 =>
            match prune (S n) A b tau P0 s0 with
            | Raise e => Raise e
            | Ok (P, s) => outer fuel A b tau (mkst P (idx_of P) s s) (residual A b s) 0 0 0
            end
        end
    end.

  (* ------------------------------------------------------------------ inversion_util.py *)
  (* reconstruction_positive_only_from, keeping the way the solver loop was left (for the statement of the theorems) *)
  Definition reconstruction_positive_only_x (fuel : nat) (A : mat) (b : vec) (eps : T) (uses_p_initial : bool)
    : res (vec * exit_kind) :=
    match b with
    | [] => Raise InversionException
    | _ =>
        let pinit := if uses_p_initial
                     then match solve A b with Some u => Some (Some (map (fun x => ltb F zero x) u)) | None => None end
                     else Some None in
        match pinit with
        | None => Raise InversionException                      (* LinAlgError *)
        | Some p => match fnnls fuel A b eps p with
                    | Ok (d, ek, _) => Ok (d, ek)
                    | Raise _ => Raise InversionException       (* RuntimeError, LinAlgError, ValueError *)
                    end
        end
    end.
  Definition reconstruction_positive_only (fuel : nat) (A : mat) (b : vec) (eps : T) (uses_p_initial : bool) : res vec :=
    match reconstruction_positive_only_x fuel A b eps uses_p_initial with
    | Ok (d, _) => Ok d
    | Raise e => Raise e
    end.

  (* np.allclose(a, b) with the default rtol = 1e-5, atol = 1e-8 *)
  Definition rtol : T := div F one (ofZ F 100000).
  Definition atol : T := div F one (ofZ F 100000000).
  Definition allclose (a : vec) (b0 : T) : bool :=
    forallb (fun x => leb F (absT (sub F x b0)) (add F atol (mul F rtol (absT b0)))) a.
  Definition slice (v : vec) (lo hi : nat) : vec := firstn (hi - lo) (skipn lo v).
  Definition reconstruction_positive_negative (A : mat) (b : vec) (mapper_ranges : list (nat * nat)) (check : bool) : res vec :=
    match solve A b with
    | None => Raise InversionException
    | Some s =>
        if check && existsb (fun r => allclose (slice s (fst r) (snd r)) (nthT s (fst r))) mapper_ranges
        then Raise InversionException else Ok s
    end.

  (* mapped_reconstructed_data_via_mapping_matrix_from: out[i] += reconstruction[j] * mapping_matrix[i, j] *)
  Definition mapped_via_mapping_matrix (M : mat) (s : vec) : vec :=
    map (fun r => fold_left (fun acc j => add F acc (mul F (nthT s j) (nthT r j))) (seq 0 (length s)) zero) M.

  (* mapped_reconstructed_data_via_image_to_pix_unique_from (w-tilde formalism): one row of data_to_pix_unique /
     data_weights per image pixel, the first pix_lengths[d] entries are meaningful *)
  Definition unique_row (prow : list Z) (wrow : vec) (len : nat) (s : vec) : T :=
    fold_left (fun acc p => add F acc (mul F (nthT wrow p) (nthT s (Z.to_nat (nth p prow 0%Z))))) (seq 0 len) zero.
  Definition mapped_via_unique (pix : list (list Z)) (wts : mat) (lens : list nat) (s : vec) : vec :=
    map (fun pwl : (list Z * vec) * nat => unique_row (fst (fst pwl)) (snd (fst pwl)) (snd pwl) s)
        (combine (combine pix wts) lens).

  (* ------------------------------------------------------------------ abstract.py *)
  (* a linear object: number of parameters, is it a mapper, its edge_pixel_list, its mapping matrix (used by
     mapper_zero_pixel_list) *)
  Record lobj := mkobj { params : nat; is_mapper : bool; edge_pixels : list nat; mapping_matrix : mat }.
  Fixpoint param_ranges (objs : list lobj) (count : nat) : list (nat * nat * lobj) :=      (* param_range_list_from(LinearObj) *)
    match objs with
    | [] => []
    | o :: t => (count, (count + params o)%nat, o) :: param_ranges t (count + params o)%nat
    end.
  Definition mapper_ranges (objs : list lobj) : list (nat * nat) :=
    map (fun r => (fst (fst r), snd (fst r))) (filter (fun r => is_mapper (snd r)) (param_ranges objs 0)).
  Definition mapper_edge_pixel_list (objs : list lobj) : list nat :=
    flat_map (fun r => if is_mapper (snd r) then map (fun e => (e + fst (fst r))%nat) (edge_pixels (snd r)) else [])
             (param_ranges objs 0).
  (* source pixels that receive a non-zero mapping from one of the image pixels in image_pixels_source_zero *)
  Definition mapper_zero_pixel_list (objs : list lobj) (source_zero : list nat) : list nat :=
    flat_map (fun r => if is_mapper (snd r) then
                map (fun j => (j + fst (fst r))%nat)
                    (filter (fun j => existsb (fun i => negb (eqb F (nthT (row (mapping_matrix (snd r)) i) j) zero)) source_zero)
                            (seq 0 (params (snd r))))
              else []) (param_ranges objs 0).

  Record settings := mkset { use_positive_only_solver : bool; positive_only_uses_p_initial : bool;
                             force_edge_pixels_to_zeros : bool; force_edge_image_pixels_to_zeros : bool;
                             image_pixels_source_zero : list nat; check_reconstruction : bool }.

  Definition reconstruction (fuel : nat) (set : settings) (objs : list lobj) (A : mat) (b : vec) (eps : T) : res vec :=
    if use_positive_only_solver set then
      if force_edge_pixels_to_zeros set then
        let ids_zeros := if force_edge_image_pixels_to_zeros set
                         then mapper_edge_pixel_list objs ++ mapper_zero_pixel_list objs (image_pixels_source_zero set)
                         else mapper_edge_pixel_list objs in
        let n := length A in
        let values_to_solve := map (fun i => negb (existsb (Nat.eqb i) ids_zeros)) (seq 0 n) in
        let idx := idx_of values_to_solve in
        match reconstruction_positive_only fuel (submat A idx) (gather b idx) eps (positive_only_uses_p_initial set) with
        | Ok x => Ok (assign (zeros n) idx x)
        | Raise e => Raise e
        end
      else reconstruction_positive_only fuel A b eps (positive_only_uses_p_initial set)
    else reconstruction_positive_negative A b (mapper_ranges objs) (check_reconstruction set).

  (* source_quantity_dict_from *)
  Fixpoint split_by (ps : list nat) (v : vec) : list vec :=
    match ps with
    | [] => []
    | p :: t => firstn p v :: split_by t (skipn p v)
    end.
  (* mapped_reconstructed_data_dict (mapping formalism): one blurred mapping matrix per object *)
  Definition mapped_dict (Bs : list mat) (s : vec) : list vec :=
    map (fun Bs_s : mat * vec => mapped_via_mapping_matrix (fst Bs_s) (snd Bs_s))
        (combine Bs (split_by (map (fun B => length (hd [] B)) Bs) s)).
  Definition vadd (a b : vec) : vec := map (fun p : T * T => add F (fst p) (snd p)) (combine a b).
  (* sum(dict.values()) = ((0 + v1) + v2) + ... *)
  Definition mapped_total (npix : nat) (vs : list vec) : vec := fold_left vadd vs (zeros npix).

  (* ------------------------------------------------------------------ specification (independent of the above) *)
  Definition grad (A : mat) (b d : vec) (i : nat) : T := sub F (dot (row A i) d) (nthT b i).       (* ((F+H) s - D)_i *)
  (* KKT certificate with slack [tol]: s >= 0, |gradient| <= tol on the positive entries, gradient >= -tol on the zero entries *)
  Definition kkt_ok (A : mat) (b d : vec) (tol : T) : bool :=
    Nat.eqb (length d) (length b) &&
    forallb (fun i => leb F zero (nthT d i) &&
                      (if ltb F zero (nthT d i) then leb F (absT (grad A b d i)) tol
                       else leb F (opp F tol) (grad A b d i))) (seq 0 (length b)).
  Definition solves_ok (A : mat) (b s : vec) (tol : T) : bool :=
    Nat.eqb (length s) (length b) && forallb (fun i => leb F (absT (grad A b s i)) tol) (seq 0 (length b)).
  (* the row of the mapping matrix that one row of unique mappings stands for: M[d, j] = sum of the weights whose pixel is j *)
  Definition unique_matrix_row (prow : list Z) (wrow : vec) (len npar : nat) : vec :=
    map (fun j => sumT (map (fun p => if Nat.eqb (Z.to_nat (nth p prow 0%Z)) j then nthT wrow p else zero) (seq 0 len)))
        (seq 0 npar).
  Definition mat_vec (A : mat) (x : vec) : vec := map (fun r => dot r x) A.
  (* the objective  1/2 s^T (F+H) s - D^T s *)
  Definition objective (A : mat) (b x : vec) : T := sub F (mul F half (dot x (mat_vec A x))) (dot b x).
  Definition hstack_dot (Bs : list mat) (s : vec) (npix : nat) : vec :=                      (* np.hstack(Bs) @ s *)
    map (fun i => dot (flat_map (fun B => row B i) Bs) s) (seq 0 npix).
End Model.

(* ====================================================================== correspondence cases *)
Definition qv := list Q.
Definition qm := list (list Q).
Definition Qmax1 (b : Q) : Q := if Qle_bool (Qabs b) 1 then 1 else Qabs b.
(* |impl - model| <= 1e-9 * max(1, |model|) *)
Definition close (impl model : Q) : bool := Qle_bool (Qabs (impl - model)) ((1 # 1000000000) * Qmax1 model).
Definition qv_close := list_eqb close.
Definition qv_eqb := list_eqb Qeq_bool.
Definition FUEL : nat := Z.to_nat 10002.

Inductive case :=
| KFnnls (A : qm) (b : qv) (eps : Q) (pinit : option (list bool)) (out : res qv)      (* fnnls_cholesky(ZTZ, ZTx, P_initial) *)
| KPosOnly (A : qm) (b : qv) (eps : Q) (uses_p : bool) (out : res qv)                 (* reconstruction_positive_only_from *)
| KPosNeg (A : qm) (b : qv) (ranges : list (nat * nat)) (chk : bool) (out : res qv)   (* reconstruction_positive_negative_from *)
| KRecon (set : settings) (objs : list (@lobj QOps)) (A : qm) (b : qv) (eps : Q) (out : res qv)   (* Inversion.reconstruction *)
| KMapped (Bs : list qm) (s : qv) (npix : nat) (dict : list qv) (total : qv)          (* mapped_reconstructed_data_dict / _data *)
| KDict (ps : list nat) (s : qv) (out : list qv)                                      (* reconstruction_dict *)
| KUnique (pix : list (list Z)) (wts : qm) (lens : list nat) (s : qv) (M : qm) (out : qv)    (* ..._via_image_to_pix_unique_from; M = mapper.mapping_matrix *)
(* the same observation, but a floating-point decision of the solver lies on (or within 1e-6 of) a tie -- exactly symmetric or
   degenerate systems --, so that the model's and the implementation's tie-breaks may legitimately differ: the comparison with the
   model is waived, the specification is still evaluated on the implementation's output (it must hold whatever tie-break was used) *)
| KSpec (k : case)
(* one call of cholinsertlast / choldeleteindexes made by fnnls_cholesky during a run (Model/C05Chol.v): model output vs implementation
   output, and the contract U'^T U' = bordered / deleted Gram matrix evaluated on the implementation's output *)
| KChol (c : ccase).

Definition strip (r : res (@vec QOps * exit_kind * list bool)) : res qv :=
  match r with Ok (d, _, _) => Ok d | Raise e => Raise e end.

Fixpoint agree (k : case) : bool :=
  match k with
  | KSpec _ => true
  | KChol c => cagree c
  | KFnnls A b eps pinit out => res_eqb qv_close out (strip (@fnnls QOps FUEL A b eps pinit))
  | KPosOnly A b eps uses_p out => res_eqb qv_close out (@reconstruction_positive_only QOps FUEL A b eps uses_p)
  | KPosNeg A b ranges chk out => res_eqb qv_close out (@reconstruction_positive_negative QOps A b ranges chk)
  | KRecon set objs A b eps out => res_eqb qv_close out (@reconstruction QOps FUEL set objs A b eps)
  | KMapped Bs s npix dict total =>
      let md := @mapped_dict QOps Bs s in
      list_eqb qv_close dict md && qv_close total (@mapped_total QOps npix md)
  | KDict ps s out => list_eqb qv_eqb out (@split_by QOps ps s)
  | KUnique pix wts lens s M out => qv_close out (@mapped_via_unique QOps pix wts lens s)
  end.

(* ---- specification side, evaluated on the implementation's output; never calls fnnls / reconstruction ---- *)
Definition scale (b : qv) : Q := fold_left (fun m x => if Qle_bool (Qabs x) m then m else Qabs x) b 1.
Definition tol_of (b : qv) : Q := (1 # 100000000) * scale b.
(* parameter i is forced to zero: it is an edge pixel (or a source-zero pixel) of a mapper, shifted by the mapper's offset *)
Fixpoint forced (objs : list (@lobj QOps)) (edge_image : bool) (source_zero : list nat) (i : nat) : bool :=
  match objs with
  | [] => false
  | o :: t =>
      if Nat.ltb i (params o)
      then is_mapper o && (existsb (Nat.eqb i) (edge_pixels o) ||
                           (edge_image && existsb (fun r => negb (Qeq_bool (nth i (nth r (mapping_matrix o) []) 0) 0)) source_zero))
      else forced t edge_image source_zero (i - params o)
  end.
Definition is_inv_exn {A} (r : res A) : bool := match r with Raise InversionException => true | _ => false end.

Fixpoint spec_ok (k : case) : bool :=
  match k with
  | KSpec k' => spec_ok k'
  | KChol c => cspec_ok c
  | KFnnls A b eps pinit out =>
      match out with Ok d => @kkt_ok QOps A b d (tol_of b) | Raise _ => false end
  | KPosOnly A b eps uses_p out =>
      match out with
      | Ok d => negb (Nat.eqb (length b) 0) && @kkt_ok QOps A b d (tol_of b)
      | Raise e => Nat.eqb (length b) 0 && exn_eqb e InversionException
      end
  | KPosNeg A b ranges chk out =>
      match out with Ok s => @solves_ok QOps A b s (tol_of b) | Raise e => exn_eqb e InversionException end
  | KRecon set objs A b eps out =>
      if use_positive_only_solver set then
        let n := length b in
        let fz := fun i => force_edge_pixels_to_zeros set &&
                           forced objs (force_edge_image_pixels_to_zeros set) (image_pixels_source_zero set) i in
        let kept := filter (fun i => negb (fz i)) (seq 0 n) in
        match out with
        | Ok s => Nat.eqb (length s) n
                  && forallb (fun i => negb (fz i) || Qeq_bool (nth i s 0) 0) (seq 0 n)
                  && @kkt_ok QOps (@submat QOps A kept) (@gather QOps b kept) (@gather QOps s kept) (tol_of b)
        | Raise e => Nat.eqb (length kept) 0 && exn_eqb e InversionException
        end
      else match out with Ok s => @solves_ok QOps A b s (tol_of b) | Raise e => exn_eqb e InversionException end
  | KMapped Bs s npix dict total =>
      let ss := @split_by QOps (map (fun B => length (hd [] B)) Bs) s in
      Nat.eqb (length dict) (length Bs)
      && forallb (fun x => let '(B, so, out) := x in qv_close out (map (fun r => @dot QOps r so) B)) (combine (combine Bs ss) dict)
      && qv_close total (@hstack_dot QOps Bs s npix)
  | KDict ps s out => qv_eqb (concat out) s && list_eqb Nat.eqb (map (@length Q) out) ps
  | KUnique pix wts lens s M out =>
      (* the unique mappings stand for the mapping matrix, and the output is mapping matrix x reconstruction *)
      list_eqb qv_close M (map (fun pwl : (list Z * qv) * nat =>
                                  @unique_matrix_row QOps (fst (fst pwl)) (snd (fst pwl)) (snd pwl) (length s))
                               (combine (combine pix wts) lens))
      && qv_close out (map (fun r => @dot QOps r s) M)
  end.

Definition check (k : case) : nat := verdict (agree k) (spec_ok k).
