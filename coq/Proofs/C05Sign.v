(* C05 -- the Lawson-Hanson sign lemma for the model of fnnls_cholesky.
   State of the outer loop: P passive set, s = the solution of the sub-system on P (zero elsewhere): invariant [Inv].
   The parameter idmax = argmax(w * ~P) that the loop condition lets in has gradient w[idmax] > tolerance >= 0.  For a symmetric
   positive-definite matrix the solution s1 of the sub-system on P + {idmax} then has  s1[idmax] > 0:
       e = s1 - s  is supported on P + {idmax};  (A e)_i = 0 on P,  (A e)_idmax = w[idmax];  so  0 < e^T A e = e_idmax * w[idmax].
   Consequences for the reading of the active-set path: the entering parameter always gets a positive value, so an outer iteration
   at whose end the passive set has the same SIZE as before is not a stalled iteration.  (That the passive SET cannot be the same
   either needs the monotone decrease of the objective through the inner loop: not proved, see props/C05.json.) *)
From Coq Require Import ZArith List Bool Reals Lra Lia Arith Permutation.
From PAV Require Import Base.Res Base.Check Base.NumOps Base.Sum Model.C05 Proofs.C05.
Import ListNotations.
Open Scope R_scope.

(* the arg-max of w * ~P has a gradient above the tolerance (the loop condition found one, the arg-max is at least as large) *)
Lemma idmax_gradient P (w : list R) (tau : R) n : length P = n -> length w = n -> 0 <= tau -> @keep_going ROps P w tau = true ->
  let idmax := @argmax ROps (map (fun wp : R * bool => mul ROps (fst wp) (if snd wp then @zero ROps else @one ROps)) (combine w P)) in
  tau < nth idmax w 0.
Proof.
  intros HP Hw Ht Hk. destruct (keep_going_true _ _ _ _ HP Hw Hk) as [i [Hi [HPi Hwi]]].
  set (f := (fun wp : R * bool => mul ROps (fst wp) (if snd wp then @zero ROps else @one ROps)) : R * bool -> R).
  set (v := map f (combine w P) : list R). intros idmax. change (@argmax ROps v) in (value of idmax).
  assert (Hok : (idmax < n)%nat /\ nth idmax P false = false) by (exact (idmax_ok P w tau n HP Hw Ht Hk)).
  destruct Hok as [Hid HPid].
  assert (Hlv : length v = n) by (unfold v; rewrite map_length, combine_length, Hw, HP; apply Nat.min_id).
  assert (Hnv : forall k, (k < n)%nat -> nth k v 0 = f (nth k w 0, nth k P false)).
  { intros k Hk'. unfold v. rewrite (nth_indep _ 0 (f (0, false))) by exact (eq_ind_r (fun m => (k < m)%nat) Hk' Hlv).
    rewrite map_nth, combine_nth by lia. reflexivity. }
  assert (Hne : v <> []) by (intro E; rewrite E in Hlv; simpl in Hlv; lia).
  destruct (argmax_spec v Hne) as [_ H2]. fold idmax in H2.
  specialize (H2 i ltac:(lia)). rewrite (Hnv i Hi), (Hnv idmax Hid) in H2.
  unfold f in H2. cbn [fst snd mul ROps] in H2. rewrite HPi, HPid in H2.
  unfold one in H2. cbn [ofZ ROps] in H2. lra.
Qed.

Lemma Bil_rows a n e : Bil a n e e = S1 n (fun i => e i * S1 n (fun j => a i j * e j)).
Proof. unfold Bil. apply S1_ext. intros i _. apply S1_scal. Qed.

Lemma row_dot_S1 n A b (x : list R) i : wf n A b -> length x = n -> (i < n)%nat ->
  dotR (rowR A i) x = S1 n (fun j => aij A i j * vf x j).
Proof. intros Hwf Hx Hi. rewrite (dotR_S1 n) by (auto; eapply row_length; eauto). reflexivity. Qed.

(* sum with a single non-zero term *)
Lemma S1_single n (f : nat -> R) k : (k < n)%nat -> (forall i, (i < n)%nat -> i <> k -> f i = 0) -> S1 n f = f k.
Proof.
  intros Hk H. rewrite (S1_ext n f (fun i => if Nat.eqb i k then f k else 0)).
  2:{ intros i Hi. destruct (Nat.eqb i k) eqn:E; [apply Nat.eqb_eq in E; subst; reflexivity|apply Nat.eqb_neq in E; apply H; assumption]. }
  clear H. unfold S1. revert k Hk. induction n as [|n IH]; intros k Hk; [lia|].
  rewrite seq_S, map_app, sumR_app. cbn [map sumR plus].
  destruct (Nat.eq_dec k n) as [->|Hne].
  - rewrite Nat.eqb_refl. rewrite (sumR_map_zero _ (seq 0 n)); [lra|].
    intros i Hi. apply in_seq in Hi. destruct (Nat.eqb i n) eqn:E; [apply Nat.eqb_eq in E; lia|reflexivity].
  - replace (Nat.eqb n k) with false by (symmetry; apply Nat.eqb_neq; lia). rewrite IH by lia. lra.
Qed.

Theorem entering_parameter_positive n A b P Pin (s : list R) idmax (s1 : list R) :
  wf n A b -> sym_mat n A -> pos_def n A ->
  Inv n A b P Pin s -> (idmax < n)%nat -> nth idmax P false = false ->
  0 < nth idmax b 0 - dotR (rowR A idmax) s ->
  Inv n A b (upd_set P idmax true) (Pin ++ [idmax]) s1 ->
  0 < nth idmax s1 0.
Proof.
  intros Hwf Hsym Hpd Hinv Hid HPid Hw Hinv1.
  destruct Hinv as [HP Hs Hnd HIn Hoff Hsol]. destruct Hinv1 as [HP1 Hs1 Hnd1 HIn1 Hoff1 Hsol1].
  set (e := fun i => vf s1 i - vf s i).
  set (w := nth idmax b 0 - dotR (rowR A idmax) s) in *.
  (* (A e)_i *)
  assert (HAe : forall i, (i < n)%nat -> S1 n (fun j => aij A i j * e j) = dotR (rowR A i) s1 - dotR (rowR A i) s).
  { intros i Hi. rewrite (row_dot_S1 n A b s1 i Hwf Hs1 Hi), (row_dot_S1 n A b s i Hwf Hs Hi).
    replace (S1 n (fun j => aij A i j * vf s1 j) - S1 n (fun j => aij A i j * vf s j))
      with (S1 n (fun j => aij A i j * vf s1 j) + S1 n (fun j => -1 * (aij A i j * vf s j))) by (rewrite S1_scal; ring).
    rewrite <- S1_add. apply S1_ext. intros j _. unfold e. ring. }
  assert (Hs_id : nth idmax s 0 = 0) by (apply Hoff; assumption).
  (* e^T A e = e_idmax * w *)
  assert (HB : Bil (aij A) n e e = e idmax * w).
  { rewrite Bil_rows. rewrite (S1_single n _ idmax Hid).
    - rewrite (HAe idmax Hid). unfold w. rewrite (Hsol1 idmax) by (apply in_app_iff; right; left; reflexivity). reflexivity.
    - intros i Hi Hne. rewrite (HAe i Hi). destruct (nth i P false) eqn:EP.
      + assert (Hin : In i Pin) by (apply HIn; auto).
        rewrite (Hsol i Hin), (Hsol1 i) by (apply in_app_iff; left; exact Hin). ring.
      + assert (e i = 0); [|rewrite H; ring]. unfold e, vf. rewrite (Hoff i Hi EP).
        rewrite (Hoff1 i Hi); [ring|]. rewrite nth_upd_set by lia.
        replace (Nat.eqb idmax i) with false by (symmetry; apply Nat.eqb_neq; lia). exact EP. }
  (* e <> 0, so e^T A e > 0 *)
  assert (Hpos : 0 < Bil (aij A) n e e).
  { set (el := map e (seq 0 n)).
    assert (Hel : length el = n) by (unfold el; rewrite map_length, seq_length; reflexivity).
    assert (Hev : forall i, (i < n)%nat -> vf el i = e i) by (intros i Hi; unfold vf, el; apply nth_map_seq; exact Hi).
    pose proof (Hpd el Hel) as H0. rewrite (quadR_Bil n A b el Hwf Hel) in H0.
    rewrite (Bil_ext _ n (vf el) (vf el) e e Hev Hev) in H0. apply H0.
    destruct (all_zero_dec n e) as [Hz|[i [Hi He]]].
    - exfalso. rewrite (Bil_zero _ _ _ _ Hz) in HB. rewrite (Hz idmax Hid) in HB.
      assert (Hc : S1 n (fun j => aij A idmax j * e j) = 0) by (apply S1_zero; intros j Hj; rewrite (Hz j Hj); ring).
      rewrite (HAe idmax Hid) in Hc. rewrite (Hsol1 idmax) in Hc by (apply in_app_iff; right; left; reflexivity).
      unfold w in Hw. lra.
    - exists i. split; [exact Hi|]. change (vf el i <> 0). rewrite (Hev i Hi). exact He. }
  rewrite HB in Hpos. unfold e, vf in Hpos. rewrite Hs_id in Hpos.
  assert (0 < nth idmax s1 0 * w) by lra.
  destruct (Rle_or_lt (nth idmax s1 0) 0) as [Hle|Hlt]; [|exact Hlt]. exfalso. nra.
Qed.

(* the statement about the model: one step of [outer] from a state that satisfies the invariant *)
Theorem outer_entering_value_positive n A b (tau : R) P Pin (s x : list R) :
  wf n A b -> sym_mat n A -> pos_def n A -> 0 <= tau ->
  Inv n A b P Pin s ->
  let w := @residual ROps A b s in
  @keep_going ROps P w tau = true ->
  let idmax := @argmax ROps (map (fun wp : R * bool => mul ROps (fst wp) (if snd wp then @zero ROps else @one ROps)) (combine w P)) in
  @solve_sub ROps A b (Pin ++ [idmax]) = Some x ->
  0 < nth idmax (@assign ROps s (Pin ++ [idmax]) x) 0.
Proof.
  intros Hwf Hsym Hpd Htau Hinv w Ek idmax Es.
  pose proof Hinv as [HP Hs Hnd HIn Hoff Hsol].
  assert (Hlw : length w = n) by (apply residual_length; exact Hwf).
  assert (Hok : (idmax < n)%nat /\ nth idmax P false = false) by (exact (idmax_ok P w tau n HP Hlw Htau Ek)).
  destruct Hok as [Hid HPid].
  assert (Hg0 : tau < nth idmax w 0) by (exact (idmax_gradient P w tau n HP Hlw Htau Ek)).
  assert (Hg : tau < nth idmax b 0 - dotR (rowR A idmax) s) by (rewrite <- (residual_nth n A b s idmax Hwf Hid); exact Hg0).
  assert (Hnotin : ~ In idmax Pin) by (intros Hin; apply HIn in Hin; destruct Hin; congruence).
  assert (Hinv1 : Inv n A b (upd_set P idmax true) (Pin ++ [idmax]) (@assign ROps s (Pin ++ [idmax]) x)).
  { apply (inv_assign n A b _ _ s _ x); auto.
    - rewrite upd_set_length. exact HP.
    - apply (Permutation_NoDup (Permutation_cons_append Pin idmax)). constructor; assumption.
    - intros i. rewrite in_app_iff, HIn. cbn [In]. rewrite nth_upd_set by lia.
      destruct (Nat.eqb idmax i) eqn:E.
      + apply Nat.eqb_eq in E. subst i. split; [auto|]. intros _. right. left. reflexivity.
      + apply Nat.eqb_neq in E. split; [intros [Hi|[Hi|[]]]; [exact Hi|congruence]|intros Hi; left; exact Hi].
    - intros t Ht Hn. apply Hoff; [exact Ht|]. destruct (nth t P false) eqn:Et; [|reflexivity].
      exfalso. apply Hn. apply in_app_iff. left. apply HIn. auto. }
  apply (entering_parameter_positive n A b P Pin s idmax _ Hwf Hsym Hpd Hinv Hid HPid); [lra|exact Hinv1].
Qed.
