(* C01 -- Slim and native forms are exact, order-preserving inverses under any mask.
   Statements only.  [A] is any value type with a chosen [zero]; masks are lists of rows of
   booleans (true = masked); [rectb H W] is the boolean shape predicate.  Grids and vector fields
   are handled by the code plane by plane with the same functions, so every statement applies to
   each plane (the pairing is exercised by the KGrid correspondence cases). *)
From Coq Require Import List Arith Bool Permutation Sorting.Sorted.
From PAV Require Import Model.C01 Proofs.C01.
Import ListNotations.

(* the published slim -> native index list is the row-major enumeration of the unmasked pixels *)
Theorem C01_native_for_slim_is_rowmajor_unmasked : forall (m : mask) H W,
  rectb H W m = true -> 0 < H -> native_for_slim m = unmasked_spec m.
Proof. exact native_for_slim_is_spec. Qed.

(* slim form = values of the unmasked pixels, row-major *)
Theorem C01_slim_is_rowmajor_gather : forall (A : Type) (zero : A) (m : mask) (n : list (list A)) H W,
  rectb H W m = true -> rectb H W n = true -> slim_from m n = map (get2 zero n) (native_for_slim m).
Proof. exact @slim_is_rowmajor_gather. Qed.

(* native form: slim value k sits at the k-th unmasked pixel, masked pixels hold zero *)
Theorem C01_native_value_at_kth_unmasked : forall (A : Type) (zero : A) (m : mask) (s : list A) H W k d,
  rectb H W m = true -> 0 < H -> length s = count m -> k < count m ->
  get2 zero (native_from zero m s) (nth k (native_for_slim m) d) = nth k s zero.
Proof. exact @native_at_kth_unmasked. Qed.
Theorem C01_native_masked_is_zero : forall (A : Type) (zero : A) (m : mask) (s : list A) H W p,
  rectb H W m = true -> 0 < H -> mget m p = true -> get2 zero (native_from zero m s) p = zero.
Proof. exact @native_at_masked. Qed.
Theorem C01_native_has_mask_shape : forall (A : Type) (zero : A) (m : mask) (s : list A) H W,
  rectb H W m = true -> 0 < H -> rectb H W (native_from zero m s) = true.
Proof. exact @native_from_rect. Qed.

(* round trips *)
Theorem C01_slim_native_slim : forall (A : Type) (zero : A) (m : mask) (s : list A) H W,
  rectb H W m = true -> 0 < H -> length s = count m -> slim_from m (native_from zero m s) = s.
Proof. exact @slim_native_roundtrip. Qed.
Theorem C01_native_slim_native : forall (A : Type) (zero : A) (m : mask) (n : list (list A)) H W,
  rectb H W m = true -> rectb H W n = true -> 0 < H ->
  native_from zero m (slim_from m n) = zero_masked zero m n.
Proof. exact @native_slim_roundtrip. Qed.

(* whichever form is supplied and whichever form is stored *)
Theorem C01_construct_from_native : forall (A : Type) (zero : A) (m : mask) (n : list (list A)) H W store_native,
  rectb H W m = true -> rectb H W n = true -> 0 < H ->
  let f := convert zero m (Native n) store_native in
  to_slim m f = map (get2 zero n) (native_for_slim m) /\ to_native zero m f = zero_masked zero m n.
Proof. exact @construct_from_native. Qed.
Theorem C01_construct_from_slim : forall (A : Type) (zero : A) (m : mask) (s : list A) H W store_native,
  rectb H W m = true -> 0 < H -> length s = count m ->
  let f := convert zero m (Slim s) store_native in
  to_slim m f = s /\ to_native zero m f = native_from zero m s.
Proof. exact @construct_from_slim. Qed.

(* published index lists *)
Theorem C01_index_lists_are_filters : forall (m : mask) flag,
  mask_slim_indexes m flag = filter (fun k => Bool.eqb (nth k (concat m) true) flag) (seq 0 (length (concat m))).
Proof. exact mask_slim_indexes_spec. Qed.
Theorem C01_index_lists_partition : forall (m : mask),
  Permutation (mask_slim_indexes m false ++ mask_slim_indexes m true) (seq 0 (length (concat m))).
Proof. exact index_lists_partition. Qed.
Theorem C01_index_lists_increasing : forall (m : mask) flag, StronglySorted lt (mask_slim_indexes m flag).
Proof. exact index_lists_increasing. Qed.
Theorem C01_slim_index_k_is_kth_unmasked : forall (m : mask) H W,
  rectb H W m = true -> map (fun p => fst p * W + snd p) (native_for_slim m) = mask_slim_indexes m false.
Proof. exact slim_index_k_is_kth_unmasked. Qed.

(* one dimension: the 1-D routines are the one-row instance, hence the same round trips *)
Theorem C01_1d_native_is_one_row : forall (A : Type) (zero : A) r (s : list A),
  [native_from_1d zero r s] = native_from zero [r] s.
Proof. exact @native_from_1d_is_one_row. Qed.
Theorem C01_1d_slim_is_one_row : forall (A : Type) r (v : list A), slim_from_1d r v = slim_from [r] [v].
Proof. exact @slim_from_1d_is_one_row. Qed.
Theorem C01_1d_slim_native_slim : forall (A : Type) (zero : A) r (s : list A),
  length s = length (native_for_slim_1d r 0) -> slim_from_1d r (native_from_1d zero r s) = s.
Proof. exact @slim_native_roundtrip_1d. Qed.
Theorem C01_1d_native_slim_native : forall (A : Type) (zero : A) r (v : list A),
  length v = length r -> native_from_1d zero r (slim_from_1d r v) = zero_masked_1d zero r v.
Proof. exact @native_slim_roundtrip_1d. Qed.

(* non-vacuity: a 3x4 mask with a hole, an isolated last-column pixel and an outer-ring pixel *)
Example C01_hyps_satisfiable :
  let m := [[false; true; true; false]; [true; false; true; true]; [true; true; false; false]] in
  rectb 3 4 m = true /\ count m = 5 /\
  native_for_slim m = [(0, 0); (0, 3); (1, 1); (2, 2); (2, 3)] /\
  native_from 0 m [7; 8; 9; 10; 11] = [[7; 0; 0; 8]; [0; 9; 0; 0]; [0; 0; 10; 11]] /\
  mask_slim_indexes m false = [0; 3; 5; 10; 11].
Proof. vm_compute. repeat split. Qed.

Print Assumptions C01_native_for_slim_is_rowmajor_unmasked. Print Assumptions C01_slim_is_rowmajor_gather.
Print Assumptions C01_native_value_at_kth_unmasked. Print Assumptions C01_native_masked_is_zero.
Print Assumptions C01_native_has_mask_shape. Print Assumptions C01_slim_native_slim.
Print Assumptions C01_native_slim_native. Print Assumptions C01_construct_from_native.
Print Assumptions C01_construct_from_slim. Print Assumptions C01_index_lists_are_filters.
Print Assumptions C01_index_lists_partition. Print Assumptions C01_index_lists_increasing.
Print Assumptions C01_slim_index_k_is_kth_unmasked. Print Assumptions C01_1d_native_is_one_row.
Print Assumptions C01_1d_slim_is_one_row. Print Assumptions C01_1d_slim_native_slim.
Print Assumptions C01_1d_native_slim_native.
