(* C18 -- histories on BorderRelocator objects: the state an object keeps between calls (the stored cached_property
   sub_border_slim) never changes what a call returns: every call of a history returns the pure function of ITS OWN
   arguments, whatever was relocated before on the same object or on another object of the same mask.
   Holds over any [NumOps] (no arithmetic is involved): stated at R in Props/C18.v. *)
From Coq Require Import List Bool Arith Lia.
From PAV Require Import Base.NumOps Base.Res Model.C18.
Import ListNotations.

Lemma nth_set_nth_same {A} (l : list A) i a d : (i < length l)%nat -> nth i (set_nth l i a) d = a.
Proof.
  revert i. induction l as [|h t IH]; intros [|i] Hi; cbn in *; try lia; auto. apply IH. lia.
Qed.
Lemma nth_set_nth_other {A} (l : list A) i j a d : i <> j -> nth j (set_nth l i a) d = nth j l d.
Proof.
  revert i j. induction l as [|h t IH]; intros [|i] [|j] Hij; cbn; try reflexivity; try lia. apply IH. lia.
Qed.
Lemma set_nth_out {A} (l : list A) i a : (length l <= i)%nat -> set_nth l i a = l.
Proof.
  revert i. induction l as [|h t IH]; intros [|i] Hi; cbn in *; try reflexivity; try lia. f_equal. apply IH. lia.
Qed.

Section History.
  Context {O : NumOps}.
  Variable m : mask.
  Variables ps origin : @pt O.
  Variable subs : list (list nat).

  (* what a stored entry is: the value the pure function returns for that relocator *)
  Definition cache_ok (st : cache) : Prop :=
    forall r s, nth r st None = Some s -> @sub_border_pixel_slim_indexes_from O m (nth r subs []) = Ok s.

  Lemma fresh_ok : cache_ok (fresh subs).
  Proof.
    intros r s. unfold fresh. intros H.
    destruct (Nat.lt_ge_cases r (length subs)) as [Hr|Hr].
    - rewrite nth_repeat in H. discriminate.
    - rewrite nth_overflow in H by (rewrite repeat_length; lia). discriminate.
  Qed.

  Lemma get_ok st r : cache_ok st ->
    fst (@get_sub_border_slim O m subs st r) = @sub_border_pixel_slim_indexes_from O m (nth r subs []) /\
    cache_ok (snd (@get_sub_border_slim O m subs st r)).
  Proof.
    intros Hst. unfold get_sub_border_slim.
    destruct (nth r st None) as [s|] eqn:E.
    - cbn [fst snd]. split; [symmetry; apply Hst; exact E | exact Hst].
    - destruct (@sub_border_pixel_slim_indexes_from O m (nth r subs [])) as [s|e] eqn:F; cbn [fst snd].
      + split; [reflexivity|].
        intros r' s' H'. destruct (Nat.eq_dec r r') as [<-|Hne].
        * destruct (Nat.lt_ge_cases r (length st)) as [Hr|Hr].
          -- rewrite nth_set_nth_same in H' by exact Hr. inversion H'; subst. exact F.
          -- rewrite set_nth_out in H' by exact Hr. rewrite E in H'. discriminate.
        * rewrite nth_set_nth_other in H' by exact Hne. apply Hst. exact H'.
      + split; [reflexivity | exact Hst].
  Qed.

  Lemma obj_relocated_ok st r grid target : cache_ok st ->
    fst (@obj_relocated O m subs st r grid target)
    = @relocated_mesh_grid_from O m (nth r subs []) grid target /\
    cache_ok (snd (@obj_relocated O m subs st r grid target)).
  Proof.
    intros Hst. unfold obj_relocated, relocated_mesh_grid_from.
    destruct (get_ok st r Hst) as [H1 H2].
    destruct (@get_sub_border_slim O m subs st r) as [s st'] eqn:E. cbn [fst snd] in *.
    rewrite <- H1. split; [reflexivity | exact H2].
  Qed.

  Lemma reloc_is_mesh ss g : @relocated_grid_from O m ss g = @relocated_mesh_grid_from O m ss g g.
  Proof. reflexivity. Qed.

  Lemma run_call_ok st c : cache_ok st ->
    fst (@run_call O m ps origin subs st c) = @pure_call O m ps origin subs c /\
    cache_ok (snd (@run_call O m ps origin subs st c)).
  Proof.
    intros Hst. destruct c as [r g | r g v | [r|] [p|] g v | r | r]; cbn [run_call pure_call relocator_of].
    - destruct (obj_relocated_ok st r g g Hst) as [H1 H2].
      destruct (@obj_relocated O m subs st r g g) as [o st'] eqn:E. cbn [fst snd] in *.
      rewrite reloc_is_mesh, <- H1. split; [reflexivity | exact H2].
    - destruct (obj_relocated_ok st r g v Hst) as [H1 H2].
      destruct (@obj_relocated O m subs st r g v) as [o st'] eqn:E. cbn [fst snd] in *.
      rewrite <- H1. split; [reflexivity | exact H2].
    - (* mapper, relocator, preloaded data grid *)
      destruct (obj_relocated_ok st r p v Hst) as [H1 H2].
      destruct (@obj_relocated O m subs st r p v) as [o st'] eqn:E. cbn [fst snd] in *.
      unfold mapper_grids_preloaded_from. rewrite <- H1. split; [reflexivity | exact H2].
    - (* mapper, relocator, no preload: two calls on the object *)
      destruct (obj_relocated_ok st r g g Hst) as [H1 H2].
      destruct (@obj_relocated O m subs st r g g) as [d st1] eqn:E. cbn [fst snd] in *.
      unfold mapper_grids_from. rewrite reloc_is_mesh, <- H1.
      destruct d as [data'|e]; cbn [fst snd].
      + destruct (obj_relocated_ok st1 r data' v H2) as [H3 H4].
        destruct (@obj_relocated O m subs st1 r data' v) as [w st2] eqn:E2. cbn [fst snd] in *.
        rewrite <- H3. split; [reflexivity | exact H4].
      + split; [reflexivity | exact H2].
    - cbn [fst snd]. split; [reflexivity | exact Hst].
    - cbn [fst snd]. split; [reflexivity | exact Hst].
    - destruct (get_ok st r Hst) as [H1 H2].
      destruct (@get_sub_border_slim O m subs st r) as [s st'] eqn:E. cbn [fst snd] in *.
      rewrite <- H1. split; [reflexivity | exact H2].
    - destruct (get_ok st r Hst) as [H1 H2].
      destruct (@get_sub_border_slim O m subs st r) as [s st'] eqn:E. cbn [fst snd] in *.
      unfold sub_border_grid. rewrite <- H1. split; [reflexivity | exact H2].
  Qed.

  Lemma run_history_ok cs : forall st, cache_ok st ->
    @run_history O m ps origin subs st cs = map (@pure_call O m ps origin subs) cs.
  Proof.
    induction cs as [|c t IH]; intros st Hst; cbn [run_history map]; [reflexivity|].
    destruct (run_call_ok st c Hst) as [H1 H2].
    destruct (@run_call O m ps origin subs st c) as [o st'] eqn:E. cbn [fst snd] in *.
    rewrite H1, (IH st' H2). reflexivity.
  Qed.

  (* every call of a history of fresh objects returns the pure function of its own arguments *)
  Lemma history_is_stateless cs :
    @run_history O m ps origin subs (fresh subs) cs = map (@pure_call O m ps origin subs) cs.
  Proof. apply run_history_ok, fresh_ok. Qed.

  (* the mesh call made after ANY calls: the border is that of the data grid passed in this call *)
  Lemma history_mesh_own_border pre post r g v :
    nth (length pre) (@run_history O m ps origin subs (fresh subs) (pre ++ @CMesh O r g v :: post)) (@ONats O (Ok []))
    = @OPts O (@relocated_mesh_grid_from O m (nth r subs []) g v).
  Proof.
    rewrite history_is_stateless, map_app. cbn [map].
    rewrite app_nth2 by (rewrite map_length; lia). rewrite map_length, Nat.sub_diag. reflexivity.
  Qed.
  Lemma history_mapper_preloaded_own_border pre post r p g v :
    nth (length pre) (@run_history O m ps origin subs (fresh subs) (pre ++ @CMapper O (Some r) (Some p) g v :: post))
        (@ONats O (Ok []))
    = @OPair O (match @relocated_mesh_grid_from O m (nth r subs []) p v with
                | Raise e => Raise e | Ok mesh' => Ok (p, mesh') end).
  Proof.
    rewrite history_is_stateless, map_app. cbn [map].
    rewrite app_nth2 by (rewrite map_length; lia). rewrite map_length, Nat.sub_diag. reflexivity.
  Qed.
End History.
