"""C06 -- mapping matrices conserve flux and encode the claimed interpolation."""
import itertools, random, math, inspect
import numpy as np
from fractions import Fraction as F
from harness.common import cz, cq, cnat, cbool, clist, ctup, cres, import_aa, frac, exn_name

ID = "C06"
GEN = []
PROPS = "Props/C06.v"
COQ_CHECK = ("Model.C06h", "hcheck")
COQ_FALLBACK = ("Model.C06h", "hspec_ok")
COQ_IMPORTS = ""
SHARD = 45
MARGIN = F(1, 10 ** 9)
TOL = F(1, 10 ** 9)
BUF_DEFAULT = F(1e-8)        # exact rational value of the double 1e-8 (overlay_grid's default buffer)
RULE = ("masks up to 6x6 with 1..10 unmasked pixels (densities 0.15-0.9, single pixels, full frames, last-column pixels), per-pixel "
        "sub-size maps drawn from {1,2,4} (exact streams) or {1,2,3,4} (tolerance streams), source-plane points = sub-pixel centres "
        "pushed through a random dyadic affine + quadratic distortion and 1/16 jitter; (a) rectangular meshes 3x3..6x7 (non-square "
        "included) laid over them with a dyadic buffer and power-of-two cell sizes so that every double operation is exact and points "
        "sit exactly on cell boundaries, through Mesh2DRectangular.overlay_grid + MapperGrids + aa.Mapper; (b) the public pipeline "
        "aa.mesh.Rectangular(shape).mapper_grids_from (default buffer 1e-8, arbitrary extents, tolerance 1e-9, cases with a point within "
        "1e-9 cell widths of a cell boundary are skipped and counted); (c) Delaunay meshes of 5..12 dyadic vertices in general position "
        "(collinear / cocircular draws rejected exactly) with data points inside, on edges of and outside the hull, through "
        "aa.mesh.Delaunay().mapper_grids_from + aa.Mapper; each mapper is observed at pix_sub_weights, mapping_matrix, unique_mappings and "
        "neighbors; (d) util-level mapping_matrix_from / data_slim_to_pixelization_unique_from on arbitrary index/weight arrays "
        "(repeated source pixels, signed weights, zero sizes, out-of-range indices); (e) slim_for_sub_slim for masks x sub-size maps; "
        "(f) rectangular_neighbors_from for every shape 2..9 x 2..9 (quick) / 2..16 (thorough) via the util and Mesh2DRectangular.neighbors; "
        "(g) HISTORIES on one mapper object carrying an adapt image and an AdaptiveBrightness regularization (rectangular or Delaunay, up to 5 "
        "image pixels): a random sequence over {pix_sub_weights, the three per-field accessors, mapping_matrix, unique_mappings, neighbors, "
        "pixel_signals_from(scale 0..3), regularization_weights_from, regularization_matrix (the mapper's own and other coefficients)} with 60% of "
        "the histories asking for the signals BEFORE anything is cached, every observable read again at the end after further signal queries, "
        "1..4 other public calls interleaved as perturbers (data_weight_total_for_pix_from, mapped_to_source_from, sub_slim_indexes_for_pix_index(_arr), "
        "pix_indexes_for_slim_indexes, edge_pixel_list, interpolated_array_from, regularization matrices of Constant / ConstantZeroth / "
        "BrightnessZeroth / ConstantSplit / AdaptiveBrightnessSplit / GaussianKernel), every array a method hands back overwritten by the caller, "
        "EVERY observation of the history compared with the model and the specification inside Coq, a closing sweep re-reading all observables, "
        "and the arrays handed to the mapper compared with their snapshots; in 35% of the histories a SECOND mapper over the same mask / "
        "over-sampler (for Delaunay half of the time the same mesh object) with a different source plane and adapt image is interleaved "
        "call by call; adapt images with exact zeros, one-hot, all-equal, and scaled by 2^-40 / 2^30. "
        "All mapper streams: the source grid is a fresh Grid2DIrregular, one derived by arithmetic (0.5 * doubled grid) or the over-sampler's "
        "own sub-pixel grid plus a deflection; a quarter of the exact rectangular and of the Delaunay cases have the whole source plane scaled "
        "by 2^-30, 2^-10 or 2^20; a third of the Delaunay cases put data points 2^-8..2^-26 away from a vertex or the midpoint of two vertices "
        "(tiny non-zero weights); every fresh mapper is read twice (and through the per-field accessors) and its inputs are compared with snapshots. "
        "(h) MESH API with relocation: aa.mesh.Rectangular(shape).mapper_grids_from / aa.mesh.Delaunay().mapper_grids_from(mask, source_plane_data_grid, "
        "source_plane_mesh_grid, border_relocator=aa.BorderRelocator(mask, sub_size as int or as the over-sampler's Array2D), preloads) + aa.Mapper on masks "
        "with >= 2 (Delaunay >= 3) pixels, 1-3 NON-border sub-pixels traced 3x..400x beyond the cloud (the sub-pixels the relocator moves), for Delaunay "
        "1-2 vertices 4x / 20x outside as well; 10% without relocator, 25% with preloads.relocated_grid = another grid with modest outliers; the source grid "
        "also as a uniform Grid2D; half of the calls on a mesh object that has just served ANOTHER source plane with the same relocator; the shared default "
        "Preloads() objects of the API fingerprinted before / after. Observed: the grids the mapper HOLDS (mapper.source_plane_data_grid / "
        "source_plane_mesh_grid) and the four C06 observables; checked inside Coq (KMeshApi): held grids = C18's relocation model of the originals "
        "(untouched coordinates bit for bit, moved ones to 1e-9) and accepted by C18's relocation specification, and the KRect / KDel clauses (mesh = overlay "
        "of the HELD grid, cell containment / barycentric weights / matrix / unique / neighbours) on the held grids; cases with a relocation decision "
        "inside C18's 1e-6 band, a held point within 1e-9 cell widths of a cell boundary or 1e-9 (barycentric) of a simplex edge, or nearly degenerate "
        "relocated vertices are skipped and counted. A quarter of the histories (g) build their mapper this way (KMeshApi on the closing readings). "
        "Non-trivial = more than one source pixel receives flux; distinct = distinct JSON input.")
EXHAUSTIVE = {"quick": "rectangular neighbour arrays: every mesh shape H, W in 2..9",
              "thorough": "rectangular neighbour arrays: every mesh shape H, W in 2..16"}
TRUSTED = ["hand-written Gallina model coq/Model/C06.v + coq/Model/C06h.v (history layer: pixel signals, adaptive-brightness regularization, "
           "cache state machine), tied to /repo by this correspondence run (comparison evaluated inside Coq by vm_compute, "
           "exact on the dyadic streams, |diff| <= 1e-9 where a division by 3/5/... or by a triangle area is involved)",
           "scipy.spatial.Delaunay (qhull) is an oracle: simplices / find_simplex / vertex_neighbor_vertices are inputs of the model; their contract "
           "(reported simplex contains the point, -1 only outside every simplex, non-degenerate simplices, neighbour lists = edges of the simplices) "
           "is re-checked in exact rational arithmetic inside Coq (oracle_ok, neighbors_spec) on every Delaunay case",
           "numpy element-wise arithmetic, np.min/np.max/np.argmin, integer indexing (negative indices wrap)",
           "mesh-API stream: coq/Model/C18.v (relocation model relocated_with and specification relocation_ok / sub_border_ok, C18's subject) is reused "
           "for the grids the mapper holds; the relocator's sub_border_slim is taken from the BorderRelocator object and accepted on its own terms by "
           "C18.sub_border_ok; decision bands computed on an independent Fraction/float reference of the relocation (harness ref_relocate, harness/c18.in_band_F)",
           "python int() = truncation toward zero (NumOps.trunc)"]
ASSUMPTIONS = ["real arithmetic (no rounding): theorems over R; correspondence on exactly representable inputs or under tolerance 1e-9 with every "
               "cell-boundary decision at a margin >= 1e-9 cell widths",
               "Voronoi natural-neighbour weights are out of scope (external C library absent)",
               "the Delaunay triangulation itself (which triangles qhull builds) is not verified, only its contract on each case"]

SKIPPED = {"in_band": 0}
TALLY = {"rect_points": 0, "rect_points_exactly_on_a_cell_boundary": 0, "rect_points_in_last_row_or_column": 0,
         "del_points": 0, "del_points_outside_hull": 0, "del_points_on_an_edge_or_vertex": 0, "float_sub_size_cases": 0,
         "non_square_meshes": 0, "sub_sizes": {}, "source_grid_kinds": {}, "coordinate_magnitudes": {"<1e-6": 0, "order_1": 0, ">1e4": 0}}
def extra_evidence():
    return {"skipped_in_decision_band": SKIPPED["in_band"], "decision_margin": "1e-9 cell widths", "distribution": TALLY}

# ----------------------------------------------------------------------------- printing
def cnl(v): return clist([cnat(x) for x in v])
def czl(v): return clist([cz(x) for x in v])
def czm(M): return clist([czl(r) for r in M])
def cqv(v): return clist([cq(x) for x in v])
def cqm(M): return clist([cqv(r) for r in M])
def cmask(m): return clist([clist([cbool(b) for b in r]) for r in m])
def cpts(g): return clist([ctup([cq(p[0]), cq(p[1])]) for p in g])
def cuq(u): return ctup([czm(u[0]), cqm(u[1]), cnl(u[2])])
def cpsw(p): return ctup([czm(p[0]), cnl(p[1]), cqm(p[2])])
def cnb(n): return ctup([czm(n[0]), czl(n[1])])
def S(x): return str(F(x))
def fm(M): return [[frac(x) for x in r] for r in np.asarray(M)]
def im(M): return [[int(x) for x in r] for r in np.asarray(M)]

# ----------------------------------------------------------------------------- generators
def rand_mask(rng, maxn):
    for _ in range(100):
        H, W = rng.randint(1, 6), rng.randint(1, 6)
        style = rng.choice(["random", "random", "random", "single", "full", "lastcol"])
        m = [[True] * W for _ in range(H)]
        if style == "single": m[rng.randrange(H)][rng.randrange(W)] = False
        elif style == "full": m = [[False] * W for _ in range(H)]
        elif style == "lastcol":
            for y in range(H):
                if rng.random() < 0.7: m[y][W - 1] = False
            m[rng.randrange(H)][rng.randrange(W)] = False
        else:
            p = rng.choice([0.15, 0.3, 0.5, 0.7, 0.9])
            for y in range(H):
                for x in range(W):
                    if rng.random() < p: m[y][x] = False
        n = sum(1 for r in m for b in r if not b)
        if 1 <= n <= maxn: return m
    return [[False]]

def sub_centres(m, subs):
    """sub-pixel centres (y, x) of the unmasked pixels, row-major pixels, row-major sub-pixels, pixel scale 1, origin 0"""
    H, W = len(m), len(m[0]); out = []; k = 0
    for y in range(H):
        for x in range(W):
            if m[y][x]: continue
            s = subs[k]; k += 1
            yc, xc = F(H - 1, 2) - y, x - F(W - 1, 2)
            for y1 in range(s):
                for x1 in range(s):
                    out.append((yc + F(1, 2) - F(2 * y1 + 1, 2 * s), xc - F(1, 2) + F(2 * x1 + 1, 2 * s)))
    return out

def snap(v, d=16): return F(round(v * d), d)

def distort(rng, pts):
    a, b, c, d = [F(rng.randint(-8, 8), 4) for _ in range(4)]
    if a * d - b * c == 0: a += 1
    q1, q2 = F(rng.randint(-2, 2), 8), F(rng.randint(-2, 2), 8)
    ty, tx = F(rng.randint(-12, 12), 4), F(rng.randint(-12, 12), 4)
    out = []
    for (y, x) in pts:
        yy = a * y + b * x + q1 * x * x + ty + F(rng.randint(-2, 2), 16)
        xx = c * y + d * x + q2 * y * y + tx + F(rng.randint(-2, 2), 16)
        out.append((snap(yy), snap(xx)))
    return out

def fit_extent(rng, vals, n):
    """move the extreme values so that (max - min + 2 b) / n is a power of two (b dyadic): returns (vals, b)"""
    b = rng.choice([F(1, 16), F(1, 8), F(1, 4), F(1, 2)])
    lo, hi = min(vals), max(vals)
    s = F(1, 8)
    while n * s - 2 * b < hi - lo or n * s - 2 * b <= 0: s *= 2
    target = n * s - 2 * b
    i = vals.index(hi)
    vals = list(vals); vals[i] = lo + target
    if len(vals) == 1 or lo + target == lo:      # single point: the extent is 0, so (2b)/n must be dyadic
        return None
    return vals, b

SRC_KINDS = ["plain", "plain", "scaled", "osg"]

def movable(m, subs):
    """indices of the sub-pixels that are (mostly) NOT border sub-pixels: every sub-pixel of a pixel that is not a border pixel
    of the mask, and the sub-pixels of border pixels with sub-size > 1 (one of which is the border sub-pixel).  A border
    sub-pixel is its own nearest border point and is never moved, so outliers are put elsewhere.  Steering only."""
    H, W = len(m), len(m[0]); out = []; k = 0; s0 = 0
    def masked(y, x): return y < 0 or x < 0 or y >= H or x >= W or m[y][x]
    for y in range(H):
        for x in range(W):
            if m[y][x]: continue
            edge = any(masked(y + dy, x + dx) for dy in (-1, 0, 1) for dx in (-1, 0, 1) if (dy, dx) != (0, 0))
            border = edge and (all(m[yy][x] for yy in range(y)) or all(m[y][xx] for xx in range(x + 1, W))
                               or all(m[yy][x] for yy in range(y + 1, H)) or all(m[y][xx] for xx in range(x)))
            n = subs[k] * subs[k]; k += 1
            if not border or n > 1: out += list(range(s0, s0 + n))
            s0 += n
    return out

def add_outliers(rng, pts, kmax=3, factors=(3, 8, 50, 400), cand=None):
    """push 1..kmax points far outside the cloud (3x .. 400x their distance from the centroid, or in a fresh direction):
    the sub-pixels a BorderRelocator actually moves"""
    pts = list(pts); n = len(pts)
    cy, cx = sum(p[0] for p in pts) / n, sum(p[1] for p in pts) / n
    cand = list(range(n)) if cand is None else cand
    for i in rng.sample(cand, min(len(cand), rng.randint(1, kmax))):
        d = (pts[i][0] - cy, pts[i][1] - cx)
        if d == (0, 0) or rng.random() < 0.3: d = (F(rng.randint(-8, 8), 4), F(rng.randint(-8, 8), 4))
        if d == (0, 0): d = (F(1), F(-1, 2))
        f = rng.choice(factors)
        pts[i] = (snap(cy + f * d[0]), snap(cx + f * d[1]))
    return pts

def gen_reloc_descr(rng, m, subs, npts):
    """how the mapper is built through the mesh API: with a BorderRelocator (sub-size handed over as an int or as the
    over-sampler's own Array2D), optionally with a preloaded relocated grid, optionally on a mesh object that has already
    served another source plane"""
    rl = {"relocator": rng.random() < 0.9, "sub_int": rng.random() < 0.5, "warm": rng.random() < 0.5, "preload": None,
          # the remaining optional arguments at non-default values: the relocator handed to aa.Mapper as well, an image-plane
          # mesh grid (run_time_dict stays None: the profiling branch needs a workspace config the repo's default lacks)
          "opt": rng.random() < 0.4}
    if rng.random() < 0.25:
        # (a preloaded grid is used as it is: modest outliers, so that the default 1e-8 buffer of the rectangular overlay stays
        # above the decision margin of 1e-9 cell widths)
        rl["preload"] = [[S(p[0]), S(p[1])] for p in add_outliers(rng, distort(rng, sub_centres(m, subs)), factors=(2, 3), cand=movable(m, subs) or None)]
    return rl
def outlier_factors(rl): return (3, 8, 50, 400) if (rl["relocator"] and not rl["preload"]) else (2, 3)

def gen_rect(rng, mode, maxn, like=None, cap=60, reloc=False):
    """like: a previous draw whose mask / sub-sizes / mesh shape are kept (a second, different source plane for the same data)
    reloc: through aa.mesh.Rectangular(shape).mapper_grids_from WITH a BorderRelocator and outliers (mode 'public')"""
    if like is None:
        m = rand_mask(rng, maxn)
        n = sum(1 for r in m for b in r if not b)
        subs = [rng.choice([1, 2, 4] if mode == "exact" else [1, 2, 3, 4]) for _ in range(n)]
        if rng.random() < 0.3: subs = [rng.choice([1, 2])] * n
        while sum(s * s for s in subs) > cap: subs[subs.index(max(subs))] = 1
        shape = rng.choice([(3, 3), (3, 4), (4, 3), (3, 5), (5, 3), (4, 4), (4, 6), (6, 4), (5, 5), (3, 7), (6, 7)])
    else:
        m, subs, shape = like["m"], like["subs"], tuple(like["shape"])
    pts = distort(rng, sub_centres(m, subs))
    if reloc:
        if len(subs) < 2: return None          # a single border point: everything collapses onto it (zero extent)
        rl = gen_reloc_descr(rng, m, subs, len(pts))
        if not movable(m, subs): return None
        pts = add_outliers(rng, pts, factors=outlier_factors(rl), cand=movable(m, subs))
    if mode == "exact":
        if len(pts) < 2: return None
        ys, xs = [p[0] for p in pts], [p[1] for p in pts]
        if min(ys) == max(ys) or min(xs) == max(xs): return None
        # the same dyadic buffer on both axes (overlay_grid has one buffer): fit y with b, then x with the same b
        b = rng.choice([F(1, 16), F(1, 8), F(1, 4), F(1, 2)])
        def fit(vals, nn):
            lo, hi = min(vals), max(vals); s = F(1, 8)
            while nn * s - 2 * b < hi - lo: s *= 2
            vals = list(vals); vals[vals.index(hi)] = lo + nn * s - 2 * b
            return vals
        ys, xs = fit(ys, shape[0]), fit(xs, shape[1])
        pts = list(zip(ys, xs))
        buf = b
    else:
        # degenerate extents (a single point, all points on one line) are kept: the mesh is then 2e-8 wide on that axis
        buf = BUF_DEFAULT
    # magnitudes: the whole source plane (and the buffer) scaled by a power of two (exact), down to ~1e-9 and up to ~1e6
    sc = F(2) ** (rng.choice([-30, -10, 20]) if (mode == "exact" and rng.random() < 0.25) else 0)
    g = {"op": "rect", "mode": mode, "m": m, "subs": subs, "grid": [[S(p[0] * sc), S(p[1] * sc)] for p in pts],
         "shape": list(shape), "buffer": S(buf * sc if mode == "exact" else buf), "fsub": rng.random() < 0.3,
         "src": rng.choice(SRC_KINDS)}
    if reloc:
        g["reloc"] = rl
        if all(s == 1 for s in subs) and rng.random() < 0.5: g["src"] = "grid2d"      # a uniform Grid2D instead of a Grid2DIrregular
    return g

def cross(a, b, c): return (b[0] - a[0]) * (c[1] - a[1]) - (b[1] - a[1]) * (c[0] - a[0])
def incircle(a, b, c, d):
    rows = [(p[0] - d[0], p[1] - d[1], (p[0] - d[0]) ** 2 + (p[1] - d[1]) ** 2) for p in (a, b, c)]
    (a1, a2, a3), (b1, b2, b3), (c1, c2, c3) = rows
    return a1 * (b2 * c3 - b3 * c2) - a2 * (b1 * c3 - b3 * c1) + a3 * (b1 * c2 - b2 * c1)

def general_position(P):
    if len(set(P)) != len(P): return False
    for a, b, c in itertools.combinations(P, 3):
        if cross(a, b, c) == 0: return False
    for a, b, c, d in itertools.combinations(P, 4):
        if incircle(a, b, c, d) == 0: return False
    return True

def gen_del(rng, maxn, like=None, cap=50, kmax=12, reloc=False):
    if like is None:
        m = rand_mask(rng, maxn)
        n = sum(1 for r in m for b in r if not b)
        subs = [rng.choice([1, 2, 4, 3]) for _ in range(n)]
        if rng.random() < 0.3: subs = [rng.choice([1, 2])] * n
        while sum(s * s for s in subs) > cap: subs[subs.index(max(subs))] = 1
    else:
        m, subs = like["m"], like["subs"]
    pts = distort(rng, sub_centres(m, subs))
    if reloc:
        if len(subs) < 3: return None          # one or two border points: every relocated vertex lands on one circle / point
        rl = gen_reloc_descr(rng, m, subs, len(pts))
        if not movable(m, subs): return None
        pts = add_outliers(rng, pts, factors=outlier_factors(rl), cand=movable(m, subs))
    if like is not None and like.get("points"):
        # the same vertices (the same mesh object is shared by the two mappers): only the data points differ
        sc = F(like["sc"])
        return {"op": "del", "m": m, "subs": subs, "grid": [[S(p[0] * sc), S(p[1] * sc)] for p in pts], "points": like["points"],
                "fsub": like["fsub"], "src": rng.choice(SRC_KINDS), "sc": like["sc"]}
    ys, xs = sorted(p[0] for p in pts), sorted(p[1] for p in pts)
    if reloc and len(pts) > 6: ys, xs = ys[3:-3], xs[3:-3]      # the vertex box follows the bulk of the data, not the outliers
    ylo, yhi, xlo, xhi = min(ys), max(ys), min(xs), max(xs)
    k = rng.randint(5, kmax)
    sc = F(2) ** (rng.choice([-30, -10, 20]) if (rng.random() < 0.25 and not reloc) else 0)
    for _ in range(200):
        # vertices on a 1/4 lattice in a box that is sometimes smaller than the data (points outside the hull)
        sh = rng.choice([F(-1), F(0), F(1), F(2)])
        V = [(snap(F(rng.randint(int((ylo - sh) * 4), max(int((ylo - sh) * 4) + 8, int((yhi + sh) * 4))), 4), 4),
              snap(F(rng.randint(int((xlo - sh) * 4), max(int((xlo - sh) * 4) + 8, int((xhi + sh) * 4))), 4), 4)) for _ in range(k)]
        if rng.random() < 0.3 and pts: V[0] = pts[rng.randrange(len(pts))]          # a data point sitting on a vertex
        if reloc and rl["relocator"] and rng.random() < 0.6:
            # mesh vertices far outside the border as well (relocated_mesh_grid_from moves them)
            my, mx = (ylo + yhi) / 2, (xlo + xhi) / 2
            for j in rng.sample(range(1, k), rng.randint(1, 2)):
                f = rng.choice([4, 20])
                V[j] = (snap(my + f * (V[j][0] - my) + rng.randint(-3, 3)), snap(mx + f * (V[j][1] - mx) + rng.randint(-3, 3)))
        if general_position(V):
            pts = list(pts)
            if rng.random() < 0.35 and not reloc:
                # data points a hair away from a vertex / from the midpoint of two vertices (often an edge): interpolation
                # weights as small as 2^-26 that are NOT zero
                for _ in range(rng.randint(1, 2)):
                    a, b, q = rng.choice(V), rng.choice(V), rng.choice(pts)
                    if rng.random() < 0.5: b = a
                    c = ((a[0] + b[0]) / 2, (a[1] + b[1]) / 2)
                    e = F(1, 2 ** rng.choice([8, 14, 20, 26]))
                    pts[rng.randrange(len(pts))] = (c[0] + (q[0] - c[0]) * e, c[1] + (q[1] - c[1]) * e)
            g = {"op": "del", "m": m, "subs": subs, "grid": [[S(p[0] * sc), S(p[1] * sc)] for p in pts],
                 "points": [[S(p[0] * sc), S(p[1] * sc)] for p in V], "fsub": rng.random() < 0.3, "src": rng.choice(SRC_KINDS),
                 "sc": S(sc)}
            if reloc:
                g["reloc"] = rl
                if all(s == 1 for s in subs) and rng.random() < 0.5: g["src"] = "grid2d"
            return g
    return None

def gen_matrix(rng):
    Sn, P, N = rng.randint(1, 10), rng.randint(1, 6), rng.randint(1, 5)
    width = rng.randint(1, 3)
    bad = rng.random() < 0.12
    sizes = [rng.randint(0, width) for _ in range(Sn)]
    def idx():
        if bad and rng.random() < 0.3: return rng.choice([-1, -P, P, -P - 1, P + 2])
        return rng.randrange(P)
    mp = [[idx() if k < sizes[s] else -1 for k in range(width)] for s in range(Sn)]
    wt = [[S(F(rng.randint(-8, 8), 4)) if k < sizes[s] else "0" for k in range(width)] for s in range(Sn)]
    sfs = sorted(rng.randrange(N) for _ in range(Sn)) if rng.random() < 0.7 else [rng.randrange(N) for _ in range(Sn)]
    if bad and rng.random() < 0.3: sfs[rng.randrange(Sn)] = N
    fr = [S(rng.choice([F(1), F(1, 4), F(1, 16), F(1, 2), F(3, 4)])) for _ in range(N)]
    return {"op": "matrix", "mp": mp, "sz": sizes, "wt": wt, "P": P, "N": N, "sfs": sfs, "fr": fr}

def gen_unique(rng):
    n = rng.randint(1, 4)
    subs = [rng.choice([1, 2, 2, 4]) for _ in range(n)]
    while sum(s * s for s in subs) > 24: subs[subs.index(max(subs))] = 1
    Sn = sum(s * s for s in subs); P = rng.randint(1, 6); width = rng.randint(1, 3)
    bad = rng.random() < 0.1
    sizes = [rng.randint(0, width) for _ in range(Sn)]
    def idx():
        if bad and rng.random() < 0.3: return rng.choice([-1, -P, P, -P - 1])
        return rng.randrange(P)
    mp = [[idx() if k < sizes[s] else -1 for k in range(width)] for s in range(Sn)]
    wt = [[S(F(rng.randint(-8, 8), 4)) if k < sizes[s] else "0" for k in range(width)] for s in range(Sn)]
    return {"op": "unique", "mp": mp, "sz": sizes, "wt": wt, "P": P, "subs": subs}

DY = [F(0), F(1, 2), F(1), F(3, 2), F(2)]
OBS = ["psw", "fields", "mm", "uq", "nb"]

def gen_adapt(rng, n):
    style = rng.choice(["random", "random", "onehot", "equal", "zeros_some"])
    if style == "onehot": a = [F(0)] * n; a[rng.randrange(n)] = F(rng.randint(1, 8), 4)
    elif style == "equal": a = [F(rng.randint(1, 8), 4)] * n
    else: a = [F(rng.randint(0 if style == "zeros_some" else 1, 8), 4) for _ in range(n)]
    if max(a) == 0: a[rng.randrange(n)] = F(1)
    sc = F(2) ** rng.choice([0, 0, 0, -40, 30])           # tiny / huge images (the signals are relative to the maximum)
    return [S(x * sc) for x in a]

def gen_hist(rng, kind):
    """a history of calls on ONE mapper object (or two mappers over the same data, interleaved)"""
    maxn = 5
    base = None
    api = rng.random() < 0.25      # the mapper of the history is built through the mesh API with a BorderRelocator and outliers
    for _ in range(20):
        if kind == "del": base = gen_del(rng, maxn, cap=24, kmax=9 if not api else 8, reloc=api)
        else: base = gen_rect(rng, rng.choice(["exact", "public"]) if not api else "public", maxn, cap=24, reloc=api)
        if base is not None and kind == "rect" and base["shape"][0] * base["shape"][1] > 20: base = None
        if base is not None: break
    if base is None: return None
    twin, share = None, False
    if rng.random() < 0.35 and not api:
        if kind == "del":
            share = rng.random() < 0.5
            twin = gen_del(rng, maxn, like=base if share else {"m": base["m"], "subs": base["subs"]}, kmax=9)
        else:
            twin = gen_rect(rng, base["mode"], maxn, like=base)
        if twin is not None: twin["fsub"] = base["fsub"]
    nm = 2 if twin else 1
    n = len(base["subs"])
    regp = [S(rng.choice(DY)), S(rng.choice(DY)), rng.choice([0, 1, 1, 2, 3])]
    def regargs(): return regp if rng.random() < 0.6 else [S(rng.choice(DY)), S(rng.choice(DY)), rng.choice([0, 1, 2])]
    def signal_op():
        r = rng.random()
        if r < 0.5: return ["sig", rng.choice([0, 1, 1, 2, 3])]
        return (["regm"] if r < 0.8 else ["regw"]) + regargs()
    def rand_op():
        r = rng.random()
        if r < 0.45: return signal_op()
        if r < 0.7: return ["aux", rng.choice(AUX)]
        return [rng.choice(OBS)]
    lists = []
    for who in range(nm):
        pre = [rand_op() for _ in range(rng.randint(0, 4))]
        if rng.random() < 0.6: pre.insert(0, signal_op())                         # the signals are asked for before anything is cached
        tail = [rng.choice(["psw", "fields"]), "mm", "uq", "nb"]; rng.shuffle(tail)
        tail = [[t] for t in tail]
        for _ in range(rng.randint(0, 2)): tail.insert(rng.randrange(len(tail)), rand_op() if rng.random() < 0.3 else signal_op())
        ops, seen = [], {}
        for op in pre + tail:                                                      # at most two readings of each observable
            key = "psw" if op[0] in ("psw", "fields") else op[0]
            if op[0] in OBS:
                if seen.get(key, 0) >= 2: continue
                seen[key] = seen.get(key, 0) + 1
            ops.append(op)
        for _ in range(rng.randint(1, 4)): ops.insert(rng.randrange(len(ops) + 1), ["aux", rng.choice(AUX)])
        lists.append([[who] + op for op in ops])
    sched = []
    while any(lists):
        l = rng.choice([x for x in lists if x]); sched.append(l.pop(0))
    return {"op": "hist", "base": base, "twin": twin, "share_mesh": share, "adapt": [gen_adapt(rng, n) for _ in range(nm)],
            "adapt_derived": rng.random() < 0.3, "reg": regp, "sched": sched}

def gen_inputs(tier, rng):
    big = tier == "thorough"
    top = 16 if big else 9
    for H in range(2, top + 1):
        for W in range(2, top + 1):
            yield {"op": "rectnb", "H": H, "W": W, "via": "util" if (H + W) % 2 else "mesh"}
    for _ in range(300 if big else 40):
        m = rand_mask(rng, 12)
        n = sum(1 for r in m for b in r if not b)
        via = rng.choice(["util", "sampler", "sampler_float", "radial_bins"])
        if via == "radial_bins":
            ssl, rad = rng.choice([([4, 2, 1], ["3/4", "7/4", "10"]), ([3, 1], ["5/4", "10"]), ([2, 4, 1], ["1/2", "2", "10"])])
            yield {"op": "sfs", "m": m, "subs": None, "via": via, "sub_size_list": ssl, "radial": rad}
        else:
            yield {"op": "sfs", "m": m, "subs": [rng.choice([1, 2, 3, 4]) for _ in range(n)], "via": via}
    for _ in range(2500 if big else 150): yield gen_matrix(rng)
    for _ in range(2500 if big else 150): yield gen_unique(rng)
    nmap = 500 if big else 36
    maxn = 10 if big else 7
    for i in range(nmap):
        for g in (gen_rect(rng, "exact", maxn), gen_rect(rng, "public", maxn), gen_del(rng, maxn)):
            if g is not None: yield g
    for i in range(400 if big else 36):
        g = gen_hist(rng, "del" if i % 3 else "rect")
        if g is not None: yield g
    # (h) mappers built through the MESH API with a BorderRelocator and outliers (and preloads.relocated_grid)
    for i in range(100 if big else 14):
        for f in (lambda: gen_rect(rng, "public", maxn, reloc=True, cap=24 if not big else 40),
                  lambda: gen_del(rng, maxn, reloc=True, cap=24 if not big else 40, kmax=8 if not big else 10)):
            g = next((x for x in (f() for _ in range(20)) if x is not None), None)
            if g is not None: yield g

# ----------------------------------------------------------------------------- running
def snapshot(*arrs):
    return [None if a is None else np.array(a, copy=True) for a in arrs]
def unchanged(snap, *arrs):
    return all((a is None and b is None) or (np.asarray(b).shape == a.shape and np.array_equal(a, np.asarray(b), equal_nan=True))
               for a, b in zip(snap, arrs))

def source_grid(aa, osr, grid, kind, subs, mask=None):
    """the source-plane data grid as the library would hand it over: a fresh Grid2DIrregular, or one DERIVED by arithmetic
    (halving a doubled grid; the over-sampler's own sub-pixel grid plus a deflection, which is what a ray-tracing caller does)"""
    vals = np.array([[float(p[0]), float(p[1])] for p in grid])
    osg = np.array(osr.over_sampled_grid) if kind == "osg" else None
    if kind == "osg" and np.array_equal(osg + (vals - osg), vals):      # the deflection reproduces the target exactly in doubles
        src = osr.over_sampled_grid + (vals - osg)
    elif kind == "scaled":
        src = aa.Grid2DIrregular(values=2.0 * vals) * 0.5
    elif kind == "grid2d" and mask is not None and all(int(s) == 1 for s in subs):
        src = aa.Grid2D(values=vals, mask=mask)
    else:
        src = aa.Grid2DIrregular(values=vals)
    assert np.array_equal(np.array(src), vals)
    return src

def sub_size_map(aa, inp, mask):
    """the per-pixel sub-size map: slim values, or the same map handed over in its native 2D layout (zeros under the mask)"""
    subs = [float(s) if inp.get("fsub") else int(s) for s in inp["subs"]]
    if inp.get("src") == "scaled":
        it = iter(subs)
        return aa.Array2D(values=[[0 if b else next(it) for b in r] for r in inp["m"]], mask=mask)
    return aa.Array2D(values=subs, mask=mask)

def build_common(aa, inp, mask=None, osr=None):
    m = inp["m"]; subs = inp["subs"]
    grid = [(F(p[0]), F(p[1])) for p in inp["grid"]]
    if mask is None:
        mask = aa.Mask2D(mask=np.array(m, dtype=bool), pixel_scales=1.0)
        # "fsub": the sub-size map is stored as floats, which is what OverSamplingUniform.from_radial_bins / from_adaptive_scheme produce
        osr = aa.OverSamplerUniform(mask=mask, sub_size=sub_size_map(aa, inp, mask))
    assert osr.sub_total == len(grid) and len(osr.over_sampled_grid) == len(grid)
    src = source_grid(aa, osr, grid, inp.get("src", "plain"), subs, mask)
    return m, subs, grid, mask, osr, src

def obs_psw(mapper):
    psw = mapper.pix_sub_weights
    return (im(psw.mappings), [int(x) for x in psw.sizes], fm(psw.weights))
def obs_fields(mapper):
    return (im(mapper.pix_indexes_for_sub_slim_index), [int(x) for x in mapper.pix_sizes_for_sub_slim_index],
            fm(mapper.pix_weights_for_sub_slim_index))
def obs_mm(mapper): return fm(mapper.mapping_matrix)
def obs_uq(mapper):
    um = mapper.unique_mappings
    return (im(um.data_to_pix_unique), fm(um.data_weights), [int(x) for x in um.pix_lengths])
def obs_nb(mapper):
    nb = mapper.neighbors
    return (im(np.asarray(nb)), [int(x) for x in nb.sizes])

def observe(mapper):
    return obs_psw(mapper), obs_mm(mapper), obs_uq(mapper), obs_nb(mapper)

def describe(psw, M):
    return {"mappings": psw[0][:6], "sizes": psw[1][:6], "weights": [[str(x) for x in r] for r in psw[2][:6]],
            "mapping_matrix": [[str(x) for x in r] for r in M[:4]]}

def fpts(a): return [(frac(v[0]), frac(v[1])) for v in np.asarray(a).reshape(-1, 2)]

def default_preloads(aa):
    """the shared DEFAULT Preloads() objects of the mesh API (one per function, created at import time)"""
    out = []
    for cls in (aa.mesh.Rectangular, aa.mesh.Delaunay):
        for name in ("mapper_grids_from", "relocated_grid_from"):
            p = inspect.signature(getattr(cls, name)).parameters.get("preloads")
            if p is not None and p.default is not inspect.Parameter.empty and not any(p.default is q for q in out): out.append(p.default)
    return out
def fingerprint(objs): return [sorted((k, id(v)) for k, v in vars(o).items()) for o in objs]

def ref_relocate(G, B):
    """independent reference of the relocation of the points G against the border points B (exact Fractions for every
    decision, floats for the move): used to know which sub-pixels move and for the decision bands; the comparison with
    the implementation is made inside Coq (C18's model and specification)"""
    n = len(B)
    if n == 0: return list(G), 0
    cy, cx = sum(b[0] for b in B) / n, sum(b[1] for b in B) / n
    r2 = lambda p: (p[0] - cy) ** 2 + (p[1] - cx) ** 2
    br2 = [r2(b) for b in B]; bmin2 = min(br2)
    out, moved = [], 0
    for p in G:
        rp2 = r2(p)
        if rp2 > bmin2:
            d2 = [(p[0] - b[0]) ** 2 + (p[1] - b[1]) ** 2 for b in B]
            k = d2.index(min(d2))
            if br2[k] < rp2:
                f = math.sqrt(br2[k] / rp2)
                out.append((F(f * float(p[0] - cy) + float(cy)), F(f * float(p[1] - cx) + float(cx)))); moved += 1
                continue
        out.append(p)
    return out, moved

def reloc_reference(d):
    """-> (reference held data grid, reference held vertices or None, in a decision band?, number of sub-pixels moved,
    number of vertices moved) for a mapper built through the mesh API"""
    from harness import c18
    rl, orig, sbs = d["reloc"], d["orig"], d["sbs"]
    pre = [(F(a), F(b)) for a, b in rl["preload"]] if rl.get("preload") else None
    src = pre if pre is not None else orig
    band = False; moved = vmoved = 0
    if pre is not None or not rl["relocator"]:
        held = src
    else:
        B = [orig[k] for k in sbs]
        band = band or c18.in_band_F(orig, B, tally=False)
        held, moved = ref_relocate(orig, B)
    heldV = None
    if d["kind"] == "del":
        if rl["relocator"]:
            B = [held[k] for k in sbs]
            band = band or c18.in_band_F(d["origV"], [src[k] for k in sbs], tally=False)
            heldV, vmoved = ref_relocate(d["origV"], B)
        else:
            heldV = d["origV"]
    d["ref_src"] = src
    return held, heldV, band, moved, vmoved

def del_band(grid, V, grid0=None, V0=None):
    """Delaunay on vertices that are no longer lattice points: three vertices nearly collinear / two nearly equal, or a data
    point within 1e-9 (barycentric) of an edge without being exactly on it (qhull's find_simplex has its own tolerance; the
    oracle's contract is checked in exact arithmetic).  grid0 / V0 = the grids before relocation: a point EXACTLY on an edge
    or vertex is only meaningful between coordinates the relocator left alone (a moved coordinate of the implementation may
    differ from this reference by an ulp)"""
    moved_q = [grid0 is not None and grid[i] != grid0[i] for i in range(len(grid))]
    moved_v = [V0 is not None and V[j] != V0[j] for j in range(len(V))]
    import scipy.spatial
    eps = F(1, 10 ** 9)
    span = max(max(abs(c) for p in V for c in p), F(1))
    for a, b, c in itertools.combinations(V, 3):
        if abs(cross(a, b, c)) < eps * span * span: return True
    try:
        tri = scipy.spatial.Delaunay(np.array([[float(p[0]), float(p[1])] for p in V]))
    except Exception:
        return True
    for qi, q in enumerate(grid):
        for row in tri.simplices:
            v0, v1, v2 = (V[int(j)] for j in row)
            inexact = moved_q[qi] or any(moved_v[int(j)] for j in row)
            dd = cross(v0, v1, v2)
            for sgn in (cross(q, v1, v2), cross(v0, q, v2), cross(v0, v1, q)):
                if (sgn != 0 or inexact) and abs(sgn) < eps * abs(dd): return True
    return False

def make_mapper(aa, inp, mask=None, osr=None, adapt=None, reg=None, mesh=None):
    """-> dict with the mapper, the model-side inputs and the arrays the caller handed over (to check they are left alone)"""
    m, subs, grid, mask, osr, src = build_common(aa, inp, mask, osr)
    d = {"m": m, "subs": subs, "grid": grid, "mask": mask, "osr": osr, "src": src, "kind": inp["op"]}
    rl = inp.get("reloc")
    kw, pre_obj, relocator = {}, None, None
    if rl:
        if rl["relocator"]:
            ss = int(subs[0]) if (rl["sub_int"] and len(set(int(s) for s in subs)) == 1) else osr.sub_size
            relocator = aa.BorderRelocator(mask=mask, sub_size=ss)
            kw["border_relocator"] = relocator
        if rl.get("preload"):
            pre_obj = aa.Grid2DIrregular(values=np.array([[float(F(a)), float(F(b))] for a, b in rl["preload"]]))
            kw["preloads"] = aa.Preloads(relocated_grid=pre_obj)
        if rl.get("opt"):
            if inp["op"] == "del": kw["image_plane_mesh_grid"] = aa.Grid2DIrregular(values=[[0.25 * j, -0.5 * j] for j in range(len(inp["points"]))])
        d["defaults"] = default_preloads(aa); d["defaults_fp"] = fingerprint(d["defaults"])
        # a mesh object that has already served ANOTHER source plane (same mask, same relocator)
        decoy = aa.Grid2DIrregular(values=0.5 * np.array(src)[::-1] + 0.25) if rl.get("warm") else None
    if inp["op"] == "rect":
        shape = tuple(inp["shape"]); buf = F(inp["buffer"])
        if inp["mode"] == "exact":
            mesh = aa.Mesh2DRectangular.overlay_grid(shape_native=shape, grid=np.array(src), buffer=float(buf))
            mg = aa.MapperGrids(mask=mask, source_plane_data_grid=src, source_plane_mesh_grid=mesh, adapt_data=adapt)
        elif rl:
            mesh_obj = aa.mesh.Rectangular(shape=shape)
            if decoy is not None: mesh_obj.mapper_grids_from(mask=mask, source_plane_data_grid=decoy, border_relocator=relocator)
            mg = mesh_obj.mapper_grids_from(mask=mask, source_plane_data_grid=src, adapt_data=adapt, **kw)
        else:
            mg = aa.mesh.Rectangular(shape=shape).mapper_grids_from(mask=mask, source_plane_data_grid=src, adapt_data=adapt)
        d.update(shape=shape, buf=buf, mesh_in=None)
    else:
        V = [(F(p[0]), F(p[1])) for p in inp["points"]]
        if mesh is None:
            vin = aa.Grid2DIrregular(values=[[float(p[0]), float(p[1])] for p in V])
            if inp.get("src") == "scaled": vin = aa.Grid2DIrregular(values=2.0 * np.array(vin)) * 0.5
            mesh_obj = aa.mesh.Delaunay()
            if rl and decoy is not None:
                mesh_obj.mapper_grids_from(mask=mask, source_plane_data_grid=decoy, source_plane_mesh_grid=vin, border_relocator=relocator)
            mg = mesh_obj.mapper_grids_from(mask=mask, source_plane_data_grid=src, source_plane_mesh_grid=vin, adapt_data=adapt, **kw)
        else:
            vin = None
            mg = aa.MapperGrids(mask=mask, source_plane_data_grid=src, source_plane_mesh_grid=mesh, adapt_data=adapt)
        d.update(V=V, mesh_in=vin)
    d["mg"] = mg
    if rl and rl.get("opt"):
        d["mapper"] = aa.Mapper(mapper_grids=mg, over_sampler=osr, regularization=reg, border_relocator=relocator)
    else:
        d["mapper"] = aa.Mapper(mapper_grids=mg, over_sampler=osr, regularization=reg)
    d["adapt"] = adapt
    d["held"] = [src, d["mesh_in"], adapt, osr.sub_size, mask, pre_obj]
    d["snap"] = snapshot(*d["held"])
    if rl:
        # the model-side inputs of the mapper are the arrays the mapper HOLDS (observed), the originals go to the relocation clause
        d["reloc"] = rl; d["orig"] = grid; d["grid"] = fpts(d["mapper"].source_plane_data_grid)
        d["sbs"] = [int(v) for v in relocator.sub_border_slim] if relocator is not None else []
        if inp["op"] == "del": d["origV"] = d["V"]; d["V"] = fpts(d["mapper"].source_plane_mesh_grid)
    return d

def mesh_api_wrap(d, coq):
    """KMeshApi: the relocation clause (original grids, relocator, preload) around the KRect / KDel case of the held grids"""
    rl = d["reloc"]
    rel = f"(Some ({cmask(d['m'])}, {cnl([int(s) for s in d['subs']])}))" if rl["relocator"] else "None"
    pre = f"(Some {cpts([(F(a), F(b)) for a, b in rl['preload']])})" if rl.get("preload") else "None"
    return f"(KMeshApi {rel} {cnl(d['sbs'])} {pre} {cpts(d['orig'])} {cpts(d.get('origV', []))} {coq})"

def mesh_api_py_checks(d):
    bad = []
    if fingerprint(d["defaults"]) != d["defaults_fp"]: bad.append("a shared default Preloads() object of the mesh API was modified")
    return bad

def oracle(d):
    dl = d["mapper"].delaunay
    indptr, indices = dl.vertex_neighbor_vertices
    return (im(dl.simplices), [int(x) for x in dl.find_simplex(np.array(d["mapper"].source_plane_data_grid))],
            [int(x) for x in indptr], [int(x) for x in indices])

def in_band(grid, shape, buf):
    """public rectangular pipeline: every cell-boundary decision must be at a margin (exact rational position in cell units)"""
    ys, xs = [p[0] for p in grid], [p[1] for p in grid]
    top, left = max(ys) + buf, min(xs) - buf
    h, w = (max(ys) - min(ys) + 2 * buf) / shape[0], (max(xs) - min(xs) + 2 * buf) / shape[1]
    return any(abs(u - round(u)) < MARGIN for (y, x) in grid for u in ((top - y) / h, (x - left) / w))

# ---- histories on one mapper object
def chop(op):
    k = op[0]
    if k == "sig": return f"(OSig {cnat(op[1])})"
    if k in ("regw", "regm"): return f"({'ORegW' if k == 'regw' else 'ORegM'} {cq(F(op[1]))} {cq(F(op[2]))} {cnat(op[3])})"
    return {"psw": "OPsw", "fields": "OFields", "mm": "OMat", "uq": "OUq", "nb": "ONb"}[k]
def chobs(k, o):
    if k in ("psw", "fields"): return f"(BPsw {cpsw(o)})"
    if k in ("mm", "regm"): return f"(BMat (Ok {cqm(o)}))"
    if k == "uq": return f"(BUq (Ok {cuq(o)}))"
    if k == "nb": return f"(BNb {cnb(o)})"
    return f"(BVec (Ok {cqv(o)}))"

def scribble(a):
    """the caller overwrites an array a method handed back (it must be the caller's own copy)"""
    try:
        a = np.asarray(a)
        if a.flags.writeable and a.size: a[...] = -7
    except Exception:
        pass

AUX = ["dwt", "m2s", "ssip", "ssipa", "pifs", "edge", "interp", "reg:Constant", "reg:ConstantZeroth", "reg:BrightnessZeroth",
       "reg:ConstantSplit", "reg:AdaptiveBrightnessSplit", "reg:GaussianKernel"]

def do_aux(aa, d, name):
    """other public calls on the mapper; their values are not C06's subject, they must leave the mapper's C06 observables alone"""
    mp = d["mapper"]
    if name == "dwt": scribble(mp.data_weight_total_for_pix_from())
    elif name == "m2s": scribble(mp.mapped_to_source_from(array=d["adapt"]))
    elif name == "ssip": mp.sub_slim_indexes_for_pix_index
    elif name == "ssipa": [scribble(x) for x in mp.sub_slim_indexes_for_pix_index_arr]
    elif name == "pifs": mp.pix_indexes_for_slim_indexes(pix_indexes=[0, mp.pixels - 1])
    elif name == "edge": mp.edge_pixel_list
    elif name == "interp": mp.interpolated_array_from(values=np.arange(mp.pixels, dtype=float), shape_native=(3, 4))
    elif name.startswith("reg:"):
        cls = name[4:]
        if "Split" in cls and d["kind"] == "rect": return
        R = {"Constant": lambda: aa.reg.Constant(coefficient=1.5), "ConstantZeroth": lambda: aa.reg.ConstantZeroth(1.0, 0.5),
             "BrightnessZeroth": lambda: aa.reg.BrightnessZeroth(coefficient=1.0, signal_scale=1.0),
             "ConstantSplit": lambda: aa.reg.ConstantSplit(coefficient=1.0),
             "AdaptiveBrightnessSplit": lambda: aa.reg.AdaptiveBrightnessSplit(1.0, 0.5, 1.0),
             "GaussianKernel": lambda: aa.reg.GaussianKernel(coefficient=1.0, scale=1.0)}[cls]()
        try:
            scribble(R.regularization_weights_from(linear_obj=mp))
            scribble(R.regularization_matrix_from(linear_obj=mp))
        except aa.exc.MeshException:
            # the Split schemes build a scipy Voronoi diagram of the vertices: it can fail on RELOCATED (non-lattice, nearly
            # cocircular) vertices; a perturber that does not apply, not C06's subject
            if "Split" not in cls or not d.get("reloc"): raise
            TALLY["aux_split_regularization_not_applicable"] = TALLY.get("aux_split_regularization_not_applicable", 0) + 1

def do_step(aa, d, op):
    mp = d["mapper"]; k = op[0]
    if k == "psw": return obs_psw(mp)
    if k == "fields": return obs_fields(mp)
    if k == "mm": return obs_mm(mp)
    if k == "uq": return obs_uq(mp)
    if k == "nb": return obs_nb(mp)
    if k == "sig":
        r = mp.pixel_signals_from(signal_scale=float(op[1])); o = [frac(x) for x in r]; scribble(r); return o
    own = d["regp"] == [op[1], op[2], op[3]]
    reg = mp.regularization if own else aa.reg.AdaptiveBrightness(inner_coefficient=float(F(op[1])), outer_coefficient=float(F(op[2])),
                                                                  signal_scale=float(op[3]))
    if k == "regw":
        r = reg.regularization_weights_from(linear_obj=mp); o = [frac(x) for x in r]; scribble(r); return o
    if k == "regm":
        r = mp.regularization_matrix if own else reg.regularization_matrix_from(linear_obj=mp)
        o = fm(r); scribble(r); return o
    raise ValueError(k)

def run_hist(aa, inp):
    bases = [inp["base"]] + ([inp["twin"]] if inp.get("twin") else [])
    def skip(why):
        SKIPPED["in_band"] += 1
        return {"coq": None, "out": "skipped: " + why, "py_ok": None, "nontrivial": False, "kind": "hist:skipped_in_band"}
    if any(b["op"] == "rect" and b["mode"] == "public" and not b.get("reloc")
           and in_band([(F(p[0]), F(p[1])) for p in b["grid"]], tuple(b["shape"]), F(b["buffer"])) for b in bases):
        return skip("a point within the decision band of a cell boundary")
    regp = inp["reg"]
    reg = aa.reg.AdaptiveBrightness(inner_coefficient=float(F(regp[0])), outer_coefficient=float(F(regp[1])), signal_scale=float(regp[2]))
    ds = []
    for j, b in enumerate(bases):
        first = ds[0] if ds else None
        mask = first["mask"] if first else None
        av = np.array([float(F(x)) for x in inp["adapt"][j]])
        if mask is None: mask = aa.Mask2D(mask=np.array(b["m"], dtype=bool), pixel_scales=1.0)
        # adapt image: a fresh Array2D or one derived by arithmetic
        adapt = aa.Array2D(values=2.0 * av, mask=mask) * 0.5 if inp.get("adapt_derived") else aa.Array2D(values=av, mask=mask)
        assert np.array_equal(np.array(adapt), av)
        if first is None:
            osr = aa.OverSamplerUniform(mask=mask, sub_size=sub_size_map(aa, b, mask))
        else:
            osr = first["osr"]
        mesh = first["mg"].source_plane_mesh_grid if (first and b["op"] == "del" and inp.get("share_mesh")) else None
        d = make_mapper(aa, b, mask=mask, osr=osr, adapt=adapt, reg=reg, mesh=mesh)
        d["regp"] = regp; d["steps"] = []; d["advals"] = [F(x) for x in inp["adapt"][j]]
        if b.get("reloc"):
            ref_held, ref_V, band, moved, vmoved = reloc_reference(d)
            if band or (b["op"] == "rect" and in_band(ref_held, tuple(b["shape"]), F(b["buffer"]))) \
               or (b["op"] == "del" and del_band(ref_held, ref_V, d["ref_src"], d["origV"])):
                return skip("a relocation / cell-boundary / simplex-edge decision of a mapper built through the mesh API inside its band")
            d["moved"] = moved + vmoved
        ds.append(d)
    trace = []
    for item in inp["sched"]:
        who, op = item[0], item[1:]
        d = ds[who if who < len(ds) else 0]
        if op[0] == "aux":
            do_aux(aa, d, op[1]); trace.append(f"{who}:aux:{op[1]}")
        else:
            o = do_step(aa, d, op)
            d["steps"].append((op, o)); trace.append(f"{who}:{op[0]}")
    cases = []
    api_cases = []
    ok_inputs = True
    py_bad = []
    for d in ds:
        if not unchanged(d["snap"], *d["held"]): ok_inputs = False
        # closing sweep: whatever ran after the last reading of an observable, the object still answers the same
        last = {}
        for op, o in d["steps"]:
            if op[0] in OBS: last["psw" if op[0] == "fields" else op[0]] = o
        final = {}
        for k, f in (("psw", obs_psw), ("mm", obs_mm), ("uq", obs_uq), ("nb", obs_nb)):
            final[k] = f(d["mapper"])
            if k in last and final[k] != last[k]:
                py_bad.append(f"{k} read again at the end of the history differs from its previous reading on the same mapper object")
        if d.get("reloc"):
            # the relocation clause for the mapper of this history (with the closing readings as its observation)
            py_bad += mesh_api_py_checks(d)
            if d["kind"] == "rect":
                mesh = d["mapper"].source_plane_mesh_grid
                mesh_o = [frac(mesh.pixel_scales[0]), frac(mesh.pixel_scales[1]), frac(mesh.origin[0]), frac(mesh.origin[1])]
                k0 = (f"(KRect {cq(TOL)} {cmask(d['m'])} {cnl(d['subs'])} {cpts(d['grid'])} ({cz(d['shape'][0])}, {cz(d['shape'][1])}) {cq(d['buf'])} "
                      f"{ctup([cq(x) for x in mesh_o])} {cpsw(final['psw'])} {cqm(final['mm'])} {cuq(final['uq'])} {cnb(final['nb'])})")
            else:
                simplices, simplex_for, indptr, indices = oracle(d)
                k0 = (f"(KDel {cq(TOL)} {cmask(d['m'])} {cnl(d['subs'])} {cpts(d['grid'])} {cpts(d['V'])} {czm(simplices)} {czl(simplex_for)} "
                      f"{czl(indptr)} {czl(indices)} {cpsw(final['psw'])} {cqm(final['mm'])} {cuq(final['uq'])} {cnb(final['nb'])})")
            api_cases.append(mesh_api_wrap(d, k0))
            TALLY["history_mappers_built_through_the_mesh_api"] = TALLY.get("history_mappers_built_through_the_mesh_api", 0) + 1
        steps = clist([f"({chop(op)}, {chobs(op[0], o)})" for op, o in d["steps"]])
        if d["kind"] == "rect":
            tol = F(0) if d["mapper"] is not None and bases[ds.index(d)]["mode"] == "exact" else TOL
            cases.append(f"(KHistRect {cq(tol)} {cq(TOL)} {cmask(d['m'])} {cnl(d['subs'])} {cpts(d['grid'])} "
                         f"({cz(d['shape'][0])}, {cz(d['shape'][1])}) {cq(d['buf'])} {cqv(d['advals'])} {steps})")
        else:
            simplices, simplex_for, indptr, indices = oracle(d)
            cases.append(f"(KHistDel {cq(TOL)} {cq(TOL)} {cmask(d['m'])} {cnl(d['subs'])} {cpts(d['grid'])} {cpts(d['V'])} {czm(simplices)} "
                         f"{czl(simplex_for)} {czl(indptr)} {czl(indices)} {cqv(d['advals'])} {steps})")
    TALLY["history_steps"] = TALLY.get("history_steps", 0) + len(inp["sched"])
    TALLY["history_mappers"] = TALLY.get("history_mappers", 0) + len(ds)
    firstop = next((t.split(":", 1)[1] for t in trace), "")
    if not ok_inputs: py_bad.append("an array handed to the mapper (source grid / mesh grid / adapt_data / sub_size / mask) was modified")
    return {"coq": cases[0], "extra_coq": cases[1:] + api_cases, "out": {"trace": trace, "inputs_left_unchanged": ok_inputs, "py_checks_failed": py_bad},
            "py_ok": False if py_bad else None, "nontrivial": True, "detail": "; ".join(py_bad) or None,
            "kind": "hist:" + bases[0]["op"] + (":api" if bases[0].get("reloc") else "") + (":twin" if len(ds) > 1 else "") + (":signals_first" if firstop.split(":")[0] in ("sig", "regw", "regm") else "")}

def run_case(inp):
    aa = import_aa()
    op = inp["op"]
    if op == "hist": return run_hist(aa, inp)
    r = run_case_base(aa, inp)
    if r.get("coq") and not r.pop("wrapped", False): r["coq"] = "(KBase " + r["coq"] + ")"
    return r

def run_case_base(aa, inp):
    op = inp["op"]
    if op == "rectnb":
        H, W = inp["H"], inp["W"]
        if inp["via"] == "util":
            arr, sizes = aa.util.mesh.rectangular_neighbors_from(shape_native=(H, W))
        else:
            mesh = aa.Mesh2DRectangular.overlay_grid(shape_native=(H, W), grid=np.array([[0.0, 0.0], [1.0, 2.0]]))
            arr, sizes = np.asarray(mesh.neighbors), mesh.neighbors.sizes
        out = (im(arr), [int(x) for x in sizes])
        return {"coq": f"(KRectNb {cz(H)} {cz(W)} {cnb(out)})", "out": {"sizes": out[1][:12]}, "py_ok": None,
                "nontrivial": True, "kind": "rectnb"}
    if op == "sfs":
        m, subs = inp["m"], inp["subs"]
        from autoarray.operators.over_sampling import over_sample_util
        if inp["via"] == "util":
            r = over_sample_util.slim_index_for_sub_slim_index_via_mask_2d_from(mask_2d=np.array(m, dtype=bool), sub_size=np.array(subs))
        elif inp["via"] == "radial_bins":
            # the library's own adaptive constructor (it yields a float-valued sub-size map); which pixel gets which sub-size is
            # C09's subject: here the map is read back and only the sub-pixel -> pixel index map is checked
            mask = aa.Mask2D(mask=np.array(m, dtype=bool), pixel_scales=1.0)
            grid = aa.Grid2D.from_mask(mask=mask)
            osg = aa.OverSamplingUniform.from_radial_bins(grid=grid, sub_size_list=inp["sub_size_list"],
                                                          radial_list=[float(F(x)) for x in inp["radial"]])
            osr = osg.over_sampler_from(mask=mask)
            subs = [int(x) for x in np.array(osr.sub_size)]
            r = osr.slim_for_sub_slim
        else:
            mask = aa.Mask2D(mask=np.array(m, dtype=bool), pixel_scales=1.0)
            vals = [float(x) for x in subs] if inp["via"] == "sampler_float" else subs
            r = aa.OverSamplerUniform(mask=mask, sub_size=aa.Array2D(values=vals, mask=mask)).slim_for_sub_slim
        out = [int(x) for x in r]
        return {"coq": f"(KSlimForSub {cmask(m)} {cnl(subs)} {cnl(out)})", "out": out[:40], "py_ok": None,
                "nontrivial": len(subs) > 1, "kind": "sfs:" + inp["via"]}
    if op == "matrix":
        mp, sz, wt = inp["mp"], inp["sz"], [[F(x) for x in r] for r in inp["wt"]]
        fr = [F(x) for x in inp["fr"]]
        try:
            r = aa.util.mapper.mapping_matrix_from(
                pix_indexes_for_sub_slim_index=np.array(mp, dtype=int), pix_size_for_sub_slim_index=np.array(sz, dtype=int),
                pix_weights_for_sub_slim_index=np.array([[float(x) for x in r] for r in wt]), pixels=inp["P"],
                total_mask_pixels=inp["N"], slim_index_for_sub_slim_index=np.array(inp["sfs"], dtype=int),
                sub_fraction=np.array([float(x) for x in fr]))
            out = ("ok", fm(r))
        except Exception as e:
            out = ("raise", exn_name(e))
        coq = (f"(KMatrix {czm(mp)} {cnl(sz)} {cqm(wt)} {cnat(inp['P'])} {cnat(inp['N'])} {cnl(inp['sfs'])} {cqv(fr)} "
               + cres(out, cqm) + ")")
        return {"coq": coq, "out": str(out)[:300], "py_ok": None, "nontrivial": out[0] == "ok" and sum(sz) > 1, "kind": "matrix:" + out[0]}
    if op == "unique":
        mp, sz, wt = inp["mp"], inp["sz"], [[F(x) for x in r] for r in inp["wt"]]
        subs = inp["subs"]
        try:
            a, b, c = aa.util.mapper.data_slim_to_pixelization_unique_from(
                data_pixels=len(subs), pix_indexes_for_sub_slim_index=np.array(mp, dtype=int),
                pix_sizes_for_sub_slim_index=np.array(sz, dtype=int),
                pix_weights_for_sub_slim_index=np.array([[float(x) for x in r] for r in wt]), pix_pixels=inp["P"],
                sub_size=np.array(subs, dtype=int))
            out = ("ok", (im(a), fm(b), [int(x) for x in c]))
        except Exception as e:
            out = ("raise", exn_name(e))
        coq = f"(KUnique {czm(mp)} {cnl(sz)} {cqm(wt)} {cnat(inp['P'])} {cnl(subs)} " + cres(out, cuq) + ")"
        return {"coq": coq, "out": str(out)[:300], "py_ok": None, "nontrivial": out[0] == "ok" and sum(sz) > 1, "kind": "unique:" + out[0]}
    if op in ("rect", "del"):
        grid0 = [(F(p[0]), F(p[1])) for p in inp["grid"]]
        api = bool(inp.get("reloc"))
        def skip(why, kind):
            SKIPPED["in_band"] += 1
            return {"coq": None, "out": "skipped: " + why, "py_ok": None, "nontrivial": False, "kind": kind}
        if op == "rect" and not api and inp["mode"] != "exact" and in_band(grid0, tuple(inp["shape"]), F(inp["buffer"])):
            return skip("a point within the decision band of a cell boundary", "rect:skipped_in_band")
        d = make_mapper(aa, inp)
        if api:
            # decision bands of a mapper built through the mesh API, on the REFERENCE relocation (not on what came back)
            ref_held, ref_V, band, moved, vmoved = reloc_reference(d)
            if band: return skip("a relocation decision (radius vs border radius) inside C18's band", op + ":api:skipped_in_band")
            if op == "rect" and in_band(ref_held, tuple(inp["shape"]), F(inp["buffer"])):
                return skip("a relocated point within the decision band of a cell boundary", "rect:api:skipped_in_band")
            if op == "del" and del_band(ref_held, ref_V, d["ref_src"], d["origV"]):
                return skip("relocated vertices nearly degenerate / a relocated point within 1e-9 of a simplex edge", "del:api:skipped_in_band")
            TALLY["mesh_api_cases"] = TALLY.get("mesh_api_cases", 0) + 1
            TALLY["mesh_api_sub_pixels_moved_by_the_relocator"] = TALLY.get("mesh_api_sub_pixels_moved_by_the_relocator", 0) + moved
            TALLY["mesh_api_vertices_moved_by_the_relocator"] = TALLY.get("mesh_api_vertices_moved_by_the_relocator", 0) + vmoved
            TALLY["mesh_api_preloaded"] = TALLY.get("mesh_api_preloaded", 0) + bool(inp["reloc"].get("preload"))
            tag = ":api" + (":moved" if moved or vmoved else "") + (":preload" if inp["reloc"].get("preload") else "") \
                  + ("" if inp["reloc"]["relocator"] else ":no_relocator")
        else:
            tag = ""
        mapper, m, subs, grid = d["mapper"], d["m"], d["subs"], d["grid"]
        psw, M, uq, nb = observe(mapper)
        # the same object asked again (and through the per-field accessors) answers the same; the arrays handed in are left alone
        again = observe(mapper)
        py_bad = []
        if again != (psw, M, uq, nb) or obs_fields(mapper) != psw: py_bad.append("a second reading of the same mapper object differs from the first")
        if not unchanged(d["snap"], *d["held"]): py_bad.append("an array handed to the mapper was modified")
        if api: py_bad += mesh_api_py_checks(d)
        TALLY["float_sub_size_cases"] += bool(inp.get("fsub"))
        TALLY["source_grid_kinds"][inp.get("src", "plain")] = TALLY["source_grid_kinds"].get(inp.get("src", "plain"), 0) + 1
        big = max(abs(c) for p in grid for c in p)
        TALLY["coordinate_magnitudes"]["<1e-6" if big < F(1, 10 ** 6) else ">1e4" if big > 10 ** 4 else "order_1"] += 1
    if op == "rect":
        shape, buf = d["shape"], d["buf"]
        exact = inp["mode"] == "exact"
        mesh = d["mg"].source_plane_mesh_grid
        mesh_o = [frac(mesh.pixel_scales[0]), frac(mesh.pixel_scales[1]), frac(mesh.origin[0]), frac(mesh.origin[1])]
        TALLY["rect_points"] += len(grid); TALLY["non_square_meshes"] += shape[0] != shape[1]
        for sv in subs: TALLY["sub_sizes"][str(sv)] = TALLY["sub_sizes"].get(str(sv), 0) + 1
        ys, xs = [p[0] for p in grid], [p[1] for p in grid]
        h_, w_ = (max(ys) - min(ys) + 2 * buf) / shape[0], (max(xs) - min(xs) + 2 * buf) / shape[1]
        for (y, x) in grid:
            u, v = (max(ys) + buf - y) / h_, (x - min(xs) + buf) / w_
            TALLY["rect_points_exactly_on_a_cell_boundary"] += (u.denominator == 1 or v.denominator == 1)
            TALLY["rect_points_in_last_row_or_column"] += (u >= shape[0] - 1 or v >= shape[1] - 1)
        tol = F(0) if exact else TOL
        coq = (f"(KRect {cq(tol)} {cmask(m)} {cnl(subs)} {cpts(grid)} ({cz(shape[0])}, {cz(shape[1])}) {cq(buf)} "
               f"{ctup([cq(x) for x in mesh_o])} {cpsw(psw)} {cqm(M)} {cuq(uq)} {cnb(nb)})")
        used = len({r[0] for r in psw[0]})
        if api: coq = mesh_api_wrap(d, coq)
        return {"coq": coq, "wrapped": api, "out": describe(psw, M), "py_ok": False if py_bad else None, "detail": "; ".join(py_bad) or None,
                "nontrivial": used > 1, "kind": "rect:" + inp["mode"] + tag + (":float_sub_size" if inp.get("fsub") else "")}
    if op == "del":
        V = d["V"]
        simplices, simplex_for, indptr, indices = oracle(d)
        coq = (f"(KDel {cq(TOL)} {cmask(m)} {cnl(subs)} {cpts(grid)} {cpts(V)} {czm(simplices)} {czl(simplex_for)} "
               f"{czl(indptr)} {czl(indices)} {cpsw(psw)} {cqm(M)} {cuq(uq)} {cnb(nb)})")
        TALLY["del_points"] += len(grid); TALLY["del_points_outside_hull"] += sum(1 for t in simplex_for if t == -1)
        TALLY["del_points_on_an_edge_or_vertex"] += sum(1 for r, n in zip(psw[2], psw[1]) if n == 3 and any(x == 0 for x in r))
        kinds = ("outside" if -1 in simplex_for else "") + ("inside" if any(s >= 0 for s in simplex_for) else "")
        if api: coq = mesh_api_wrap(d, coq)
        return {"coq": coq, "wrapped": api, "out": describe(psw, M), "py_ok": False if py_bad else None, "detail": "; ".join(py_bad) or None,
                "nontrivial": len(grid) > 1, "kind": "del:" + kinds + tag + (":float_sub_size" if inp.get("fsub") else "")}
    raise ValueError(op)
