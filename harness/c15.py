"""C15 -- preloaded and cached intermediate results never change inversion outputs."""
import itertools, pickle
import numpy as np
from fractions import Fraction
from harness.common import cz, cq, cnat, cbool, clist, copt, import_aa, frac, call_res

ID = "C15"
GEN = []
PROPS = "Props/C15.v"
COQ_CHECK = ("Model.C15", "check")
COQ_FALLBACK = None
COQ_IMPORTS = ""
SHARD = 12
RULE = ("aa.Inversion(dataset, linear_obj_list, settings, preloads=Preloads(...)) against the same call without preloads, and "
        "Preloads.set_*(fit_0, fit_1) followed by such inversions. Datasets: masks with 3-10 unmasked pixels of any shape in 4x4..6x6 frames "
        "(pixel scales isotropic or anisotropic, origin shifted or not), signed integer data x 2^a (a in {0,-30,20}), noise in {1/2,1,2,4} x 2^b "
        "(b in {0,-3,5}), signed integer PSFs 1x1/1x3/3x1/3x3 (not normalised), arrays built directly or by Array2D arithmetic; 1-4 linear objects "
        "in every order mixing rectangular mappers (mesh 2x2..3x3, sub-size 1/2, Constant regularization of several coefficients or none) and "
        "function lists (1-2 columns x 2^g, g in {0,-27,10}, with / without operated_mapping_matrix_override, with / without regularization); both "
        "formalisms (settings.use_w_tilde and the Preloads use_w_tilde slot), both solvers, default and dyadic diagonal term, "
        "force_edge_pixels_to_zeros / positive_only_uses_p_initial, one settings object per inversion or ONE shared by all. "
        "'hist' cases: a random subset of the 11 consulted slots filled from a separate fresh inversion (private copies, or the very arrays / "
        "dicts of that inversion), 1-4 successive inversions sharing the Preloads object, each reading a random sequence of 16 attributes; "
        "variants: 'twin' = a second dataset (other data, noise, PSF) on the SAME linear objects with inversions interleaved, with its own "
        "Preloads object or the same one re-populated before every inversion; 'edits' = slots cleared / refilled between inversions. Outputs, "
        "oracle tables and the final content of every slot go to Coq (one KHist case per segment); every inversion is also compared in Python "
        "with a fresh inversion reading the same attributes, all caller inputs and the factories' default-argument objects are fingerprinted. "
        "'sets' cases: two real inversions wrapped in MockFitImaging (fit_1 identical / other data / other noise / other function objects; "
        "fit_0 optionally using preloads itself; attributes of fit_0's inversion read before and AFTER), a random order / subset / repetition "
        "of the five set_* methods; the filled Preloads object, which calls raised, fit_0's reads and the fresh values of the filled slots go to "
        "Coq (KSet), followed by a history that uses the Preloads object (KHist); directed sub-streams reproduce defects 1fc8a9b and f780999. "
        "'subsets' cases (Python level): ALL subsets of the available slots x 2 inversions, byte fingerprints of every preloaded array. "
        "'grid' cases (Python level, deterministic structure in every seed): every position structure fm / mf / mfm / fmf / mff / ffm / "
        "mmf / fmm / mm / mfmf / fmfm / ffmm (neighbouring mappers with different parameter counts, function lists with distinct matrices "
        "and alternately equal / different column counts, overrides) x {w-tilde class, mapping class, preloads of the mapping class against "
        "the w-tilde inversion without preloads} x {no slot, every slot alone, 10 interacting pairs, all but one, all; all as aliases of the "
        "producing inversion} x 2 inversions reading 20 attributes (the 15 modelled + the per-object dictionaries mapped_reconstructed_"
        "data_dict / reconstruction_dict / mapped_reconstructed_image_dict with their keys, mapped_reconstructed_image) in rotated and "
        "reversed orders; the Preloads object must come back unwritten. 'sets' grid (Python level): the same structures through "
        "Preloads.set_* with fit_1 identical / other function objects AND other data / another number of parameters / other noise. "
        "Kinds on a deterministic schedule (and at random in the Coq-checked streams): dataset = Imaging or DatasetInterface (its own noise "
        "map, scaled per pixel with pixel 0 kept, and its own w_tilde; the fit's dataset keeps the unscaled noise map), entry point = "
        "aa.Inversion / inversion_imaging_from / the class constructor (default preloads argument), trivial subclasses of Preloads, "
        "SettingsInversion, the mapper, the function list and the regularization, int64- / float32-typed function matrices and overrides. "
        "Fingerprints also cover the linear_obj_list object, the regularization objects, each mapper's unique-mapping arrays, dataset.w_tilde "
        "and the default-argument objects of the two factories and the four class constructors. NO preloaded array may change (95fc1c6). "
        "'noise' cases: a preloaded w_tilde whose noise_map_value differs. Comparisons are relative to the scale of the expected value. "
        "Non-trivial = at least one slot filled and at least one mapper; distinct = distinct JSON input.")
EXHAUSTIVE = {"quick": "per 'subsets' case: all subsets of the slots available for that object mix (up to 2^10), 2 inversions each",
              "thorough": "per 'subsets' case: all subsets of the slots available for that object mix (up to 2^10), 3 inversions each"}
TRUSTED = ["hand-written Gallina model coq/Model/C15.v (follows /repo 95fc1c6; slot look-ups, cache, references/aliases into the Preloads object, in-place "
           "statements, the five Preloads.set_* methods) tied to /repo by this correspondence run: the model is executed at Q with dense "
           "reference semantics of the numeric kernels (C = convolver applied to the identity, W = P + P^T expanded from the w-tilde triple); "
           "the comparison is evaluated inside Coq by vm_compute",
           "coq/Model/C15k.v: the kernel record instantiated with the C04/C03 models (theorems 9-12 are about those; their tie to /repo is "
           "C04's and C03's own correspondence run)",
           "oracle tables (execution device only): reconstruction, log det of the curvature-reg matrix and of the regularization matrix "
           "are looked up by their computed arguments in tables recorded from a separate inversion without preloads",
           "Python reference semantics (attribute = reference; numpy slice assignment and += write the referenced array)",
           "doubles: inputs are small integers / dyadic rationals (scaled by powers of two), so operated matrices, data vector and curvature "
           "matrix are exact and compared entry-wise relative (1e-9); solved vectors relative to their largest entry, the regularization term "
           "relative to its rounding scale, log-determinants with 1 + |x|; the set_* decisions max|a-b| < 1e-8 see differences 0, 2^-30 or >= 2^-20"]
ASSUMPTIONS = ["slot values are those a fresh inversion computes from the identical dataset and objects (hand-filled), or whatever "
               "Preloads.set_* store from two fits (production path)",
               "imaging inversions only (the interferometer classes consult the same AbstractInversion slots; not exercised)",
               "theorems 9-12: rectangular mask, Convolver.__init__ succeeded, strictly positive noise, each mapper's unique-mapping encoding "
               "stands for its mapping matrix (C07), the solver returns one value per parameter, the w_tilde objects hold the preload of this "
               "noise map and PSF"]

SLOTS = ["w_tilde", "operated_mapping_matrix", "linear_func_operated_mapping_matrix_dict", "data_linear_func_matrix_dict",
         "mapper_operated_mapping_matrix_dict", "curvature_matrix", "data_vector_mapper", "curvature_matrix_mapper_diag",
         "regularization_matrix", "log_det_regularization_matrix_term"]
ATTR = {"QLf": "linear_func_operated_mapping_matrix_dict", "QMomm": "mapper_operated_mapping_matrix_dict",
        "QOmm": "operated_mapping_matrix", "QDv": "data_vector", "QCurv": "curvature_matrix", "QReg": "regularization_matrix",
        "QRegRed": "regularization_matrix_reduced", "QCrm": "curvature_reg_matrix", "QCrmRed": "curvature_reg_matrix_reduced",
        "QRec": "reconstruction", "QRecRed": "reconstruction_reduced", "QMapped": "mapped_reconstructed_data",
        "QRegTerm": "regularization_term", "QLdc": "log_det_curvature_reg_matrix_term", "QLdr": "log_det_regularization_matrix_term"}
KIND = {"QLf": "L", "QMomm": "L", "QOmm": "M", "QDv": "V", "QCurv": "M", "QReg": "M", "QRegRed": "M", "QCrm": "M", "QCrmRed": "M",
        "QRec": "RV", "QRecRed": "RV", "QMapped": "RV", "QRegTerm": "RT", "QLdc": "RT", "QLdr": "RT"}
STD = ["QDv", "QCurv", "QReg", "QCrm", "QCurv", "QRec", "QMapped", "QRegTerm", "QLdc", "QLdr", "QOmm", "QRecRed", "QCrmRed",
       "QRegRed", "QLf", "QMomm"]

# ----------------------------------------------------------------------------------------------- generators
PSFS = [[[1]], [[2]], [[1, 2, -1]], [[1], [2], [1]], [[0, 1, 0], [1, 2, 1], [0, -1, 0]], [[1, 0, -1], [2, 1, 0], [0, 1, 1]]]
MIXES = ["m", "mm", "mf", "fm", "mfm", "fmf", "mff", "mfmf", "f", "ff", "mmm"]

def gen_base(rng, mix=None):
    H, W = rng.randint(4, 6), rng.randint(4, 6)
    cells = [(y, x) for y in range(1, H - 1) for x in range(1, W - 1)]
    k = rng.randint(3, min(10, len(cells)))
    un = set(rng.sample(cells, k))
    mask = [[(y, x) not in un for x in range(W)] for y in range(H)]
    data = [[rng.randint(-3, 6) for _ in range(W)] for _ in range(H)]
    noise = [[rng.choice(["1/2", "1", "2", "4"]) for _ in range(W)] for _ in range(H)]
    mix = mix or rng.choice(MIXES)
    objs = []
    for c in mix:
        if c == "m":
            objs.append({"k": "m", "shape": rng.choice([[2, 2], [2, 3], [3, 2], [3, 3], [3, 3]]), "sub": rng.choice([1, 1, 2]),
                         "coef": rng.choice(["1", "1", "2", "1/2", None])})
        else:
            objs.append({"k": "f", "p": rng.choice([1, 2]), "seed": rng.randrange(10 ** 6), "ovr": rng.random() < 0.3,
                         "coef": rng.choice([None, None, None, "1"])})
    return {"mask": mask, "data": data, "noise": noise, "psf": rng.choice(PSFS), "objs": objs,
            "use_w_tilde": rng.random() < 0.7, "pos": rng.random() < 0.4, "eps": rng.choice([None, "1/1024", "1/4"])}

SCALES = [[-30, 0, 0], [20, 0, 0], [0, -27, 0], [0, 10, 0], [0, 0, -3], [0, 0, 5], [-30, -27, 0], [20, 10, -3], [-30, 0, 5]]
def gen_env(rng, b, plain=0.5):
    """value ranges / geometry / configuration / object-sharing variants (all defaults = the phase-1 stream)"""
    if rng.random() < plain: return b
    if rng.random() < 0.6: b["sc"] = rng.choice(SCALES)              # data x 2^a, function columns x 2^g, noise x 2^b
    if rng.random() < 0.4:
        b["px"] = rng.choice([["1", "1/2"], ["1/2", "2"], ["1/4", "1/4"]]); b["origin"] = rng.choice([["0", "0"], ["1/2", "-1"], ["-3", "2"]])
    if rng.random() < 0.3: b["derived"] = True                       # dataset arrays are results of arithmetic
    if rng.random() < 0.6: b["share"] = True                         # ONE settings object for every inversion of the case
    if rng.random() < 0.3: b["st"] = {"edge0": rng.random() < 0.5, "pinit": rng.choice([None, True, False])}
    if rng.random() < 0.35: b["alias"] = True                        # slots hold the very arrays / dicts of the producing inversion
    gen_kinds(rng, b)
    return b

def gen_kinds(rng, b, p=0.3):
    """entry points, dataset / argument / linear-object KINDS (values and expected outputs are unchanged by all of them)"""
    if rng.random() < p: b["iface"] = rng.choice(["plain", "scaled"])      # a DatasetInterface (own noise map and w_tilde) instead of Imaging
    if rng.random() < p: b["entry"] = rng.choice(["imaging_from", "class"])  # inversion_imaging_from / the class constructor, not aa.Inversion
    if rng.random() < p: b["subcls"] = True                                  # Preloads, SettingsInversion, mapper, function list, regularization: subclasses
    if rng.random() < p:
        for o in b["objs"]:
            if o["k"] == "f": o["idt"] = rng.choice(["int", "f32", None])    # integer- / float32-typed function matrices
    return b

def gen_hist(rng):
    hist = []
    for _ in range(rng.randint(1, 4)):
        if rng.random() < 0.5: qs = list(STD)
        else:
            qs = [rng.choice(list(ATTR)) for _ in range(rng.randint(1, 8))]
        hist.append(qs)
    if rng.random() < 0.5 and len(hist) > 1: hist[1] = list(hist[0])
    return hist

def gen_twin(rng, b):
    """a second dataset on the same mask and the SAME linear objects: other data, noise and PSF"""
    H, W = len(b["mask"]), len(b["mask"][0])
    return {"data": [[rng.randint(-3, 6) for _ in range(W)] for _ in range(H)],
            "noise": [[rng.choice(["1/2", "1", "2", "4"]) for _ in range(W)] for _ in range(H)],
            "psf": rng.choice([q for q in PSFS if q != b["psf"]]),
            "slots": [s for s in SLOTS if rng.random() < 0.5],
            # ONE Preloads object for both datasets, re-populated (as Preloads.set_* does) before every inversion
            "same_pre": rng.random() < 0.5}

def gen_edits(rng, hist):
    """the user re-populates the shared Preloads object between two inversions (as a later Preloads.set_* call does)"""
    ed = [None]
    for _ in hist[1:]:
        ed.append({"clear": [s for s in SLOTS if rng.random() < 0.3], "fill": [s for s in SLOTS if rng.random() < 0.3]}
                  if rng.random() < 0.7 else None)
    return ed

GRID_MIXES = ["fm", "mf", "mfm", "fmf", "mff", "ffm", "mmf", "fmm", "mm", "mfmf", "fmfm", "ffmm"]
GRID_PAIRS = [("linear_func_operated_mapping_matrix_dict", "data_linear_func_matrix_dict"),
              ("linear_func_operated_mapping_matrix_dict", "mapper_operated_mapping_matrix_dict"),
              ("data_linear_func_matrix_dict", "mapper_operated_mapping_matrix_dict"),
              ("data_vector_mapper", "curvature_matrix_mapper_diag"), ("curvature_matrix", "regularization_matrix"),
              ("operated_mapping_matrix", "data_vector_mapper"), ("operated_mapping_matrix", "linear_func_operated_mapping_matrix_dict"),
              ("w_tilde", "curvature_matrix_mapper_diag"), ("mapper_operated_mapping_matrix_dict", "curvature_matrix_mapper_diag"),
              ("regularization_matrix", "log_det_regularization_matrix_term")]
def func_matrix(o, npix): return np.random.RandomState(o["seed"]).randint(-2, 4, size=(npix, o["p"]))
def gen_structured(rng, mix, j):
    """a base input whose STRUCTURE is deterministic: every mapper has another number of parameters than its neighbour, the
    function lists have distinct matrices (alternately the same / different numbers of columns), so that a value taken from the
    wrong object, a column offset counted over the wrong class of objects or an index of the wrong list changes the outputs"""
    b = gen_base(rng, mix)
    npix = sum(1 for r in b["mask"] for v in r if not v)
    shapes = [[[2, 2], [3, 2]], [[2, 3], [2, 2]], [[3, 3], [2, 3]]][j % 3]
    ps = [[1, 2], [2, 1], [1, 1], [2, 2]][j % 4]
    mi = fi = 0; fs = []
    for o in b["objs"]:
        if o["k"] == "m":
            o["shape"] = shapes[mi % 2]; mi += 1
            o["coef"] = rng.choice(["1", "2", "1/2"]) if mi == 1 else rng.choice(["1", "2", None])
        else:
            o["p"] = ps[fi % 2]; fi += 1
            o["ovr"] = (j // 2) % 2 == 0 if fi == 1 else (j // 2) % 2 == 1 or rng.random() < 0.5
            o["coef"] = "1" if (rng.random() < 0.15) else None
            while any(np.array_equal(func_matrix(o, npix)[:, 0], func_matrix(q, npix)[:, 0]) for q in fs): o["seed"] += 1
            fs.append(o)
    return b
def set_kinds(b, i, r0):
    """the entry point / dataset kind / subclass / dtype variants on a deterministic schedule (shifted by r0 from seed to seed)"""
    j = i + i // len(GRID_MIXES) + r0
    for k, v in (("iface", [None, "plain", "scaled"][j % 3]), ("entry", [None, "imaging_from", "class", None][j % 4]),
                 ("subcls", [True, False, True, False, False][j % 5] or None)):
        if v: b[k] = v
        else: b.pop(k, None)
    idt = [None, "int", None, "f32", "int", None, None][j % 7]
    first = True
    for o in b["objs"]:
        if o["k"] == "f":
            o["idt"] = idt
            if idt and first: o["ovr"] = True; first = False     # the typed matrix itself reaches the dictionaries (no convolution)
    if idt and b.get("sc") and b["sc"][1] < 0: b["sc"] = [b["sc"][0], 0, b["sc"][2]]
    return b
def gen_grid(rng, n, start=0):
    """every slot x {function list before / after / between mappers, >= 2 function lists, >= 2 mappers} x {w-tilde class, mapping
    class, preloads made by / consumed in the mapping class while the inversion without preloads is of the w-tilde class}"""
    r0 = rng.randrange(420)
    for i in range(start, start + n):
        mix = GRID_MIXES[i % len(GRID_MIXES)]; mode = ["wt", "map", "cross"][(i // len(GRID_MIXES)) % 3]
        b = gen_structured(rng, mix, i // len(GRID_MIXES) + i % len(GRID_MIXES))
        b["op"] = "grid"; b["tag"] = mode
        b["use_w_tilde"] = mode != "map"
        b["pre_use_wt"] = False if mode == "cross" else rng.choice([None, None, True]) if mode == "wt" else rng.choice([None, True, False])
        if mode == "map":
            for o in b["objs"]:
                if o["k"] == "f" and i % 2 == 0: o["ovr"] = True     # the mapping class reads the function dictionary for overrides only
        if rng.random() < 0.4: b["sc"] = rng.choice(SCALES)
        if rng.random() < 0.3:
            b["px"] = rng.choice([["1", "1/2"], ["1/2", "2"]]); b["origin"] = rng.choice([["0", "0"], ["1/2", "-1"]])
        if rng.random() < 0.5: b["share"] = True
        yield set_kinds(b, i, r0)
def gen_sets_grid(rng, n, start=0):
    """Preloads.set_* on the same structures (python-level comparisons only): fit_1 identical (whole-matrix slots and both function
    dictionaries are stored) or with other function objects AND other data (the mapper-only slots are stored)"""
    r0 = rng.randrange(420)
    for i in range(start, start + n):
        k = i // 2
        mix = GRID_MIXES[k % len(GRID_MIXES)]; mode = ["wt", "map", "cross"][(k // len(GRID_MIXES)) % 3]
        b = gen_structured(rng, mix, k // len(GRID_MIXES) + k % len(GRID_MIXES) + 1)
        b["op"] = "sets"; b["tag"] = "grid:" + mode; b["nocoq"] = True
        b["use_w_tilde"] = mode != "map"; b["pre_use_wt"] = False if mode == "cross" else None
        has_f = "f" in mix
        b["fit1"] = ["same", "func+data" if has_f else "data"][i % 2]
        if mode == "cross" or b["fit1"] != "same":
            for o in b["objs"]:
                if o["k"] == "f": o["coef"] = None
        b["fit1_seed"] = rng.randrange(10 ** 6); b["chain"] = []
        b["reads0"] = rng.choice([[], ["QCurv"], list(STD)]); b["reads0_after"] = rng.choice([["QCrm", "QCurv", "QRec"], list(STD)])
        b["setters"] = list(SETTERS) if i % 4 < 2 else rng.sample(SETTERS, 5)
        b["hist"] = [list(STD), rng.choice([list(STD), list(reversed(STD)), ["QCrm", "QCurv", "QRec", "QMapped", "QDv"]])]
        if rng.random() < 0.3: b["sc"] = rng.choice([s_ for s_ in SCALES if s_[1] == 0])
        if rng.random() < 0.5: b["share"] = True
        yield set_kinds(b, k, r0)
    # fit_1 differing in ONE respect (incl. another number of parameters: the shape guards of the set_* methods)
    for i in range(n // 6):
        mix = GRID_MIXES[(i * 5 + r0) % len(GRID_MIXES)]; mode = ["wt", "map", "cross"][i % 3]
        b = gen_structured(rng, mix, i + r0)
        b["op"] = "sets"; b["tag"] = "grid:" + mode; b["nocoq"] = True
        b["use_w_tilde"] = mode != "map"; b["pre_use_wt"] = False if mode == "cross" else None
        b["fit1"] = ["shape", "func", "noise", "shape", "data", "func+noise"][(i // 3) % 6]
        for o in b["objs"]:
            if o["k"] == "f": o["coef"] = None
        b["fit1_seed"] = rng.randrange(10 ** 6); b["chain"] = []
        b["reads0"] = rng.choice([[], ["QCurv"], list(STD)]); b["reads0_after"] = rng.choice([["QCrm", "QCurv", "QRec"], list(STD)])
        b["setters"] = list(SETTERS); b["hist"] = [list(STD), list(reversed(STD))]
        yield set_kinds(b, i, r0 + 1)

SETTERS = ["set_w_tilde_imaging", "set_operated_mapping_matrix_with_preloads", "set_linear_func_inversion_dicts",
           "set_curvature_matrix", "set_regularization_matrix_and_term"]
def gen_sets(rng, n):
    for i in range(n):
        b = gen_base(rng, ["m", "mf", "m", "mfm", "fm", "mm", "mff", "f"][i % 8])
        if i % 8 in (0, 2): b["objs"][0]["coef"] = rng.choice(["1", "2", "1/2"])      # exactly one regularization
        b["op"] = "sets"
        b["use_w_tilde"] = bool(i % 2) if i < 8 else b["use_w_tilde"]
        b["pre_use_wt"] = rng.choice([None, None, None, False])          # Preloads(use_w_tilde=...) of fit_0 / fit_1 themselves
        b["fit1"] = rng.choice(["same", "same", "same", "data", "noise", "func", "func+data", "shape"])
        b["fit1_seed"] = rng.randrange(10 ** 6)
        b["chain"] = [s for s in SLOTS if rng.random() < 0.4] if rng.random() < 0.25 else []
        b["reads0"] = rng.choice([[], [], ["QCurv"], ["QCrm"], list(STD), ["QDv", "QCurv"]])
        b["reads0_after"] = rng.choice([["QCrm", "QCurv", "QRec"], list(STD), ["QCrm"], ["QRec", "QLdc", "QCurv"], []])
        r = rng.random()
        b["setters"] = (list(SETTERS) if r < 0.5 else rng.sample(SETTERS, rng.randint(1, 5)))
        if r > 0.8: b["setters"] = b["setters"] + [rng.choice(SETTERS)]                # a setter called twice
        b["hist"] = gen_hist(rng)
        if i in (0, 2) or (i % 8 in (0, 2) and rng.random() < 0.5):
            # directed (defect 1fc8a9b): one regularization, the curvature matrix preloaded by set_curvature_matrix while it is
            # still in fit_0.inversion's cache, then fit_0.inversion.curvature_reg_matrix evaluated for the first time
            b["fit1"] = rng.choice(["same", "data"]); b["setters"] = list(SETTERS); b["chain"] = []
            b["reads0"] = rng.choice([[], ["QCurv"], ["QDv", "QCurv"]]); b["reads0_after"] = rng.choice([["QCrm", "QCurv", "QRec"], list(STD)])
        if i % 8 in (1, 4, 6) and i >= 8 and rng.random() < 0.7 or i in (1, 4):
            # directed (defect f780999): the fits of the preload set-up use the MAPPING formalism (Preloads(use_w_tilde=False)), their
            # function objects differ, so set_curvature_matrix stores the mapping class's mapper-diag blocks, which the W-TILDE
            # inversions built afterwards consume; unregularized function lists before / after the mapper
            b["use_w_tilde"] = True; b["pre_use_wt"] = False; b["fit1"] = "func"; b["setters"] = list(SETTERS); b["chain"] = []
            for o in b["objs"]:
                if o["k"] == "f": o["coef"] = None
            b["eps"] = rng.choice([None, "1/4", "1/1024"])
        gen_env(rng, b, plain=0.6); b.pop("alias", None)
        if b["fit1"] == "shape" and b.get("sc"): b["sc"] = [b["sc"][0], 0, b["sc"][2]]
        yield b

def gen_inputs(tier, rng):
    big = tier == "thorough"
    # the defect witness of fixes/C15_mapping_data_vector_mapper.md stays in the stream
    yield {"op": "hist", "mask": [[True] * 4, [True, False, False, True], [True, False, False, True], [True] * 4],
           "data": [[0, 1, 2, 3], [4, 5, 6, 7], [8, 9, 10, 11], [12, 13, 14, 15]], "noise": [["1"] * 4] * 4, "psf": [[1]],
           "objs": [{"k": "m", "shape": [2, 2], "sub": 1, "coef": "1"}, {"k": "f", "p": 1, "seed": 1, "ovr": False, "coef": None}],
           "use_w_tilde": False, "pos": False, "eps": None, "slots": ["data_vector_mapper"], "pre_use_wt": None,
           "hist": [["QDv", "QRec"], ["QDv", "QRec"]]}
    for i in range(420 if big else 40):
        b = gen_base(rng, MIXES[i % len(MIXES)] if i < 2 * len(MIXES) else None)
        b["op"] = "hist"
        r = rng.random()
        b["slots"] = ([s for s in SLOTS if rng.random() < 0.5] if r < 0.6 else
                      [rng.choice(SLOTS)] if r < 0.8 else list(SLOTS) if r < 0.9 else [])
        b["pre_use_wt"] = rng.choice([None, None, True, False])
        b["hist"] = gen_hist(rng)
        gen_env(rng, b)
        yield b
    # directed: ONE regularized linear object (the only configuration in which curvature_reg_matrix adds the
    # regularization matrix IN PLACE into the array curvature_matrix returned) with the curvature matrix preloaded
    for i in range(48 if big else 8):
        # ... whatever KIND of object it is: a lone mapper, or a lone regularized function list (no mapper at all)
        b = gen_base(rng, "m" if i % 4 != 3 else "f")
        b["objs"][0]["coef"] = rng.choice(["1", "2", "1/2"])
        b["op"] = "hist"; b["use_w_tilde"] = bool(i % 2); b["pre_use_wt"] = None
        b["slots"] = ["curvature_matrix"] + [s for s in SLOTS if s != "curvature_matrix" and rng.random() < 0.3]
        b["hist"] = [list(STD), list(STD)] if i % 4 < 2 else [["QCrm", "QCurv", "QRec"], ["QCrm"], ["QCurv", "QCrm", "QLdc"]]
        gen_env(rng, b, plain=0.3)
        yield b
    # directed: the formalism chosen by the factory differs between the inversion with preloads (Preloads(use_w_tilde=False): mapping
    # class) and the one without (w-tilde class), with function columns / data of tiny or huge magnitude next to ordinary mappers
    for i in range(24 if big else 3):
        b = gen_base(rng, ["mff", "fm", "mf", "fmf", "mfm"][i % 5])
        b["op"] = "hist"; b["use_w_tilde"] = True; b["pre_use_wt"] = False
        b["slots"] = [s for s in SLOTS if rng.random() < 0.3]
        b["hist"] = [list(STD)] if i % 2 == 0 else gen_hist(rng)
        b["sc"] = [[-30, -27, 0], [0, -27, 0], [20, 10, -3], [0, -27, 5]][i % 4]
        yield b
    # twins: two datasets sharing the mask, the linear OBJECTS (and possibly the settings object), inversions interleaved
    for i in range(40 if big else 4):
        b = gen_base(rng, ["mf", "m", "mm", "fm", "mfm", "mff"][i % 6])
        b["op"] = "hist"; b["pre_use_wt"] = rng.choice([None, None, True, False])
        b["slots"] = [s for s in SLOTS if rng.random() < 0.6]
        b["hist"] = gen_hist(rng)
        if len(b["hist"]) < 2: b["hist"].append(list(STD))
        b["twin"] = gen_twin(rng, b); b["share"] = i % 3 != 2
        gen_env(rng, b, plain=0.6)
        yield b
    # edits: slots of the shared Preloads object are cleared / (re)filled between the inversions of the history
    for i in range(40 if big else 4):
        b = gen_base(rng, ["mf", "m", "mfm", "fm", "mm", "fmf"][i % 6])
        b["op"] = "hist"; b["pre_use_wt"] = rng.choice([None, None, True, False])
        b["slots"] = [s for s in SLOTS if rng.random() < 0.5]
        b["hist"] = gen_hist(rng)
        while len(b["hist"]) < 3: b["hist"].append(rng.choice([list(STD), ["QCrm", "QCurv", "QRec", "QDv"]]))
        b["edits"] = gen_edits(rng, b["hist"])
        gen_env(rng, b, plain=0.6)
        yield b
    # Preloads.set_*(fit_0, fit_1): the production path that fills the slots (with the producing inversion's own arrays)
    yield from gen_sets(rng, 60 if big else 10)
    # directed grids (python level): every slot alone / all but one / all / interacting pairs on every position structure, both classes
    yield from gen_grid(rng, 108 if big else 36)
    yield from gen_sets_grid(rng, 216 if big else 72)
    for i in range(28 if big else 5):
        b = gen_base(rng, ["mfmf", "mf", "mm", "fm", "m", "mff", "fmf"][i % 7])
        b["op"] = "subsets"; b["k"] = 3 if big else 2
        b["use_w_tilde"] = bool(i % 2 == 0) if i < 4 else b["use_w_tilde"]
        if i % 2: b["sc"] = SCALES[(i // 2) % len(SCALES)]
        yield b
    for i in range(40 if big else 6):
        b = gen_base(rng, ["m", "mf", "f", "mm"][i % 4])
        b["op"] = "noise"; b["pre_use_wt"] = rng.choice([None, True, False]); b["bad"] = rng.random() < 0.7
        yield b

# ----------------------------------------------------------------------------------------------- building the objects
def F(x): return Fraction(x)
def build_ds(aa, inp, m, data, noise, psf):
    a, g, b = inp.get("sc", [0, 0, 0])
    ps = tuple(float(F(v)) for v in inp.get("px", ["1", "1"]))
    d = np.array(data, dtype=float) * 2.0 ** a
    n = np.array([[float(F(v)) for v in r] for r in noise]) * 2.0 ** b
    if inp.get("derived"):
        # DERIVED structures: results of arithmetic on Array2D objects (the values are the same dyadic numbers)
        half = np.floor(d / 2.0 ** a / 2.0) * 2.0 ** a
        da = aa.Array2D.no_mask(values=half, pixel_scales=ps) + aa.Array2D.no_mask(values=d - half, pixel_scales=ps)
        na = aa.Array2D.no_mask(values=n * 4.0, pixel_scales=ps) / 4.0
    else:
        da = aa.Array2D.no_mask(values=d, pixel_scales=ps); na = aa.Array2D.no_mask(values=n, pixel_scales=ps)
    im = aa.Imaging(data=da, noise_map=na,
                    psf=aa.Kernel2D.no_mask(values=np.array(psf, dtype=float), pixel_scales=ps, normalize=False),
                    use_normalized_psf=False).apply_mask(mask=m)
    kind = inp.get("iface")
    if not kind: return im
    # the entry point PyAutoGalaxy / PyAutoLens use: a DatasetInterface whose attributes were unpacked from the Imaging object;
    # "scaled": its noise map is NOT the Imaging object's (scaled by 1 or 2 per pixel, the first pixel kept, so that a w_tilde
    # computed from the wrong one of the two noise maps passes check_noise_map) and its w_tilde belongs to the scaled noise map
    from autoarray.inversion.inversion.dataset_interface import DatasetInterface
    if kind == "scaled":
        fac = np.array([1.0] + [float(1 + (3 * i + len(psf)) % 2) for i in range(1, im.noise_map.shape[0])])
        if np.all(fac == 1.0): fac[-1] = 2.0
        nm = im.noise_map * aa.Array2D(values=fac, mask=m)
    else:
        nm = im.noise_map
    dsi = DatasetInterface(data=im.data, noise_map=nm, convolver=im.convolver, w_tilde=None, grids=im.grids)
    dsi.psf = im.psf; dsi.base = im
    dsi.w_tilde = new_w_tilde(aa, dsi) if kind == "scaled" else im.w_tilde
    return dsi

_SUB = None
def subclasses(aa):
    """(f) trivial SUBCLASSES of every class the inversion code dispatches on / accepts"""
    global _SUB
    if _SUB is None:
        class SubPreloads(aa.Preloads): pass
        class SubSettings(aa.SettingsInversion): pass
        class SubMapper(aa.MapperRectangular): pass
        class SubFuncList(aa.m.MockLinearObjFuncList): pass
        class SubConstant(aa.reg.Constant): pass
        _SUB = {"pre": SubPreloads, "st": SubSettings, "m": SubMapper, "f": SubFuncList, "reg": SubConstant}
    return _SUB
def mkpre(aa, inp, **kw):
    return (subclasses(aa)["pre"] if inp.get("subcls") else aa.Preloads)(**kw)

def make_inv(aa, ds, objs, st, inp, pre=None):
    """the inversion, through the entry point of the case: aa.Inversion (= factory.inversion_from), inversion_imaging_from, or the
    constructor of the class the factory chooses; pre=None: the preloads argument is NOT passed (the callee's default is used)"""
    entry = inp.get("entry")
    kw = {} if pre is None else {"preloads": pre}
    if entry == "imaging_from":
        from autoarray.inversion.inversion.factory import inversion_imaging_from
        return inversion_imaging_from(dataset=ds, linear_obj_list=objs, settings=st, **kw)
    if entry == "class":
        from autoarray.inversion.inversion.imaging.mapping import InversionImagingMapping
        from autoarray.inversion.inversion.imaging.w_tilde import InversionImagingWTilde
        if wt_chosen(inp, None if pre is None else pre.use_w_tilde):
            w = pre.w_tilde if (pre is not None and pre.w_tilde is not None) else ds.w_tilde
            return InversionImagingWTilde(dataset=ds, w_tilde=w, linear_obj_list=objs, settings=st, **kw)
        return InversionImagingMapping(dataset=ds, linear_obj_list=objs, settings=st, **kw)
    return aa.Inversion(dataset=ds, linear_obj_list=objs, settings=st, **kw)

def build(inp):
    aa = import_aa()
    ps = tuple(float(F(v)) for v in inp.get("px", ["1", "1"]))
    org = tuple(float(F(v)) for v in inp.get("origin", ["0", "0"]))
    m = aa.Mask2D(mask=np.array(inp["mask"], dtype=bool), pixel_scales=ps, origin=org)
    ds = build_ds(aa, inp, m, inp["data"], inp["noise"], inp["psf"])
    npix = int(np.sum(~np.array(inp["mask"], dtype=bool)))
    grid_f = aa.Grid2D.from_mask(mask=m)
    g = inp.get("sc", [0, 0, 0])[1]
    objs = []
    sub = subclasses(aa) if inp.get("subcls") else None
    for o in inp["objs"]:
        reg = None if o["coef"] is None else (sub["reg"] if sub else aa.reg.Constant)(coefficient=float(Fraction(o["coef"])))
        if o["k"] == "m":
            os_ = aa.OverSamplerUniform(mask=m, sub_size=o["sub"])
            grid = os_.over_sampled_grid
            mesh = aa.Mesh2DRectangular.overlay_grid(shape_native=tuple(o["shape"]), grid=grid)
            mg = aa.MapperGrids(mask=m, source_plane_data_grid=grid, source_plane_mesh_grid=mesh)
            objs.append((sub["m"] if sub else aa.MapperRectangular)(mapper_grids=mg, over_sampler=os_, border_relocator=None, regularization=reg))
        else:
            r = np.random.RandomState(o["seed"])
            mm = r.randint(-2, 4, size=(npix, o["p"])).astype(float) * 2.0 ** g
            ovr = r.randint(-2, 4, size=(npix, o["p"])).astype(float) * 2.0 ** g if o["ovr"] else None
            if o.get("idt") and g >= 0:
                # (f) input kinds: integer- / float32-typed matrices holding the same (integral) values
                dt = np.int64 if o["idt"] == "int" else np.float32
                mm = mm.astype(dt); ovr = None if ovr is None else ovr.astype(dt)
            objs.append((sub["f"] if sub else aa.m.MockLinearObjFuncList)(parameters=o["p"], grid=grid_f, mapping_matrix=mm, regularization=reg,
                                                   operated_mapping_matrix_override=ovr))
    eps = None if inp["eps"] is None else float(Fraction(inp["eps"]))
    st = inp.get("st") or {}
    def mk():
        return (sub["st"] if sub else aa.SettingsInversion)(use_w_tilde=inp["use_w_tilde"], use_positive_only_solver=inp["pos"],
                                    no_regularization_add_to_curvature_diag_value=eps,
                                    force_edge_pixels_to_zeros=not st.get("edge0", False),
                                    positive_only_uses_p_initial=st.get("pinit"))
    if inp.get("share"):
        shared = mk()
        settings = lambda: shared          # ONE settings object for every inversion of the case
    else:
        settings = mk
    settings.mk = mk
    settings.mask = m
    return aa, ds, objs, settings

def new_w_tilde(aa, ds, noise_value=None):
    """a WTildeImaging built the way Preloads.set_w_tilde_imaging builds it (a separate object from dataset.w_tilde)"""
    from autoarray.inversion.inversion.imaging import inversion_imaging_util
    from autoarray.dataset.imaging.w_tilde import WTildeImaging
    pre, idx, ln = inversion_imaging_util.w_tilde_curvature_preload_imaging_from(
        noise_map_native=np.array(ds.noise_map.native), kernel_native=np.array(ds.psf.native),
        native_index_for_slim_index=np.array(ds.mask.derive_indexes.native_for_slim))
    return WTildeImaging(curvature_preload=pre, indexes=idx.astype("int"), lengths=ln.astype("int"),
                         noise_map_value=ds.noise_map[0] if noise_value is None else noise_value)

def wt_chosen(inp, pre_use_wt):
    """factory.inversion_imaging_from, from the INPUT"""
    if all(o["k"] == "f" for o in inp["objs"]): u = False
    elif pre_use_wt is not None: u = pre_use_wt
    else: u = inp["use_w_tilde"]
    return u and inp["use_w_tilde"]

def slot_values(aa, ds, objs, settings, inp, pre_use_wt, names, alias=False):
    """values of the named slots computed by a separate fresh inversion of the class the factory will choose.
    alias=False: private copies.  alias=True: the very arrays / dictionaries held by the producing inversion (what the
    Preloads.set_* methods store), after that inversion has evaluated all its attributes; returns the inversion too."""
    inv0 = aa.Inversion(dataset=ds, linear_obj_list=objs, settings=settings(), preloads=aa.Preloads(use_w_tilde=pre_use_wt))
    if alias: [observe(inv0, q) for q in STD]
    has_f = any(o["k"] == "f" for o in inp["objs"]); has_m = any(o["k"] == "m" for o in inp["objs"])
    wt = wt_chosen(inp, pre_use_wt)
    total = sum(o.params for o in objs)
    out = {}
    for s in names:
        if s == "w_tilde": v = new_w_tilde(aa, ds)
        elif s == "data_vector_mapper":
            if not has_m: continue
            v = inv0._data_vector_mapper
        elif s == "curvature_matrix_mapper_diag":
            if not has_m: continue
            # the mapping class never consults this slot on the way to an output: any array will do there
            v = inv0._curvature_matrix_mapper_diag if wt else np.full((total, total), 7.0)
        elif s in ("linear_func_operated_mapping_matrix_dict", "data_linear_func_matrix_dict"):
            if not has_f: continue
            v = getattr(inv0, s) if alias else dict(getattr(inv0, s))
        elif s == "mapper_operated_mapping_matrix_dict":
            if not has_m: continue
            v = getattr(inv0, s) if alias else dict(getattr(inv0, s))
        elif s == "log_det_regularization_matrix_term":
            r = call_res(lambda: inv0.log_det_regularization_matrix_term)
            if r[0] != "ok": continue
            v = float(r[1])
        else:
            v = getattr(inv0, s) if alias else np.array(getattr(inv0, s), dtype=float)
        out[s] = v
    return (out, inv0) if alias else out

def input_fingerprints(ds, objs, st):
    """(d) everything the caller hands to aa.Inversion: dataset arrays, the linear objects' matrices, the settings object"""
    fp = [("data", fingerprint(np.asarray(ds.data))), ("noise_map", fingerprint(np.asarray(ds.noise_map))),
          ("psf", fingerprint(np.asarray(ds.psf.native))), ("mask", fingerprint(np.asarray(ds.mask)))]
    for i, o in enumerate(objs):
        fp.append((f"obj{i}.mapping_matrix", fingerprint(np.asarray(o.mapping_matrix))))
        if o.operated_mapping_matrix_override is not None:
            fp.append((f"obj{i}.override", fingerprint(np.asarray(o.operated_mapping_matrix_override))))
    fp.append(("settings", repr(sorted((k, repr(v)) for k, v in vars(st).items()))))
    # (g) the list object itself, the regularization objects, each mapper's cached unique-mapping arrays, the dataset's w_tilde
    fp.append(("linear_obj_list", [id(o) for o in objs]))
    from autoarray.inversion.pixelization.mappers.abstract import AbstractMapper
    for i, o in enumerate(objs):
        fp.append((f"obj{i}.regularization", None if o.regularization is None else
                   (id(o.regularization), repr(sorted((k, repr(v)) for k, v in vars(o.regularization).items())))))
        if isinstance(o, AbstractMapper):
            um = o.unique_mappings
            fp.append((f"obj{i}.unique_mappings", fingerprint({k: getattr(um, k) for k in ("data_to_pix_unique", "data_weights", "pix_lengths")})))
    fp.append(("dataset.w_tilde", fingerprint(ds.w_tilde)))
    return fp

def defaults_pristine(aa):
    """the shared default-argument objects of the factories (settings=SettingsInversion(), preloads=Preloads())"""
    from autoarray.inversion.inversion import factory
    ref_s = repr(sorted((k, repr(v)) for k, v in vars(aa.SettingsInversion()).items()))
    from autoarray.inversion.inversion.abstract import AbstractInversion
    from autoarray.inversion.inversion.imaging.abstract import AbstractInversionImaging
    from autoarray.inversion.inversion.imaging.mapping import InversionImagingMapping
    from autoarray.inversion.inversion.imaging.w_tilde import InversionImagingWTilde
    for f in (factory.inversion_from, factory.inversion_imaging_from, AbstractInversion.__init__, AbstractInversionImaging.__init__,
              InversionImagingMapping.__init__, InversionImagingWTilde.__init__):
        for dflt in f.__defaults__ or ():
            if isinstance(dflt, aa.Preloads) and any(v is not None for v in vars(dflt).values()): return f"default Preloads() of {f.__qualname__} was written to"
            if isinstance(dflt, aa.SettingsInversion) and repr(sorted((k, repr(v)) for k, v in vars(dflt).items())) != ref_s:
                return f"default SettingsInversion() of {f.__qualname__} was modified"
    return ""

def private(aa, ds, s, v):
    """a private copy of a slot value"""
    return ({k: np.array(a).copy() for k, a in v.items()} if isinstance(v, dict) else
            new_w_tilde(aa, ds) if s == "w_tilde" else v if isinstance(v, float) else np.array(v).copy())

def arrays_of(v):
    if isinstance(v, dict): return list(v.values())
    if hasattr(v, "curvature_preload"): return [v.curvature_preload, v.indexes, v.lengths, np.array([v.noise_map_value])]
    if isinstance(v, float): return [np.array([v])]
    return [v]
def fingerprint(v):
    return [(np.asarray(a).shape, str(np.asarray(a).dtype), np.asarray(a).tobytes()) for a in arrays_of(v)]

# ----------------------------------------------------------------------------------------------- Coq printing
def qm(a): return clist([clist([cq(frac(x)) for x in r]) for r in np.asarray(a, dtype=float).reshape(len(a), -1)]) if len(a) else "[]"
def qv(a): return clist([cq(frac(x)) for x in np.asarray(a, dtype=float).ravel()])
def cresq(r, f): return f"(Ok {f(r[1])})" if r[0] == "ok" else f"(Raise {r[1]})"

def observe(inv, q):
    k = KIND[q]
    if k in ("RV", "RT"):
        r = call_res(lambda: getattr(inv, ATTR[q]))
        if r[0] == "ok": r = ("ok", np.array(r[1], dtype=float).copy())
        return (k, r)
    v = getattr(inv, ATTR[q])
    if k == "L": return (k, [np.array(x, dtype=float).copy() for x in v.values()])
    return (k, np.array(v, dtype=float).copy())

def cpval(o):
    k, v = o
    if k == "M": return f"(@PM Q {qm(v)})"
    if k == "V": return f"(@PV Q {qv(v)})"
    if k == "L": return f"(@PL Q {clist([qm(x) for x in v])})"
    if k == "RV": return f"(@PRV Q {cresq(v, qv)})"
    return f"(@PRT Q {cresq(v, lambda x: cq(frac(x)))})"
def couts(vs): return "(Ok " + clist([cpval(o) for o in vs]) + ")"

def jval(o):
    k, v = o
    if k in ("RV", "RT"): return [k, v[0], (np.asarray(v[1]).tolist() if v[0] == "ok" else v[1])]
    if k == "L": return [k, [x.tolist() for x in v]]
    return [k, v.tolist()]

def same(a, b, tol=1e-9, tol_solved=1e-7):
    """implementation output against implementation output, relative to the size of the expected value: exact kinds
    entry by entry, solved vectors against their largest entry, scalars against themselves (mirrors Model.C15.pval_same)"""
    (ka, va), (kb, vb) = a, b
    if ka != kb: return False
    if ka in ("RV", "RT"):
        if va[0] != vb[0]: return False
        if va[0] != "ok": return va[1] == vb[1]
        va, vb = np.asarray(va[1], dtype=float), np.asarray(vb[1], dtype=float)
        if va.shape != vb.shape: return False
        if ka == "RT": return bool(np.abs(va - vb) <= tol_solved * np.abs(vb))
        return bool(np.all(np.abs(va - vb) <= tol_solved * (np.max(np.abs(vb)) if vb.size else 0.0)))
    if ka == "L":
        return len(va) == len(vb) and all(same(("M", x), ("M", y)) for x, y in zip(va, vb))
    va, vb = np.asarray(va, dtype=float), np.asarray(vb, dtype=float)
    return va.shape == vb.shape and bool(np.all(np.abs(va - vb) <= tol * np.abs(vb)))

def dense_w(w, npix):
    W = np.zeros((npix, npix)); k = 0
    for i in range(npix):
        for _ in range(int(w.lengths[i])):
            j = int(w.indexes[k]); v = float(w.curvature_preload[k]); k += 1
            if i == j: W[i, i] += 2 * v
            else: W[i, j] += v; W[j, i] += v
    return W
def cwt(w, npix): return f"{{| wt_w := {qm(dense_w(w, npix))}; wt_nv := {cq(frac(w.noise_map_value))} |}}"

def cstore(pre, npix):
    def om(v): return "None" if v is None else f"(Some {qm(v)})"
    def ol(v): return "None" if v is None else "(Some " + clist([qm(x) for x in v.values()]) + ")"
    return ("{| s_use_wt := " + copt(pre.use_w_tilde, cbool) + "; s_wt := " + ("None" if pre.w_tilde is None else f"(Some {cwt(pre.w_tilde, npix)})")
            + "; s_omm := " + om(pre.operated_mapping_matrix) + "; s_curv := " + om(pre.curvature_matrix)
            + "; s_cmd := " + om(pre.curvature_matrix_mapper_diag) + "; s_reg := " + om(pre.regularization_matrix)
            + "; s_dvm := " + ("None" if pre.data_vector_mapper is None else f"(Some {qv(pre.data_vector_mapper)})")
            + "; s_lf := " + ol(pre.linear_func_operated_mapping_matrix_dict) + "; s_dlf := " + ol(pre.data_linear_func_matrix_dict)
            + "; s_momm := " + ol(pre.mapper_operated_mapping_matrix_dict)
            + "; s_ldr := " + ("None" if pre.log_det_regularization_matrix_term is None else f"(Some {cq(frac(pre.log_det_regularization_matrix_term))})")
            + " |}")

def cinput(aa, ds, objs, settings, inp, npix):
    from autoarray.inversion.pixelization.mappers.abstract import AbstractMapper
    los = []
    for o in objs:
        ism = isinstance(o, AbstractMapper)
        ovr = o.operated_mapping_matrix_override
        reg = None if o.regularization is None else np.array(o.regularization_matrix, dtype=float)
        los.append(f"{{| lo_mapper := {cbool(ism)}; lo_mm := {qm(np.array(o.mapping_matrix, dtype=float))}; "
                   f"lo_ovr := {'None' if ovr is None else '(Some ' + qm(ovr) + ')'}; lo_p := {cnat(o.params)}; "
                   f"lo_reg := {'None' if reg is None else '(Some ' + qm(reg) + ')'} |}}")
    st = settings()
    dsw = new_w_tilde(aa, ds)
    return (f"{{| in_ds := {{| ds_d := {qv(np.array(ds.data))}; ds_n := {qv(np.array(ds.noise_map))}; ds_wt := {cwt(dsw, npix)} |}}; "
            f"in_objs := {clist(los)}; in_use_wt := {cbool(inp['use_w_tilde'])}; "
            f"in_eps := {cq(frac(st.no_regularization_add_to_curvature_diag_value))} |}}")

def oracle_parts(aa, ds, objs, settings, pre_use_wt):
    inv = aa.Inversion(dataset=ds, linear_obj_list=objs, settings=settings(), preloads=aa.Preloads(use_w_tilde=pre_use_wt))
    crm = np.array(inv.curvature_reg_matrix, dtype=float).copy(); dv = np.array(inv.data_vector, dtype=float).copy()
    rec = call_res(lambda: np.array(inv.reconstruction, dtype=float))
    solve = [f"(({qm(crm)}, {qv(dv)}), {cresq(rec, qv)})"]
    ldc, ldr = [], []
    from autoarray.inversion.regularization.abstract import AbstractRegularization
    if inv.has(cls=AbstractRegularization):
        crr = np.array(inv.curvature_reg_matrix_reduced, dtype=float)
        r = call_res(lambda: float(inv.log_det_curvature_reg_matrix_term))
        ldc.append(f"({qm(crr)}, {cresq(r, lambda x: cq(frac(x)))})")
        rr = np.array(inv.regularization_matrix_reduced, dtype=float)
        r = call_res(lambda: float(inv.log_det_regularization_matrix_term))
        ldr.append(f"({qm(rr)}, {cresq(r, lambda x: cq(frac(x)))})")
    return solve, ldc, ldr
def oracle_str(*parts):
    return (f"{{| or_solve := {clist([x for p in parts for x in p[0]])}; or_ldc := {clist([x for p in parts for x in p[1]])}; "
            f"or_ldr := {clist([x for p in parts for x in p[2]])} |}}")
def oracle(aa, ds, objs, settings, pre_use_wt): return oracle_str(oracle_parts(aa, ds, objs, settings, pre_use_wt))

# ----------------------------------------------------------------------------------------------- cases
class Track:
    """one dataset + the (shared) linear objects + its own Preloads object"""
    def __init__(self, aa, ds, objs, settings, inp, slots, pre_use_wt, alias):
        self.aa, self.ds, self.objs, self.settings, self.inp, self.pre_use_wt = aa, ds, objs, settings, inp, pre_use_wt
        self.npix = ds.data.shape[0]
        self.wt = wt_chosen(inp, pre_use_wt)
        self.has_f = any(o["k"] == "f" for o in inp["objs"])
        self.inv0 = self.obs0 = None
        if alias:
            self.vals, self.inv0 = slot_values(aa, ds, objs, settings, inp, pre_use_wt, slots, alias=True)
            self.obs0 = [observe(self.inv0, q) for q in STD]
        else:
            self.vals = slot_values(aa, ds, objs, settings, inp, pre_use_wt, slots)
        self.pre = mkpre(aa, inp, use_w_tilde=pre_use_wt, **self.vals)
        self.nocoq = bool(inp.get("nocoq"))
        if not self.nocoq:
            self.C = ds.convolver.convolve_mapping_matrix(mapping_matrix=np.eye(self.npix))
            self.oracle = oracle(aa, ds, objs, settings.mk, pre_use_wt)
            self.cin = cinput(aa, ds, objs, settings, inp, self.npix)
        self.fp_in = input_fingerprints(ds, objs, settings())
        self.fresh = {}
        self.segs = []; self.open_segment()
        self.why = ""
    def open_segment(self):
        self.segs_open = True
        self.seg = {"pre": "" if self.nocoq else cstore(self.pre, self.npix), "h": [], "outs": [],
                    "before": {s: (v, fingerprint(v)) for s, v in vars(self.pre).items() if s in SLOTS and v is not None}}
    def fresh_of(self, qs):
        k = tuple(qs)
        if k not in self.fresh:
            inv = make_inv(self.aa, self.ds, self.objs, self.settings(), self.inp)
            self.fresh[k] = [observe(inv, q) for q in qs]
        return self.fresh[k]
    def step(self, qs):
        inv = make_inv(self.aa, self.ds, self.objs, self.settings(), self.inp, self.pre)
        o = [observe(inv, q) for q in qs]
        self.seg["h"].append(qs); self.seg["outs"].append(o)
        bad = [q for q, a, b in zip(qs, o, self.fresh_of(qs)) if not same(a, b)]
        if bad and not self.why: self.why = f"outputs differ from the inversion without preloads: {bad}"
    def close_segment(self):
        if not self.segs_open: return
        self.segs_open = False
        # NO array held by the Preloads object may be written (since /repo 95fc1c6 the w-tilde class completes a copy of data_vector_mapper)
        for s, (v, fp) in self.seg["before"].items():
            if fingerprint(v) != fp and not self.why: self.why = f"preloaded {s} was modified in place"
        sg = self.seg
        if sg["h"] and not self.nocoq:
            self.segs.append(f"(KHist {qm(self.C)} {self.oracle} {self.cin} {sg['pre']} {clist([clist(qs) for qs in sg['h']])} "
                             f"{couts(self.fresh_of(sg['h'][0]))} {clist([couts(o) for o in sg['outs']])} {cstore(self.pre, self.npix)})")
    def finish(self):
        self.close_segment()
        if self.fp_in != input_fingerprints(self.ds, self.objs, self.settings()) and not self.why:
            now = dict(input_fingerprints(self.ds, self.objs, self.settings()))
            self.why = "the caller's inputs were modified: " + ", ".join(k for k, v in self.fp_in if now.get(k) != v)
        if self.inv0 is not None:
            again = [observe(self.inv0, q) for q in STD]
            bad = [q for q, a, b in zip(STD, again, self.obs0) if not same(a, b)]
            if bad and not self.why: self.why = f"attributes of the inversion that produced the preloads changed: {bad}"

def run_hist(inp):
    aa, ds, objs, settings = build(inp)
    alias = bool(inp.get("alias"))
    tracks = [Track(aa, ds, objs, settings, inp, inp["slots"], inp.get("pre_use_wt"), alias)]
    tw = inp.get("twin")
    if tw:
        dsB = build_ds(aa, inp, settings.mask, tw["data"], tw["noise"], tw["psf"])
        tracks.append(Track(aa, dsB, objs, settings, inp, tw["slots"], inp.get("pre_use_wt"), alias))
    hist, edits = inp["hist"], inp.get("edits") or []
    pristine = None
    same_pre = bool(tw and tw.get("same_pre"))
    if same_pre:
        for t in tracks: t.cur = {s: getattr(t.pre, s) for s in SLOTS}
        tracks[1].pre = tracks[0].pre
    for i, qs in enumerate(hist):
        for t in tracks:
            if same_pre:
                t.close_segment()
                for s in SLOTS: setattr(t.pre, s, t.cur[s])
                t.open_segment()
            ed = edits[i] if (t is tracks[0] and i < len(edits)) else None
            if ed:
                t.close_segment()
                if pristine is None: pristine = slot_values(aa, ds, objs, settings, inp, inp.get("pre_use_wt"), SLOTS)
                for s in ed["clear"]: setattr(t.pre, s, None)
                for s in ed["fill"]:
                    if s in pristine: setattr(t.pre, s, private(aa, ds, s, pristine[s]))
                t.open_segment()
            t.step(qs)
            if same_pre: t.close_segment()
    for t in tracks: t.finish()
    why = next((t.why for t in tracks if t.why), "") or defaults_pristine(aa)
    terms = [c for t in tracks for c in t.segs]
    t0 = tracks[0]
    nm = sum(1 for o in inp["objs"] if o["k"] == "m")
    kind = (("wtilde" if t0.wt else "mapping") + ":" + "".join(o["k"] for o in inp["objs"]) + f":{len(t0.vals)}slots:{len(hist)}inv"
            + (":twin" if tw else "") + ("-samepre" if same_pre else "") + (":edits" if any(edits) else "") + (":alias" if alias else "")
            + (":scaled" if inp.get("sc") else "") + (":shared" if inp.get("share") else ""))
    fr = t0.fresh_of(hist[0])
    return {"coq": terms[0], "extra_coq": terms[1:], "out": {"fresh": [jval(x) for x in fr][:4], "why": why},
            "py_ok": not why, "kind": kind, "nontrivial": bool(t0.vals) and nm > 0}

def run_sets(inp):
    aa, ds, objs, settings = build(inp)
    pre_use_wt = inp.get("pre_use_wt")
    has_f = any(o["k"] == "f" for o in inp["objs"]); nm = sum(1 for o in inp["objs"] if o["k"] == "m")
    wt0 = wt_chosen(inp, pre_use_wt)
    # fit_1: the same model instance, or one that differs in the data, in the noise map, or in the function objects
    kind1 = inp["fit1"]; rs = np.random.RandomState(inp["fit1_seed"]); ds1, objs1 = ds, objs
    parts1 = kind1.split("+")
    if "data" in parts1 or "noise" in parts1:
        H, W = len(inp["mask"]), len(inp["mask"][0])
        data1 = [[int(v) for v in r] for r in rs.randint(-3, 7, size=(H, W))] if "data" in parts1 else inp["data"]
        noise1 = [[["1/2", "1", "2", "4"][int(v)] for v in r] for r in rs.randint(0, 4, size=(H, W))] if "noise" in parts1 else inp["noise"]
        ds1 = build_ds(aa, inp, settings.mask, data1, noise1, inp["psf"])
    if "func" in parts1 and has_f:
        inp1 = dict(inp); inp1["objs"] = [dict(o, seed=o["seed"] + 1 + int(rs.randint(1000))) if o["k"] == "f" else o for o in inp["objs"]]
        objs1 = [a if o["k"] == "m" else b for o, a, b in zip(inp["objs"], objs, build(inp1)[2])]
    if "shape" in parts1:
        # fit_1's model has another NUMBER of parameters (a function list with another number of columns / another mesh)
        inp1 = dict(inp); ch = False; o1 = []
        for o in inp["objs"]:
            if o["k"] == "f" and has_f and not ch: o1.append(dict(o, p=3 - o["p"])); ch = True
            elif o["k"] == "m" and not has_f and not ch: o1.append(dict(o, shape=[3, 3] if o["shape"] != [3, 3] else [2, 2])); ch = True
            else: o1.append(o)
        inp1["objs"] = o1
        objs1 = [a if o == q else b for o, q, a, b in zip(inp["objs"], o1, objs, build(inp1)[2])]
    own0 = slot_values(aa, ds, objs, settings, inp, pre_use_wt, inp["chain"]) if inp["chain"] else {}
    npix = ds.data.shape[0]
    pre_own0 = mkpre(aa, inp, use_w_tilde=pre_use_wt, **own0)
    own0_coq = cstore(pre_own0, npix); own1_coq = cstore(aa.Preloads(use_w_tilde=pre_use_wt), npix)
    inv0 = make_inv(aa, ds, objs, settings(), inp, pre_own0)
    inv1 = make_inv(aa, ds1, objs1, settings(), inp, mkpre(aa, inp, use_w_tilde=pre_use_wt))
    nocoq = bool(inp.get("nocoq"))
    C = [] if nocoq else ds.convolver.convolve_mapping_matrix(mapping_matrix=np.eye(npix))
    orc = "" if nocoq else oracle_str(oracle_parts(aa, ds, objs, settings.mk, pre_use_wt), oracle_parts(aa, ds1, objs1, settings.mk, pre_use_wt))
    cin0 = "" if nocoq else cinput(aa, ds, objs, settings, inp, npix); cin1 = "" if nocoq else cinput(aa, ds1, objs1, settings, inp, npix)
    fit0 = aa.m.MockFitImaging(dataset=getattr(ds, "base", ds), inversion=inv0, noise_map=ds.noise_map)
    fit1 = aa.m.MockFitImaging(dataset=getattr(ds1, "base", ds1), inversion=inv1, noise_map=ds1.noise_map)
    fp_in = input_fingerprints(ds, objs, settings())
    why = ""
    before0 = [observe(inv0, q) for q in inp["reads0"]]
    pre = mkpre(aa, inp)
    raised = []; raised_idx = []
    for i_, name in enumerate(inp["setters"]):
        r = call_res(lambda: getattr(pre, name)(fit0, fit1))
        if r[0] != "ok":
            raised.append((name, r[1])); raised_idx.append((i_, r[1]))
            if not why: why = f"{name} raised {r[1]}"
    filled = {s: getattr(pre, s) for s in SLOTS if getattr(pre, s) is not None}
    post_coq = "" if nocoq else cstore(pre, npix)
    # the fresh-value premise: every filled slot holds what a fresh inversion of fit_0's class computes
    ref = aa.Inversion(dataset=ds, linear_obj_list=objs, settings=settings(), preloads=aa.Preloads(use_w_tilde=pre_use_wt))
    def val_of(s):
        if s == "data_vector_mapper": return ("V", np.array(ref._data_vector_mapper, dtype=float))
        if s == "curvature_matrix_mapper_diag": return ("M", np.array(ref._curvature_matrix_mapper_diag, dtype=float))
        if s == "log_det_regularization_matrix_term": return ("RT", ("ok", np.array(ref.log_det_regularization_matrix_term, dtype=float)))
        v = getattr(ref, s)
        return ("L", [np.array(x, dtype=float) for x in v.values()]) if isinstance(v, dict) else ("M", np.array(v, dtype=float))
    def as_val(s, v):
        if s == "data_vector_mapper": return ("V", np.array(v, dtype=float))
        if s == "log_det_regularization_matrix_term": return ("RT", ("ok", np.array(v, dtype=float)))
        return ("L", [np.array(x, dtype=float) for x in v.values()]) if isinstance(v, dict) else ("M", np.array(v, dtype=float))
    for s, v in filled.items():
        if s == "w_tilde": continue
        if not same(as_val(s, v), val_of(s)) and not why: why = f"{s} stored by the set_* methods is not the fresh value"
    fps = {s: fingerprint(v) for s, v in filled.items()}
    # fit_0's inversion goes on being used AFTER the preloads were set
    after0 = [observe(inv0, q) for q in inp["reads0_after"]]
    fresh0 = aa.Inversion(dataset=ds, linear_obj_list=objs, settings=settings(), preloads=aa.Preloads(use_w_tilde=pre_use_wt))
    fresh_after0 = [observe(fresh0, q) for q in inp["reads0_after"]]
    bad = [q for q, a, b in zip(inp["reads0_after"], after0, fresh_after0) if not same(a, b)]
    if bad and not why: why = f"fit_0.inversion attributes read after set_*: {bad} differ from a fresh inversion"
    for s, v in filled.items():
        if fingerprint(v) != fps[s] and not why: why = f"preloaded {s} changed when fit_0.inversion was read after set_*"
    # the fresh values of the filled slots (specification side of the Coq case)
    fr = {}
    for s_ in filled:
        if s_ == "w_tilde": fr[s_] = new_w_tilde(aa, ds)
        elif s_ == "data_vector_mapper": fr[s_] = np.array(ref._data_vector_mapper, dtype=float)
        elif s_ == "curvature_matrix_mapper_diag":
            r = call_res(lambda: ref._curvature_matrix_mapper_diag)
            if r[0] == "ok" and r[1] is not None: fr[s_] = np.array(r[1], dtype=float)
        elif s_ == "log_det_regularization_matrix_term": fr[s_] = float(ref.log_det_regularization_matrix_term)
        else:
            v = getattr(ref, s_); fr[s_] = dict(v) if isinstance(v, dict) else np.array(v, dtype=float)
    fresh_coq = "" if nocoq else cstore(aa.Preloads(**fr), npix)
    dvm_loose = False     # (before /repo 95fc1c6 fit_0's own preloaded data_vector_mapper could already hold the function rows)
    CN = {"set_w_tilde_imaging": "SetWt", "set_operated_mapping_matrix_with_preloads": "SetOmm", "set_linear_func_inversion_dicts": "SetLf",
          "set_curvature_matrix": "SetCurv", "set_regularization_matrix_and_term": "SetReg"}
    rz = {i for i, _ in raised_idx}
    coq = (f"(KSet {qm(C)} {orc} {cin0} {own0_coq} {clist(inp['reads0'])} {cin1} {own1_coq} "
           f"{clist([CN[n_] for n_ in inp['setters']])} {clist([cbool(i in rz) for i in range(len(inp['setters']))])} {post_coq} {fresh_coq} "
           f"{cbool(dvm_loose)} {clist(inp['reads0_after'])} {couts(after0)} {couts(fresh_after0)})")
    # the history of inversions that use the Preloads object filled by set_*: an ordinary KHist case
    wt_later = wt_chosen(inp, pre.use_w_tilde)
    t = Track(aa, ds, objs, settings, inp, [], pre_use_wt, False)
    t.pre = pre; t.wt = wt_later; t.open_segment()
    for qs in inp["hist"]: t.step(qs)
    t.close_segment()
    if t.why and not why: why = "with the preloads set by set_*: " + t.why
    if fp_in != input_fingerprints(ds, objs, settings()) and not why: why = "the caller's inputs were modified"
    why = why or defaults_pristine(aa)
    kind = ("sets:" + ("wtilde" if wt0 else "mapping") + ":" + "".join(o["k"] for o in inp["objs"]) + ":fit1=" + kind1
            + (":chain" if inp["chain"] else "") + f":{len(filled)}filled")
    if inp.get("nocoq"): coq = None; t.segs = []
    return {"coq": coq, "extra_coq": t.segs, "py_ok": not why, "kind": kind, "nontrivial": nm > 0 and len(filled) > 1,
            "out": {"filled": sorted(filled), "use_w_tilde": pre.use_w_tilde, "raised": raised, "why": why}}

def run_subsets(inp):
    import copy
    aa, ds, objs, settings = build(inp)
    wt = wt_chosen(inp, None)
    has_f = any(o["k"] == "f" for o in inp["objs"]); nm = sum(1 for o in inp["objs"] if o["k"] == "m")
    vals = slot_values(aa, ds, objs, settings, inp, None, SLOTS)
    names = list(vals)
    fresh_inv = make_inv(aa, ds, objs, settings(), inp)
    fresh = [observe(fresh_inv, q) for q in STD]
    allowed = set()       # no preloaded array may be modified (/repo 95fc1c6)
    bad = None; n = 0
    for r in range(len(names) + 1):
        for sub in itertools.combinations(names, r):
            mine = {}
            for s in sub:     # private copies: an in-place completion by one subset must not leak into the next
                v = vals[s]
                mine[s] = ({k: np.array(a).copy() for k, a in v.items()} if isinstance(v, dict) else
                           new_w_tilde(aa, ds) if s == "w_tilde" else v if isinstance(v, float) else np.array(v).copy())
            pre = mkpre(aa, inp, **mine)
            before = {s: fingerprint(v) for s, v in mine.items()}
            for k in range(inp["k"]):
                inv = make_inv(aa, ds, objs, settings(), inp, pre)
                o = [observe(inv, q) for q in STD]; n += 1
                d = [q for q, a, b in zip(STD, o, fresh) if not same(a, b)]
                if d and bad is None: bad = {"subset": list(sub), "inversion": k, "differs": d}
            for s, v in mine.items():
                if fingerprint(v) != before[s] and s not in allowed and bad is None:
                    bad = {"subset": list(sub), "modified_in_place": s}
    kind = "subsets:" + ("wtilde" if wt else "mapping") + ":" + "".join(o["k"] for o in inp["objs"])
    return {"coq": None, "py_ok": bad is None, "out": {"slots": names, "inversions": n, "failure": bad}, "kind": kind,
            "nontrivial": nm > 0}

EXTRA = {"XMapDict": "mapped_reconstructed_data_dict", "XRecDict": "reconstruction_dict", "XImgDict": "mapped_reconstructed_image_dict",
         "XImg": "mapped_reconstructed_image"}
def observe_x(inv, q, objs):
    """python-level observations beyond the 15 modelled attributes: the per-object dictionaries (keys = the linear objects, in order)"""
    if q in ATTR: return observe(inv, q)
    def f():
        v = getattr(inv, EXTRA[q])
        if isinstance(v, dict):
            if [id(k) for k in v] != [id(o) for o in objs]: raise AssertionError("dictionary keys are not the linear objects in order")
            return np.concatenate([np.asarray(x, dtype=float).ravel() for x in v.values()])
        return np.array(v, dtype=float)
    return ("RV", call_res(f))

def run_grid(inp):
    aa, ds, objs, settings = build(inp)
    pre_use_wt = inp.get("pre_use_wt")
    wt = wt_chosen(inp, pre_use_wt)
    has_f = any(o["k"] == "f" for o in inp["objs"]); nm = sum(1 for o in inp["objs"] if o["k"] == "m")
    QS = list(STD) + list(EXTRA)
    fp_in = input_fingerprints(ds, objs, settings())
    fresh_inv = make_inv(aa, ds, objs, settings(), inp)
    fresh = {q: observe_x(fresh_inv, q, objs) for q in QS}
    vals = slot_values(aa, ds, objs, settings, inp, pre_use_wt, SLOTS)
    names = list(vals)
    subs = [()] + [(s,) for s in names] + [pr for pr in GRID_PAIRS if all(x in vals for x in pr)]
    subs += [tuple(x for x in names if x != s) for s in names] + [tuple(names)]
    allowed = set()       # no preloaded array may be modified (/repo 95fc1c6)
    bad = None; n = 0
    def history(pre, mine, label, idx):
        nonlocal bad, n
        before = {s: fingerprint(v) for s, v in mine.items()}
        for k in range(2):
            r = (idx * 5 + k * 7) % len(QS)
            order = QS[r:] + QS[:r]
            if k == 1: order = list(reversed(order))
            inv = make_inv(aa, ds, objs, settings(), inp, pre); n += 1
            d = [q for q in order if not same(observe_x(inv, q, objs), fresh[q])]
            if d and bad is None: bad = {"subset": label, "inversion": k, "read_order": order, "differs": d}
        for s, v in mine.items():
            if fingerprint(v) != before[s] and s not in allowed and bad is None: bad = {"subset": label, "modified_in_place": s}
        now = {s for s in SLOTS if getattr(pre, s) is not None}
        if (now != set(mine) or pre.use_w_tilde != pre_use_wt) and bad is None:
            bad = {"subset": label, "preloads_object_written": sorted(now ^ set(mine)) or ["use_w_tilde"]}
    for idx, sub in enumerate(subs):
        mine = {s: private(aa, ds, s, vals[s]) for s in sub}
        history(mkpre(aa, inp, use_w_tilde=pre_use_wt, **mine), mine, list(sub), idx)
    # the slots hold the very arrays / dictionaries of the inversion that produced them (as Preloads.set_* stores them)
    va, inv0 = slot_values(aa, ds, objs, settings, inp, pre_use_wt, SLOTS, alias=True)
    obs0 = [observe(inv0, q) for q in STD]
    history(mkpre(aa, inp, use_w_tilde=pre_use_wt, **va), va, "all, aliases of the producing inversion", 3)
    if [q for q, a, b in zip(STD, [observe(inv0, q) for q in STD], obs0) if not same(a, b)] and bad is None:
        bad = {"subset": "all, aliases", "producing_inversion_changed": True}
    why = ""
    if fp_in != input_fingerprints(ds, objs, settings()):
        now = dict(input_fingerprints(ds, objs, settings()))
        why = "the caller's inputs were modified: " + ", ".join(k for k, v in fp_in if now.get(k) != v)
    why = why or defaults_pristine(aa)
    kind = ("grid:" + ("wtilde" if wt else "mapping") + ("-cross" if wt != wt_chosen(inp, None) else "") + ":" + "".join(o["k"] for o in inp["objs"])
            + "".join(":" + k for k in ("iface", "entry", "subcls") if inp.get(k)))
    return {"coq": None, "py_ok": bad is None and not why, "out": {"slots": names, "inversions": n, "failure": bad, "why": why}, "kind": kind,
            "nontrivial": nm > 0}

def run_noise(inp):
    aa, ds, objs, settings = build(inp)
    npix = ds.data.shape[0]
    pre_use_wt = inp.get("pre_use_wt")
    nv = float(ds.noise_map[0]) * (3.0 if inp["bad"] else 1.0)
    pre = aa.Preloads(use_w_tilde=pre_use_wt, w_tilde=new_w_tilde(aa, ds, noise_value=nv))
    r = call_res(lambda: aa.Inversion(dataset=ds, linear_obj_list=objs, settings=settings(), preloads=pre))
    raised = r[0] != "ok"
    if raised and r[1] != "InversionException": raise AssertionError("unexpected exception class " + r[1])
    coq = f"(KNoise {cinput(aa, ds, objs, settings, inp, npix)} {cstore(pre, npix)} {cbool(raised)})"
    return {"coq": coq, "out": {"raised": raised}, "kind": "noise:" + ("bad" if inp["bad"] else "good"), "nontrivial": inp["bad"]}

def run_case(inp):
    if inp["op"] == "hist": return run_hist(inp)
    if inp["op"] == "subsets": return run_subsets(inp)
    if inp["op"] == "grid": return run_grid(inp)
    if inp["op"] == "sets": return run_sets(inp)
    return run_noise(inp)
