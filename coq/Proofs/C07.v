(* C07 -- lemmas about the model of the regularization matrices (coq/Model/C07.v).  All at ROps. *)
From Coq Require Import ZArith List Bool Reals Lra Lia Permutation Arith.
From PAV Require Import Base.Res Base.Check Base.NumOps Base.Sum Model.C07.
Import ListNotations.
Local Open Scope R_scope.

Notation Rmat := (list (list R)).
Notation Rentry := (nat * nat * R)%type.
(* [T ROps] and [R] are convertible but syntactically different atoms for lia *)
Ltac tr := change (T ROps) with R in *.
Notation maddR := (@madd ROps).
Notation mscatterR := (@mscatter ROps).
Notation buildR := (@build ROps).

(* ------------------------------------------------------------------ shapes *)
Definition wfm (n : nat) (M : Rmat) : Prop := length M = n /\ Forall (fun r => length r = n) M.

Lemma madd_length (M : Rmat) i j v : length (maddR M i j v) = length M.
Proof. revert i; induction M as [|r M IH]; intros [|i]; simpl; auto. Qed.
Lemma madd_wfm n (M : Rmat) i j v : wfm n M -> wfm n (maddR M i j v).
Proof.
  intros [HL HF]. split; [rewrite madd_length; exact HL|]. clear HL.
  revert i; induction HF as [|r M Hr HF IH]; intros [|i]; simpl; try constructor; auto.
  rewrite (@upd_add_length ROps). exact Hr.
Qed.
Lemma mscatter_wfm n (es : list Rentry) : forall M, wfm n M -> wfm n (mscatterR es M).
Proof. unfold mscatter. induction es as [|e es IH]; intros M H; simpl; auto. apply IH, madd_wfm, H. Qed.
Lemma mzeros_wfm n : wfm n (@mzeros ROps n n).
Proof.
  unfold mzeros, zeros. split; [apply repeat_length|].
  apply Forall_forall. intros r Hr. apply repeat_spec in Hr. subst. apply repeat_length.
Qed.
Lemma build_wfm n (es : list Rentry) : wfm n (buildR n es).
Proof. apply mscatter_wfm, mzeros_wfm. Qed.

(* ------------------------------------------------------------------ sums *)
Lemma sumR_map_sub {A} (f g : A -> R) l : sumR (map (fun x => f x - g x) l) = sumR (map f l) - sumR (map g l).
Proof. induction l; cbn; lra. Qed.
Lemma sumR_flat_map {A B} (f : A -> list B) (g : B -> R) l :
  sumR (map g (flat_map f l)) = sumR (map (fun a => sumR (map g (f a))) l).
Proof. induction l; cbn; auto. rewrite map_app, sumR_app, IHl. reflexivity. Qed.
Lemma sumR_filter_ind {A} (p : A -> bool) (f : A -> R) l :
  sumR (map f (filter p l)) = sumR (map (fun x => if p x then f x else 0) l).
Proof. induction l; cbn; auto. destruct (p a); cbn; lra. Qed.
Lemma sumR_map_nonneg {A} (f : A -> R) l : (forall x, 0 <= f x) -> 0 <= sumR (map f l).
Proof. intros H. induction l; cbn; [lra|]. specialize (H a). lra. Qed.
Lemma sum_nth_seq (F : R -> R) (x : list R) s :
  sumR (map (fun i => F (nth (i - s) x 0)) (seq s (length x))) = sumR (map F x).
Proof.
  revert s. induction x as [|a x IH]; intros s; cbn; auto.
  replace (s - s)%nat with 0%nat by lia. f_equal.
  rewrite <- (IH (S s)). apply sumR_map_ext. intros i Hi. apply in_seq in Hi.
  replace (i - s)%nat with (S (i - S s)) by lia. reflexivity.
Qed.
Lemma sum_nth_seq0 (F : R -> R) (x : list R) n : length x = n ->
  sumR (map (fun i => F (nth i x 0)) (seq 0 n)) = sumR (map F x).
Proof.
  intros <-. rewrite <- (sum_nth_seq F x 0). apply sumR_map_ext. intros i _. rewrite Nat.sub_0_r. reflexivity.
Qed.

(* ------------------------------------------------------------------ bilinear form of a scatter *)
Definition Rdot (a b : list R) : R := sumR (map (fun p => fst p * snd p) (combine a b)).
Definition Rbil (x : list R) (M : Rmat) (y : list R) : R := sumR (map (fun xr => fst xr * Rdot (snd xr) y) (combine x M)).
Lemma dot_R a b : @dot ROps a b = Rdot a b.
Proof. unfold dot, Rdot. rewrite sumT_sumR. reflexivity. Qed.
Lemma bil_R x M y : @bil ROps x M y = Rbil x M y.
Proof.
  unfold bil, Rbil. rewrite sumT_sumR. apply sumR_map_ext. intros [a r] _. cbn [fst snd]. rewrite dot_R. reflexivity.
Qed.

Lemma Rdot_upd_add (r : list R) j v y : (j < length r)%nat ->
  Rdot (@upd_add ROps r j v) y = Rdot r y + v * nth j y 0.
Proof.
  unfold Rdot. revert j y. induction r as [|a r IH]; intros j y Hj; simpl in Hj; [lia|].
  destruct j as [|j], y as [|b y]; cbn [upd_add combine map sumR fst snd nth].
  all: try (cbn; lra).
  rewrite IH by lia. lra.
Qed.
Lemma Rbil_madd x (M : Rmat) y i j v : (i < length M)%nat -> (j < length (nth i M []))%nat ->
  Rbil x (maddR M i j v) y = Rbil x M y + nth i x 0 * v * nth j y 0.
Proof.
  unfold Rbil. revert i x. induction M as [|r M IH]; intros i x Hi Hj; simpl in Hi; [lia|].
  destruct i as [|i], x as [|a x]; cbn [madd combine map sumR fst snd nth].
  - ring.
  - cbn [nth] in Hj. rewrite Rdot_upd_add by exact Hj. ring.
  - ring.
  - cbn [nth] in Hj. rewrite IH; [ring | tr; lia | exact Hj].
Qed.

Definition inr (n : nat) (e : Rentry) : Prop := (fst (fst e) < n)%nat /\ (snd (fst e) < n)%nat.
(* the sum  sum_e f(i_e) * v_e * g(j_e)  over an update list *)
Definition ES (es : list Rentry) (f g : nat -> R) : R :=
  sumR (map (fun e => f (fst (fst e)) * snd e * g (snd (fst e))) es).

Lemma wfm_row n (M : Rmat) i : wfm n M -> (i < n)%nat -> length (nth i M []) = n.
Proof.
  intros [HL HF] Hi. rewrite Forall_forall in HF. apply HF. apply nth_In. lia.
Qed.
Lemma Rbil_mscatter n x y (es : list Rentry) : Forall (inr n) es -> forall M, wfm n M ->
  Rbil x (mscatterR es M) y = Rbil x M y + ES es (fun i => nth i x 0) (fun j => nth j y 0).
Proof.
  unfold mscatter, ES. induction 1 as [|[[i j] v] es [Hi Hj] HF IH]; intros M HM; cbn [fold_left map sumR fst snd]; [lra|].
  cbn [fst snd] in Hi, Hj.
  rewrite IH by (apply madd_wfm, HM).
  rewrite Rbil_madd.
  - lra.
  - destruct HM as [HL _]. lia.
  - rewrite (wfm_row n) by auto. exact Hj.
Qed.
Lemma Rdot_zeros m y : Rdot (@zeros ROps m) y = 0.
Proof.
  unfold Rdot, zeros, zero. cbn. revert y. induction m; intros [|b y]; cbn; auto. rewrite IHm. lra.
Qed.
Lemma Rbil_mzeros n m x y : Rbil x (@mzeros ROps n m) y = 0.
Proof.
  unfold Rbil, mzeros. revert x. induction n; intros [|a x]; cbn [repeat combine map sumR fst snd]; auto.
  rewrite IHn, Rdot_zeros. lra.
Qed.
Lemma Rbil_build n x y (es : list Rentry) : Forall (inr n) es ->
  Rbil x (buildR n es) y = ES es (fun i => nth i x 0) (fun j => nth j y 0).
Proof. intros H. unfold build. rewrite (Rbil_mscatter n) by (auto using mzeros_wfm). rewrite Rbil_mzeros. lra. Qed.

(* entries through unit vectors *)
Definition ind (a i : nat) : R := if Nat.eqb i a then 1 else 0.
Lemma nth_map_seq {A} (f : nat -> A) d n : forall s i,
  nth i (map f (seq s n)) d = if (i <? n)%nat then f (s + i)%nat else d.
Proof.
  induction n as [|n IH]; intros s i; cbn [seq map].
  - destruct i; reflexivity.
  - destruct i as [|i]; cbn [nth].
    + rewrite Nat.add_0_r. reflexivity.
    + rewrite IH. replace (S s + i)%nat with (s + S i)%nat by lia. reflexivity.
Qed.
Lemma nth_unit n a i : nth i (@unit ROps n a) 0 = if (i <? n)%nat then ind a i else 0.
Proof. unfold unit, ind. rewrite nth_map_seq. cbn. reflexivity. Qed.
Lemma Rdot_unit_gen (r : list R) s b :
  Rdot r (map (fun i => if Nat.eqb i b then @one ROps else @zero ROps) (seq s (length r))) = if (s <=? b)%nat then nth (b - s) r 0 else 0.
Proof.
  unfold Rdot. revert s. induction r as [|a r IH]; intros s; cbn [length seq map combine sumR fst snd].
  - destruct (s <=? b)%nat; [destruct (b - s)%nat|]; reflexivity.
  - rewrite IH. destruct (Nat.eqb s b) eqn:E.
    + apply Nat.eqb_eq in E. subst. replace (b - b)%nat with 0%nat by lia.
      destruct (S b <=? b)%nat eqn:E1; [apply Nat.leb_le in E1; lia|].
      rewrite Nat.leb_refl. cbn. lra.
    + apply Nat.eqb_neq in E. destruct (s <=? b)%nat eqn:E1.
      * apply Nat.leb_le in E1. destruct (S s <=? b)%nat eqn:E2; [|apply Nat.leb_gt in E2; lia].
        replace (b - s)%nat with (S (b - S s)) by lia. cbn. lra.
      * apply Nat.leb_gt in E1. destruct (S s <=? b)%nat eqn:E2; [apply Nat.leb_le in E2; lia|]. cbn. lra.
Qed.
Lemma Rdot_unit (r : list R) b : Rdot r (@unit ROps (length r) b) = nth b r 0.
Proof. unfold unit. rewrite Rdot_unit_gen. cbn. rewrite Nat.sub_0_r. reflexivity. Qed.
Lemma Rbil_unit_l n (M : Rmat) a y : length M = n ->
  Rbil (@unit ROps n a) M y = Rdot (nth a M []) y.
Proof.
  intros <-. unfold Rbil, unit.
  assert (G : forall s, sumR (map (fun xr : R * list R => fst xr * Rdot (snd xr) y)
                (combine (map (fun i => if Nat.eqb i a then @one ROps else @zero ROps) (seq s (length M))) M))
              = if (s <=? a)%nat then Rdot (nth (a - s) M []) y else 0).
  { induction M as [|r M IH]; intros s; cbn [length seq map combine sumR fst snd].
    - destruct (s <=? a)%nat; [destruct (a - s)%nat|]; unfold Rdot; reflexivity.
    - rewrite IH. destruct (Nat.eqb s a) eqn:E.
      + apply Nat.eqb_eq in E. subst. replace (a - a)%nat with 0%nat by lia.
        destruct (S a <=? a)%nat eqn:E1; [apply Nat.leb_le in E1; lia|]. rewrite Nat.leb_refl. unfold one, zero; cbn [nth ofZ ROps]; lra.
      + apply Nat.eqb_neq in E. destruct (s <=? a)%nat eqn:E1.
        * apply Nat.leb_le in E1. destruct (S s <=? a)%nat eqn:E2; [|apply Nat.leb_gt in E2; lia].
          replace (a - s)%nat with (S (a - S s)) by lia. unfold one, zero; cbn [nth ofZ ROps]; lra.
        * apply Nat.leb_gt in E1. destruct (S s <=? a)%nat eqn:E2; [apply Nat.leb_le in E2; lia|]. unfold one, zero; cbn [nth ofZ ROps]; lra. }
  rewrite G. cbn. rewrite Nat.sub_0_r. reflexivity.
Qed.
Lemma mget_Rbil n (M : Rmat) a b : wfm n M -> (a < n)%nat ->
  @mget ROps M a b = Rbil (@unit ROps n a) M (@unit ROps n b).
Proof.
  intros HM Ha. rewrite (Rbil_unit_l n) by apply HM.
  rewrite <- (wfm_row n M a HM Ha) at 1. rewrite Rdot_unit. reflexivity.
Qed.
Lemma mget_build n (es : list Rentry) a b : Forall (inr n) es -> (a < n)%nat -> (b < n)%nat ->
  @mget ROps (buildR n es) a b = ES es (ind a) (ind b).
Proof.
  intros HF Ha Hb. rewrite (mget_Rbil n) by (auto using build_wfm). rewrite Rbil_build by exact HF.
  unfold ES. rewrite Forall_forall in HF. apply sumR_map_ext. intros [[i j] v] He. destruct (HF _ He) as [Hi Hj]. cbn [fst snd] in *.
  rewrite !nth_unit. apply Nat.ltb_lt in Hi, Hj. rewrite Hi, Hj. reflexivity.
Qed.
(* a matrix built from an update list whose entry sum is symmetric in (f, g) is symmetric *)
Lemma build_symmetric n (es : list Rentry) : Forall (inr n) es -> (forall f g, ES es f g = ES es g f) ->
  forall a b, (a < n)%nat -> (b < n)%nat -> @mget ROps (buildR n es) a b = @mget ROps (buildR n es) b a.
Proof. intros HF HS a b Ha Hb. rewrite !mget_build by auto. apply HS. Qed.
Definition xh (x : list R) (i : nat) : R := nth i x 0.
Lemma quad_build n (es : list Rentry) x : Forall (inr n) es -> @quad ROps (buildR n es) x = ES es (xh x) (xh x).
Proof. intros HF. unfold quad. rewrite bil_R. apply Rbil_build, HF. Qed.

(* ------------------------------------------------------------------ symmetric neighbour relations *)
Definition swap (p : nat * nat) : nat * nat := (snd p, fst p).
Definition symE (E : list (nat * nat)) : Prop := Permutation E (map swap E).
Lemma swap_swap p : swap (swap p) = p.
Proof. destruct p; reflexivity. Qed.

Lemma symE_sum (g : nat * nat -> R) E : symE E -> sumR (map g E) = sumR (map (fun p => g (swap p)) E).
Proof. intros H. rewrite (sumR_perm _ _ (Permutation_map g H)), map_map. reflexivity. Qed.

Lemma symE_upairs (h : nat * nat -> R) E : symE E -> (forall p, h (swap p) = h p) -> (forall a, h (a, a) = 0) ->
  sumR (map h E) = 2 * sumR (map h (filter (fun p => (fst p <? snd p)%nat) E)).
Proof.
  intros HS Hh H0.
  set (A := fun p : nat * nat => if (fst p <? snd p)%nat then h p else 0).
  set (B := fun p : nat * nat => if (snd p <? fst p)%nat then h p else 0).
  assert (E1 : sumR (map h E) = sumR (map A E) + sumR (map B E)).
  { rewrite <- sumR_map_add. apply sumR_map_ext. intros [i k] _. unfold A, B. cbn [fst snd].
    destruct (Nat.ltb_spec i k) as [X|X], (Nat.ltb_spec k i) as [Y|Y]; try lra; try lia.
    assert (i = k) by lia. subst. rewrite H0. lra. }
  assert (E2 : sumR (map B E) = sumR (map A E)).
  { rewrite (symE_sum B E HS). apply sumR_map_ext. intros [i k] _. unfold A, B, swap. cbn [fst snd].
    destruct (i <? k)%nat; auto. apply (Hh (i, k)). }
  rewrite sumR_filter_ind. fold A. lra.
Qed.

Definition pair_dec : forall x y : nat * nat, {x = y} + {x <> y}.
Proof. decide equality; apply Nat.eq_dec. Defined.
Lemma count_pair_occ p l : count_pair p l = count_occ pair_dec l p.
Proof.
  unfold count_pair. induction l as [|q l IH]; cbn [filter count_occ length]; auto.
  destruct (pair_dec q p) as [->|N].
  - rewrite !Nat.eqb_refl. cbn. rewrite IH. reflexivity.
  - destruct ((fst p =? fst q)%nat && (snd p =? snd q)%nat) eqn:E; [|exact IH].
    apply andb_true_iff in E. destruct E as [E1 E2]. apply Nat.eqb_eq in E1, E2. destruct p, q; cbn in *; subst. contradiction.
Qed.
Lemma count_occ_swap l p : count_occ pair_dec (map swap l) p = count_occ pair_dec l (swap p).
Proof.
  rewrite <- (swap_swap p) at 1. symmetry. apply count_occ_map.
  intros x y H. rewrite <- (swap_swap x), <- (swap_swap y), H. reflexivity.
Qed.
Lemma nb_symmetric_symE nb : nb_symmetric nb = true -> symE (edges nb).
Proof.
  unfold nb_symmetric, symE. set (E := edges nb). intros H. rewrite forallb_forall in H.
  apply (Permutation_count_occ pair_dec). intros p. rewrite count_occ_swap.
  assert (HE : forall q, In q E -> count_occ pair_dec E q = count_occ pair_dec E (swap q)).
  { intros q Hq. specialize (H q Hq). apply Nat.eqb_eq in H. rewrite !count_pair_occ in H. exact H. }
  destruct (in_dec pair_dec p E) as [Hp|Hp]; [apply HE, Hp|].
  destruct (in_dec pair_dec (swap p) E) as [Hq|Hq].
  - specialize (HE _ Hq). rewrite swap_swap in HE. symmetry. exact HE.
  - apply (count_occ_not_In pair_dec) in Hp, Hq. rewrite Hp, Hq. reflexivity.
Qed.

(* ------------------------------------------------------------------ sums over update lists / indexed lists *)
Lemma ES_app es1 es2 f g : ES (es1 ++ es2) f g = ES es1 f g + ES es2 f g.
Proof. unfold ES. rewrite map_app, sumR_app. reflexivity. Qed.
Lemma ES_cons e es f g : ES (e :: es) f g = f (fst (fst e)) * snd e * g (snd (fst e)) + ES es f g.
Proof. reflexivity. Qed.
Lemma ES_flat_map {A} (F : A -> list Rentry) l f g : ES (flat_map F l) f g = sumR (map (fun a => ES (F a) f g) l).
Proof. unfold ES. apply sumR_flat_map. Qed.

Lemma map_fst_combine_seq {A} (l : list A) s : map fst (combine (seq s (length l)) l) = seq s (length l).
Proof. revert s. induction l; intros s; cbn; auto. rewrite IHl. reflexivity. Qed.
Lemma sum_indexed_fst {A} (F : nat -> R) (l : list A) :
  sumR (map (fun ir => F (fst ir)) (indexed l)) = sumR (map F (seq 0 (length l))).
Proof. unfold indexed. rewrite <- (map_map fst F), map_fst_combine_seq. reflexivity. Qed.
Lemma sum_edges (G : nat * nat -> R) nb :
  sumR (map G (edges nb)) = sumR (map (fun ir => sumR (map (fun k => G (fst ir, k)) (snd ir))) (indexed nb)).
Proof. unfold edges. rewrite sumR_flat_map. apply sumR_map_ext. intros [i row] _. cbn [fst snd]. rewrite map_map. reflexivity. Qed.

Lemma in_indexed {A} (l : list A) i a : In (i, a) (indexed l) -> (i < length l)%nat /\ In a l.
Proof.
  unfold indexed. intros H. split.
  - apply in_combine_l in H. apply in_seq in H. lia.
  - apply in_combine_r in H. exact H.
Qed.

Definition nb_inr (n : nat) (nb : list (list nat)) : Prop := Forall (Forall (fun k => (k < n)%nat)) nb.
Lemma nb_in_range_inr nb n : nb_in_range n nb = true -> nb_inr n nb.
Proof.
  unfold nb_in_range, nb_inr. intros H. rewrite forallb_forall in H. apply Forall_forall. intros r Hr.
  specialize (H r Hr). rewrite forallb_forall in H. apply Forall_forall. intros k Hk. apply Nat.ltb_lt, H, Hk.
Qed.

(* ------------------------------------------------------------------ constant scheme *)
Lemma ES_const_row c2 i row f g :
  ES (@const_row ROps c2 i row) f g = sumR (map (fun k => c2 * (f i * g i - f i * g k)) row).
Proof.
  unfold const_row. rewrite ES_flat_map. apply sumR_map_ext. intros k _. unfold ES. cbn. lra.
Qed.
Lemma const_row_inr n c2 i row : (i < n)%nat -> Forall (fun k => (k < n)%nat) row -> Forall (inr n) (@const_row ROps c2 i row).
Proof.
  intros Hi HF. unfold const_row. apply Forall_forall. intros e He. apply in_flat_map in He. destruct He as [k [Hk He]].
  rewrite Forall_forall in HF. specialize (HF k Hk). cbn in He. destruct He as [<-|[<-|[]]]; split; cbn; auto.
Qed.
Lemma constant_entries_inr eps c nb : nb_inr (length nb) nb -> Forall (inr (length nb)) (@constant_entries ROps eps c nb).
Proof.
  intros H. unfold constant_entries. apply Forall_forall. intros e He. apply in_flat_map in He. destruct He as [[i row] [Hir He]].
  apply in_indexed in Hir. destruct Hir as [Hi Hrow]. unfold nb_inr in H. rewrite Forall_forall in H. specialize (H row Hrow).
  cbn [fst snd] in He. destruct He as [<-|He]; [split; cbn; auto|].
  pose proof (const_row_inr (length nb) (@sq ROps c) i row Hi H) as HF. rewrite Forall_forall in HF. apply HF, He.
Qed.
Lemma ES_constant eps c nb f g :
  ES (@constant_entries ROps eps c nb) f g =
  eps * sumR (map (fun i => f i * g i) (seq 0 (length nb))) + c * c * sumR (map (fun p => f (fst p) * g (fst p) - f (fst p) * g (snd p)) (edges nb)).
Proof.
  unfold constant_entries. rewrite ES_flat_map.
  rewrite <- (sum_indexed_fst (fun i => f i * g i) nb), sum_edges, <- !sumR_map_scal, <- sumR_map_add.
  apply sumR_map_ext. intros [i row] _. cbn [fst snd]. rewrite ES_cons, ES_const_row. cbn [fst snd].
  rewrite <- sumR_map_scal. unfold sq. cbn [mul ROps].
  assert (X : sumR (map (fun k => c * c * (f i * g i - f i * g k)) row) = sumR (map (fun x => c * c * (f i * g i - f i * g x)) row)) by reflexivity.
  lra.
Qed.

Lemma edges_sym_fg nb (f g : nat -> R) : symE (edges nb) ->
  sumR (map (fun p => f (fst p) * g (snd p)) (edges nb)) = sumR (map (fun p => g (fst p) * f (snd p)) (edges nb)).
Proof.
  intros H. rewrite (symE_sum _ _ H). apply sumR_map_ext. intros [i k] _. cbn. lra.
Qed.
Lemma ES_constant_sym eps c nb : symE (edges nb) -> forall f g,
  ES (@constant_entries ROps eps c nb) f g = ES (@constant_entries ROps eps c nb) g f.
Proof.
  intros H f g. rewrite !ES_constant. rewrite !sumR_map_sub, (edges_sym_fg nb f g H).
  f_equal; [f_equal; apply sumR_map_ext; intros; lra|].
  f_equal. f_equal; apply sumR_map_ext; intros; lra.
Qed.

Definition d2 (x : list R) (p : nat * nat) : R := (xh x (fst p) - xh x (snd p)) * (xh x (fst p) - xh x (snd p)).
(* sum over directed edges of x_i^2 - x_i x_k  =  sum over undirected pairs of (x_i - x_k)^2 *)
Lemma edges_quadratic nb x : symE (edges nb) ->
  sumR (map (fun p => xh x (fst p) * xh x (fst p) - xh x (fst p) * xh x (snd p)) (edges nb)) = sumR (map (d2 x) (upairs nb)).
Proof.
  intros H. set (g := fun p : nat * nat => xh x (fst p) * xh x (fst p) - xh x (fst p) * xh x (snd p)).
  assert (E1 : 2 * sumR (map g (edges nb)) = sumR (map (d2 x) (edges nb))).
  { transitivity (sumR (map g (edges nb)) + sumR (map (fun p => g (swap p)) (edges nb))).
    - rewrite <- (symE_sum g _ H). lra.
    - rewrite <- sumR_map_add. apply sumR_map_ext. intros [i k] _. unfold g, d2, swap. cbn [fst snd]. lra. }
  assert (E2 : sumR (map (d2 x) (edges nb)) = 2 * sumR (map (d2 x) (upairs nb))).
  { unfold upairs. apply symE_upairs; auto.
    - intros [i k]. unfold d2, swap. cbn [fst snd]. lra.
    - intros a. unfold d2. cbn [fst snd]. lra. }
  lra.
Qed.
Lemma norm2_R x : @norm2 ROps x = sumR (map (fun v => v * v) x).
Proof. unfold norm2. rewrite sumT_sumR. reflexivity. Qed.
Lemma norm2_seq x n : length x = n -> sumR (map (fun i => xh x i * xh x i) (seq 0 n)) = @norm2 ROps x.
Proof. intros H. rewrite norm2_R. apply (sum_nth_seq0 (fun v => v * v) x n H). Qed.
Lemma diff2_R x p : @diff2 ROps x p = d2 x p.
Proof. reflexivity. Qed.

Lemma constant_quadratic eps c nb x : nb_inr (length nb) nb -> symE (edges nb) -> length x = length nb ->
  @quad ROps (@constant_matrix ROps eps c nb) x = @qf_constant ROps eps c nb x.
Proof.
  intros HR HS HL. unfold constant_matrix. rewrite quad_build by (apply constant_entries_inr, HR).
  rewrite ES_constant. rewrite (norm2_seq x _ HL), (edges_quadratic nb x HS).
  unfold qf_constant. rewrite sumT_sumR. unfold sq. cbn [add mul ROps].
  change (@diff2 ROps x) with (d2 x). tr. lra.
Qed.
Lemma constant_symmetric eps c nb : nb_inr (length nb) nb -> symE (edges nb) -> forall a b,
  (a < length nb)%nat -> (b < length nb)%nat ->
  @mget ROps (@constant_matrix ROps eps c nb) a b = @mget ROps (@constant_matrix ROps eps c nb) b a.
Proof.
  intros HR HS. apply build_symmetric; [apply constant_entries_inr, HR | apply ES_constant_sym, HS].
Qed.
Lemma norm2_nonneg x : 0 <= @norm2 ROps x.
Proof. rewrite norm2_R. apply sumR_map_nonneg. intros v. nra. Qed.
Lemma norm2_pos x : (exists i, nth i x 0 <> 0) -> 0 < @norm2 ROps x.
Proof.
  rewrite norm2_R. intros [i Hi]. revert i Hi. induction x as [|a x IH]; intros i Hi.
  - destruct i; cbn in Hi; lra.
  - cbn [map sumR]. assert (0 <= sumR (map (fun v => v * v) x)) by (apply sumR_map_nonneg; intros; nra).
    destruct i as [|i]; cbn [nth] in Hi.
    + assert (0 < a * a) by nra. lra.
    + specialize (IH i Hi). nra.
Qed.
Lemma qf_constant_lower eps c nb x : eps * @norm2 ROps x <= @qf_constant ROps eps c nb x.
Proof.
  unfold qf_constant. rewrite sumT_sumR. unfold sq. cbn [add mul ROps].
  assert (H1 : 0 <= sumR (map (d2 x) (upairs nb))) by (apply sumR_map_nonneg; intros p; unfold d2; apply Rle_0_sqr).
  change (@diff2 ROps x) with (d2 x). tr.
  assert (H2 : 0 <= c * c) by apply Rle_0_sqr.
  pose proof (Rmult_le_pos _ _ H2 H1). lra.
Qed.

(* ------------------------------------------------------------------ constant + zeroth, zeroth *)
Lemma constant_zeroth_entries_inr eps c cz nb : nb_inr (length nb) nb ->
  Forall (inr (length nb)) (@constant_zeroth_entries ROps eps c cz nb).
Proof.
  intros H. unfold constant_zeroth_entries. apply Forall_forall. intros e He. apply in_flat_map in He. destruct He as [[i row] [Hir He]].
  apply in_indexed in Hir. destruct Hir as [Hi Hrow]. unfold nb_inr in H. rewrite Forall_forall in H. specialize (H row Hrow).
  cbn [fst snd] in He. destruct He as [<-|[<-|He]]; [split; cbn; auto|split; cbn; auto|].
  pose proof (const_row_inr (length nb) (@sq ROps c) i row Hi H) as HF. rewrite Forall_forall in HF. apply HF, He.
Qed.
Lemma ES_constant_zeroth eps c cz nb f g :
  ES (@constant_zeroth_entries ROps eps c cz nb) f g =
  ES (@constant_entries ROps eps c nb) f g + cz * cz * sumR (map (fun i => f i * g i) (seq 0 (length nb))).
Proof.
  unfold constant_zeroth_entries, constant_entries. rewrite !ES_flat_map.
  rewrite <- (sum_indexed_fst (fun i => f i * g i) nb), <- sumR_map_scal, <- sumR_map_add.
  apply sumR_map_ext. intros [i row] _. cbn [fst snd]. rewrite !ES_cons. cbn [fst snd]. unfold sq. cbn [mul ROps]. lra.
Qed.
Lemma constant_zeroth_quadratic eps c cz nb x : nb_inr (length nb) nb -> symE (edges nb) -> length x = length nb ->
  @quad ROps (@constant_zeroth_matrix ROps eps c cz nb) x = @qf_constant_zeroth ROps eps c cz nb x.
Proof.
  intros HR HS HL. unfold constant_zeroth_matrix. rewrite quad_build by (apply constant_zeroth_entries_inr, HR).
  rewrite ES_constant_zeroth, (norm2_seq x _ HL).
  rewrite <- (quad_build (length nb)) by (apply constant_entries_inr, HR).
  fold (@constant_matrix ROps eps c nb). rewrite constant_quadratic by auto.
  unfold qf_constant_zeroth, sq. cbn [add mul ROps]. tr. lra.
Qed.
Lemma constant_zeroth_symmetric eps c cz nb : nb_inr (length nb) nb -> symE (edges nb) -> forall a b,
  (a < length nb)%nat -> (b < length nb)%nat ->
  @mget ROps (@constant_zeroth_matrix ROps eps c cz nb) a b = @mget ROps (@constant_zeroth_matrix ROps eps c cz nb) b a.
Proof.
  intros HR HS. apply build_symmetric; [apply constant_zeroth_entries_inr, HR|].
  intros f g. rewrite !ES_constant_zeroth, (ES_constant_sym eps c nb HS f g). f_equal. f_equal. apply sumR_map_ext. intros; lra.
Qed.
Lemma qf_constant_zeroth_lower eps c cz nb x : eps * @norm2 ROps x <= @qf_constant_zeroth ROps eps c cz nb x.
Proof.
  unfold qf_constant_zeroth, sq. cbn [add mul ROps]. pose proof (qf_constant_lower eps c nb x). pose proof (norm2_nonneg x).
  assert (0 <= cz * cz) by apply Rle_0_sqr. pose proof (Rmult_le_pos (cz * cz) (@norm2 ROps x)). tr. lra.
Qed.

Lemma zeroth_entries_inr c n : Forall (inr n) (@zeroth_entries ROps c n).
Proof.
  unfold zeroth_entries. apply Forall_forall. intros e He. apply in_map_iff in He. destruct He as [i [<- Hi]].
  apply in_seq in Hi. split; cbn; lia.
Qed.
Lemma ES_zeroth c n f g : ES (@zeroth_entries ROps c n) f g = c * c * sumR (map (fun i => f i * g i) (seq 0 n)).
Proof.
  unfold zeroth_entries, ES. rewrite map_map, <- sumR_map_scal. apply sumR_map_ext. intros i _. cbn. lra.
Qed.
Lemma zeroth_quadratic c n x : length x = n -> @quad ROps (@zeroth_matrix ROps c n) x = @qf_zeroth ROps c x.
Proof.
  intros HL. unfold zeroth_matrix. rewrite quad_build by apply zeroth_entries_inr. rewrite ES_zeroth, (norm2_seq x n HL).
  reflexivity.
Qed.
Lemma zeroth_symmetric c n a b : (a < n)%nat -> (b < n)%nat ->
  @mget ROps (@zeroth_matrix ROps c n) a b = @mget ROps (@zeroth_matrix ROps c n) b a.
Proof.
  apply build_symmetric; [apply zeroth_entries_inr|]. intros f g. rewrite !ES_zeroth. f_equal. apply sumR_map_ext. intros; lra.
Qed.

(* ------------------------------------------------------------------ brightness zeroth *)
Lemma bz_entries_inr w : Forall (inr (length w)) (@bz_entries ROps w).
Proof.
  unfold bz_entries. apply Forall_forall. intros e He. apply in_map_iff in He. destruct He as [[i wi] [<- Hi]].
  apply in_indexed in Hi. destruct Hi as [Hi _]. split; cbn; tr; lia.
Qed.
Lemma sum_indexed_combine (F : R -> R -> R) (w x : list R) s : length x = length w ->
  sumR (map (fun iw => F (snd iw) (nth (fst iw - s) x 0)) (combine (seq s (length w)) w)) = sumR (map (fun wx => F (fst wx) (snd wx)) (combine w x)).
Proof.
  revert x s. induction w as [|a w IH]; intros [|b x] s HL; cbn in HL; try lia; cbn [length seq combine map sumR fst snd]; auto.
  replace (s - s)%nat with 0%nat by lia. cbn [nth]. f_equal.
  rewrite <- (IH x (S s)) by lia. apply sumR_map_ext. intros [i wi] Hi. apply in_combine_l in Hi. apply in_seq in Hi. cbn [fst snd].
  replace (i - s)%nat with (S (i - S s)) by lia. reflexivity.
Qed.
Lemma bz_quadratic w x : length x = length w -> @quad ROps (@bz_matrix ROps w) x = @qf_bz ROps w x.
Proof.
  intros HL. unfold bz_matrix. rewrite quad_build by apply bz_entries_inr.
  unfold qf_bz. rewrite sumT_sumR. unfold bz_entries, ES. rewrite map_map. cbn [fst snd].
  transitivity (sumR (map (fun wx : R * R => (fun a b => a * a * (b * b)) (fst wx) (snd wx)) (combine w x))).
  - cbv beta. tr. rewrite <- (sum_indexed_combine (fun a b => a * a * (b * b)) w x 0 HL). unfold indexed.
    apply sumR_map_ext. intros [i wi] _. cbn [fst snd]. rewrite Nat.sub_0_r. unfold sq, xh. cbn [mul ROps]. lra.
  - apply sumR_map_ext. intros [a b] _. unfold sq. cbn [fst snd mul ROps]. lra.
Qed.
Lemma bz_symmetric w a b : (a < length w)%nat -> (b < length w)%nat ->
  @mget ROps (@bz_matrix ROps w) a b = @mget ROps (@bz_matrix ROps w) b a.
Proof.
  apply build_symmetric; [apply bz_entries_inr|]. intros f g. unfold bz_entries, ES. rewrite !map_map.
  apply sumR_map_ext. intros; cbn; lra.
Qed.
Lemma qf_bz_nonneg w x : 0 <= @qf_bz ROps w x.
Proof.
  unfold qf_bz. rewrite sumT_sumR. apply sumR_map_nonneg. intros [a b]. unfold sq. cbn [fst snd mul ROps].
  apply Rmult_le_pos; apply Rle_0_sqr.
Qed.

(* ------------------------------------------------------------------ weighted (adaptive) scheme *)
Lemma nthT_map_sq (w : list R) k : @nthT ROps (map (@sq ROps) w) k = xh w k * xh w k.
Proof.
  unfold nthT, xh, zero. cbn [ofZ ROps]. replace (IZR 0) with (@sq ROps 0) at 1 by (unfold sq; cbn; lra).
  rewrite map_nth. reflexivity.
Qed.
Lemma ES_weighted_row rw i row f g :
  ES (@weighted_row ROps rw i row) f g =
  sumR (map (fun k => @nthT ROps rw k * (f i * g i + f k * g k - f i * g k - f k * g i)) row).
Proof.
  unfold weighted_row. rewrite ES_flat_map. apply sumR_map_ext. intros k _. unfold ES. cbn. lra.
Qed.
Lemma weighted_row_inr n rw i row : (i < n)%nat -> Forall (fun k => (k < n)%nat) row -> Forall (inr n) (@weighted_row ROps rw i row).
Proof.
  intros Hi HF. unfold weighted_row. apply Forall_forall. intros e He. apply in_flat_map in He. destruct He as [k [Hk He]].
  rewrite Forall_forall in HF. specialize (HF k Hk). cbn in He. destruct He as [<-|[<-|[<-|[<-|[]]]]]; split; cbn; auto.
Qed.
Lemma weighted_entries_inr eps w nb : length nb = length w -> nb_inr (length w) nb ->
  Forall (inr (length w)) (@weighted_entries ROps eps w nb).
Proof.
  intros HL H. unfold weighted_entries. rewrite <- HL. fold (indexed nb). rewrite <- HL in H.
  apply Forall_forall. intros e He. apply in_flat_map in He. destruct He as [[i row] [Hir He]].
  apply in_indexed in Hir. destruct Hir as [Hi Hrow]. unfold nb_inr in H. rewrite Forall_forall in H. specialize (H row Hrow).
  cbn [fst snd] in He. destruct He as [<-|He]; [split; cbn; auto|].
  pose proof (weighted_row_inr (length nb) (map (@sq ROps) w) i row Hi H) as HF. rewrite Forall_forall in HF. apply HF, He.
Qed.
Lemma ES_weighted eps w nb f g : length nb = length w ->
  ES (@weighted_entries ROps eps w nb) f g =
  eps * sumR (map (fun i => f i * g i) (seq 0 (length nb)))
  + sumR (map (fun p => xh w (snd p) * xh w (snd p) *
                        (f (fst p) * g (fst p) + f (snd p) * g (snd p) - f (fst p) * g (snd p) - f (snd p) * g (fst p))) (edges nb)).
Proof.
  intros HL. unfold weighted_entries. rewrite <- HL. fold (indexed nb). rewrite ES_flat_map.
  rewrite <- (sum_indexed_fst (fun i => f i * g i) nb), sum_edges, <- sumR_map_scal, <- sumR_map_add.
  apply sumR_map_ext. intros [i row] _. cbn [fst snd]. rewrite ES_cons, ES_weighted_row. cbn [fst snd].
  f_equal; [lra|]. apply sumR_map_ext. intros k _. rewrite nthT_map_sq. reflexivity.
Qed.
Lemma weighted_symmetric eps w nb : length nb = length w -> nb_inr (length w) nb -> forall a b,
  (a < length w)%nat -> (b < length w)%nat ->
  @mget ROps (@weighted_matrix ROps eps w nb) a b = @mget ROps (@weighted_matrix ROps eps w nb) b a.
Proof.
  intros HL HR. apply build_symmetric; [apply weighted_entries_inr; auto|].
  intros f g. rewrite !ES_weighted by exact HL. f_equal; [f_equal|]; apply sumR_map_ext; intros; lra.
Qed.
(* directed form: needs no symmetry of the neighbour lists *)
Lemma weighted_quadratic_directed eps w nb x : length nb = length w -> nb_inr (length w) nb -> length x = length w ->
  @quad ROps (@weighted_matrix ROps eps w nb) x =
  eps * @norm2 ROps x + sumR (map (fun p => xh w (snd p) * xh w (snd p) * d2 x p) (edges nb)).
Proof.
  intros HL HR HX. unfold weighted_matrix. rewrite quad_build by (apply weighted_entries_inr; auto).
  rewrite ES_weighted by exact HL. rewrite (norm2_seq x (length nb)) by (tr; lia).
  f_equal. apply sumR_map_ext. intros [i k] _. unfold d2. cbn [fst snd]. lra.
Qed.
Lemma weighted_lower eps w nb x : length nb = length w -> nb_inr (length w) nb -> length x = length w ->
  eps * @norm2 ROps x <= @quad ROps (@weighted_matrix ROps eps w nb) x.
Proof.
  intros HL HR HX. rewrite weighted_quadratic_directed by auto.
  assert (0 <= sumR (map (fun p => xh w (snd p) * xh w (snd p) * d2 x p) (edges nb))).
  { apply sumR_map_nonneg. intros p. apply Rmult_le_pos; [apply Rle_0_sqr | unfold d2; apply Rle_0_sqr]. }
  lra.
Qed.
Lemma weighted_quadratic eps w nb x : length nb = length w -> nb_inr (length w) nb -> symE (edges nb) -> length x = length w ->
  @quad ROps (@weighted_matrix ROps eps w nb) x = @qf_weighted ROps eps w nb x.
Proof.
  intros HL HR HS HX. rewrite weighted_quadratic_directed by auto.
  unfold qf_weighted. rewrite sumT_sumR. cbn [add mul ROps].
  set (g := fun p : nat * nat => xh w (snd p) * xh w (snd p) * d2 x p).
  set (h := fun p : nat * nat => (xh w (fst p) * xh w (fst p) + xh w (snd p) * xh w (snd p)) * d2 x p).
  assert (E1 : 2 * sumR (map g (edges nb)) = sumR (map h (edges nb))).
  { transitivity (sumR (map g (edges nb)) + sumR (map (fun p => g (swap p)) (edges nb))).
    - rewrite <- (symE_sum g _ HS). lra.
    - rewrite <- sumR_map_add. apply sumR_map_ext. intros [i k] _. unfold g, h, d2, swap. cbn [fst snd]. lra. }
  assert (E2 : sumR (map h (edges nb)) = 2 * sumR (map h (upairs nb))).
  { unfold upairs. apply symE_upairs; auto.
    - intros [i k]. unfold h, d2, swap. cbn [fst snd]. lra.
    - intros a. unfold h, d2. cbn [fst snd]. lra. }
  assert (E3 : sumR (map h (upairs nb)) =
               sumR (map (fun p => (@nthT ROps (map (@sq ROps) w) (fst p) + @nthT ROps (map (@sq ROps) w) (snd p)) * @diff2 ROps x p) (upairs nb))).
  { apply sumR_map_ext. intros p _. rewrite !nthT_map_sq. reflexivity. }
  tr. lra.
Qed.
Lemma qf_weighted_lower eps w nb x : eps * @norm2 ROps x <= @qf_weighted ROps eps w nb x.
Proof.
  unfold qf_weighted. rewrite sumT_sumR. cbn [add mul ROps].
  assert (0 <= sumR (map (fun p => (@nthT ROps (map (@sq ROps) w) (fst p) + @nthT ROps (map (@sq ROps) w) (snd p)) * @diff2 ROps x p) (upairs nb))).
  { apply sumR_map_nonneg. intros p. apply Rmult_le_pos.
    - rewrite !nthT_map_sq. pose proof (Rle_0_sqr (xh w (fst p))). pose proof (Rle_0_sqr (xh w (snd p))). unfold Rsqr in *. lra.
    - change (@diff2 ROps x p) with (d2 x p). unfold d2. apply Rle_0_sqr. }
  tr. lra.
Qed.

(* ------------------------------------------------------------------ statements with the boolean hypotheses *)
Definition square_n (n : nat) (H : Rmat) : Prop := length H = n /\ Forall (fun r => length r = n) H.
Definition symmetric_n (n : nat) (H : Rmat) : Prop := forall a b, (a < n)%nat -> (b < n)%nat -> @mget ROps H a b = @mget ROps H b a.
Definition nonzero (x : list R) : Prop := exists i, nth i x 0 <> 0.

Lemma nb_ok_split nb : nb_ok nb = true -> nb_inr (length nb) nb /\ symE (edges nb).
Proof.
  unfold nb_ok. intros H. apply andb_true_iff in H. destruct H as [H1 H2].
  split; [apply nb_in_range_inr, H1 | apply nb_symmetric_symE, H2].
Qed.

Lemma qf_constant_meaning eps c nb x :
  @qf_constant ROps eps c nb x =
  c * c * sumR (map (fun p => (nth (fst p) x 0 - nth (snd p) x 0) * (nth (fst p) x 0 - nth (snd p) x 0)) (upairs nb))
  + eps * sumR (map (fun v => v * v) x).
Proof. unfold qf_constant. rewrite sumT_sumR, norm2_R. reflexivity. Qed.
Lemma qf_weighted_meaning eps w nb x :
  @qf_weighted ROps eps w nb x =
  sumR (map (fun p => (nth (fst p) w 0 * nth (fst p) w 0 + nth (snd p) w 0 * nth (snd p) w 0)
                      * ((nth (fst p) x 0 - nth (snd p) x 0) * (nth (fst p) x 0 - nth (snd p) x 0))) (upairs nb))
  + eps * sumR (map (fun v => v * v) x).
Proof.
  unfold qf_weighted. rewrite sumT_sumR, norm2_R. cbn [add mul ROps]. f_equal.
  apply sumR_map_ext. intros p _. rewrite !nthT_map_sq. reflexivity.
Qed.

Lemma T_constant_size eps c nb : square_n (length nb) (@constant_matrix ROps eps c nb).
Proof. apply build_wfm. Qed.
Lemma T_constant_qf eps c nb x : nb_ok nb = true -> length x = length nb ->
  @quad ROps (@constant_matrix ROps eps c nb) x = @qf_constant ROps eps c nb x.
Proof. intros H HL. apply nb_ok_split in H. destruct H. apply constant_quadratic; auto. Qed.
Lemma T_constant_sym eps c nb : nb_ok nb = true -> symmetric_n (length nb) (@constant_matrix ROps eps c nb).
Proof. intros H. apply nb_ok_split in H. destruct H. unfold symmetric_n. apply constant_symmetric; auto. Qed.
Lemma T_constant_pd eps c nb x : 0 < eps -> nb_ok nb = true -> length x = length nb -> nonzero x ->
  0 < @quad ROps (@constant_matrix ROps eps c nb) x.
Proof.
  intros He H HL Hx. rewrite T_constant_qf by auto. pose proof (qf_constant_lower eps c nb x). pose proof (norm2_pos x Hx).
  pose proof (Rmult_lt_0_compat _ _ He H1). lra.
Qed.

Lemma T_constant_zeroth_size eps c cz nb : square_n (length nb) (@constant_zeroth_matrix ROps eps c cz nb).
Proof. apply build_wfm. Qed.
Lemma T_constant_zeroth_qf eps c cz nb x : nb_ok nb = true -> length x = length nb ->
  @quad ROps (@constant_zeroth_matrix ROps eps c cz nb) x = @qf_constant_zeroth ROps eps c cz nb x.
Proof. intros H HL. apply nb_ok_split in H. destruct H. apply constant_zeroth_quadratic; auto. Qed.
Lemma T_constant_zeroth_sym eps c cz nb : nb_ok nb = true -> symmetric_n (length nb) (@constant_zeroth_matrix ROps eps c cz nb).
Proof. intros H. apply nb_ok_split in H. destruct H. unfold symmetric_n. apply constant_zeroth_symmetric; auto. Qed.
Lemma T_constant_zeroth_pd eps c cz nb x : 0 < eps -> nb_ok nb = true -> length x = length nb -> nonzero x ->
  0 < @quad ROps (@constant_zeroth_matrix ROps eps c cz nb) x.
Proof.
  intros He H HL Hx. rewrite T_constant_zeroth_qf by auto. pose proof (qf_constant_zeroth_lower eps c cz nb x). pose proof (norm2_pos x Hx).
  pose proof (Rmult_lt_0_compat _ _ He H1). lra.
Qed.

Lemma T_zeroth_size c n : square_n n (@zeroth_matrix ROps c n).
Proof. apply build_wfm. Qed.
Lemma T_zeroth_sym c n : symmetric_n n (@zeroth_matrix ROps c n).
Proof. unfold symmetric_n. intros. apply zeroth_symmetric; auto. Qed.
Lemma T_zeroth_qf c n x : length x = n -> @quad ROps (@zeroth_matrix ROps c n) x = c * c * sumR (map (fun v => v * v) x).
Proof. intros HL. rewrite zeroth_quadratic by auto. unfold qf_zeroth. rewrite norm2_R. reflexivity. Qed.
Lemma T_zeroth_pd c n x : c <> 0 -> length x = n -> nonzero x -> 0 < @quad ROps (@zeroth_matrix ROps c n) x.
Proof.
  intros Hc HL Hx. rewrite T_zeroth_qf by auto. rewrite <- norm2_R. pose proof (norm2_pos x Hx).
  assert (0 < c * c) by nra. apply Rmult_lt_0_compat; auto.
Qed.

Lemma T_bz_size w : square_n (length w) (@bz_matrix ROps w).
Proof. apply build_wfm. Qed.
Lemma T_bz_sym w : symmetric_n (length w) (@bz_matrix ROps w).
Proof. unfold symmetric_n. intros. apply bz_symmetric; auto. Qed.
Lemma T_bz_psd w x : length x = length w -> 0 <= @quad ROps (@bz_matrix ROps w) x.
Proof. intros HL. rewrite bz_quadratic by auto. apply qf_bz_nonneg. Qed.
Lemma T_bz_qf w x : length x = length w ->
  @quad ROps (@bz_matrix ROps w) x = sumR (map (fun wx => fst wx * fst wx * (snd wx * snd wx)) (combine w x)).
Proof. intros HL. rewrite bz_quadratic by auto. unfold qf_bz. rewrite sumT_sumR. reflexivity. Qed.

Lemma wnb_ok_split (w : list R) nb : wnb_ok w nb = true -> length nb = length w /\ nb_inr (length w) nb /\ symE (edges nb).
Proof.
  unfold wnb_ok. intros H. apply andb_true_iff in H. destruct H as [H1 H2]. apply Nat.eqb_eq in H1.
  apply nb_ok_split in H2. destruct H2 as [H2 H3]. rewrite H1 in H2. auto.
Qed.
Lemma T_weighted_size eps w nb : square_n (length w) (@weighted_matrix ROps eps w nb).
Proof. apply build_wfm. Qed.
Lemma T_weighted_qf eps w nb x : wnb_ok w nb = true -> length x = length w ->
  @quad ROps (@weighted_matrix ROps eps w nb) x = @qf_weighted ROps eps w nb x.
Proof. intros H HL. apply wnb_ok_split in H. destruct H as [H1 [H2 H3]]. apply weighted_quadratic; auto. Qed.
Lemma T_weighted_sym eps w nb : wnb_ok w nb = true -> symmetric_n (length w) (@weighted_matrix ROps eps w nb).
Proof. intros H. apply wnb_ok_split in H. destruct H as [H1 [H2 H3]]. unfold symmetric_n. apply weighted_symmetric; auto. Qed.
Lemma T_weighted_pd eps w nb x : 0 < eps -> wnb_ok w nb = true -> length x = length w -> nonzero x ->
  0 < @quad ROps (@weighted_matrix ROps eps w nb) x.
Proof.
  intros He H HL Hx. apply wnb_ok_split in H. destruct H as [H1 [H2 H3]].
  pose proof (weighted_lower eps w nb x H1 H2 HL). pose proof (norm2_pos x Hx). pose proof (Rmult_lt_0_compat _ _ He H0). lra.
Qed.
(* the weights the adaptive scheme reports are squares, hence non-negative, one per signal *)
Lemma T_adaptive_weights inner outer s :
  length (@adaptive_weights ROps inner outer s) = length s /\ Forall (fun w => 0 <= w) (@adaptive_weights ROps inner outer s).
Proof.
  unfold adaptive_weights. split; [apply map_length|]. apply Forall_forall. intros w Hw. apply in_map_iff in Hw.
  destruct Hw as [v [<- _]]. unfold sq. cbn [mul add sub ROps]. apply Rle_0_sqr.
Qed.

(* ------------------------------------------------------------------ block-diagonal assembly *)
Notation block_diagR := (@block_diag ROps).
Lemma wfm_width n (M : Rmat) : wfm n M -> @width ROps M = n.
Proof.
  intros [HL HF]. unfold width. destruct M as [|r M]; cbn in *; [lia|]. inversion HF; subst; auto.
Qed.
Lemma nthT_zeros m b : @nthT ROps (@zeros ROps m) b = 0.
Proof. unfold nthT. apply nth_zeros_R. Qed.
Lemma block_diag_cons (B : Rmat) t :
  block_diagR (B :: t) = map (fun r => r ++ @zeros ROps (@width ROps (block_diagR t))) B
                         ++ map (fun r => @zeros ROps (@width ROps B) ++ r) (block_diagR t).
Proof. reflexivity. Qed.
Fixpoint total (Bs : list Rmat) : nat := match Bs with [] => 0%nat | B :: t => (length B + total t)%nat end.
Definition blocks_square (Bs : list Rmat) : Prop := Forall (fun B => wfm (length B) B) Bs.

Lemma block_diag_wfm Bs : blocks_square Bs -> wfm (total Bs) (block_diagR Bs).
Proof.
  induction 1 as [|B t HB HT IH]; [split; [reflexivity|constructor]|].
  rewrite block_diag_cons. rewrite (wfm_width _ _ IH), (wfm_width _ _ HB).
  destruct HB as [_ HB], IH as [IL IF]. cbn [total]. split.
  - rewrite app_length, !map_length. tr. lia.
  - apply Forall_app. split; apply Forall_forall; intros r Hr; apply in_map_iff in Hr; destruct Hr as [r0 [<- Hr0]];
      rewrite app_length; unfold zeros; rewrite repeat_length.
    + rewrite Forall_forall in HB. pose proof (HB _ Hr0) as E. tr. rewrite E. reflexivity.
    + rewrite Forall_forall in IF. pose proof (IF _ Hr0) as E. tr. rewrite E. reflexivity.
Qed.

Lemma mget_overflow (M : Rmat) a b : (length M <= a)%nat -> @mget ROps M a b = 0.
Proof. intros H. unfold mget. rewrite nth_overflow by exact H. unfold nthT. destruct b; reflexivity. Qed.

Lemma block_entry_ok Bs : blocks_square Bs -> forall a b, @mget ROps (block_diagR Bs) a b = @block_entry ROps Bs a b.
Proof.
  induction 1 as [|B t HB HT IH]; intros a b.
  - cbn. unfold mget, nthT. destruct a, b; reflexivity.
  - pose proof (block_diag_wfm t HT) as HW.
    rewrite block_diag_cons, (wfm_width _ _ HW), (wfm_width _ _ HB). cbn [block_entry]. tr.
    set (n := length B). set (N := total t).
    destruct (Nat.ltb_spec a n) as [Ha|Ha]; cbn [andb orb].
    + (* row of the first block *)
      unfold mget at 1. rewrite app_nth1 by (rewrite map_length; exact Ha).
      rewrite (nth_indep _ [] ((fun r => r ++ @zeros ROps N) [])) by (rewrite map_length; exact Ha).
      rewrite (map_nth (fun r => r ++ @zeros ROps N)).
      assert (HLr : length (nth a B []) = n) by (apply (wfm_row n); auto).
      destruct (Nat.ltb_spec b n) as [Hb|Hb].
      * unfold nthT. rewrite app_nth1 by (tr; lia). reflexivity.
      * unfold nthT. rewrite app_nth2 by (tr; lia). apply nth_zeros_R.
    + unfold mget at 1. rewrite app_nth2 by (rewrite map_length; exact Ha). rewrite map_length. fold n.
      destruct (Nat.ltb_spec (a - n) N) as [Ha2|Ha2].
      * rewrite (nth_indep _ [] ((fun r => @zeros ROps n ++ r) [])) by (rewrite map_length; destruct HW as [HWl _]; tr; lia).
        rewrite (map_nth (fun r => @zeros ROps n ++ r)).
        assert (Hz : length (@zeros ROps n) = n) by (unfold zeros; apply repeat_length).
        destruct (Nat.ltb_spec b n) as [Hb|Hb].
        -- unfold nthT. rewrite app_nth1 by (tr; lia). apply nth_zeros_R.
        -- unfold nthT. rewrite app_nth2 by (tr; lia). rewrite Hz. rewrite <- IH. reflexivity.
      * rewrite nth_overflow by (rewrite map_length; destruct HW as [HWl _]; tr; lia).
        destruct (Nat.ltb_spec b n) as [Hb|Hb]; [unfold nthT; destruct b; reflexivity|].
        rewrite <- IH, mget_overflow by (destruct HW as [HWl _]; tr; lia). unfold nthT. destruct b; reflexivity.
Qed.

(* an object without regularization contributes an all-zero block *)
Lemma none_block_zero p a b : @mget ROps (@obj_matrix ROps (p, None)) a b = 0.
Proof.
  unfold obj_matrix. cbn [fst snd]. unfold mget, mzeros.
  destruct (Nat.ltb_spec a p) as [H|H].
  - rewrite (nth_indep _ [] (@zeros ROps p)) by (rewrite repeat_length; exact H). rewrite nth_repeat. apply nthT_zeros.
  - rewrite nth_overflow by (rewrite repeat_length; exact H). unfold nthT. destruct b; reflexivity.
Qed.
Lemma none_block_size p : square_n p (@obj_matrix ROps (p, None)).
Proof. apply mzeros_wfm. Qed.

(* quadratic form of the assembly = sum of the blocks' quadratic forms on the corresponding slices *)
Lemma Rdot_app_zeros (r : list R) N x : Rdot (r ++ @zeros ROps N) x = Rdot r (firstn (length r) x).
Proof.
  unfold Rdot. revert x. induction r as [|a r IH]; intros x; cbn [app length firstn].
  - fold (Rdot (@zeros ROps N) x). rewrite Rdot_zeros. reflexivity.
  - destruct x as [|b x]; cbn [combine map sumR fst snd]; auto. rewrite IH. reflexivity.
Qed.
Lemma Rdot_zeros_app n (r : list R) x : Rdot (@zeros ROps n ++ r) x = Rdot r (skipn n x).
Proof.
  unfold Rdot, zeros, zero. cbn [ofZ ROps]. revert x. induction n as [|n IH]; intros x; cbn [repeat app skipn]; auto.
  destruct x as [|b x]; cbn [combine map sumR fst snd].
  - destruct r; reflexivity.
  - rewrite IH. lra.
Qed.
Lemma combine_app_l {A B} (x : list A) (l1 l2 : list B) :
  combine x (l1 ++ l2) = combine (firstn (length l1) x) l1 ++ combine (skipn (length l1) x) l2.
Proof.
  revert x. induction l1 as [|a l1 IH]; intros x; cbn [app length firstn skipn combine]; auto.
  destruct x as [|b x]; cbn [combine app]; auto. rewrite IH. reflexivity.
Qed.
Lemma Rbil_block (B : Rmat) (acc : Rmat) n N x y : wfm n B -> wfm N acc ->
  Rbil x (map (fun r => r ++ @zeros ROps N) B ++ map (fun r => @zeros ROps n ++ r) acc) y
  = Rbil (firstn n x) B (firstn n y) + Rbil (skipn n x) acc (skipn n y).
Proof.
  intros [HBl HBf] [HAl HAf]. unfold Rbil. rewrite combine_app_l, map_app, sumR_app, map_length. tr. rewrite HBl. f_equal.
  - clear HBl. revert HBf. generalize (firstn n x) as x1. induction B as [|r B IH]; intros x1 HF; destruct x1 as [|a x1]; cbn [map combine sumR fst snd]; auto.
    apply Forall_cons_iff in HF. destruct HF as [Hr HF']. rewrite IH by exact HF'. rewrite Rdot_app_zeros. tr. rewrite Hr. reflexivity.
  - clear HAl HAf. generalize (skipn n x) as x2. induction acc as [|r acc IH]; intros x2; destruct x2 as [|a x2]; cbn [map combine sumR fst snd]; auto.
    rewrite IH, Rdot_zeros_app. reflexivity.
Qed.
Fixpoint block_quad (Bs : list Rmat) (x : list R) : R :=
  match Bs with
  | [] => 0
  | B :: t => @quad ROps B (firstn (length B) x) + block_quad t (skipn (length B) x)
  end.
Lemma block_diag_quad Bs : blocks_square Bs -> forall x, @quad ROps (block_diagR Bs) x = block_quad Bs x.
Proof.
  induction 1 as [|B t HB HT IH]; intros x.
  - unfold quad. rewrite bil_R. destruct x; reflexivity.
  - pose proof (block_diag_wfm t HT) as HW. cbn [block_quad]. rewrite <- IH.
    unfold quad. rewrite !bil_R. rewrite block_diag_cons, (wfm_width _ _ HW), (wfm_width _ _ HB).
    apply Rbil_block; auto.
Qed.
Definition blocks_sq (Bs : list Rmat) : Prop := Forall (fun B => Forall (fun r => length r = length B) B) Bs.
Lemma blocks_sq_square Bs : blocks_sq Bs -> blocks_square Bs.
Proof. unfold blocks_sq, blocks_square, wfm. apply Forall_impl. intros B H. split; auto. Qed.
Lemma T_block_entry Bs : blocks_sq Bs -> forall a b, @mget ROps (block_diagR Bs) a b = @block_entry ROps Bs a b.
Proof. intros H. apply block_entry_ok, blocks_sq_square, H. Qed.
Lemma T_block_quad Bs : blocks_sq Bs -> forall x, @quad ROps (block_diagR Bs) x = block_quad Bs x.
Proof. intros H. apply block_diag_quad, blocks_sq_square, H. Qed.
Lemma T_block_size Bs : blocks_sq Bs -> square_n (total Bs) (block_diagR Bs).
Proof. intros H. apply block_diag_wfm, blocks_sq_square, H. Qed.

(* ------------------------------------------------------------------ split-cross scheme on prepared rows *)
Definition halve (e : Rentry) : Rentry := (fst e, if Nat.eqb (fst (fst e)) (snd (fst e)) then snd e / 2 else snd e).
Notation upd_divR := (@upd_div ROps).
Notation halveD := (@halve_diag_from ROps).

Lemma upd_div_upd_add (r : list R) d j v :
  upd_divR (@upd_add ROps r j v) d 2 = @upd_add ROps (upd_divR r d 2) j (if Nat.eqb d j then v / 2 else v).
Proof.
  revert d j. induction r as [|a r IH]; intros d j; [destruct d, j; reflexivity|].
  destruct d as [|d], j as [|j]; cbn [upd_add upd_div Nat.eqb add div ROps]; try reflexivity.
  - f_equal. lra.
  - rewrite IH. reflexivity.
Qed.
Lemma halve_madd (M : Rmat) : forall s i j v,
  halveD s (maddR M i j v) = maddR (halveD s M) i j (if Nat.eqb (s + i) j then v / 2 else v).
Proof.
  induction M as [|r M IH]; intros s i j v; [destruct i; reflexivity|].
  destruct i as [|i]; cbn [madd halve_diag_from].
  - rewrite Nat.add_0_r. unfold two. cbn [ofZ ROps]. rewrite upd_div_upd_add. reflexivity.
  - rewrite IH. replace (S s + i)%nat with (s + S i)%nat by lia. reflexivity.
Qed.
Lemma halve_mscatter (es : list Rentry) : forall M, halveD 0 (mscatterR es M) = mscatterR (map halve es) (halveD 0 M).
Proof.
  unfold mscatter. induction es as [|[[i j] v] es IH]; intros M; cbn [fold_left map]; auto.
  rewrite IH. cbn [fst snd halve]. rewrite halve_madd. reflexivity.
Qed.
Lemma upd_div_zeros m d : upd_divR (@zeros ROps m) d 2 = @zeros ROps m.
Proof.
  unfold zeros, zero. cbn [ofZ ROps]. revert d. induction m as [|m IH]; intros d; [destruct d; reflexivity|].
  destruct d as [|d]; cbn [repeat upd_div div ROps].
  - f_equal. lra.
  - rewrite IH. reflexivity.
Qed.
Lemma halve_mzeros n m s : halveD s (@mzeros ROps n m) = @mzeros ROps n m.
Proof.
  unfold mzeros. revert s. induction n as [|n IH]; intros s; cbn [repeat halve_diag_from]; auto.
  rewrite IH. unfold two. cbn [ofZ ROps]. rewrite upd_div_zeros. reflexivity.
Qed.
Lemma split_prepared_build eps w prows :
  @split_matrix_prepared ROps eps w prows = buildR (length prows / 4) (map halve (@split_entries ROps (eps + eps) w prows)).
Proof. unfold split_matrix_prepared, build. rewrite halve_mscatter, halve_mzeros. reflexivity. Qed.
Lemma halve_inr n es : Forall (inr n) es -> Forall (inr n) (map halve es).
Proof. intros H. apply Forall_forall. intros e He. apply in_map_iff in He. destruct He as [e0 [<- He0]]. rewrite Forall_forall in H. apply (H e0 He0). Qed.

Definition rowF (f : nat -> R) (row : list (nat * R)) : R := sumR (map (fun mw => snd mw * f (fst mw)) row).
Lemma ES_halve_app es1 es2 f g : ES (map halve (es1 ++ es2)) f g = ES (map halve es1) f g + ES (map halve es2) f g.
Proof. rewrite map_app. apply ES_app. Qed.
Lemma ES_halve_flat_map {A} (F : A -> list Rentry) l f g :
  ES (map halve (flat_map F l)) f g = sumR (map (fun a => ES (map halve (F a)) f g) l).
Proof. induction l as [|a l IH]; cbn [flat_map map sumR]; [reflexivity|]. rewrite ES_halve_app, IH. reflexivity. Qed.

Lemma ES_split_row rwi row f g : NoDup (map fst row) ->
  ES (map halve (@split_row_entries ROps rwi row)) f g = rwi * rowF f row * rowF g row.
Proof.
  induction row as [|[a wa] t IH]; intros HN; [unfold ES, rowF; cbn; lra|].
  cbn [map fst] in HN. apply NoDup_cons_iff in HN. destruct HN as [Hna HN].
  cbn [split_row_entries]. rewrite ES_halve_app, (IH HN). rewrite ES_halve_flat_map. cbn [map sumR].
  assert (E1 : ES [halve (a, fst (a, wa), @mul ROps (@mul ROps wa (snd (a, wa))) rwi); halve (fst (a, wa), a, @mul ROps (@mul ROps wa (snd (a, wa))) rwi)] f g
               = rwi * (wa * wa) * f a * g a).
  { unfold ES, halve. cbn [map sumR fst snd mul ROps]. rewrite Nat.eqb_refl. lra. }
  assert (E2 : sumR (map (fun a0 : nat * R => ES [halve (a, fst a0, @mul ROps (@mul ROps wa (snd a0)) rwi); halve (fst a0, a, @mul ROps (@mul ROps wa (snd a0)) rwi)] f g) t)
               = rwi * wa * (f a * rowF g t + g a * rowF f t)).
  { unfold rowF. rewrite <- !sumR_map_scal, <- sumR_map_add, <- sumR_map_scal. apply sumR_map_ext. intros [b wb] Hb.
    assert (a <> b) by (intros ->; apply Hna; apply in_map_iff; exists (b, wb); auto).
    unfold ES, halve. cbn [map sumR fst snd mul ROps].
    destruct (Nat.eqb_spec a b); [contradiction|]. destruct (Nat.eqb_spec b a); [subst; contradiction|]. lra. }
  tr.
  rewrite E1, E2. unfold rowF. cbn [map sumR fst snd]. fold (rowF f t) (rowF g t). lra.
Qed.

Definition prows_inr (P : nat) (prows : list (list (nat * R))) : Prop :=
  Forall (fun row => Forall (fun mw => (fst mw < P)%nat) row /\ NoDup (map fst row)) prows.
Lemma prows_nth P prows k : prows_inr P prows ->
  Forall (fun mw : nat * R => (fst mw < P)%nat) (nth k prows []) /\ NoDup (map fst (nth k prows [])).
Proof.
  intros H. destruct (Nat.ltb_spec k (length prows)) as [Hk|Hk].
  - unfold prows_inr in H. rewrite Forall_forall in H. apply H, nth_In, Hk.
  - rewrite nth_overflow by exact Hk. split; constructor.
Qed.
Lemma split_row_entries_inr P rwi row : Forall (fun mw : nat * R => (fst mw < P)%nat) row -> Forall (inr P) (@split_row_entries ROps rwi row).
Proof.
  induction row as [|[a wa] t IH]; intros HF; [constructor|].
  pose proof HF as HF0. apply Forall_cons_iff in HF. destruct HF as [Ha HF]. cbn [fst] in Ha.
  cbn [split_row_entries]. apply Forall_app. split; [|apply IH, HF].
  apply Forall_forall. intros e He. apply in_flat_map in He. destruct He as [[b wb] [Hb He]].
  rewrite Forall_forall in HF0. specialize (HF0 _ Hb). cbn [fst snd] in *. destruct He as [<-|[<-|[]]]; split; cbn; auto.
Qed.
Lemma split_entries_inr eps2 w prows : prows_inr (length prows / 4) prows ->
  Forall (inr (length prows / 4)) (@split_entries ROps eps2 w prows).
Proof.
  intros H. unfold split_entries. tr. set (P := (length prows / 4)%nat) in *.
  apply Forall_forall. intros e He. apply in_flat_map in He. destruct He as [i [Hi He]]. apply in_seq in Hi.
  destruct He as [<-|He]; [split; cbn [fst snd]; lia|].
  apply in_flat_map in He. destruct He as [j [_ He]].
  pose proof (split_row_entries_inr P (@nthT ROps (map (@sq ROps) w) i) (nth (i * 4 + j) prows []) (proj1 (prows_nth P prows _ H))) as HF.
  rewrite Forall_forall in HF. apply HF, He.
Qed.
Lemma ES_split eps2 w prows f g : prows_inr (length prows / 4) prows ->
  ES (map halve (@split_entries ROps eps2 w prows)) f g =
  sumR (map (fun i => f i * (eps2 / 2) * g i
                      + sumR (map (fun j => xh w i * xh w i * rowF f (nth (i * 4 + j) prows []) * rowF g (nth (i * 4 + j) prows [])) (seq 0 4)))
            (seq 0 (length prows / 4))).
Proof.
  intros H. unfold split_entries. rewrite ES_halve_flat_map. apply sumR_map_ext. intros i _.
  cbn [map]. rewrite ES_cons. f_equal.
  - unfold halve. cbn [fst snd]. rewrite Nat.eqb_refl. reflexivity.
  - rewrite ES_halve_flat_map. apply sumR_map_ext. intros j _.
    rewrite ES_split_row by (apply (prows_nth _ _ _ H)). rewrite nthT_map_sq. reflexivity.
Qed.

Lemma sum_blocks4 (G : nat -> R) P :
  sumR (map (fun i => sumR (map (fun j => G (i * 4 + j)%nat) (seq 0 4))) (seq 0 P)) = sumR (map G (seq 0 (4 * P))).
Proof.
  induction P as [|P IH]; [reflexivity|].
  rewrite (seq_S P 0), map_app, sumR_app, IH. replace (4 * S P)%nat with (4 * P + 4)%nat by lia.
  rewrite (seq_app (4 * P) 4 0), map_app, sumR_app. f_equal. cbn [map sumR seq Nat.add].
  replace (P * 4 + 0)%nat with (4 * P)%nat by lia. replace (P * 4 + 1)%nat with (S (4 * P)) by lia.
  replace (P * 4 + 2)%nat with (S (S (4 * P))) by lia. replace (P * 4 + 3)%nat with (S (S (S (4 * P)))) by lia. lra.
Qed.
Lemma sum_indexed_nth {A} (G : nat -> A -> R) (l : list A) d :
  sumR (map (fun ka => G (fst ka) (snd ka)) (indexed l)) = sumR (map (fun k => G k (nth k l d)) (seq 0 (length l))).
Proof.
  unfold indexed.
  assert (X : forall s, sumR (map (fun ka => G (fst ka) (snd ka)) (combine (seq s (length l)) l))
                        = sumR (map (fun k => G k (nth (k - s) l d)) (seq s (length l)))).
  { induction l as [|a l IH]; intros s; cbn [length seq combine map sumR fst snd]; auto.
    replace (s - s)%nat with 0%nat by lia. cbn [nth]. f_equal. rewrite IH. apply sumR_map_ext. intros k Hk. apply in_seq in Hk.
    replace (k - s)%nat with (S (k - S s)) by lia. reflexivity. }
  rewrite X. apply sumR_map_ext. intros k _. rewrite Nat.sub_0_r. reflexivity.
Qed.
Lemma row_dot_R x row : @row_dot ROps x row = rowF (xh x) row.
Proof. unfold row_dot, rowF. rewrite sumT_sumR. reflexivity. Qed.

Lemma split_prepared_quadratic eps w prows x : length prows = (4 * (length prows / 4))%nat -> prows_inr (length prows / 4) prows ->
  length x = (length prows / 4)%nat ->
  @quad ROps (@split_matrix_prepared ROps eps w prows) x = @qf_split_prepared ROps eps w prows x.
Proof.
  intros H4 HP HX. rewrite split_prepared_build. set (P := (length prows / 4)%nat) in *.
  rewrite quad_build by (apply halve_inr, split_entries_inr, HP). rewrite ES_split by exact HP. fold P.
  rewrite sumR_map_add.
  assert (E0 : sumR (map (fun i => sumR (map (fun j => xh w i * xh w i * rowF (xh x) (nth (i * 4 + j) prows []) * rowF (xh x) (nth (i * 4 + j) prows [])) (seq 0 4))) (seq 0 P))
               = sumR (map (fun k => xh w (k / 4) * xh w (k / 4) * rowF (xh x) (nth k prows []) * rowF (xh x) (nth k prows [])) (seq 0 (4 * P)))).
  { rewrite <- (sum_blocks4 (fun k => xh w (k / 4) * xh w (k / 4) * rowF (xh x) (nth k prows []) * rowF (xh x) (nth k prows [])) P).
    apply sumR_map_ext. intros i _. apply sumR_map_ext. intros j Hj. apply in_seq in Hj.
    replace ((i * 4 + j) / 4)%nat with i; [reflexivity|]. rewrite Nat.div_add_l by lia. rewrite (Nat.div_small j 4) by lia. lia. }
  tr. rewrite E0.
  unfold qf_split_prepared. rewrite sumT_sumR. cbn [add mul ROps].
  assert (E1 : sumR (map (fun i => xh x i * ((eps + eps) / 2) * xh x i) (seq 0 P)) = eps * @norm2 ROps x).
  { rewrite <- (norm2_seq x P HX), <- sumR_map_scal. apply sumR_map_ext. intros; lra. }
  match goal with |- _ = ?c + _ =>
    assert (EC : c = sumR (map (fun k => xh w (k / 4) * xh w (k / 4) * rowF (xh x) (nth k prows []) * rowF (xh x) (nth k prows [])) (seq 0 (4 * P)))) end.
  { etransitivity; [apply (sum_indexed_nth (fun k row => @nthT ROps (map (@sq ROps) w) (k / 4) * @sq ROps (@row_dot ROps x row)) prows [])|].
    tr. rewrite H4. fold P.
    apply sumR_map_ext. intros k _. rewrite nthT_map_sq, row_dot_R. unfold sq. cbn [mul ROps]. lra. }
  tr. rewrite EC, E1. lra.
Qed.
Lemma split_prepared_symmetric eps w prows : prows_inr (length prows / 4) prows -> forall a b,
  (a < length prows / 4)%nat -> (b < length prows / 4)%nat ->
  @mget ROps (@split_matrix_prepared ROps eps w prows) a b = @mget ROps (@split_matrix_prepared ROps eps w prows) b a.
Proof.
  intros HP. rewrite split_prepared_build. apply build_symmetric; [apply halve_inr, split_entries_inr, HP|].
  intros f g. rewrite !ES_split by exact HP. apply sumR_map_ext. intros i _. f_equal; [lra|].
  apply sumR_map_ext. intros j _. lra.
Qed.
Lemma qf_split_prepared_lower eps w prows x : eps * @norm2 ROps x <= @qf_split_prepared ROps eps w prows x.
Proof.
  unfold qf_split_prepared. rewrite sumT_sumR. cbn [add mul ROps].
  match goal with |- _ <= ?c + _ => assert (0 <= c) end.
  { apply sumR_map_nonneg. intros [k row]. cbn [fst snd]. rewrite nthT_map_sq. unfold sq. cbn [mul ROps].
    apply Rmult_le_pos; apply Rle_0_sqr. }
  tr. lra.
Qed.
Lemma nodupb_NoDup l : nodupb l = true -> NoDup l.
Proof.
  induction l as [|a l IH]; intros H; [constructor|]. cbn [nodupb] in H. apply andb_true_iff in H. destruct H as [H1 H2].
  constructor; [|apply IH, H2]. intros Hin. apply negb_true_iff in H1.
  assert (existsb (Nat.eqb a) l = true) by (apply existsb_exists; exists a; split; [exact Hin | apply Nat.eqb_refl]). congruence.
Qed.
Lemma prows_ok_split (prows : list (list (nat * R))) : prows_ok prows = true ->
  length prows = (4 * (length prows / 4))%nat /\ prows_inr (length prows / 4) prows.
Proof.
  unfold prows_ok. intros H. apply andb_true_iff in H. destruct H as [H1 H2]. apply Nat.eqb_eq in H1. split; [exact H1|].
  rewrite forallb_forall in H2. apply Forall_forall. intros row Hr. specialize (H2 row Hr). apply andb_true_iff in H2. destruct H2 as [H2 H3].
  split; [|apply nodupb_NoDup, H3]. rewrite forallb_forall in H2. apply Forall_forall. intros mw Hm. apply Nat.ltb_lt, H2, Hm.
Qed.
Lemma T_split_size eps w prows : square_n (length prows / 4) (@split_matrix_prepared ROps eps w prows).
Proof. rewrite split_prepared_build. apply build_wfm. Qed.
Lemma T_split_qf eps w prows x : prows_ok prows = true -> length x = (length prows / 4)%nat ->
  @quad ROps (@split_matrix_prepared ROps eps w prows) x = @qf_split_prepared ROps eps w prows x.
Proof. intros H HX. apply prows_ok_split in H. destruct H. apply split_prepared_quadratic; auto. Qed.
Lemma T_split_sym eps w prows : prows_ok prows = true -> symmetric_n (length prows / 4) (@split_matrix_prepared ROps eps w prows).
Proof. intros H. apply prows_ok_split in H. destruct H. unfold symmetric_n. apply split_prepared_symmetric; auto. Qed.
Lemma T_split_pd eps w prows x : 0 < eps -> prows_ok prows = true -> length x = (length prows / 4)%nat -> nonzero x ->
  0 < @quad ROps (@split_matrix_prepared ROps eps w prows) x.
Proof.
  intros He H HX Hx. rewrite T_split_qf by auto. pose proof (qf_split_prepared_lower eps w prows x). pose proof (norm2_pos x Hx).
  pose proof (Rmult_lt_0_compat _ _ He H1). lra.
Qed.
Lemma qf_split_prepared_meaning eps w prows x :
  @qf_split_prepared ROps eps w prows x =
  sumR (map (fun kr => nth (fst kr / 4) w 0 * nth (fst kr / 4) w 0
                       * (sumR (map (fun mw => snd mw * nth (fst mw) x 0) (snd kr)) * sumR (map (fun mw => snd mw * nth (fst mw) x 0) (snd kr))))
            (indexed prows))
  + eps * sumR (map (fun v => v * v) x).
Proof.
  unfold qf_split_prepared. rewrite sumT_sumR, norm2_R. cbn [add mul ROps]. f_equal.
  apply sumR_map_ext. intros [k row] _. cbn [fst snd]. rewrite nthT_map_sq, row_dot_R. reflexivity.
Qed.

(* ------------------------------------------------------------------ reg_split_from, one row *)
Lemma nth_firstn_lt {A} (l : list A) n j d : (j < n)%nat -> nth j (firstn n l) d = nth j l d.
Proof.
  revert n j. induction l as [|a l IH]; intros n j H; [rewrite firstn_nil; reflexivity|].
  destruct n as [|n]; [lia|]. destruct j as [|j]; cbn [firstn nth]; auto. apply IH. lia.
Qed.
Lemma nth_map_opp (w : list R) j : nth j (map Ropp w) 0 = - nth j w 0.
Proof. revert j. induction w as [|a w IH]; intros [|j]; cbn [map nth]; try lra. apply IH. Qed.
Lemma firstn_upd_set {A} (l : list A) n v : (n < length l)%nat -> firstn (S n) (upd_set l n v) = firstn n l ++ [v].
Proof.
  revert n. induction l as [|a l IH]; intros n H; cbn [length] in H; [lia|].
  destruct n as [|n]; cbn [upd_set firstn app]; [reflexivity|]. f_equal. apply IH. lia.
Qed.
Lemma all_some_map {A B} (f : A -> option B) (g : A -> B) l : (forall a, In a l -> f a = Some (g a)) ->
  all_some (map f l) = Some (map g l).
Proof.
  induction l as [|a l IH]; intros H; [reflexivity|]. cbn [map all_some]. rewrite (H a) by (left; reflexivity).
  rewrite IH by (intros; apply H; right; assumption). reflexivity.
Qed.
Lemma pyidx_inr P z : (0 <= z < Z.of_nat P)%Z -> pyidx P z = Some (Z.to_nat z).
Proof.
  intros H. unfold pyidx. destruct (Z.leb_spec 0 z); [|lia]. destruct (Z.ltb_spec z (Z.of_nat P)); [|lia]. reflexivity.
Qed.
Lemma sum_seq_list {A} (G : A -> R) (l : list A) d n : length l = n ->
  sumR (map (fun j => G (nth j l d)) (seq 0 n)) = sumR (map G l).
Proof.
  intros <-. assert (X : forall s, sumR (map (fun j => G (nth (j - s) l d)) (seq s (length l))) = sumR (map G l)).
  { induction l as [|a l IH]; intros s; cbn [length seq map sumR]; auto. replace (s - s)%nat with 0%nat by lia. cbn [nth]. f_equal.
    rewrite <- (IH (S s)). apply sumR_map_ext. intros j Hj. apply in_seq in Hj. replace (j - s)%nat with (S (j - S s)) by lia. reflexivity. }
  rewrite <- (X 0%nat). apply sumR_map_ext. intros j _. rewrite Nat.sub_0_r. reflexivity.
Qed.
Lemma rowF_combine_nth f (idx : list nat) (wts : list R) n : length idx = n -> length wts = n ->
  rowF f (combine idx wts) = sumR (map (fun j => nth j wts 0 * f (nth j idx 0%nat)) (seq 0 n)).
Proof.
  revert idx wts. induction n as [|n IH]; intros idx wts H1 H2.
  - destruct idx; [reflexivity|discriminate].
  - destruct idx as [|a idx], wts as [|b wts]; try discriminate. cbn [combine]. unfold rowF. cbn [map sumR fst snd seq nth].
    f_equal. fold (rowF f (combine idx wts)). rewrite (IH idx wts) by (cbn in *; lia).
    rewrite <- seq_shift, map_map. reflexivity.
Qed.

Section RegSplitRow.
  Variables (mp : list Z) (w : list R) (pix : Z).
  Let step := fun (st : list R * bool) (j : nat) =>
    if (nth j mp (-1) =? pix)%Z then (@upd_add ROps (fst st) j 1, true) else st.
  Let stn (n : nat) := fold_left step (seq 0 n) (map Ropp w, false).
  Let hit (j : nat) : bool := (nth j mp (-1) =? pix)%Z.

  Lemma fold_char n : (n <= length w)%nat ->
    length (fst (stn n)) = length w
    /\ (forall j, nth j (fst (stn n)) 0 = - nth j w 0 + (if (j <? n)%nat && hit j then 1 else 0))
    /\ snd (stn n) = existsb hit (seq 0 n).
  Proof.
    induction n as [|n IH]; intros Hn.
    - unfold stn. cbn [seq fold_left fst snd existsb]. rewrite map_length. split; [reflexivity|]. split; [|reflexivity].
      intros j. rewrite nth_map_opp. cbn. lra.
    - destruct (IH ltac:(lia)) as [IL [IN IF]].
      unfold stn in *. rewrite seq_S, fold_left_app. cbn [fold_left Nat.add].
      set (s := fold_left step (seq 0 n) (map Ropp w, false)) in *.
      rewrite existsb_app. cbn [existsb]. rewrite orb_false_r.
      unfold step at 1 2 3. fold (hit n). destruct (hit n) eqn:Eh; cbn [fst snd].
      + split; [rewrite (@upd_add_length ROps); exact IL|]. split.
        * intros j. rewrite nth_upd_add by lia. rewrite IN.
          destruct (Nat.eqb_spec n j) as [->|Hne].
          -- rewrite Eh. destruct (Nat.ltb_spec j j); [lia|]. destruct (Nat.ltb_spec j (S j)); [|lia]. cbn. lra.
          -- destruct (Nat.ltb_spec j n), (Nat.ltb_spec j (S n)); try lia; cbn [andb]; lra.
        * rewrite orb_true_r. reflexivity.
      + split; [exact IL|]. split.
        * intros j. rewrite IN. destruct (Nat.ltb_spec j n), (Nat.ltb_spec j (S n)); try lia; cbn [andb]; try lra.
          assert (j = n) by lia. subst. rewrite Eh. lra.
        * rewrite orb_false_r. exact IF.
  Qed.
End RegSplitRow.

Lemma combine_app_eq {A B} (l1 l2 : list A) (m1 m2 : list B) : length l1 = length m1 ->
  combine (l1 ++ l2) (m1 ++ m2) = combine l1 m1 ++ combine l2 m2.
Proof.
  revert m1. induction l1 as [|a l1 IH]; intros [|b m1] H; cbn in H; try discriminate; cbn [app combine]; auto.
  f_equal. apply IH. lia.
Qed.
Lemma rowF_app f r1 r2 : rowF f (r1 ++ r2) = rowF f r1 + rowF f r2.
Proof. unfold rowF. rewrite map_app, sumR_app. reflexivity. Qed.
Lemma existsb_eq_iff {A B} (f : A -> bool) (g : B -> bool) l m :
  ((exists a, In a l /\ f a = true) <-> (exists b, In b m /\ g b = true)) -> existsb f l = existsb g m.
Proof.
  intros H. destruct (existsb f l) eqn:E1, (existsb g m) eqn:E2; auto.
  - apply existsb_exists in E1. apply H in E1. apply existsb_exists in E1. congruence.
  - apply existsb_exists in E2. apply H in E2. apply existsb_exists in E2. congruence.
Qed.

Lemma reg_split_row_spec P max_j q mp size (w : list R) : split_row_ok P max_j (mp, size, w) = true -> (q < P)%nat ->
  exists r' prow', @reg_split_row ROps (Z.of_nat q) max_j (mp, size, w) = Ok r' /\ @prep_split_row ROps P r' = Some prow'
    /\ Forall (fun mw : nat * R => (fst mw < P)%nat) prow' /\ NoDup (map fst prow')
    /\ forall f, rowF f prow' = f q - rowF f (prow0 (mp, size, w)).
Proof.
  intros Hok Hq. unfold split_row_ok in Hok.
  repeat (apply andb_true_iff in Hok; destruct Hok as [Hok ?]).
  rename H into Hnd, H0 into Hrg, H1 into Hlen, H2 into Hmax, H3 into Hsz. apply Nat.leb_le in Hok, Hsz.
  apply Nat.ltb_lt in Hmax. apply Nat.eqb_eq in Hlen. apply nodupb_NoDup in Hnd. rewrite forallb_forall in Hrg.
  set (pix := Z.of_nat q) in *. set (idx := map Z.to_nat (firstn size mp)) in *.
  assert (Lf : length (firstn size mp) = size) by (apply firstn_length_le; lia).
  assert (Li : length idx = size) by (unfold idx; rewrite map_length; exact Lf).
  assert (Rg : forall z, In z (firstn size mp) -> (0 <= z < Z.of_nat P)%Z).
  { intros z Hz. specialize (Hrg z Hz). apply andb_true_iff in Hrg. destruct Hrg as [A B]. apply Z.leb_le in A. apply Z.ltb_lt in B. lia. }
  assert (Ij : forall j, (j < size)%nat -> nth j idx 0%nat = Z.to_nat (nth j mp (-1)%Z) /\ (0 <= nth j mp (-1) < Z.of_nat P)%Z).
  { intros j Hj. unfold idx. change 0%nat with (Z.to_nat (-1)). rewrite map_nth, nth_firstn_lt by exact Hj. split; [reflexivity|].
    apply Rg. rewrite <- (nth_firstn_lt mp size j (-1)%Z Hj). apply nth_In. lia. }
  assert (Iidx : Forall (fun m => (m < P)%nat) idx).
  { apply Forall_forall. intros m Hm. unfold idx in Hm. apply in_map_iff in Hm. destruct Hm as [z [<- Hz]]. specialize (Rg z Hz). lia. }
  destruct (fold_char mp w pix size ltac:(lia)) as [FL [FN FF]].
  match type of FF with snd ?s = _ => set (st := s) in * end.
  (* the indicator sum *)
  assert (HitQ : forall j, (j < size)%nat -> (nth j mp (-1) =? pix)%Z = Nat.eqb (nth j idx 0%nat) q).
  { intros j Hj. destruct (Ij j Hj) as [E R]. rewrite E. unfold pix.
    destruct (Z.eqb_spec (nth j mp (-1)%Z) (Z.of_nat q)) as [->|N]; [rewrite Nat2Z.id, Nat.eqb_refl; reflexivity|].
    symmetry. apply Nat.eqb_neq. intros C. apply N. rewrite <- C, Z2Nat.id by lia. reflexivity. }
  assert (FlagQ : snd st = existsb (fun m => Nat.eqb m q) idx).
  { rewrite FF. apply existsb_eq_iff. split.
    - intros [j [Hj Hh]]. apply in_seq in Hj. rewrite HitQ in Hh by lia. exists (nth j idx 0%nat). split; [apply nth_In; lia|exact Hh].
    - intros [m [Hm Hh]]. destruct (In_nth idx m 0%nat Hm) as [j [Hj E]]. exists j. split; [apply in_seq; lia|].
      rewrite HitQ by lia. rewrite E. exact Hh. }
  assert (IndSum : forall f, sumR (map (fun j => (if (j <? size)%nat && (nth j mp (-1) =? pix)%Z then 1 else 0) * f (nth j idx 0%nat)) (seq 0 size))
                             = if snd st then f q else 0).
  { intros f. rewrite FlagQ.
    rewrite <- (sumR_indicator Nat.eqb f q idx Nat.eqb_eq Hnd).
    rewrite <- (sum_seq_list (fun s => if Nat.eqb s q then f s else 0) idx 0%nat size Li).
    apply sumR_map_ext. intros j Hj. apply in_seq in Hj. destruct (Nat.ltb_spec j size); [|lia]. cbn [andb].
    rewrite HitQ by lia. destruct (Nat.eqb (nth j idx 0%nat) q); lra. }
  (* the weighted sum over the first [size] entries of the updated weights *)
  assert (Pref : forall f (W : list R), (forall j, (j < size)%nat -> nth j W 0 = nth j (fst st) 0) -> (size <= length W)%nat ->
                 rowF f (combine idx (firstn size W)) = (if snd st then f q else 0) - rowF f (prow0 (mp, size, w))).
  { intros f W HW HLW. unfold prow0. fold idx.
    rewrite (rowF_combine_nth f idx (firstn size W) size Li) by (apply firstn_length_le; exact HLW).
    rewrite (rowF_combine_nth f idx (firstn size w) size Li) by (apply firstn_length_le; lia).
    rewrite <- IndSum, <- sumR_map_sub. apply sumR_map_ext. intros j Hj. apply in_seq in Hj.
    rewrite !nth_firstn_lt by lia. rewrite HW, FN by lia. lra. }
  unfold reg_split_row. cbn [opp ROps]. unfold one. cbn [ofZ ROps]. fold pix.
  change (fold_left _ (seq 0 size) _) with st.
  destruct (Nat.eqb_spec size 0); [lia|]. destruct (Nat.ltb_spec max_j size); [lia|].
  assert (PI : all_some (map (pyidx P) (firstn size mp)) = Some idx).
  { apply all_some_map. intros z Hz. apply pyidx_inr, Rg, Hz. }
  tr. destruct (snd st) eqn:Eflag.
  - (* own pixel already among the vertices *)
    exists (mp, size, fst st), (combine idx (firstn size (fst st))). split; [reflexivity|]. split.
    { unfold prep_split_row, prep_row. tr. destruct (Nat.ltb_spec (length (fst st)) size); [lia|].
      destruct (Nat.ltb_spec (length mp) size); [lia|]. rewrite PI. reflexivity. }
    split; [|split].
    + apply Forall_forall. intros [m v] Hm. apply in_combine_l in Hm. rewrite Forall_forall in Iidx. apply (Iidx m Hm).
    + assert (E : map fst (combine idx (firstn size (fst st))) = idx).
      { clear -Li FL Hsz Hmax. assert (L2 : length (firstn size (fst st)) = size) by (apply firstn_length_le; lia).
        revert L2 Li. generalize (firstn size (fst st)) as W. generalize size. induction idx as [|a l IH]; intros s W L2 Li'; destruct W; cbn in *; try lia; auto.
        f_equal. apply (IH (pred s)); lia. }
      rewrite E. exact Hnd.
    + intros f. rewrite (Pref f (fst st)) by (auto; lia). reflexivity.
  - (* own pixel appended at position [size] *)
    exists (upd_set mp size pix, S size, upd_set (fst st) size 1), (combine idx (firstn size (fst st)) ++ [(q, 1)]).
    split; [reflexivity|]. split.
    { unfold prep_split_row, prep_row. tr. rewrite !upd_set_length.
      destruct (Nat.ltb_spec (length (fst st)) (S size)); [lia|]. destruct (Nat.ltb_spec (length mp) (S size)); [lia|].
      rewrite !firstn_upd_set by lia.
      rewrite (all_some_map (pyidx P) Z.to_nat).
      - rewrite map_app. cbn [map]. fold idx. unfold pix. rewrite Nat2Z.id.
        rewrite combine_app_eq by (rewrite Li; symmetry; apply firstn_length_le; lia). reflexivity.
      - intros z Hz. apply in_app_or in Hz. destruct Hz as [Hz|[<-|[]]]; [apply pyidx_inr, Rg, Hz|]. apply pyidx_inr. unfold pix. lia. }
    assert (E : map fst (combine idx (firstn size (fst st))) = idx).
    { clear -Li FL Hsz Hmax. assert (L2 : length (firstn size (fst st)) = size) by (apply firstn_length_le; lia).
      revert L2 Li. generalize (firstn size (fst st)) as W. generalize size. induction idx as [|a l IH]; intros s W L2 Li'; destruct W; cbn in *; try lia; auto.
      f_equal. apply (IH (pred s)); lia. }
    split; [|split].
    + apply Forall_app. split; [|constructor; [exact Hq|constructor]].
      apply Forall_forall. intros [m v] Hm. apply in_combine_l in Hm. rewrite Forall_forall in Iidx. apply (Iidx m Hm).
    + rewrite map_app, E. cbn [map fst]. 
      assert (Hnq : ~ In q idx).
      { intros Hin. rewrite FlagQ in Eflag. assert (existsb (fun m => Nat.eqb m q) idx = true) by (apply existsb_exists; exists q; split; [exact Hin|apply Nat.eqb_refl]). congruence. }
      clear -Hnd Hnq. induction idx as [|a l IH]; cbn [app]; [constructor; [intros []|constructor]|].
      apply NoDup_cons_iff in Hnd. destruct Hnd as [Ha Hl]. constructor.
      * intros Hin. apply in_app_or in Hin. destruct Hin as [Hin|[<-|[]]]; [contradiction|]. apply Hnq. left. reflexivity.
      * apply IH; auto. intros Hin. apply Hnq. right. exact Hin.
    + intros f. rewrite rowF_app, (Pref f (fst st)) by (auto; lia). unfold rowF. cbn [map sumR fst snd]. lra.
Qed.

(* ------------------------------------------------------------------ the whole split pipeline: reg_split_from then the matrix *)
Lemma res_all_map_ok {A B} (F : A -> res B) (Rl : A -> B -> Prop) l :
  (forall a, In a l -> exists b, F a = Ok b /\ Rl a b) -> exists bs, @res_all B (map F l) = Ok bs /\ Forall2 Rl l bs.
Proof.
  induction l as [|a l IH]; intros H; [exists []; split; [reflexivity|constructor]|].
  destruct (H a (or_introl eq_refl)) as [b [Eb Rb]]. destruct IH as [bs [Ebs Rbs]]; [intros; apply H; right; assumption|].
  exists (b :: bs). split; [|constructor; assumption]. cbn [map res_all]. rewrite Eb, Ebs. reflexivity.
Qed.
Lemma all_some_map_ok {A B C} (G : B -> option C) (Rl : A -> B -> Prop) (S : A -> C -> Prop) l bs :
  Forall2 Rl l bs -> (forall a b, Rl a b -> exists c, G b = Some c /\ S a c) -> exists cs, all_some (map G bs) = Some cs /\ Forall2 S l cs.
Proof.
  induction 1 as [|a b l bs Hab HF IH]; intros H; [exists []; split; [reflexivity|constructor]|].
  destruct (H a b Hab) as [c [Ec Sc]]. destruct (IH H) as [cs [Ecs Scs]].
  exists (c :: cs). split; [|constructor; assumption]. cbn [map all_some]. rewrite Ec, Ecs. reflexivity.
Qed.
Lemma Forall2_nth_rel {A B} (S : A -> B -> Prop) l cs : Forall2 S l cs ->
  length l = length cs /\ forall k d1 d2, (k < length l)%nat -> S (nth k l d1) (nth k cs d2).
Proof.
  induction 1 as [|a c l cs Hac HF [IL IN]]; [split; [reflexivity|intros; cbn in *; lia]|].
  split; [cbn; lia|]. intros [|k] d1 d2 Hk; cbn [nth]; [exact Hac|]. apply IN. cbn in Hk. lia.
Qed.
Lemma nth_indexed {A} (l : list A) k d : (k < length l)%nat -> nth k (indexed l) (0%nat, d) = (k, nth k l d).
Proof. intros H. unfold indexed. rewrite combine_nth by (rewrite seq_length; reflexivity). rewrite seq_nth by exact H. reflexivity. Qed.
Lemma indexed_length {A} (l : list A) : length (indexed l) = length l.
Proof. unfold indexed. rewrite combine_length, seq_length. lia. Qed.

Lemma cross_residual_R x k row : @cross_residual ROps x k row = xh x (k / 4) - rowF (xh x) row.
Proof. unfold cross_residual. rewrite sumT_sumR. reflexivity. Qed.
Lemma qf_split_lower eps w prows0 x : eps * @norm2 ROps x <= @qf_split ROps eps w prows0 x.
Proof.
  unfold qf_split. rewrite sumT_sumR. cbn [add mul ROps].
  match goal with |- _ <= ?c + _ => assert (0 <= c) end.
  { apply sumR_map_nonneg. intros [k row]. cbn [fst snd]. rewrite nthT_map_sq. unfold sq. cbn [mul ROps].
    apply Rmult_le_pos; apply Rle_0_sqr. }
  tr. lra.
Qed.

Definition split_dflt : list Z * nat * list R := ([], 0%nat, []).
Lemma split_pipeline eps (w : list R) width (rows : list (list Z * nat * list R)) : split_rows_ok width rows = true ->
  exists rows' H, @reg_split ROps width rows = Ok rows' /\ @split_matrix ROps eps w rows' = Ok H
    /\ square_n (length rows / 4) H /\ symmetric_n (length rows / 4) H
    /\ forall x, length x = (length rows / 4)%nat -> @quad ROps H x = @qf_split ROps eps w (map prow0 rows) x.
Proof.
  intros Hok. unfold split_rows_ok in Hok. apply andb_true_iff in Hok. destruct Hok as [H4 Hrows]. apply Nat.eqb_eq in H4.
  rewrite forallb_forall in Hrows. set (P := (length rows / 4)%nat) in *.
  set (Q := fun (kr : nat * (list Z * nat * list R)) (prow' : list (nat * R)) =>
              Forall (fun mw : nat * R => (fst mw < P)%nat) prow' /\ NoDup (map fst prow')
              /\ forall f, rowF f prow' = f (fst kr / 4)%nat - rowF f (prow0 (snd kr))).
  destruct (res_all_map_ok (fun ir => @reg_split_row ROps (Z.of_nat (fst ir / 4)) (width - 1) (snd ir))
              (fun kr r' => exists prow', @prep_split_row ROps P r' = Some prow' /\ Q kr prow') (indexed rows)) as [rows' [Er HF]].
  { intros [k [[mp size] wr]] Hin. apply in_indexed in Hin. destruct Hin as [Hk Hin]. cbn [fst snd].
    assert (Hq : (k / 4 < P)%nat) by (apply Nat.div_lt_upper_bound; [lia | rewrite <- H4; exact Hk]).
    destruct (reg_split_row_spec P (width - 1) (k / 4) mp size wr (Hrows _ Hin) Hq) as [r' [prow' [E1 [E2 [E3 [E4 E5]]]]]].
    exists r'. split; [exact E1|]. exists prow'. split; [exact E2|]. unfold Q. cbn [fst snd]. auto. }
  destruct (all_some_map_ok (@prep_split_row ROps P) _ Q _ _ HF) as [prows' [Ep HQ]].
  { intros a b [c [E1 E2]]. exists c. auto. }
  destruct (Forall2_nth_rel _ _ _ HF) as [L1 _]. destruct (Forall2_nth_rel _ _ _ HQ) as [L2 NQ].
  rewrite indexed_length in L1, L2, NQ.
  assert (LP : (length prows' / 4)%nat = P) by (unfold P; rewrite <- L2; reflexivity).
  assert (HI : prows_inr (length prows' / 4) prows').
  { rewrite LP. apply Forall_forall. intros row Hr. destruct (In_nth prows' row [] Hr) as [k [Hk Ek]].
    specialize (NQ k (0%nat, split_dflt) [] ltac:(lia)). rewrite Ek in NQ. destruct NQ as [A [B _]]. auto. }
  exists rows', (@split_matrix_prepared ROps eps w prows'). split; [exact Er|]. split.
  { unfold split_matrix. rewrite <- L1.
    match goal with |- match ?a with _ => _ end = _ => replace a with (Some prows') by (symmetry; exact Ep) end. reflexivity. }
  split; [rewrite <- LP; apply T_split_size|]. split.
  { rewrite <- LP. unfold symmetric_n. apply split_prepared_symmetric. exact HI. }
  assert (S1 : length prows' = (4 * (length prows' / 4))%nat) by (rewrite LP, <- L2; exact H4).
  intros x HX. assert (S3 : length x = (length prows' / 4)%nat) by (rewrite LP; exact HX).
  rewrite split_prepared_quadratic; [| exact S1 | exact HI | exact S3].
  unfold qf_split_prepared, qf_split. rewrite !sumT_sumR. cbn [add mul ROps]. f_equal.
  etransitivity; [apply (sum_indexed_nth (fun k row => @nthT ROps (map (@sq ROps) w) (k / 4) * @sq ROps (@row_dot ROps x row)) prows' [])|].
  etransitivity; [|symmetry; apply (sum_indexed_nth (fun k row => @nthT ROps (map (@sq ROps) w) (k / 4) * @sq ROps (@cross_residual ROps x k row)) (map prow0 rows) [])].
  rewrite map_length, <- L2. apply sumR_map_ext. intros k Hk. apply in_seq in Hk. f_equal.
  specialize (NQ k (0%nat, split_dflt) [] ltac:(lia)). rewrite nth_indexed in NQ by lia. destruct NQ as [_ [_ NQ]]. cbn [fst snd] in NQ.
  rewrite row_dot_R, cross_residual_R, (NQ (xh x)).
  change [] with (prow0 split_dflt) at 1. rewrite (map_nth (@prow0 R)). reflexivity.
Qed.
Lemma T_split_pipeline eps (w : list R) width (rows : list (list Z * nat * list R)) : split_rows_ok width rows = true ->
  exists rows' H, @reg_split ROps width rows = Ok rows' /\ @split_matrix ROps eps w rows' = Ok H
    /\ square_n (length rows / 4) H /\ symmetric_n (length rows / 4) H
    /\ (forall x, length x = (length rows / 4)%nat -> @quad ROps H x = @qf_split ROps eps w (map prow0 rows) x)
    /\ (0 < eps -> forall x, length x = (length rows / 4)%nat -> nonzero x -> 0 < @quad ROps H x).
Proof.
  intros Hok. destruct (split_pipeline eps w width rows Hok) as [rows' [H [E1 [E2 [E3 [E4 E5]]]]]].
  exists rows', H. repeat (split; [assumption|]). intros He x HX Hx. rewrite E5 by exact HX.
  pose proof (qf_split_lower eps w (map prow0 rows) x). pose proof (norm2_pos x Hx). pose proof (Rmult_lt_0_compat _ _ He H1). lra.
Qed.
Lemma qf_split_meaning eps w (prows0 : list (list (nat * R))) x :
  @qf_split ROps eps w prows0 x =
  sumR (map (fun kr => nth (fst kr / 4) w 0 * nth (fst kr / 4) w 0
                       * ((nth (fst kr / 4) x 0 - sumR (map (fun mw => snd mw * nth (fst mw) x 0) (snd kr)))
                          * (nth (fst kr / 4) x 0 - sumR (map (fun mw => snd mw * nth (fst mw) x 0) (snd kr)))))
            (indexed prows0))
  + eps * sumR (map (fun v => v * v) x).
Proof.
  unfold qf_split. rewrite sumT_sumR, norm2_R. cbn [add mul ROps]. f_equal.
  apply sumR_map_ext. intros [k row] _. cbn [fst snd]. rewrite nthT_map_sq, cross_residual_R. reflexivity.
Qed.
Lemma T_reg_split_row P max_j q mp size (w : list R) : split_row_ok P max_j (mp, size, w) = true -> (q < P)%nat ->
  exists r' prow', @reg_split_row ROps (Z.of_nat q) max_j (mp, size, w) = Ok r' /\ @prep_split_row ROps P r' = Some prow'
    /\ Forall (fun mw : nat * R => (fst mw < P)%nat) prow' /\ NoDup (map fst prow')
    /\ forall x : list R, sumR (map (fun mw => snd mw * nth (fst mw) x 0) prow')
                          = nth q x 0 - sumR (map (fun mw => snd mw * nth (fst mw) x 0) (prow0 (mp, size, w))).
Proof.
  intros H Hq. destruct (reg_split_row_spec P max_j q mp size w H Hq) as [r' [prow' [E1 [E2 [E3 [E4 E5]]]]]].
  exists r', prow'. repeat (split; [assumption|]). intros x. apply (E5 (xh x)).
Qed.

(* ------------------------------------------------------------------ inverse of a symmetric positive definite matrix *)
Definition mv (M : Rmat) (x : list R) : list R := map (fun r => Rdot r x) M.
Lemma Rbil_mv x (M : Rmat) y : Rbil x M y = Rdot x (mv M y).
Proof.
  unfold Rbil, Rdot, mv. revert x. induction M as [|r M IH]; intros [|a x]; cbn [combine map sumR fst snd]; auto.
  rewrite IH. reflexivity.
Qed.
Lemma Rdot_comm a b : Rdot a b = Rdot b a.
Proof.
  unfold Rdot. revert b. induction a as [|x a IH]; intros [|y b]; cbn [combine map sumR fst snd]; auto. rewrite IH. lra.
Qed.
Lemma mv_length (M : Rmat) x : length (mv M x) = length M.
Proof. apply map_length. Qed.
Lemma Rdot_all_zero r y : (forall i, nth i y 0 = 0) -> Rdot r y = 0.
Proof.
  unfold Rdot. revert y. induction r as [|a r IH]; intros [|b y] H; cbn [combine map sumR fst snd]; auto.
  rewrite (IH y) by (intros i; apply (H (S i))). pose proof (H 0%nat) as H0. cbn in H0. subst. lra.
Qed.
Lemma nonzero_dec (y : list R) : nonzero y \/ forall i, nth i y 0 = 0.
Proof.
  induction y as [|b y IH]; [right; intros [|i]; reflexivity|].
  destruct (Req_EM_T b 0) as [->|Hb]; [|left; exists 0%nat; exact Hb].
  destruct IH as [[i Hi]|Hz]; [left; exists (S i); exact Hi|right; intros [|i]; [reflexivity|apply Hz]].
Qed.

Lemma nth_mv_zero (M : Rmat) y : (forall i, nth i y 0 = 0) -> forall i, nth i (mv M y) 0 = 0.
Proof.
  intros H. unfold mv. induction M as [|r M IH]; intros [|i]; cbn [map nth]; auto. apply Rdot_all_zero, H.
Qed.

Section Inverse.
  Variables (n : nat) (C K : Rmat).
  Hypothesis HC : wfm n C.
  Hypothesis HK : wfm n K.
  Hypothesis HsymC : forall x y, length x = n -> length y = n -> Rbil x C y = Rbil y C x.
  Hypothesis HPD : forall x, length x = n -> nonzero x -> 0 < @quad ROps C x.
  (* the contract of numpy.linalg.inv:  C (K x) = x *)
  Hypothesis Hinv : forall x, length x = n -> mv C (mv K x) = x.

  Lemma mvK_len x : length (mv K x) = n.
  Proof. rewrite mv_length. apply HK. Qed.
  Lemma inv_bil_sym x z : length x = n -> length z = n -> Rbil x K z = Rbil z K x.
  Proof.
    intros Hx Hz. rewrite !Rbil_mv.
    set (u := mv K x). set (v := mv K z).
    assert (Eu : x = mv C u) by (symmetry; apply Hinv, Hx). assert (Ev : z = mv C v) by (symmetry; apply Hinv, Hz).
    rewrite Eu at 1. rewrite Ev at 1.
    rewrite (Rdot_comm (mv C u) v), <- Rbil_mv, (HsymC v u) by apply mvK_len. rewrite Rbil_mv. apply Rdot_comm.
  Qed.
  Lemma inv_symmetric : symmetric_n n K.
  Proof.
    intros a b Ha Hb. rewrite !(mget_Rbil n) by auto. apply inv_bil_sym; unfold unit; rewrite map_length, seq_length; reflexivity.
  Qed.
  Lemma inv_pd x : length x = n -> nonzero x -> 0 < @quad ROps K x.
  Proof.
    intros Hx Hnz. unfold quad. rewrite bil_R, Rbil_mv. set (y := mv K x).
    assert (Ey : x = mv C y) by (symmetry; apply Hinv, Hx).
    rewrite Ey at 1. rewrite Rdot_comm, <- Rbil_mv, <- bil_R. apply HPD; [apply mvK_len|].
    destruct (nonzero_dec y) as [Hy|Hz]; [exact Hy|]. exfalso.
    destruct Hnz as [i Hi]. apply Hi. rewrite Ey. apply nth_mv_zero, Hz.
  Qed.
End Inverse.

(* ------------------------------------------------------------------ kernel schemes: covariance assembly, coefficient * inverse *)
Lemma dist2_sym (p q : R * R) : @dist2 ROps p q = @dist2 ROps q p.
Proof. unfold dist2, sq. cbn [add sub mul ROps]. tr. ring. Qed.
Lemma cov_entries_inr eps kern (pts : list (R * R)) : Forall (inr (length pts)) (@cov_entries ROps eps kern pts).
Proof.
  unfold cov_entries. apply Forall_forall. intros e He. apply in_flat_map in He. destruct He as [[i p] [Hi He]].
  apply in_indexed in Hi. destruct Hi as [Hi _]. cbn [fst snd] in He. destruct He as [<-|He]; [split; cbn [fst snd]; tr; lia|].
  apply in_map_iff in He. destruct He as [[j q] [<- Hj]]. apply in_indexed in Hj. destruct Hj as [Hj _]. split; cbn [fst snd]; tr; lia.
Qed.
Lemma ES_cov eps kern (pts : list (R * R)) f g :
  ES (@cov_entries ROps eps kern pts) f g =
  eps * sumR (map (fun ip => f (fst ip) * g (fst ip)) (indexed pts))
  + sumR (map (fun ip => sumR (map (fun jq => f (fst ip) * kern (@dist2 ROps (snd ip) (snd jq)) * g (fst jq)) (indexed pts))) (indexed pts)).
Proof.
  unfold cov_entries. rewrite ES_flat_map, <- sumR_map_scal, <- sumR_map_add. apply sumR_map_ext. intros [i p] _.
  rewrite ES_cons. cbn [fst snd]. f_equal; [lra|]. unfold ES. rewrite map_map. reflexivity.
Qed.
Lemma ES_cov_sym eps kern (pts : list (R * R)) f g : ES (@cov_entries ROps eps kern pts) f g = ES (@cov_entries ROps eps kern pts) g f.
Proof.
  rewrite !ES_cov. f_equal; [f_equal; apply sumR_map_ext; intros; lra|].
  rewrite sumR_swap. apply sumR_map_ext. intros [i p] _. apply sumR_map_ext. intros [j q] _. cbn [fst snd].
  rewrite (dist2_sym q p). lra.
Qed.
Lemma cov_bil_sym eps kern (pts : list (R * R)) x y :
  Rbil x (@cov_matrix ROps eps kern pts) y = Rbil y (@cov_matrix ROps eps kern pts) x.
Proof. unfold cov_matrix. rewrite !Rbil_build by apply cov_entries_inr. apply ES_cov_sym. Qed.
Lemma T_cov_size eps kern (pts : list (R * R)) : square_n (length pts) (@cov_matrix ROps eps kern pts).
Proof. apply build_wfm. Qed.
Lemma T_cov_sym eps kern (pts : list (R * R)) : symmetric_n (length pts) (@cov_matrix ROps eps kern pts).
Proof. unfold symmetric_n. apply build_symmetric; [apply cov_entries_inr|]. intros f g. apply ES_cov_sym. Qed.

Lemma mat_vec_R (M : Rmat) x : @mat_vec ROps M x = mv M x.
Proof. unfold mat_vec, mv. apply map_ext. intros r. apply dot_R. Qed.
Lemma Rdot_scale c (r : list R) y : Rdot (map (Rmult c) r) y = c * Rdot r y.
Proof.
  unfold Rdot. revert y. induction r as [|a r IH]; intros [|b y]; cbn [map combine sumR fst snd]; try lra. rewrite IH. lra.
Qed.
Lemma Rbil_scale c x (K : Rmat) y : Rbil x (@scale_matrix ROps c K) y = c * Rbil x K y.
Proof.
  unfold Rbil, scale_matrix. cbn [mul ROps]. revert x. induction K as [|r K IH]; intros [|a x]; cbn [map combine sumR fst snd]; try lra.
  rewrite IH, Rdot_scale. lra.
Qed.
Lemma nth_map_Rmult c (r : list R) b : nth b (map (Rmult c) r) 0 = c * nth b r 0.
Proof. revert b. induction r as [|a r IH]; intros [|b]; cbn [map nth]; try lra. apply IH. Qed.
Lemma mget_scale c (K : Rmat) a b : @mget ROps (@scale_matrix ROps c K) a b = c * @mget ROps K a b.
Proof.
  unfold mget, scale_matrix, nthT, zero. cbn [mul ofZ ROps].
  transitivity (nth b (map (Rmult c) (nth a K [])) 0); [|apply nth_map_Rmult].
  f_equal. exact (map_nth (map (Rmult c)) K [] a).
Qed.
(* PARTIAL: positive definiteness of the covariance matrix itself (Gaussian / exponential kernel matrices of distinct
   points: Bochner / Schur) is a HYPOTHESIS here, and numpy.linalg.inv enters through its contract C (K x) = x. *)
Lemma T_kernel_partial eps kern (pts : list (R * R)) (K : Rmat) coef :
  (forall x, length x = length pts -> nonzero x -> 0 < @quad ROps (@cov_matrix ROps eps kern pts) x) ->
  square_n (length pts) K ->
  (forall x, length x = length pts -> @mat_vec ROps (@cov_matrix ROps eps kern pts) (@mat_vec ROps K x) = x) ->
  0 < coef ->
  symmetric_n (length pts) (@scale_matrix ROps coef K)
  /\ forall x, length x = length pts -> nonzero x -> 0 < @quad ROps (@scale_matrix ROps coef K) x.
Proof.
  intros HPD HK Hinv Hc.
  assert (Hinv' : forall x, length x = length pts -> mv (@cov_matrix ROps eps kern pts) (mv K x) = x).
  { intros x Hx. rewrite <- !mat_vec_R. apply Hinv, Hx. }
  split.
  - intros a b Ha Hb. rewrite !mget_scale. f_equal.
    apply (inv_symmetric (length pts) (@cov_matrix ROps eps kern pts) K HK (fun x y _ _ => cov_bil_sym eps kern pts x y) Hinv'); auto.
  - intros x Hx Hnz. unfold quad. rewrite bil_R, Rbil_scale, <- bil_R. apply Rmult_lt_0_compat; [exact Hc|].
    apply (inv_pd (length pts) (@cov_matrix ROps eps kern pts) K HK HPD Hinv'); auto.
Qed.

(* ------------------------------------------------------------------ regularization_matrix_reduced *)
Definition del {A} (s : nat) (l : list A) (idx : list nat) : list A :=
  map snd (filter (fun ia : nat * A => negb (existsb (Nat.eqb (fst ia)) idx)) (combine (seq s (length l)) l)).
Lemma delete_idx_del {A} (l : list A) idx : delete_idx l idx = del 0 l idx.
Proof. reflexivity. Qed.
Lemma mem_idx i idx : existsb (Nat.eqb i) idx = true <-> In i idx.
Proof.
  rewrite existsb_exists. split; [intros [x [Hx E]]; apply Nat.eqb_eq in E; subst; exact Hx|intros H; exists i; split; [exact H|apply Nat.eqb_refl]].
Qed.
Lemma del_cons {A} s (a : A) l idx :
  del s (a :: l) idx = (if existsb (Nat.eqb s) idx then [] else [a]) ++ del (S s) l idx.
Proof. unfold del. cbn [length seq combine filter fst]. destruct (existsb (Nat.eqb s) idx); reflexivity. Qed.
Lemma del_app {A} s (l1 l2 : list A) idx : del s (l1 ++ l2) idx = del s l1 idx ++ del (s + length l1) l2 idx.
Proof.
  revert s. induction l1 as [|a l1 IH]; intros s; [cbn [app length]; rewrite Nat.add_0_r; reflexivity|].
  cbn [app length]. rewrite !del_cons, IH, <- app_assoc. replace (S s + length l1)%nat with (s + S (length l1))%nat by lia. reflexivity.
Qed.
Lemma del_all {A} s (l : list A) idx : (forall i, (s <= i < s + length l)%nat -> In i idx) -> del s l idx = [].
Proof.
  revert s. induction l as [|a l IH]; intros s H; [reflexivity|]. rewrite del_cons.
  assert (E : existsb (Nat.eqb s) idx = true) by (apply mem_idx, H; cbn [length]; lia). rewrite E.
  apply IH. intros i Hi. apply H. cbn [length]. lia.
Qed.
Lemma del_none {A} s (l : list A) idx : (forall i, (s <= i < s + length l)%nat -> ~ In i idx) -> del s l idx = l.
Proof.
  revert s. induction l as [|a l IH]; intros s H; [reflexivity|]. rewrite del_cons.
  destruct (existsb (Nat.eqb s) idx) eqn:E; [apply mem_idx in E; exfalso; apply (H s); [cbn [length]; lia|exact E]|].
  cbn [app]. f_equal. apply IH. intros i Hi. apply H. cbn [length]. lia.
Qed.
Lemma del_ext {A} s (l : list A) idx idx' : (forall i, (s <= i < s + length l)%nat -> (In i idx <-> In i idx')) -> del s l idx = del s l idx'.
Proof.
  revert s. induction l as [|a l IH]; intros s H; [reflexivity|]. rewrite !del_cons.
  assert (E : existsb (Nat.eqb s) idx = existsb (Nat.eqb s) idx').
  { destruct (existsb (Nat.eqb s) idx) eqn:E1, (existsb (Nat.eqb s) idx') eqn:E2; auto.
    - apply mem_idx in E1. apply H in E1; [|cbn [length]; lia]. apply mem_idx in E1. congruence.
    - apply mem_idx in E2. apply H in E2; [|cbn [length]; lia]. apply mem_idx in E2. congruence. }
  rewrite E. f_equal. apply IH. intros i Hi. apply H. cbn [length]. lia.
Qed.
Lemma del_map {A B} s (g : A -> B) l idx : del s (map g l) idx = map g (del s l idx).
Proof.
  revert s. induction l as [|a l IH]; intros s; [reflexivity|]. cbn [map]. rewrite !del_cons, IH, map_app.
  destruct (existsb (Nat.eqb s) idx); reflexivity.
Qed.
Lemma del_length {A B} s (l : list A) (l' : list B) idx : length l = length l' -> length (del s l idx) = length (del s l' idx).
Proof.
  revert s l'. induction l as [|a l IH]; intros s [|b l'] H; cbn in H; try discriminate; [reflexivity|].
  rewrite !del_cons, !app_length, (IH (S s) l') by lia. destruct (existsb (Nat.eqb s) idx); reflexivity.
Qed.
Lemma del_zeros s n idx : del s (@zeros ROps n) idx = @zeros ROps (length (del s (@zeros ROps n) idx)).
Proof.
  unfold zeros. revert s. induction n as [|n IH]; intros s; [reflexivity|]. cbn [repeat]. rewrite del_cons.
  destruct (existsb (Nat.eqb s) idx); cbn [app length repeat]; [apply IH|f_equal; apply IH].
Qed.

Notation nriR := (@no_reg_indexes ROps).
Fixpoint totalp (objs : list (nat * option Rmat)) : nat := match objs with [] => 0%nat | o :: t => (fst o + totalp t)%nat end.
Definition objs_ok (objs : list (nat * option Rmat)) : Prop :=
  Forall (fun o => match snd o with Some H => wfm (fst o) H | None => True end) objs.
Lemma nri_range objs : forall off i, In i (nriR off objs) -> (off <= i < off + totalp objs)%nat.
Proof.
  induction objs as [|[p r] t IH]; intros off i H; [destruct H|]. cbn [no_reg_indexes totalp fst] in *.
  apply in_app_or in H. destruct H as [H|H].
  - destruct r; [destruct H|]. apply in_seq in H. lia.
  - apply IH in H. lia.
Qed.
Lemma obj_matrix_wfm o : (match snd o with Some H => wfm (fst o) H | None => True end) -> wfm (fst o) (@obj_matrix ROps o).
Proof. destruct o as [p [H|]]; cbn [fst snd obj_matrix]; intros W; [exact W|apply mzeros_wfm]. Qed.
Lemma objs_blocks_square objs : objs_ok objs -> blocks_square (map (@obj_matrix ROps) objs) /\ total (map (@obj_matrix ROps) objs) = totalp objs.
Proof.
  induction 1 as [|o t Ho HT [IH1 IH2]]; [split; [constructor|reflexivity]|].
  pose proof (obj_matrix_wfm o Ho) as W. cbn [map total totalp]. destruct W as [WL WF]. split.
  - constructor; [|exact IH1]. split; [reflexivity|]. tr. rewrite WL. exact WF.
  - tr. rewrite WL, IH2. reflexivity.
Qed.
Lemma filter_objs_ok objs : objs_ok objs -> objs_ok (filter (@has_reg ROps) objs).
Proof. unfold objs_ok. intros H. apply Forall_forall. intros o Ho. apply filter_In in Ho. rewrite Forall_forall in H. apply H, Ho. Qed.

Lemma del_count t : forall off (l : list R), length l = totalp t -> length (del off l (nriR off t)) = totalp (filter (@has_reg ROps) t).
Proof.
  induction t as [|[p r] t IH]; intros off l HL; [destruct l; [reflexivity|discriminate]|].
  cbn [totalp fst] in HL. rewrite <- (firstn_skipn p l). rewrite del_app.
  assert (L1 : length (firstn p l) = p) by (apply firstn_length_le; lia).
  assert (L2 : length (skipn p l) = totalp t) by (rewrite skipn_length; lia).
  rewrite app_length, L1. cbn [no_reg_indexes].
  rewrite (del_ext (off + p) (skipn p l) _ (nriR (off + p) t)).
  2:{ intros i Hi. split; [|intros H; apply in_or_app; right; exact H]. intros H. apply in_app_or in H. destruct H as [H|H]; [|exact H].
      destruct r; [destruct H|]. apply in_seq in H. lia. }
  rewrite (IH (off + p)%nat _ L2). destruct r as [H|]; cbn [filter has_reg snd totalp fst].
  - rewrite del_none; [rewrite L1; reflexivity|]. intros i Hi H1. rewrite L1 in Hi. cbn [app] in H1. apply nri_range in H1. lia.
  - rewrite del_all; [reflexivity|]. intros i Hi. rewrite L1 in Hi. apply in_or_app. left. apply in_seq. lia.
Qed.

Lemma reduced_gen t : objs_ok t -> forall off,
  map (fun r => del off r (nriR off t)) (del off (block_diagR (map (@obj_matrix ROps) t)) (nriR off t))
  = block_diagR (map (@obj_matrix ROps) (filter (@has_reg ROps) t)).
Proof.
  induction 1 as [|[p r] t Ho HT IH]; intros off; [reflexivity|].
  pose proof (obj_matrix_wfm _ Ho) as WB. cbn [fst] in WB.
  destruct (objs_blocks_square t HT) as [SQ TT]. pose proof (block_diag_wfm _ SQ) as WH. rewrite TT in WH.
  destruct (objs_blocks_square _ (filter_objs_ok t HT)) as [SQf TTf]. pose proof (block_diag_wfm _ SQf) as WHf. rewrite TTf in WHf.
  set (B := @obj_matrix ROps (p, r)) in *. set (Hr := block_diagR (map (@obj_matrix ROps) t)) in *.
  set (N := totalp t) in *. set (Ir := nriR (off + p) t).
  cbn [map]. fold B. rewrite block_diag_cons. fold Hr. rewrite (wfm_width _ _ WH), (wfm_width _ _ WB).
  cbn [no_reg_indexes]. fold Ir. set (I0 := match r with Some _ => [] | None => seq off p end).
  assert (LB : length (map (fun r0 : list R => r0 ++ @zeros ROps N) B) = p) by (rewrite map_length; apply WB).
  tr. rewrite del_app, LB.
  assert (Eext : forall {A} (l : list A), del (off + p) l (I0 ++ Ir) = del (off + p) l Ir).
  { intros A l. apply del_ext. intros i Hi. split; [|intros H; apply in_or_app; right; exact H].
    intros H. apply in_app_or in H. destruct H as [H|H]; [|exact H]. unfold I0 in H. destruct r; [destruct H|]. apply in_seq in H. lia. }
  rewrite Eext, map_app.
  rewrite !del_map, !map_map.
  assert (Ecol2 : forall r', del off (@zeros ROps p ++ r') (I0 ++ Ir) = del off (@zeros ROps p) (I0 ++ Ir) ++ del (off + p) r' Ir).
  { intros r'. rewrite del_app. unfold zeros at 2. rewrite repeat_length, Eext. reflexivity. }
  assert (WBl : length B = p) by apply WB.
  destruct r as [Hm|].
  - (* a regularized block: kept *)
    unfold I0 in *. cbn [app] in *. cbn [filter has_reg snd map]. fold B.
    rewrite block_diag_cons, (wfm_width _ _ WHf), (wfm_width _ _ WB).
    tr. rewrite del_none by (intros i Hi H1; apply nri_range in H1; tr; rewrite WBl in Hi; lia).
    f_equal.
    + apply map_ext_in. intros r0 Hr0. destruct WB as [_ WF]. rewrite Forall_forall in WF. specialize (WF _ Hr0).
      rewrite del_app. tr. rewrite WF. rewrite (del_none off r0 Ir) by (intros i Hi H1; apply nri_range in H1; tr; rewrite WF in Hi; lia).
      f_equal. rewrite del_zeros. f_equal. apply del_count. unfold zeros. apply repeat_length.
    + rewrite <- (IH (off + p)%nat), map_map. apply map_ext. intros r'. rewrite Ecol2.
      rewrite del_none; [reflexivity|]. intros i Hi H1. unfold zeros in Hi. rewrite repeat_length in Hi. apply nri_range in H1. lia.
  - (* an object without regularization: its rows and columns disappear *)
    cbn [filter has_reg snd].
    tr. rewrite del_all by (intros i Hi; tr; rewrite WBl in Hi; apply in_or_app; left; unfold I0; apply in_seq; lia).
    cbn [map app]. rewrite <- (IH (off + p)%nat). apply map_ext. intros r'. rewrite Ecol2.
    rewrite del_all; [reflexivity|]. intros i Hi. unfold zeros in Hi. rewrite repeat_length in Hi. apply in_or_app. left. unfold I0. apply in_seq. lia.
Qed.
Lemma filter_all_reg (objs : list (nat * option Rmat)) : forallb (@has_reg ROps) objs = true -> filter (@has_reg ROps) objs = objs.
Proof. induction objs as [|o t IH]; intros H; [reflexivity|]. cbn in H. apply andb_true_iff in H. destruct H as [H1 H2]. cbn [filter]. rewrite H1, IH by exact H2. reflexivity. Qed.
Lemma T_reduced objs : objs_ok objs ->
  @inversion_matrix_reduced ROps objs = @inversion_matrix ROps (filter (@has_reg ROps) objs).
Proof.
  intros H. unfold inversion_matrix_reduced, inversion_matrix. destruct (forallb (@has_reg ROps) objs) eqn:E.
  - rewrite filter_all_reg by exact E. reflexivity.
  - rewrite <- (reduced_gen objs H 0). reflexivity.
Qed.

(* ------------------------------------------------------------------ the symmetry hypothesis is needed *)
(* without symmetry of the neighbour lists the constant scheme is neither symmetric nor positive semi-definite *)
Lemma constant_asymmetric_refuted :
  exists (nb : list (list nat)) (x : list R), nb_in_range (length nb) nb = true /\ length x = length nb
    /\ @mget ROps (@constant_matrix ROps (/100) 1 nb) 1 0 <> @mget ROps (@constant_matrix ROps (/100) 1 nb) 0 1
    /\ @quad ROps (@constant_matrix ROps (/100) 1 nb) x < 0.
Proof.
  exists [[]; [0%nat]], [1; /2]. split; [reflexivity|]. split; [reflexivity|]. split.
  - vm_compute. lra.
  - vm_compute. lra.
Qed.
