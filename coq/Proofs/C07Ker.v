(* C07 -- kernel schemes (GaussianKernel, ExponentialKernel): what is provable about the covariance matrix without Bochner's
   theorem.  Every entry of the covariance assembly (diagonal = profile at 0 + ridge = 1 + ridge for both kernels, off-diagonal =
   profile of the squared distance); positive definiteness by explicit quadratic forms / determinants for 2 points (every profile
   bounded by its value at 0, hence both kernels) and for 3 points of the EXPONENTIAL kernel (from the triangle inequality of the
   Euclidean distance), hence symmetric positive definite scheme matrices there with no hypothesis on the covariance matrix. *)
From Coq Require Import ZArith List Bool Reals Lra Lia Arith Rgeom R_sqrt.
From PAV Require Import Base.Res Base.Check Base.NumOps Base.Sum Model.C07 Proofs.C07.
Import ListNotations.
Local Open Scope R_scope.

(* the two profiles, as functions of the SQUARED distance (the code computes d = sqrt(dx^2 + dy^2) first) *)
Definition kern_gauss (s d2 : R) : R := exp (- (sqrt d2 * sqrt d2) / (2 * (s * s))).
Definition kern_exp (s d2 : R) : R := exp (- sqrt d2 / s).

Lemma sq_nonneg t : 0 <= t * t.
Proof. apply Rle_0_sqr. Qed.
Lemma sq_pos t : t <> 0 -> 0 < t * t.
Proof. intros H. apply Rsqr_pos_lt. exact H. Qed.

(* ---------------- every entry of the covariance assembly ---------------- *)
Lemma sum_ind_seq (G : nat -> R) a n : (a < n)%nat -> sumR (map (fun k => ind a k * G k) (seq 0 n)) = G a.
Proof.
  intros Ha.
  rewrite (sumR_map_ext _ (fun k => if Nat.eqb k a then G k else 0)) by (intros k _; unfold ind; destruct (Nat.eqb k a); lra).
  rewrite (sumR_indicator Nat.eqb G a (seq 0 n)); [|intros x y; apply Nat.eqb_eq|apply seq_NoDup].
  assert (E : existsb (fun s => Nat.eqb s a) (seq 0 n) = true).
  { apply existsb_exists. exists a. split; [apply in_seq; lia|apply Nat.eqb_refl]. }
  rewrite E. reflexivity.
Qed.
Lemma sum_indexed_ind {A} (F : nat * A -> R) (G : nat -> A -> R) (l : list A) a d :
  (forall ka, F ka = ind a (fst ka) * G (fst ka) (snd ka)) -> (a < length l)%nat ->
  sumR (map F (indexed l)) = G a (nth a l d).
Proof.
  intros HF Ha. rewrite (sumR_map_ext F (fun ka => (fun i p => ind a i * G i p) (fst ka) (snd ka))) by (intros ka _; apply HF).
  rewrite (sum_indexed_nth (fun i p => ind a i * G i p) l d).
  apply (sum_ind_seq (fun k => G k (nth k l d))). exact Ha.
Qed.
Lemma T_cov_entry eps kern (pts : list (R * R)) a b : (a < length pts)%nat -> (b < length pts)%nat ->
  @mget ROps (@cov_matrix ROps eps kern pts) a b
  = (if Nat.eqb a b then eps else 0) + kern (@dist2 ROps (nth a pts (0, 0)) (nth b pts (0, 0))).
Proof.
  intros Ha Hb. unfold cov_matrix. rewrite mget_build by (auto using cov_entries_inr). rewrite ES_cov.
  match goal with |- eps * ?S1 + ?S2 = _ =>
    assert (E1 : S1 = ind b a);
    [|assert (E2 : S2 = kern (@dist2 ROps (nth a pts (0, 0)) (nth b pts (0, 0))));
      [|rewrite E1, E2; unfold ind; destruct (Nat.eqb a b); lra]] end.
  - apply (sum_indexed_ind _ (fun i _ => ind b i) pts a (0, 0)).
    + intros ka. reflexivity.
    + exact Ha.
  - rewrite (sum_indexed_ind _ (fun i p => sumR (map (fun jq : nat * (R * R) => kern (@dist2 ROps p (snd jq)) * ind b (fst jq)) (indexed pts))) pts a (0, 0)).
    + apply (sum_indexed_ind _ (fun j q => kern (@dist2 ROps (nth a pts (0, 0)) q)) pts b (0, 0)).
      * intros ka. cbn [fst snd]. tr. ring.
      * exact Hb.
    + intros ka. rewrite <- sumR_map_scal. apply sumR_map_ext. intros jq _. tr. ring.
    + exact Ha.
Qed.
Lemma dist2_self (p : R * R) : @dist2 ROps p p = 0.
Proof. unfold dist2, sq. cbn [add sub mul ROps]. tr. ring. Qed.
Lemma kern_gauss_0 s : kern_gauss s 0 = 1.
Proof. unfold kern_gauss. rewrite sqrt_0. replace (- (0 * 0) / (2 * (s * s))) with 0 by (unfold Rdiv; ring). apply exp_0. Qed.
Lemma kern_exp_0 s : kern_exp s 0 = 1.
Proof. unfold kern_exp. rewrite sqrt_0. replace (- 0 / s) with 0 by (unfold Rdiv; ring). apply exp_0. Qed.
(* diagonal = 1 + ridge for both kernels *)
Lemma T_cov_diagonal eps kern (pts : list (R * R)) a : (a < length pts)%nat ->
  @mget ROps (@cov_matrix ROps eps kern pts) a a = eps + kern 0.
Proof. intros Ha. rewrite T_cov_entry by assumption. rewrite Nat.eqb_refl, dist2_self. reflexivity. Qed.
Lemma T_cov_diagonal_gauss eps s (pts : list (R * R)) a : (a < length pts)%nat ->
  @mget ROps (@cov_matrix ROps eps (kern_gauss s) pts) a a = 1 + eps.
Proof. intros Ha. rewrite T_cov_diagonal by assumption. rewrite kern_gauss_0. lra. Qed.
Lemma T_cov_diagonal_exp eps s (pts : list (R * R)) a : (a < length pts)%nat ->
  @mget ROps (@cov_matrix ROps eps (kern_exp s) pts) a a = 1 + eps.
Proof. intros Ha. rewrite T_cov_diagonal by assumption. rewrite kern_exp_0. lra. Qed.

(* both profiles take values in (0, 1] on non-negative squared distances (s > 0) *)
Lemma exp_nonpos_le_1 t : t <= 0 -> 0 < exp t <= 1.
Proof.
  intros Ht. split; [apply exp_pos|]. destruct (Req_dec t 0) as [->|Hn]; [rewrite exp_0; lra|].
  rewrite <- exp_0. left. apply exp_increasing. lra.
Qed.
Lemma kern_gauss_range s d2 : 0 < s -> 0 < kern_gauss s d2 <= 1.
Proof.
  intros Hs. unfold kern_gauss. apply exp_nonpos_le_1.
  assert (0 <= sqrt d2 * sqrt d2) by (apply Rle_0_sqr || nra).
  assert (0 < 2 * (s * s)) by nra. unfold Rdiv. assert (0 < / (2 * (s * s))) by (apply Rinv_0_lt_compat; assumption). nra.
Qed.
Lemma kern_exp_range s d2 : 0 < s -> 0 < kern_exp s d2 <= 1.
Proof.
  intros Hs. unfold kern_exp. apply exp_nonpos_le_1.
  pose proof (sqrt_pos d2). unfold Rdiv. assert (0 < / s) by (apply Rinv_0_lt_compat; assumption). nra.
Qed.

(* ---------------- the quadratic form of the covariance matrix, explicitly ---------------- *)
Lemma cov_quad eps kern (pts : list (R * R)) x :
  @quad ROps (@cov_matrix ROps eps kern pts) x
  = eps * sumR (map (fun ip : nat * (R * R) => xh x (fst ip) * xh x (fst ip)) (indexed pts))
    + sumR (map (fun ip : nat * (R * R) => sumR (map (fun jq : nat * (R * R) => xh x (fst ip) * kern (@dist2 ROps (snd ip) (snd jq)) * xh x (fst jq)) (indexed pts))) (indexed pts)).
Proof. unfold cov_matrix. rewrite quad_build by apply cov_entries_inr. apply ES_cov. Qed.

(* ---------------- two points: positive definite for EVERY profile bounded by its value at 0 ---------------- *)
Lemma T_cov_pd_2 eps kern (p q : R * R) : 0 < eps -> 0 <= kern 0 -> Rabs (kern (@dist2 ROps p q)) <= kern 0 ->
  forall x, length x = 2%nat -> nonzero x -> 0 < @quad ROps (@cov_matrix ROps eps kern [p; q]) x.
Proof.
  intros He H0 Hk x Hx [i Hi]. destruct x as [|x0 [|x1 [|? ?]]]; try discriminate.
  rewrite cov_quad. cbn [indexed length seq combine map sumR fst snd xh nth].
  rewrite !dist2_self, (dist2_sym q p). generalize dependent (kern (@dist2 ROps p q)). intros k Hk. generalize dependent (kern 0). intros k0 H0 Hk.
  assert (Hk' : - k0 <= k <= k0) by (unfold Rabs in Hk; destruct (Rcase_abs k); lra).
  assert (Hnz : 0 < x0 * x0 + x1 * x1).
  { pose proof (sq_nonneg x0). pose proof (sq_nonneg x1).
    destruct i as [|[|i]]; cbn [nth] in Hi.
    - pose proof (sq_pos x0 Hi). lra.
    - pose proof (sq_pos x1 Hi). lra.
    - exfalso. apply Hi. destruct i; reflexivity. }
  (* k0 (x0^2 + x1^2) + 2 k x0 x1 >= 0  because |k| <= k0 *)
  assert (0 <= k0 * (x0 * x0 + x1 * x1) + 2 * k * (x0 * x1)).
  { assert (0 <= (k0 - k) * ((x0 - x1) * (x0 - x1))) by (apply Rmult_le_pos; [lra|apply sq_nonneg]).
    assert (0 <= (k0 + k) * ((x0 + x1) * (x0 + x1))) by (apply Rmult_le_pos; [lra|apply sq_nonneg]). nra. }
  nra.
Qed.
Lemma T_cov_pd_2_gauss eps s (p q : R * R) : 0 < eps -> 0 < s ->
  forall x, length x = 2%nat -> nonzero x -> 0 < @quad ROps (@cov_matrix ROps eps (kern_gauss s) [p; q]) x.
Proof.
  intros He Hs. apply T_cov_pd_2; [exact He|rewrite kern_gauss_0; lra|].
  rewrite kern_gauss_0. pose proof (kern_gauss_range s (@dist2 ROps p q) Hs). rewrite Rabs_pos_eq; lra.
Qed.
Lemma T_cov_pd_2_exp eps s (p q : R * R) : 0 < eps -> 0 < s ->
  forall x, length x = 2%nat -> nonzero x -> 0 < @quad ROps (@cov_matrix ROps eps (kern_exp s) [p; q]) x.
Proof.
  intros He Hs. apply T_cov_pd_2; [exact He|rewrite kern_exp_0; lra|].
  rewrite kern_exp_0. pose proof (kern_exp_range s (@dist2 ROps p q) Hs). rewrite Rabs_pos_eq; lra.
Qed.

(* ---------------- three points, exponential kernel ----------------
   a = k(p0,p1), b = k(p0,p2), c = k(p1,p2) in (0,1]; the triangle inequality of the distance gives a >= b c, b >= a c, c >= a b;
   then the kernel matrix [[1,a,b],[a,1,c],[b,c,1]] is positive semi-definite (its determinant 1 + 2abc - a^2 - b^2 - c^2 >= 0
   and its 2 x 2 minors 1 - a^2 >= 0), and the ridge makes the covariance matrix positive definite. *)
Lemma det3_ordered a b c : 0 < c -> c <= b -> b <= a -> a <= 1 -> a * b <= c -> 0 <= 1 + 2 * a * b * c - a * a - b * b - c * c.
Proof.
  intros Hc Hcb Hba Ha Hab.
  (* det = (1 - a^2)(1 - b^2) - (c - ab)^2  and  0 <= c - ab <= b - ab = b (1 - a) *)
  assert (E : 1 + 2 * a * b * c - a * a - b * b - c * c = (1 - a * a) * (1 - b * b) - (c - a * b) * (c - a * b)) by ring.
  rewrite E.
  assert (H1 : (c - a * b) * (c - a * b) <= (b * (1 - a)) * (b * (1 - a))) by (apply Rmult_le_compat; nra).
  assert (H2 : (b * (1 - a)) * (b * (1 - a)) <= (1 - a * a) * (1 - b * b)).
  { (* (1-a) [ (1+a)(1-b^2) - b^2 (1-a) ] = (1-a)(1 + a - 2 b^2) >= 0 *)
    assert (E2 : (1 - a * a) * (1 - b * b) - (b * (1 - a)) * (b * (1 - a)) = (1 - a) * (1 + a - 2 * (b * b))) by ring.
    assert (0 <= (1 - a) * (1 + a - 2 * (b * b))) by (apply Rmult_le_pos; nra). lra. }
  lra.
Qed.
Lemma det3_nonneg a b c : 0 < a <= 1 -> 0 < b <= 1 -> 0 < c <= 1 -> b * c <= a -> a * c <= b -> a * b <= c ->
  0 <= 1 + 2 * a * b * c - a * a - b * b - c * c.
Proof.
  intros Ha Hb Hc H1 H2 H3.
  destruct (Rle_dec a b) as [Lab|Lab]; destruct (Rle_dec b c) as [Lbc|Lbc]; destruct (Rle_dec a c) as [Lac|Lac]; try lra.
  - (* a <= b <= c : smallest a, needs b c <= a *)
    replace (1 + 2 * a * b * c - a * a - b * b - c * c) with (1 + 2 * c * b * a - c * c - b * b - a * a) by ring.
    apply det3_ordered; lra.
  - (* a <= c < b *)
    replace (1 + 2 * a * b * c - a * a - b * b - c * c) with (1 + 2 * b * c * a - b * b - c * c - a * a) by ring.
    apply det3_ordered; lra.
  - (* c < a <= b *)
    replace (1 + 2 * a * b * c - a * a - b * b - c * c) with (1 + 2 * b * a * c - b * b - a * a - c * c) by ring.
    apply det3_ordered; lra.
  - (* b < a, b <= c, a <= c : b <= a <= c *)
    replace (1 + 2 * a * b * c - a * a - b * b - c * c) with (1 + 2 * c * a * b - c * c - a * a - b * b) by ring.
    apply det3_ordered; lra.
  - (* b < a, b <= c, c < a : b <= c < a *)
    replace (1 + 2 * a * b * c - a * a - b * b - c * c) with (1 + 2 * a * c * b - a * a - c * c - b * b) by ring.
    apply det3_ordered; lra.
  - (* c < b < a *)
    apply det3_ordered; lra.
Qed.
(* a symmetric 3 x 3 matrix with unit diagonal whose principal minors are non-negative is positive semi-definite *)
Lemma psd3 a b c x y z : a * a <= 1 -> b * b <= 1 -> 0 <= 1 + 2 * a * b * c - a * a - b * b - c * c ->
  0 <= x * x + y * y + z * z + 2 * a * (x * y) + 2 * b * (x * z) + 2 * c * (y * z).
Proof.
  intros Ha Hb Hd.
  (* complete the squares: q = (x + a y + b z)^2 + r,  r = (1 - a^2) y^2 + 2 (c - a b) y z + (1 - b^2) z^2 ;
     (1 - a^2) r = ((1 - a^2) y + (c - a b) z)^2 + det * z^2 *)
  set (r := (1 - a * a) * (y * y) + 2 * (c - a * b) * (y * z) + (1 - b * b) * (z * z)).
  assert (Eq : x * x + y * y + z * z + 2 * a * (x * y) + 2 * b * (x * z) + 2 * c * (y * z) = (x + a * y + b * z) * (x + a * y + b * z) + r)
    by (unfold r; ring).
  assert (Er : (1 - a * a) * r = ((1 - a * a) * y + (c - a * b) * z) * ((1 - a * a) * y + (c - a * b) * z)
                               + (1 + 2 * a * b * c - a * a - b * b - c * c) * (z * z)) by (unfold r; ring).
  assert (Hr : 0 <= r).
  { destruct (Req_dec (a * a) 1) as [E1|N1].
    - (* a^2 = 1: det = - (c - a b)^2 >= 0 forces c = a b, and r = (1 - b^2) z^2 *)
      assert (Ed : 1 + 2 * a * b * c - a * a - b * b - c * c = (1 - a * a) * (1 - b * b) - (c - a * b) * (c - a * b)) by ring.
      rewrite Ed, E1 in Hd. pose proof (sq_nonneg (c - a * b)) as Hs.
      assert (Ez : (c - a * b) * (c - a * b) = 0) by lra.
      assert (Ecb : c - a * b = 0) by (destruct (Rmult_integral _ _ Ez); assumption).
      unfold r. rewrite E1, Ecb.
      assert (0 <= (1 - b * b) * (z * z)) by (apply Rmult_le_pos; [lra|apply sq_nonneg]). lra.
    - assert (Hp : 0 < 1 - a * a) by lra.
      assert (H1 : 0 <= (1 + 2 * a * b * c - a * a - b * b - c * c) * (z * z)) by (apply Rmult_le_pos; [exact Hd|apply sq_nonneg]).
      assert (H2 : 0 <= (1 - a * a) * r) by (rewrite Er; pose proof (sq_nonneg ((1 - a * a) * y + (c - a * b) * z)); lra).
      apply Rnot_lt_le. intros Hlt. assert (0 < (1 - a * a) * (- r)) by (apply Rmult_lt_0_compat; lra). lra. }
  rewrite Eq. pose proof (sq_nonneg (x + a * y + b * z)). lra.
Qed.

(* the Euclidean triangle inequality in the form the exponential kernel needs: k(p,r) >= k(p,q) k(q,r) *)
Lemma dist2_dist_euc (p q : R * R) : sqrt (@dist2 ROps p q) = dist_euc (snd p) (fst p) (snd q) (fst q).
Proof. unfold dist2, sq, dist_euc, Rsqr. cbn [add sub mul ROps]. reflexivity. Qed.
Lemma kern_exp_triangle s (p q r : R * R) : 0 < s ->
  kern_exp s (@dist2 ROps p q) * kern_exp s (@dist2 ROps q r) <= kern_exp s (@dist2 ROps p r).
Proof.
  intros Hs. unfold kern_exp. rewrite <- exp_plus.
  assert (Ht : sqrt (@dist2 ROps p r) <= sqrt (@dist2 ROps p q) + sqrt (@dist2 ROps q r)).
  { rewrite !dist2_dist_euc. apply triangle. }
  assert (Hi : 0 < / s) by (apply Rinv_0_lt_compat; exact Hs).
  assert (Hle : - sqrt (@dist2 ROps p q) / s + - sqrt (@dist2 ROps q r) / s <= - sqrt (@dist2 ROps p r) / s) by (unfold Rdiv; nra).
  destruct Hle as [Hlt|Heq]; [left; apply exp_increasing; exact Hlt|rewrite Heq; lra].
Qed.

Lemma T_cov_pd_3_exp eps s (p0 p1 p2 : R * R) : 0 < eps -> 0 < s ->
  forall x, length x = 3%nat -> nonzero x -> 0 < @quad ROps (@cov_matrix ROps eps (kern_exp s) [p0; p1; p2]) x.
Proof.
  intros He Hs x Hx [i Hi]. destruct x as [|x0 [|x1 [|x2 [|? ?]]]]; try discriminate.
  rewrite cov_quad. cbn [indexed length seq combine map sumR fst snd xh nth].
  rewrite !dist2_self, (dist2_sym p1 p0), (dist2_sym p2 p0), (dist2_sym p2 p1), kern_exp_0.
  pose proof (kern_exp_range s (@dist2 ROps p0 p1) Hs) as Ra. pose proof (kern_exp_range s (@dist2 ROps p0 p2) Hs) as Rb.
  pose proof (kern_exp_range s (@dist2 ROps p1 p2) Hs) as Rc.
  (* b >= a c (via p1), a >= b c (via p2), c >= a b (via p0) *)
  pose proof (kern_exp_triangle s p0 p1 p2 Hs) as T1.
  pose proof (kern_exp_triangle s p0 p2 p1 Hs) as T2. rewrite (dist2_sym p2 p1) in T2.
  pose proof (kern_exp_triangle s p1 p0 p2 Hs) as T3. rewrite (dist2_sym p1 p0) in T3.
  generalize dependent (kern_exp s (@dist2 ROps p0 p1)). intros a Ra.
  generalize dependent (kern_exp s (@dist2 ROps p0 p2)). intros b Rb T2.
  generalize dependent (kern_exp s (@dist2 ROps p1 p2)). intros c Rc T1 T2 T3.
  assert (Hd : 0 <= 1 + 2 * a * b * c - a * a - b * b - c * c) by (apply det3_nonneg; assumption).
  assert (Hq : 0 <= x0 * x0 + x1 * x1 + x2 * x2 + 2 * a * (x0 * x1) + 2 * b * (x0 * x2) + 2 * c * (x1 * x2))
    by (apply psd3; [nra|nra|exact Hd]).
  assert (Hnz : 0 < x0 * x0 + x1 * x1 + x2 * x2).
  { pose proof (sq_nonneg x0). pose proof (sq_nonneg x1). assert (0 <= x2 * x2) by nra.
    destruct i as [|[|[|i]]]; cbn [nth] in Hi.
    - pose proof (sq_pos x0 Hi). lra.
    - pose proof (sq_pos x1 Hi). lra.
    - pose proof (sq_pos x2 Hi). lra.
    - exfalso. apply Hi. destruct i; reflexivity. }
  nra.
Qed.

(* ---------------- hence the scheme matrices coefficient * inverse(covariance) there, with NO hypothesis on the covariance ---------------- *)
Lemma T_kernel_spd_2 eps kern (p q : R * R) (K : Rmat) coef :
  0 < eps -> 0 <= kern 0 -> Rabs (kern (@dist2 ROps p q)) <= kern 0 ->
  square_n 2 K -> (forall x, length x = 2%nat -> @mat_vec ROps (@cov_matrix ROps eps kern [p; q]) (@mat_vec ROps K x) = x) -> 0 < coef ->
  symmetric_n 2 (@scale_matrix ROps coef K) /\ forall x, length x = 2%nat -> nonzero x -> 0 < @quad ROps (@scale_matrix ROps coef K) x.
Proof.
  intros He H0 Hk HK Hinv Hc. apply (T_kernel_partial eps kern [p; q] K coef); auto. apply T_cov_pd_2; assumption.
Qed.
Lemma T_kernel_spd_3_exp eps s (p0 p1 p2 : R * R) (K : Rmat) coef :
  0 < eps -> 0 < s -> square_n 3 K ->
  (forall x, length x = 3%nat -> @mat_vec ROps (@cov_matrix ROps eps (kern_exp s) [p0; p1; p2]) (@mat_vec ROps K x) = x) -> 0 < coef ->
  symmetric_n 3 (@scale_matrix ROps coef K) /\ forall x, length x = 3%nat -> nonzero x -> 0 < @quad ROps (@scale_matrix ROps coef K) x.
Proof.
  intros He Hs HK Hinv Hc. apply (T_kernel_partial eps (kern_exp s) [p0; p1; p2] K coef); auto. apply T_cov_pd_3_exp; assumption.
Qed.
Lemma T_kernel_spd_2_both eps s (p q : R * R) (K : Rmat) coef : 0 < eps -> 0 < s -> square_n 2 K -> 0 < coef ->
  ((forall x, length x = 2%nat -> @mat_vec ROps (@cov_matrix ROps eps (kern_gauss s) [p; q]) (@mat_vec ROps K x) = x) ->
     symmetric_n 2 (@scale_matrix ROps coef K) /\ forall x, length x = 2%nat -> nonzero x -> 0 < @quad ROps (@scale_matrix ROps coef K) x)
  /\ ((forall x, length x = 2%nat -> @mat_vec ROps (@cov_matrix ROps eps (kern_exp s) [p; q]) (@mat_vec ROps K x) = x) ->
     symmetric_n 2 (@scale_matrix ROps coef K) /\ forall x, length x = 2%nat -> nonzero x -> 0 < @quad ROps (@scale_matrix ROps coef K) x).
Proof.
  intros He Hs HK Hc. split; intros Hinv.
  - apply (T_kernel_partial eps (kern_gauss s) [p; q] K coef); auto. apply T_cov_pd_2_gauss; assumption.
  - apply (T_kernel_partial eps (kern_exp s) [p; q] K coef); auto. apply T_cov_pd_2_exp; assumption.
Qed.
